import ScrapliModel.Bytes
import ScrapliModel.Gen.TelnetConsts
import ScrapliModel.Telnet
