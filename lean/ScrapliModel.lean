import ScrapliModel.Bytes
import ScrapliModel.Telnet
