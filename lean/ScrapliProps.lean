import ScrapliProps.C15
import ScrapliProps.C15Lemmas
