import ScrapliProps.C15
