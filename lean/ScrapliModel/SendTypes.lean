/-
  Types shared by the generated constants (Gen/SendConsts.lean) and the model (Send.lean) of C13.
  Core Lean only.
-/
namespace Scrapli.Send

/-- a Python `str` (without lone surrogates) -/
abbrev Str := List Char

/-- how the inner `send_configs` call of a `_abort_config` chooses `privilege_level` -/
inductive LevelArg where
  /-- keyword not passed (`privilege_level=""`) -/
  | default
  /-- `privilege_level=self._current_priv_level.name` -/
  | current
  /-- the current level's name when it starts with the given prefix, else `""` -/
  | currentIfPrefix (p : Str)
deriving Repr, DecidableEq

/-- the statement shapes of the per-platform `_abort_config` methods -/
inductive AbortPlan where
  /-- empty method (base `NetworkDriver._abort_config`, IOS-XE) -/
  | nothing
  /-- `[if <marker> in self._current_priv_level.pattern:] self.channel.send_input(c) for c in cmds;
      self._current_priv_level = self.privilege_levels[belief]` (IOS-XR; guarded: EOS, NX-OS) -/
  | direct (guard : Option Str) (cmds : List Str) (belief : Str)
  /-- `self.send_configs(cmds[, privilege_level=…]); self._current_priv_level = self.privilege_levels[belief]` (Junos) -/
  | viaSendConfigs (cmds : List Str) (level : LevelArg) (belief : Str)
deriving Repr, DecidableEq

end Scrapli.Send
