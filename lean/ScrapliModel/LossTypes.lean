/-
  C08 — vocabulary of the connection-loss model (core Lean only).

  A *boundary outcome* is what the library / OS call right below scrapli's own transport code does.
  An *act* is what the scrapli transport method does in response.  The tables that relate them are
  GENERATED (Gen/LossMaps.lean) from the behaviour of the real transports under injection
  (tools/harness/libfakes.py), see design/C08.md.
-/
namespace Scrapli.Loss

/-- the transports of the property's quantifier (scrapli/transport/plugins/*, plus the simulated one) -/
inductive Transport | system | telnet | asynctelnet | paramiko | asyncssh | sim
  deriving DecidableEq, Repr, Inhabited

/-- transport methods at the library boundary; `open` is split into the stages that make separate
    library calls (socket connect / ssh handshake / authentication / session channel) -/
inductive Method | open | openHs | openAuth | openChan | read | write | isalive | close
  deriving DecidableEq, Repr, Inhabited

/-- boundary outcomes.  `data`: the call succeeds (for a read: a chunk that completes the channel's
    read loop); `more`: a read returns a chunk that does not complete the loop; `empty`: returns
    b"" / False; `eof`: raises EOFError; `epipe`/`eio`/`reset`/`refused`/`unreach`: raises that
    OSError; `timeout`: raises socket.timeout; `liberr`/`liberr2`: raises the library's own
    connection-lost error / another library error; `none`: the handle is None;
    `dataIac`/`dataIacVerb`/`moreIac`/`moreIacVerb`: like `data`/`more`, and the chunk ends after an
    IAC / after IAC + verb (Telnet transports only); `cmdEpipe`/`cmdReset`/`cmdTimeout` (sync Telnet
    transport): the chunk holds a complete negotiation command and the `send` of the reply the
    transport owes raises EPIPE / ECONNRESET / socket.timeout — the peer reset or closed the session
    while option replies were still owed (telnet/transport.py:_handle_control_chars_response). -/
inductive Outcome | data | more | empty | eof | epipe | eio | reset | refused | unreach | timeout
    | liberr | liberr2 | none | dataIac | dataIacVerb | moreIac | moreIacVerb
    | cmdEpipe | cmdReset | cmdTimeout
  deriving DecidableEq, Repr, Inhabited

/-- state of a Telnet transport's control buffer (`_control_buf`, telnet/transport.py:30,
    asynctelnet/transport.py:37; the byte machine is C15's model): empty, IAC, IAC + verb.  The
    `*Iac` / `*IacVerb` outcomes are chunks that end strictly inside a 3-byte command. -/
inductive Ctrl | c0 | cIac | cIacVerb
  deriving DecidableEq, Repr, Inhabited

/-- scrapli exception classes (scrapli/exceptions.py); `other` = any other ScrapliException -/
inductive Cls | connError | notOpened | authFailed | timeout | other
  deriving DecidableEq, Repr, Inhabited

/-- non-scrapli exception families the property names -/
inductive Raw | osError | eofError | attrError | other
  deriving DecidableEq, Repr, Inhabited

/-- what a scrapli transport method does.  `retEmptyBusy`: an asyncio read that returns b"" without
    ever giving control to the event loop (no timeout can fire while it is repeated). -/
inductive Act | retData | retEmpty | retEmptyBusy | retNone | retTrue | retFalse
    | raiseS (c : Cls) | raiseRaw (r : Raw) | na
  deriving DecidableEq, Repr, Inhabited

def Transport.all : List Transport := [.system, .telnet, .asynctelnet, .paramiko, .asyncssh, .sim]
def Method.all : List Method := [.open, .openHs, .openAuth, .openChan, .read, .write, .isalive, .close]
def Outcome.all : List Outcome :=
  [.data, .more, .empty, .eof, .epipe, .eio, .reset, .refused, .unreach, .timeout, .liberr, .liberr2, .none,
   .dataIac, .dataIacVerb, .moreIac, .moreIacVerb, .cmdEpipe, .cmdReset, .cmdTimeout]
def Ctrl.all : List Ctrl := [.c0, .cIac, .cIacVerb]

theorem Transport.mem_all (t : Transport) : t ∈ Transport.all := by cases t <;> simp [Transport.all]
theorem Method.mem_all (m : Method) : m ∈ Method.all := by cases m <;> simp [Method.all]
theorem Outcome.mem_all (o : Outcome) : o ∈ Outcome.all := by cases o <;> simp [Outcome.all]
theorem Ctrl.mem_all (c : Ctrl) : c ∈ Ctrl.all := by cases c <;> simp [Ctrl.all]

def Transport.toNat : Transport → Nat
  | .system => 0 | .telnet => 1 | .asynctelnet => 2 | .paramiko => 3 | .asyncssh => 4 | .sim => 5
def Method.toNat : Method → Nat
  | .open => 0 | .openHs => 1 | .openAuth => 2 | .openChan => 3 | .read => 4 | .write => 5
  | .isalive => 6 | .close => 7
def Outcome.toNat : Outcome → Nat
  | .data => 0 | .more => 1 | .empty => 2 | .eof => 3 | .epipe => 4 | .eio => 5 | .reset => 6
  | .refused => 7 | .unreach => 8 | .timeout => 9 | .liberr => 10 | .liberr2 => 11 | .none => 12
  | .dataIac => 13 | .dataIacVerb => 14 | .moreIac => 15 | .moreIacVerb => 16
  | .cmdEpipe => 17 | .cmdReset => 18 | .cmdTimeout => 19
def Ctrl.toNat : Ctrl → Nat
  | .c0 => 0 | .cIac => 1 | .cIacVerb => 2

/-- key of the (sparse) post-loss tables -/
def key3 (t : Transport) (m : Method) (o : Outcome) : Nat := (t.toNat * 8 + m.toNat) * 20 + o.toNat
def key5 (t : Transport) (lm : Method) (lo : Outcome) (m : Method) (o : Outcome) : Nat :=
  (key3 t lm lo * 8 + m.toNat) * 20 + o.toNat
/-- keys of the tables that also depend on the control buffer state -/
def keyC3 (c : Ctrl) (t : Transport) (m : Method) (o : Outcome) : Nat := c.toNat * 1000000 + key3 t m o
def keyC5 (c : Ctrl) (t : Transport) (lm : Method) (lo : Outcome) (m : Method) (o : Outcome) : Nat :=
  c.toNat * 1000000 + key5 t lm lo m o

/-- the act is one the property allows: a return, or one of the four named scrapli classes -/
def Act.ok : Act → Bool
  | .raiseRaw _ => false
  | .raiseS .other => false
  | .na => false
  | _ => true

end Scrapli.Loss
