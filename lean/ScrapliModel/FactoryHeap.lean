import ScrapliModel.FactoryTypes
import ScrapliModel.Gen.FactoryTables
/-
  Heap model for the isolation half of C18.

  Objects that can be shared between connections live in a heap of cells addressed by index:
  a `PrivilegeLevel` instance, a `privilege_levels` dict (name ↦ ADDRESS of a level), a list of str
  (`failed_when_contains`).  The module-level platform definitions (`PRIVS`, `FAILED_WHEN_CONTAINS` of
  scrapli/driver/core/*/base_driver.py, the `defaults` of a community `SCRAPLI_PLATFORM`) and every
  connection's own tables are ROOTS (pairs of addresses).  Whether two roots share cells is decided by
  what the constructors do (`CopyMode`, generated from the source of each `__init__`):

    platform driver `__init__`:  privilege_levels = deepcopy(PRIVS)            (e.g. cisco_iosxe/sync_driver.py:121-122)
                                 failed_when_contains = FAILED_WHEN_CONTAINS.copy()                       (129-130)
    NetworkDriver.__init__:      self.privilege_levels = privilege_levels      (network/sync_driver.py:88)
                                 self.failed_when_contains = failed_when_contains or []                   (84)
    community platform:          platform_details = deepcopy(platform_details_original)   (factory.py:177)

  Mutations: `register_configuration_session` (arista_eos / cisco_nxos base_driver.py
  `_create_configuration_session`: `self.privilege_levels[name] = PrivilegeLevel(...)`), in-place edits of
  a level object, in-place edits of the failed_when_contains list.
-/
namespace Scrapli.Factory.Heap
open Scrapli.Factory

inductive Obj
  | lvl (d : Level)
  | dict (es : List (String × Nat))
  | strs (l : List String)
deriving DecidableEq, Repr

abbrev Heap := List Obj

/-- a pair of roots: the `privilege_levels` dict and the `failed_when_contains` list of a platform
    definition or of a connection -/
structure Tables where
  privs : Nat
  fwc : Nat
deriving DecidableEq, Repr

/-- the same as plain values (what a deep structural snapshot sees) -/
structure TablesV where
  privs : List (String × Level)
  fwc : List String
deriving DecidableEq, Repr

structure Conn where
  cls : String
  t : Tables
deriving DecidableEq, Repr

structure ConnV where
  cls : String
  v : TablesV
deriving DecidableEq, Repr

/-- what a constructor needs to know about a driver class -/
structure ClassInfo where
  cls : String
  platform : String                 -- key of the platform definition it copies from
  privsCopy : CopyMode
  fwcCopy : CopyMode
  session : Option LevelTemplate    -- has `register_configuration_session`
deriving Repr

structure St where
  heap : Heap
  defs : List (String × Tables)     -- platform definitions
  conns : List (Nat × Conn)         -- connection variable ↦ object (first match = current binding)
deriving Repr

/-! ## reading -/

def cellLvl (h : Heap) (a : Nat) : Level := match h[a]? with | some (.lvl d) => d | _ => default
def cellDict (h : Heap) (a : Nat) : List (String × Nat) := match h[a]? with | some (.dict es) => es | _ => []
def cellStrs (h : Heap) (a : Nat) : List String := match h[a]? with | some (.strs l) => l | _ => []

/-- deep structural snapshot of a `privilege_levels` dict -/
def viewPrivs (h : Heap) (a : Nat) : List (String × Level) :=
  (cellDict h a).map (fun e => (e.1, cellLvl h e.2))

/-- deep structural snapshot of a pair of roots -/
def viewT (h : Heap) (t : Tables) : TablesV := ⟨viewPrivs h t.privs, cellStrs h t.fwc⟩

/-- the cells a `privilege_levels` root can reach: the dict and its level objects -/
def regionP (h : Heap) (a : Nat) : List Nat := a :: (cellDict h a).map (·.2)

/-- the cells a pair of roots can reach -/
def region (h : Heap) (t : Tables) : List Nat := t.fwc :: regionP h t.privs

/-! ## allocation and copying -/

def entriesFrom (base : Nat) : List (String × Level) → List (String × Nat)
  | [] => []
  | e :: r => (e.1, base) :: entriesFrom (base + 1) r

/-- allocate fresh level objects for `vals`, then the dict pointing at them -/
def allocPrivs (h : Heap) (vals : List (String × Level)) : Heap × Nat :=
  (h ++ vals.map (fun e => Obj.lvl e.2) ++ [Obj.dict (entriesFrom h.length vals)], h.length + vals.length)

def allocStrs (h : Heap) (l : List String) : Heap × Nat := (h ++ [Obj.strs l], h.length)

/-- allocate a fresh copy of the value `v` -/
def allocTables (h : Heap) (v : TablesV) : Heap × Tables :=
  let (h1, p) := allocPrivs h v.privs
  let (h2, f) := allocStrs h1 v.fwc
  (h2, ⟨p, f⟩)

/-- the `privilege_levels` root a constructor ends up with.  `deepcopy` of a tree-shaped structure is
    "read the value, allocate it afresh". -/
def copyPrivs (m : CopyMode) (h : Heap) (src : Nat) : Heap × Nat :=
  match m with
  | .alias => (h, src)
  | .shallow => (h ++ [Obj.dict (cellDict h src)], h.length)
  | .deep => allocPrivs h (viewPrivs h src)

/-- the `failed_when_contains` root a constructor ends up with (a list of immutable str: a shallow copy
    is a full copy) -/
def copyFwc (m : CopyMode) (h : Heap) (src : Nat) : Heap × Nat :=
  match m with
  | .alias => (h, src)
  | _ => allocStrs h (cellStrs h src)

/-! ## `re.escape` and the level built by `_create_configuration_session` -/

def reSpecial : List Char :=
  ['(', ')', '[', ']', '{', '}', '?', '*', '+', '-', '|', '^', '$', '\\', '.', '&', '~', '#', ' ',
   '\t', '\n', '\r', Char.ofNat 11, Char.ofNat 12]

/-- CPython `re.escape` for str (Lib/re: `_special_chars_map`) -/
def reEscape (s : String) : String :=
  String.ofList (s.toList.flatMap (fun c => if reSpecial.contains c then ['\\', c] else [c]))

def renderPart (name : String) : Part → String
  | .lit s => s
  | .name => name
  | .esc n => reEscape (String.ofList (name.toList.take n))

def renderParts (name : String) (ps : List Part) : String :=
  ps.foldl (fun acc p => acc ++ renderPart name p) ""

def instantiate (t : LevelTemplate) (name : String) : Level :=
  { pattern := renderParts name t.pattern, name := renderParts name t.name,
    previousPriv := renderParts name t.previousPriv, deescalate := renderParts name t.deescalate,
    escalate := renderParts name t.escalate, escalateAuth := t.escalateAuth,
    escalatePrompt := renderParts name t.escalatePrompt, notContains := t.notContains }

/-! ## operations -/

inductive Op
  | construct (i : Nat) (cls : String)                    -- conn_i = cls(host=…)  (or the factory with that result class)
  | registerSession (i : Nat) (name : String)             -- conn_i.register_configuration_session(name)
  | editLevel (i : Nat) (lvl : String) (d : Level)        -- in-place edit of the fields of conn_i.privilege_levels[lvl]
  | editFailedWhen (i : Nat) (l : List String)            -- in-place edit of conn_i.failed_when_contains
  | delLevel (i : Nat) (lvl : String)                     -- del conn_i.privilege_levels[lvl]  /  .pop(lvl, None)
  | addLevel (i : Nat) (lvl : String) (d : Level)         -- conn_i.privilege_levels[lvl] = PrivilegeLevel(…)  (a NEW object)
deriving DecidableEq, Repr

def Op.conn : Op → Nat
  | .construct i _ | .registerSession i _ | .editLevel i _ _ | .editFailedWhen i _ | .delLevel i _ | .addLevel i _ _ => i

/-- `d[k] = <object at a>` on the entries of a dict cell: an existing key keeps its position and is pointed
    at the new object, a new key is appended -/
def repoint (k : String) (a : Nat) : List (String × Nat) → List (String × Nat)
  | [] => [(k, a)]
  | e :: r => if k == e.1 then (e.1, a) :: r else e :: repoint k a r

def findClass (classes : List ClassInfo) (cls : String) : Option ClassInfo := classes.find? (·.cls == cls)

def step (classes : List ClassInfo) (s : St) : Op → St
  | .construct i cls =>
    match findClass classes cls with
    | none => s
    | some ci =>
      match s.defs.lookup ci.platform with
      | none => s
      | some d =>
        let r1 := copyPrivs ci.privsCopy s.heap d.privs
        let r2 := copyFwc ci.fwcCopy r1.1 d.fwc
        { s with heap := r2.1, conns := (i, ⟨cls, ⟨r1.2, r2.2⟩⟩) :: s.conns }
  | .registerSession i name =>
    match s.conns.lookup i with
    | none => s
    | some c =>
      match (findClass classes c.cls).bind (·.session) with
      | none => s                                              -- AttributeError: no such method
      | some tpl =>
        let es := cellDict s.heap c.t.privs
        if es.any (fun e => name == e.1) then s                         -- ScrapliValueError: name already registered
        else
          let a := s.heap.length
          { s with heap := (s.heap ++ [Obj.lvl (instantiate tpl name)]).set c.t.privs (Obj.dict (es ++ [(name, a)])) }
  | .editLevel i lvl d =>
    match s.conns.lookup i with
    | none => s
    | some c =>
      match (cellDict s.heap c.t.privs).lookup lvl with
      | none => s                                              -- KeyError
      | some a => { s with heap := s.heap.set a (Obj.lvl d) }
  | .editFailedWhen i l =>
    match s.conns.lookup i with
    | none => s
    | some c => { s with heap := s.heap.set c.t.fwc (Obj.strs l) }
  | .delLevel i lvl =>
    match s.conns.lookup i with
    | none => s
    | some c =>
      { s with heap := s.heap.set c.t.privs (Obj.dict ((cellDict s.heap c.t.privs).filter (fun e => !(lvl == e.1)))) }
  | .addLevel i lvl d =>
    match s.conns.lookup i with
    | none => s
    | some c =>
      let a := s.heap.length
      { s with heap := (s.heap ++ [Obj.lvl d]).set c.t.privs (Obj.dict (repoint lvl a (cellDict s.heap c.t.privs))) }

def run (classes : List ClassInfo) (s : St) (ops : List Op) : St := ops.foldl (step classes) s

/-! ## the same operations on plain values (no sharing is expressible here) -/

structure StV where
  defs : List (String × TablesV)
  conns : List (Nat × ConnV)
deriving DecidableEq, Repr

/-- replace the value bound to the first occurrence of key `i` -/
def updFirst (i : Nat) (f : ConnV → ConnV) : List (Nat × ConnV) → List (Nat × ConnV)
  | [] => []
  | e :: r => if i == e.1 then (e.1, f e.2) :: r else e :: updFirst i f r

/-- replace the level bound to the first occurrence of `lvl` -/
def setLevel (lvl : String) (d : Level) : List (String × Level) → List (String × Level)
  | [] => []
  | e :: r => if lvl == e.1 then (e.1, d) :: r else e :: setLevel lvl d r

/-- `d[k] = v` on values -/
def putLevel (k : String) (d : Level) : List (String × Level) → List (String × Level)
  | [] => [(k, d)]
  | e :: r => if k == e.1 then (e.1, d) :: r else e :: putLevel k d r

def stepV (classes : List ClassInfo) (s : StV) : Op → StV
  | .construct i cls =>
    match findClass classes cls with
    | none => s
    | some ci =>
      match s.defs.lookup ci.platform with
      | none => s
      | some d => { s with conns := (i, ⟨cls, d⟩) :: s.conns }
  | .registerSession i name =>
    { s with conns := updFirst i (fun c =>
        match (findClass classes c.cls).bind (·.session) with
        | none => c
        | some tpl =>
          if c.v.privs.any (fun e => name == e.1) then c
          else { c with v := { c.v with privs := c.v.privs ++ [(name, instantiate tpl name)] } }) s.conns }
  | .editLevel i lvl d =>
    { s with conns := updFirst i (fun c => { c with v := { c.v with privs := setLevel lvl d c.v.privs } }) s.conns }
  | .editFailedWhen i l =>
    { s with conns := updFirst i (fun c => { c with v := { c.v with fwc := l } }) s.conns }
  | .delLevel i lvl =>
    { s with conns := updFirst i (fun c => { c with v := { c.v with privs := c.v.privs.filter (fun e => !(lvl == e.1)) } }) s.conns }
  | .addLevel i lvl d =>
    { s with conns := updFirst i (fun c => { c with v := { c.v with privs := putLevel lvl d c.v.privs } }) s.conns }

def runV (classes : List ClassInfo) (s : StV) (ops : List Op) : StV := ops.foldl (stepV classes) s

/-- deep structural snapshot of everything -/
def view (s : St) : StV :=
  ⟨s.defs.map (fun e => (e.1, viewT s.heap e.2)), s.conns.map (fun e => (e.1, ⟨e.2.cls, viewT s.heap e.2.t⟩))⟩

/-! ## initial state: the module-level definitions, nothing constructed yet -/

def addDef (s : St) (e : String × TablesV) : St :=
  let (h, t) := allocTables s.heap e.2
  { s with heap := h, defs := s.defs ++ [(e.1, t)] }

def mkInit (defs : List (String × TablesV)) : St := defs.foldl addDef ⟨[], [], []⟩

/-- the class table of the ten platform drivers, from the generated constructor facts -/
def coreClasses : List ClassInfo :=
  Scrapli.Gen.Factory.ctors.map (fun c => ⟨c.cls, c.platform, c.privsCopy, c.fwcCopy, c.session⟩)

/-- class-table entry for a community platform built through the factory: `NetworkDriver` keeps the
    objects it is handed (generated stores table, decided in `network_stores_by_reference`), which are the
    factory's copy of `SCRAPLI_PLATFORM` -/
def communityClass (name : String) : ClassInfo :=
  ⟨name, name, Scrapli.Gen.Factory.communityCopy, Scrapli.Gen.Factory.communityCopy, none⟩

/-- the five core platform definitions, from the generated tables -/
def coreDefs : List (String × TablesV) :=
  Scrapli.Gen.Factory.corePrivs.map (fun e => (e.1, ⟨e.2, (Scrapli.Gen.Factory.coreFwc.lookup e.1).getD []⟩))

/-! ## `_current_priv_level` (network/base_driver.py:75, 94, 362, 416)

  `BaseNetworkDriver._current_priv_level = DUMMY_PRIV_LEVEL` is a CLASS attribute bound to one module-level
  `PrivilegeLevel` object; `_process_acquire_priv` (362) and the `_generic_driver_mode` setter (416) re-bind the
  instance attribute to that same object.  So until a privilege level has been acquired every connection's
  `_current_priv_level` IS the module's dummy object.  The table model above does not contain this attribute;
  this extension adds it (aliasing, as the code does) so that the full isolation statement can be refuted
  (`isolation_full_refuted`).  scrapli's own code only reads `.name` / `.pattern` of it; an in-place edit is
  possible through the private attribute only. -/

/-- `DUMMY_PRIV_LEVEL = PrivilegeLevel("", "DUMMY", "", "", "", False, "")` -/
def dummyLevel : Level := ⟨"", "DUMMY", "", "", "", false, "", []⟩

structure StX where
  base : St
  dummy : Nat                  -- address of the module-level DUMMY_PRIV_LEVEL
  cur : List (Nat × Nat)       -- connection ↦ address its `_current_priv_level` refers to

inductive OpX
  | tbl (op : Op)                          -- one of the table operations
  | editCurrent (i : Nat) (d : Level)      -- in-place edit of the fields of conn_i._current_priv_level
deriving DecidableEq, Repr

def OpX.conn : OpX → Nat
  | .tbl op => op.conn
  | .editCurrent i _ => i

def stepX (classes : List ClassInfo) (s : StX) : OpX → StX
  | .tbl op =>
    let b := step classes s.base op
    match op with
    | .construct i _ =>
      -- a constructed connection starts with the class attribute: the shared dummy
      if b.conns.length = s.base.conns.length then { s with base := b } else { s with base := b, cur := (i, s.dummy) :: s.cur }
    | _ => { s with base := b }
  | .editCurrent i d =>
    match s.cur.lookup i with
    | none => s
    | some a => { s with base := { s.base with heap := s.base.heap.set a (Obj.lvl d) } }

def runX (classes : List ClassInfo) (s : StX) (ops : List OpX) : StX := ops.foldl (stepX classes) s

def mkInitX (defs : List (String × TablesV)) : StX :=
  let s := mkInit defs
  { base := { s with heap := s.heap ++ [Obj.lvl dummyLevel] }, dummy := s.heap.length, cur := [] }

/-- what connection `j` sees in its `_current_priv_level` -/
def viewCur (s : StX) (j : Nat) : Option Level := (s.cur.lookup j).map (cellLvl s.base.heap)

/-- the module-level dummy object -/
def viewDummy (s : StX) : Level := cellLvl s.base.heap s.dummy

end Scrapli.Factory.Heap
