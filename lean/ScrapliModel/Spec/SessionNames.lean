/-
  C05 specification, part 2: the decidable hypothesis on a SET of EOS session names under which the
  session modes of `Spec/PromptGrammar.lean` (one mode per distinct first-six-characters prefix, classified as
  exactly the sessions with that prefix) can hold at all.  EOS prints only the first six characters of the name
  and scrapli matches case-insensitively, so two sessions whose truncated names are equal up to case, or where
  one truncated case-folded name is a prefix of the other, are not told apart by any prompt pattern of the
  present shape (findings F27 / F28; refuted for the name set `eosPSessions` in ScrapliProps/C05Full.lean).
-/
namespace Scrapli.Spec.SessionNames

def first6 (n : String) : List Char := n.toList.take 6
def fold6 (n : String) : List Char := (first6 n).map Char.toLower

/-- for any two names: equal truncated names (a deliberate share group), or neither case-folded truncated name is a
    prefix of the other -/
def unrelated (names : List String) : Bool :=
  names.all fun a => names.all fun b => (first6 a == first6 b) || !((fold6 a).isPrefixOf (fold6 b))

end Scrapli.Spec.SessionNames
