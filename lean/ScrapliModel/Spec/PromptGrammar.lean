import ScrapliModel.PromptClass
/-
  C05 SPECIFICATION (hand-written, trusted): the formal reading of "the prompts a device can
  display in a given mode".  One regular expression per platform and mode.  Quoted in
  design/C05.md.  Nothing here is derived from scrapli's patterns.

  Building blocks
    host   = [A-Za-z0-9]([A-Za-z0-9_.-]{0,61}[A-Za-z0-9])?          (RFC 1123 label + `_`, 1..63 bytes)
    hostN n = the same with at most n bytes
    user   = [a-z_][a-z0-9_-]{0,30}                                  (login name, EOS / Junos `user@host`)
    sub    = [a-z0-9][a-z0-9-]{0,24}                                 (configuration sub-mode: `config-<sub>`)
    loc    = RP/0/(RP|RSP)[0-9]/CPU[0-9]:                            (IOS-XR location prefix, 14..15 bytes)
    blank? = optional single trailing blank, only on the platforms whose vendor prints one
             (IOS-XR, NX-OS, EOS, Junos; not IOS-XE)
  Length limit ("length 1..limit" of the property): the text before the mode decoration is at most 63
  bytes (the bound every scrapli pattern uses).  Where the vendor prints something in front of the
  hostname (IOS-XR location, EOS / Junos `user@`) the bound applies to the whole head
  (`head63 x = x ∩ Σ{1,63}`, with user and host of any length inside it).
  BOUNDS ACTUALLY CHECKED (kernel time / memory of the certificate check grows with
  hostname length × pattern ambiguity): IOS-XE, IOS-XR, EOS exec / privilege_exec: the full 63;
  NX-OS (all modes), EOS configuration and session modes: hostname ≤ 32; Junos: `user@host` ≤ 32.
  The NX-OS session pattern bounds the hostname by 32: NX-OS session prompts use host ≤ 32.
  Reserved sub-mode names are removed from `sub` where the vendor uses them for another mode:
    IOS-XE:  names ending in `tcl`         (the `(…tcl)` decoration is tclsh)
    NX-OS:   names starting with `tcl`; `s` and `s-…`   (`(config-tcl)` is tclsh; `(config-s)`,
                                            `(config-s-…)` are configuration sessions); names that
                                            themselves contain `config-` (no such sub-mode exists)
    EOS:     `s-…`                         (`(config-s-<name>)` is a configuration session)
  Inherent ambiguity removed: an NX-OS hostname ending in `-tcl` (any case) at privilege_exec prints
  exactly what tclsh prints for the host without the suffix.
  Restrictions that are PREDICATES OF OPEN FINDINGS (the `…Full` lists are the same modes without them,
  their failing obligations carry machine-checked witnesses):
    F12 Junos  configuration / shell prompts do not contain `root`
    F24 NX-OS  privilege_exec hostname does not contain `-tcl`, configuration hostname does not contain `config-`
    F25 NX-OS  with a registered session: configuration sub-mode name does not start with `s`
    F26 EOS    session prompt head does not contain `_`
-/
namespace Scrapli.Spec.PromptGrammar
open Scrapli.Regex RE Scrapli.PromptClass

def bmDigit : Nat := bmRange 48 57
def bmLower : Nat := bmRange 97 122
def bmUpper : Nat := bmRange 65 90
def bmAlnum : Nat := bmDigit ||| bmUpper ||| bmLower

def digit : RE := cls bmDigit
def alnum : RE := cls bmAlnum
/-- `[A-Za-z0-9]([A-Za-z0-9_.-]{0,61}[A-Za-z0-9])?` -/
def host : RE := cat alnum (opt (cat (rep (cls (bmAlnum ||| bmOfList [95, 46, 45])) 0 61) alnum))
/-- `[a-z_][a-z0-9_-]{0,30}` -/
def user : RE :=
  cat (cls (bmLower ||| bmOfList [95])) (rep (cls (bmLower ||| bmDigit ||| bmOfList [95, 45])) 0 30)
/-- `[a-z0-9][a-z0-9-]{0,24}` -/
def sub : RE := cat (cls (bmLower ||| bmDigit)) (rep (cls (bmLower ||| bmDigit ||| bmOfList [45])) 0 24)

/-- hostname of at most `n ≥ 2` bytes -/
def hostN (n : Nat) : RE := cat alnum (opt (cat (rep (cls (bmAlnum ||| bmOfList [95, 46, 45])) 0 (n - 2)) alnum))

/-- hostname / login name of any length (used under `head63`, which bounds the whole head) -/
def hostAny : RE := cat alnum (opt (cat (star (cls (bmAlnum ||| bmOfList [95, 46, 45]))) alnum))
def userAny : RE := cat (cls (bmLower ||| bmOfList [95])) (star (cls (bmLower ||| bmDigit ||| bmOfList [95, 45])))
/-- at most 63 bytes -/
def head63 (x : RE) : RE := .and x (rep any 1 63)

def s (x : String) : RE := RE.str x
def blankOpt : RE := opt (byte 32)
def minus (a b : RE) : RE := .and a (.not b)
def endsWith (x : String) : RE := cat all (s x)
def startsWith (x : String) : RE := cat (s x) all
def containsS (x : String) : RE := RE.contains x.toUTF8.toList
def noRoot : RE := .not (containsS "root")

/-- `(config)` or `(config-<sub>)` followed by `#` -/
def configDeco (sb : RE) : RE := cats [s "(config", opt (cat (s "-") sb), s ")#"]

/-! ### Cisco IOS-XE — `host>`, `host#`, `host(config…)#`, tclsh `host(tcl)#`, `host(tcl)>`, `+>` -/
def iosxeSub : RE := minus sub (endsWith "tcl")
def iosxe : List Mode := [
  ⟨"exec", ["exec"], cat host (s ">")⟩,
  ⟨"privilege_exec", ["privilege_exec"], cat host (s "#")⟩,
  ⟨"configuration", ["configuration"], cat host (configDeco iosxeSub)⟩,
  ⟨"tclsh", ["tclsh"], alt (cats [host, s "(tcl)", oneOf "#>"]) (s "+>")⟩]

/-! ### Cisco IOS-XR — `RP/0/RP0/CPU0:host#`, `RP/0/RP0/CPU0:host(config…)#`; configuration and
    configuration_exclusive show the same prompt (share group) -/
def iosxrLoc : RE := cats [s "RP/0/", alt (s "RP") (s "RSP"), digit, s "/CPU", digit, s ":"]
def iosxrHead : RE := head63 (cat iosxrLoc hostAny)
def iosxr : List Mode := [
  ⟨"privilege_exec", ["privilege_exec"], cats [iosxrHead, s "#", blankOpt]⟩,
  ⟨"configuration", ["configuration", "configuration_exclusive"], cats [iosxrHead, configDeco sub, blankOpt]⟩]

/-! ### Cisco NX-OS — optional `(maint-mode)`; tclsh in its five forms; configuration sessions -/
def maintOpt : RE := opt (s "(maint-mode)")
def nxosSub : RE := minus sub (alts [startsWith "tcl", s "s", startsWith "s-", containsS "config-"])
def endsTclCI : RE := cat all (cats [s "-", oneOf "tT", oneOf "cC", oneOf "lL"])
/-- NX-OS hostnames are checked up to 32 bytes (see the note on bounds at the top) -/
def nxHost : RE := hostN 32
def nxosPrivHostFull : RE := minus nxHost endsTclCI
def nxosPrivHost : RE := minus nxHost (alt endsTclCI (containsS "-tcl"))
def nxosExec : Mode := ⟨"exec", ["exec"], cats [nxHost, maintOpt, s ">", blankOpt]⟩
def nxosPriv (h : RE) : Mode := ⟨"privilege_exec", ["privilege_exec"], cats [h, maintOpt, s "#", blankOpt]⟩
def nxosConfig (h sb : RE) : Mode := ⟨"configuration", ["configuration"], cats [h, maintOpt, configDeco sb, blankOpt]⟩
def nxosCfgHost : RE := minus nxHost (containsS "config-")
def nxosTclsh : Mode := ⟨"tclsh", ["tclsh"], cat (alts [cat nxHost (s "-tcl#"), cat nxHost (s "(config-tcl)#"), s ">",
      cat nxHost (s "(maint-mode-tcl)#"), cat nxHost (s "(maint-mode)(config-tcl)#")]) blankOpt⟩
def nxos : List Mode := [nxosExec, nxosPriv nxosPrivHost, nxosConfig nxosCfgHost nxosSub, nxosTclsh]
def nxosFull : List Mode := [nxosPriv nxosPrivHostFull, nxosConfig nxHost nxosSub]
/-- after `register_configuration_session`: every registered session shows `host(config-s…)#`
    (the NX-OS pattern does not depend on the name: all sessions form one share group) -/
def nxosSessionMode (names : List String) : Mode :=
  ⟨"session", names, cats [hostN 32, s "(config-s", opt (cat (s "-") sub), s ")#", blankOpt]⟩
def nxosS (names : List String) : List Mode :=
  [nxosExec, nxosPriv nxosPrivHost, nxosConfig nxosCfgHost (minus sub (alts [startsWith "tcl", startsWith "s", containsS "config-"])), nxosTclsh,
   nxosSessionMode names]
def nxosSFull : List Mode := [nxosConfig nxosCfgHost nxosSub]

/-! ### Arista EOS — `host>` (EOS prints no `user@`); sessions `host(config-s-<first 6 chars of name>[-<sub>])#` -/
def eosHead : RE := host
/-- in the configuration-like modes EOS hostnames are checked up to 32 bytes (see the note on bounds) -/
def eosCfgHead : RE := hostN 32
def eosSub : RE := minus sub (startsWith "s-")
def eos : List Mode := [
  ⟨"exec", ["exec"], cats [eosHead, s ">", blankOpt]⟩,
  ⟨"privilege_exec", ["privilege_exec"], cats [eosHead, s "#", blankOpt]⟩,
  ⟨"configuration", ["configuration"], cats [eosCfgHead, configDeco eosSub, blankOpt]⟩]
def first6 (n : String) : String := String.ofList (n.toList.take 6)
/-- one mode per distinct 6-character prefix; sessions sharing the prefix are a share group
    (EOS prints only the first six characters, the truncation in scrapli is deliberate) -/
def eosSessionModes (head : RE) (names : List String) : List Mode :=
  (names.map first6).eraseDups.map (fun p =>
    ⟨"session:" ++ p, names.filter (fun n => first6 n == p),
     cats [head, s "(config-s-", s p, opt (cat (s "-") sub), s ")#", blankOpt]⟩)
def eosS (names : List String) : List Mode := eos ++ eosSessionModes (minus eosCfgHead (containsS "_")) names
def eosSFull (names : List String) : List Mode := eosSessionModes eosCfgHead names

/-! ### Juniper Junos — `user@host>`, `user@host#` with the optional banner line the patterns admit
    (`{master:0}`, `{primary:node0}`, `{master}`; in configuration mode followed by `[edit]`),
    shell `%` / `$`, root shell `root@host:~ #`, `root@host%`, `root@%`, `root@host:RE:0%`.
    The three configuration levels show the same prompt (share group). -/
/-- the Junos `user@host` head is checked up to 32 bytes (see the note on bounds) -/
def junosHead : RE := .and (cats [userAny, s "@", hostAny]) (rep any 1 32)
def banner : RE := cats [s "{", plus (cls bmLower),
  opt (cats [s ":", star (cls bmLower), digit]), s "}"]
def pathSeg : RE := plus (cls (bmAlnum ||| bmOfList [95, 46, 45]))
def path : RE := alt (s "~") (cat (opt (s "~")) (plus (cat (s "/") pathSeg)))
def junosExecG : RE := cats [opt (cat banner (s "\n")), junosHead, s ">", blankOpt]
def junosConfigG : RE :=
  cats [opt (alt (cats [banner, s "[edit]\n"]) (s "[edit]\n")), junosHead, s "#", blankOpt]
def junosShellG : RE :=
  cats [opt (cat junosHead (opt (cats [s ":", path, s " "]))), oneOf "%$", blankOpt]
def junosRootG : RE := cat (s "root@") (alts [
  cats [opt host, s "%", blankOpt],
  cats [host, s ":RE:", digit, s "%", blankOpt],
  cats [host, s ":", path, s " #", blankOpt]])
def junosConfigs : List String := ["configuration", "configuration_exclusive", "configuration_private"]
/-- restricted by the predicate of finding F12: outside root_shell the prompt does not contain `root` -/
def junos : List Mode := [
  ⟨"exec", ["exec"], junosExecG⟩,
  ⟨"configuration", junosConfigs, .and junosConfigG noRoot⟩,
  ⟨"shell", ["shell"], .and junosShellG noRoot⟩,
  ⟨"root_shell", ["root_shell"], junosRootG⟩]
/-- the two restricted modes as the property states them (no restriction on the letters `root`) -/
def junosFull : List Mode := [
  ⟨"configuration", junosConfigs, junosConfigG⟩,
  ⟨"shell", ["shell"], junosShellG⟩]

end Scrapli.Spec.PromptGrammar
