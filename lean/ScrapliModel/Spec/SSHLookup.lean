import ScrapliModel.SSHConfig
/-
  SPECIFICATION of C16, written by hand, independent of the model's matcher:
  what "a Host pattern matches a host name" means (whole-name glob with `*` and `?`, ASCII
  case-insensitive), how specific a match is (characters taken by wildcards), and what a lookup has to
  return (entry naming the host exactly, else the most specific matching entry, unset options from the
  less specific MATCHING entries, finally from `Host *`).
  The wildcard characters are written out here (`'*'`, `'?'`), not taken from the generated constants.
-/
namespace Scrapli.SSHConfig.Spec
open Scrapli.SSHConfig

def lowerAscii (c : Char) : Char :=
  if 65 ≤ c.toNat ∧ c.toNat ≤ 90 then Char.ofNat (c.toNat + 32) else c

/-- host names compare case-insensitively -/
def sameChar (a b : Char) : Bool := lowerAscii a == lowerAscii b

def suffixes : Str → List Str
  | [] => [[]]
  | x :: xs => (x :: xs) :: suffixes xs

/-- whole-name glob match, executable -/
def globMatch : Str → Str → Bool
  | [], s => s.isEmpty
  | c :: p, s =>
    if c == '*' then (suffixes s).any (globMatch p)
    else
      match s with
      | [] => false
      | x :: xs => (c == '?' || sameChar c x) && globMatch p xs

/-- the same, as a relation: `*` stands for any string, `?` for any one character -/
inductive Matches : Str → Str → Prop
  | nil : Matches [] []
  | star (p u t : Str) : Matches p t → Matches ('*' :: p) (u ++ t)
  | one (p : Str) (x : Char) (xs : Str) : Matches p xs → Matches ('?' :: p) (x :: xs)
  | lit (c : Char) (p : Str) (x : Char) (xs : Str) : c ≠ '*' → c ≠ '?' → sameChar c x = true →
      Matches p xs → Matches (c :: p) (x :: xs)

def isWild (c : Char) : Bool := c == '*' || c == '?'

/-- characters of `name` taken by wildcards when `p` matches `name` entirely -/
def captured (p name : Str) : Nat := name.length - (p.filter (fun c => !isWild c)).length

/-- best (smallest) score of a Host line for a name; `none` = no pattern of the line matches -/
def lineScore (key name : Str) : Option Nat :=
  ((splitWs key).filter (globMatch · name)).foldl
    (fun acc p => match acc with
      | none => some (captured p name)
      | some a => some (min a (captured p name))) none

def star : Str := ['*']

/-- the entry a lookup has to be based on: the entry whose Host line is the name, else the first entry
    listing it, else the (first) entry with the fewest wildcard-captured characters, else `Host *` -/
def primary (d : Dict Entry) (name : Str) : Str :=
  if d.keys.contains name then name
  else match d.find? (fun ke => (splitWs ke.1).contains name) with
    | some ke => ke.1
    | none =>
      let scored := d.keys.filterMap fun k => (lineScore k name).map (·, k)
      match firstMin scored with
      | some m => m.2
      | none => star

/-- insertion sort of the donors by score, stable -/
def insertBy (x : Nat × Str) : List (Nat × Str) → List (Nat × Str)
  | [] => [x]
  | y :: r => if x.1 ≤ y.1 then x :: y :: r else y :: insertBy x r

def sortDonors (l : List (Nat × Str)) : List (Nat × Str) := l.foldr insertBy []

def fill (own other : List Val) : List Val := mergeAttrs own other

/-- the specified result: own options of the primary entry; unset ones from the other entries that
    match the whole name, most specific first; then from `Host *`.  `d` = the file as a mapping
    Host line -> own options (later duplicates replace earlier ones), `Host *` implicit. -/
def lookup (d : Dict Entry) (name : Str) : Option Entry := do
  let k := primary d name
  let e ← d.get? k
  let donors := sortDonors (d.keys.filterMap fun k' =>
    if k' == k || k' == star then none else (lineScore k' name).map (·, k'))
  let attrs := (donors ++ [(0, star)]).foldl
    (fun (acc : List Val) (kd : Nat × Str) => match d.get? kd.2 with
      | some o => fill acc o.attrs
      | none => acc) e.attrs
  pure { e with attrs := attrs }

/-! ### vocabulary of the property statements -/

/-- the entry with Host line `key` names the host: it is `Host *`, its Host line is the name, or one of
    its patterns matches the WHOLE name -/
def Names (key name : Str) : Prop := key = star ∨ key = name ∨ ∃ p ∈ splitWs key, Matches p name

/-- value `v` of attribute number `i` (position in HOST_ATTRS) is set by an entry of the file that
    names the host -/
def FromNaming (parsed : List Entry) (name : Str) (i : Nat) (v : Val) : Prop :=
  ∃ e ∈ parsed, e.attrs[i]? = some v ∧ Names e.hosts name

/-- wherever the name CONTAINS an instance of `p`, `p` also matches the whole name -/
def OnlyWhole (p name : Str) : Prop :=
  ∀ pre mid suf : Str, name = pre ++ mid ++ suf → Matches p mid → Matches p name

/-- the looked-up name contains no instance of a Host pattern that does not match it entirely -/
def Anchored (keys : List Str) (name : Str) : Prop := ∀ k ∈ keys, ∀ p ∈ splitWs k, OnlyWhole p name

/-- no pattern of a non-`*` Host line has an instance inside the TEXT of another Host line -/
def NoCross (keys : List Str) : Prop :=
  ∀ k1 ∈ keys, ∀ k2 ∈ keys, k2 ≠ k1 → k2 ≠ star → ∀ p ∈ splitWs k2,
    ∀ pre mid suf : Str, k1 = pre ++ mid ++ suf → ¬ Matches p mid

/-- WEAKER than `NoCross` (review item 4): a pattern of a non-`*` Host line `k2` may have an instance inside the text
    of another Host line, provided `k2` also names the looked-up host (then what is inherited from it comes from a naming
    entry anyway).  Allows `Host web1*` next to `Host web*` for the name `web17`. -/
def CrossNaming (keys : List Str) (name : Str) : Prop :=
  ∀ k1 ∈ keys, ∀ k2 ∈ keys, k2 ≠ k1 → k2 ≠ star → ∀ p ∈ splitWs k2,
    ∀ pre mid suf : Str, k1 = pre ++ mid ++ suf → Matches p mid → Names k2 name

/-- `e` carries everything `e0` sets itself -/
def Keeps (e0 e : Entry) : Prop :=
  e.hosts = e0.hosts ∧ e.hostname = e0.hostname ∧
  ∀ (i : Nat) (v : Val), e0.attrs[i]? = some v → v.truthy = true → e.attrs[i]? = some v

/-! ### executable forms of `Anchored` / `NoCross` (proved equivalent in C16Lemmas.lean) -/

def prefixes : Str → List Str
  | [] => [[]]
  | x :: xs => [] :: (prefixes xs).map (x :: ·)

def infixes (s : Str) : List Str := (suffixes s).flatMap prefixes

def onlyWholeB (p name : Str) : Bool :=
  (infixes name).all fun mid => !globMatch p mid || globMatch p name

def anchoredB (keys : List Str) (name : Str) : Bool :=
  keys.all fun k => (splitWs k).all (onlyWholeB · name)

def noCrossB (keys : List Str) : Bool :=
  keys.all fun k1 => keys.all fun k2 =>
    k2 == k1 || k2 == star || (splitWs k2).all fun p => (infixes k1).all fun mid => !globMatch p mid

def namesB (key name : Str) : Bool := key == star || key == name || (splitWs key).any (globMatch · name)

def crossNamingB (keys : List Str) (name : Str) : Bool :=
  keys.all fun k1 => keys.all fun k2 =>
    k2 == k1 || k2 == star || namesB k2 name ||
      (splitWs k2).all fun p => (infixes k1).all fun mid => !globMatch p mid

/-! ### known_hosts -/

/-- `h` is a hashed host id `|1|salt|hash` and `name` hashes to it (`hm` = the HMAC-SHA1 comparison) -/
def IsHashOf (hm : Str → Str → Str → Option Bool) (h name : Str) : Prop :=
  ['|', '1', '|'].isPrefixOf h = true ∧
  ∃ a b salt hash, splitOn '|' h = [a, b, salt, hash] ∧ hm salt hash name = some true

/-- the line records a key for `name`: one of the comma separated ids of its first field is the name
    itself or a hashed id of the name -/
def Records (hm : Str → Str → Str → Option Bool) (l : KHLine) (name : Str) : Prop :=
  ∃ h ∈ splitOn ',' l.host, h = name ∨ IsHashOf hm h name

/-- every hashed id of the file can be decoded (4 `|`-separated parts, valid base64) -/
def HashedWF (hm : Str → Str → Str → Option Bool) (lines : List KHLine) (name : Str) : Prop :=
  ∀ l ∈ lines, ∀ h ∈ splitOn ',' l.host, ['|', '1', '|'].isPrefixOf h = true →
    ∃ a b salt hash, splitOn '|' h = [a, b, salt, hash] ∧ hm salt hash name ≠ none

end Scrapli.SSHConfig.Spec
