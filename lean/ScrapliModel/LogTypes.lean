/-
  Types shared by the generated constants (Gen/LogConsts.lean) and the model (Log.lean) of
  scrapli/logging.py.  Core Lean only.
-/
namespace Scrapli.Log

/-- Python `str` values are modelled as lists of code points -/
abbrev Str := List Char

/-- the record attributes the two log formats of `ScrapliFormatter.__init__` refer to -/
inductive Field where
  | messageId | asctime | levelname | target | module | funcName | lineno | message
deriving Repr, DecidableEq, BEq

/-- one item of `string.Formatter().parse(fmt)`: literal text followed by an optional replacement
    field `{name:<fill><width>}` (every field of scrapli's formats is left aligned) -/
structure Piece where
  lit : Str
  field : Option (Field × Char × Nat)
deriving Repr, DecidableEq

end Scrapli.Log
