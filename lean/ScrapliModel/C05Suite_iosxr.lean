import ScrapliModel.Gen.C05Tables_iosxr
import ScrapliModel.Spec.PromptGrammar
/- C05: the suite(s) of table `iosxr` — which prompt grammar (Spec) is checked against this generated table.
   `…Full`: the modes whose grammar is restricted by the predicate of an open finding, WITHOUT the restriction. -/
namespace Scrapli.C05
open Scrapli.Regex Scrapli.PromptClass Scrapli.Spec
def iosxr : Suite := ⟨"iosxr", Gen.C05.iosxr, PromptGrammar.iosxr⟩
end Scrapli.C05
