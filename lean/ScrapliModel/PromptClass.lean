import ScrapliModel.Regex.Cert
/-
  C05 model: prompt classification (`_determine_current_priv`, scrapli/driver/network/base_driver.py:116-155)
  and prompt detection (the channel's joined `comms_prompt_pattern`, base_driver.py:97-114,
  channel/base_channel.py:485-505, sync_channel.py:426-459), as regular languages over bytes.

  A `Table` is the `privilege_levels` dict of a constructed driver in iteration order, every pattern
  already rendered (by tools/regex2lean.py, flags re.M|re.I) as the whole-string language of
  `re.search`, plus the rendering of the channel's joined pattern.  Tables are GENERATED
  (`Gen/C05Tables.lean`) from live driver objects.
-/
namespace Scrapli.PromptClass
open Scrapli.Regex RE

structure Level where
  name : String
  /-- `{ s | re.search(pattern, s, re.M | re.I) }` -/
  search : RE
  /-- `not_contains` (case-sensitive substring exclusions, base_driver.py:133-139) -/
  notContains : List (List UInt8)

structure Table where
  platform : String
  levels : List Level
  /-- `{ s | re.search(channel.comms_prompt_pattern as bytes, s, re.M | re.I) }` -/
  detect : RE

/-- strings containing at least one of the exclusion substrings -/
def Level.excluded (l : Level) : RE := RE.alts (l.notContains.map RE.contains)

/-- the prompts level `l` classifies: pattern found and no exclusion substring present -/
def Level.classified (l : Level) : RE :=
  match l.notContains with
  | [] => l.search
  | _ => .and l.search (.not l.excluded)

/-- byte-string infix test (Python's `x in s`) -/
def isPrefix : List UInt8 → List UInt8 → Bool
  | [], _ => true
  | _ :: _, [] => false
  | a :: as, b :: bs => a == b && isPrefix as bs

def isInfix (x : List UInt8) : List UInt8 → Bool
  | [] => x.isEmpty
  | b :: bs => isPrefix x (b :: bs) || isInfix x bs

/-- executable model of `_determine_current_priv` (statement by statement: for every level in
    table order, skip when an exclusion substring occurs in the prompt (l.138-139), skip when the
    pattern is not found (l.141-145), otherwise record the name (l.147)).  An empty result is the
    `ScrapliPrivilegeError` of l.148-151. -/
def classify (t : Table) (w : Word) : List String :=
  (t.levels.filter (fun l => !(l.notContains.any (fun x => isInfix x w)) && rmatch l.search w)).map (·.name)

/-- executable model of "the channel finds a prompt in this buffer" -/
def detects (t : Table) (w : Word) : Bool := rmatch t.detect w

/-- the join the driver is supposed to hand to the channel: alternation of all level patterns -/
def Table.join (t : Table) : RE := RE.alts (t.levels.map (·.search))

/-- comparison modulo associativity / commutativity / idempotence of `alt` -/
def altNorm (r : RE) : RE := mkAlt r .emp

/-! ### prompt grammars and obligations -/

/-- one device mode: the levels that must classify its prompts (share group) and the grammar of
    the prompts the device can display in this mode -/
structure Mode where
  name : String
  group : List String
  grammar : RE

def Table.pick (t : Table) (names : List String) : List Level :=
  t.levels.filter (fun l => names.contains l.name)

def noLevel : Level := ⟨"", .emp, []⟩
def Table.level (t : Table) (k : Nat) : Level := (nth t.levels k).getD noLevel

/-- the per-level test of `classify` -/
def Level.classifies (l : Level) (w : Word) : Bool :=
  !(l.notContains.any (fun x => isInfix x w)) && rmatch l.search w

/-- empty ⇔ every prompt of the grammar is found by the channel's joined pattern -/
def detOb (t : Table) (m : Mode) : RE := .and m.grammar (.not t.detect)

def Table.others (t : Table) (names : List String) : List Level :=
  t.levels.filter (fun l => !names.contains l.name)

def ands : List RE → RE
  | [] => .not .emp
  | [a] => a
  | a :: as => .and a (ands as)

/-- empty ⇔ every prompt of the grammar is classified by every level of the share group -/
def ownOb (t : Table) (m : Mode) : RE := .and m.grammar (.not (ands ((t.pick m.group).map Level.classified)))

/-- empty ⇔ no prompt of the grammar is classified by a level outside the share group -/
def forOb (t : Table) (m : Mode) : RE := .and m.grammar (RE.alts ((t.others m.group).map Level.classified))

/-- every level name of the share group exists in the table (otherwise inclusion would be vacuous) -/
def groupPresent (t : Table) (m : Mode) : Bool :=
  !m.group.isEmpty && m.group.all (fun n => t.levels.any (fun l => l.name == n))

/-- what C05 asserts for one mode: every prompt of the grammar is detected by the channel and
    `_determine_current_priv` returns exactly the share group (in table order) -/
def ModeOK (t : Table) (m : Mode) : Prop :=
  ∀ w, Lang m.grammar w → detects t w = true ∧ classify t w = (t.pick m.group).map (·.name)

def nthMode (ms : List Mode) (i : Nat) : Mode := (nth ms i).getD ⟨"", [], .emp⟩

/-- a suite = one constructed driver (generated table) + the modes its device can be in (Spec) -/
structure Suite where
  name : String
  table : Table
  modes : List Mode

/-- obligation 0: detection, 1: classified by the whole share group, 2: by no other level -/
def Suite.ob (s : Suite) (i k : Nat) : RE :=
  match k with
  | 0 => detOb s.table (nthMode s.modes i)
  | 1 => ownOb s.table (nthMode s.modes i)
  | _ => forOb s.table (nthMode s.modes i)

end Scrapli.PromptClass
