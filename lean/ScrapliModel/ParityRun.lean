import ScrapliModel.Bytes
/-
  C06, part 2 — behavioural parity.

  (a) `Stack`: a driver stack seen from outside is a function from (operation list, read tape, fault
      plan) to (bytes written, results, exception class).  Two implementations that each refine the same
      such function agree with each other (`refine_both_agree`, ScrapliProps/C06.lean).

  (b) The one place where the sync and asyncio code paths are written differently: in-channel Telnet
      login.  scrapli/channel/sync_channel.py:334-424 (`Channel.channel_authenticate_telnet`) and
      scrapli/channel/async_channel.py:342-428 (`AsyncChannel.channel_authenticate_telnet`) are modelled
      statement by statement as two small machines over a read tape:

        sync : `buf = self.read()`; `except ScrapliConnectionError: send_return(); return_attempts += 1; continue`
        async: `buf = await asyncio.wait_for(self.read(), timeout=read_interval)`;
               `except asyncio.TimeoutError: buf = b""`            (a connection error propagates)

      everything below the read is the same text in both files and is `afterRead`.
  Idealisations of this model (they bound what `auth_variants_agree` says about the code):
    * a timed-out poll is an empty read: cancelling `transport.read()` loses no bytes.  True for the shipped
      asyncio transports (buffers live in `self` / in the StreamReader); exercised with the REAL `asyncio.wait_for`
      only by the kick rig (blocking Sim transport), the tape harness scripts the time-out;
    * on `eof` the sync loop's `send_return()` SUCCEEDS (it "stays pending").  On a transport that is dead for writes too
      the write raises and ScrapliConnectionError leaves the method — same class as asyncio; the model does not have
      that event, the paired runs do (fault plans);
    * the clock is read only at empty reads, as in the code; `now` on other events is ignored.
  Core Lean only; executable (Drv/C06.lean).
-/
namespace Scrapli.ParityRun
open Scrapli

/-! ### (a) abstract stacks -/

structure Obs where
  writes : List Bytes          -- transport.write calls, in order
  results : List Bytes         -- canonical rendering of every returned value, in order
  exc : List String            -- exception class name per operation ("" = none)
deriving DecidableEq, Repr

/-- a driver stack as a function of its whole environment -/
abbrev Stack (Op Fault : Type) := List Op → List Bytes → Fault → Obs

/-- `impl` refines `model` on the domain `D` -/
def Refines {Op Fault : Type} (D : List Op → List Bytes → Fault → Prop) (impl model : Stack Op Fault) : Prop :=
  ∀ ops tape f, D ops tape f → impl ops tape f = model ops tape f

/-! ### (b) in-channel Telnet login -/

/-- one result of `self.read()` as the login loop sees it -/
inductive Ev
  | data (b : Bytes) (now : Nat)   -- bytes (possibly none: `b""`, for asyncio also a poll that timed out);
                                   -- `now` = clock reading (ticks since `auth_start_time`) if the loop looks at the clock
  | eof                            -- the read raised ScrapliConnectionError
deriving DecidableEq, Repr

inductive Outcome
  | pending        -- still inside the `while True` (the next read would block)
  | done           -- `return` (prompt seen)
  | authFailed     -- raise ScrapliAuthenticationFailed (a prompt seen a third time)
  | connError      -- ScrapliConnectionError left the method
deriving DecidableEq, Repr

/-- the three searches on `authenticate_buf` (compiled patterns) as predicates -/
structure Pats where
  user : Bytes → Bool
  pass : Bytes → Bool
  prompt : Bytes → Bool

structure Cfg where
  pats : Pats
  username : Bytes
  password : Bytes
  ret : Bytes                  -- comms_return_char
  interval : Nat               -- return_interval = timeout_ops / 10, in clock ticks

structure ASt where
  buf : Bytes := []            -- authenticate_buf
  users : Nat := 0             -- username_count
  passes : Nat := 0            -- password_count
  attempts : Nat := 1          -- return_attempts
  writes : List Bytes := []    -- transport.write calls (channel.write and send_return each make one)
  out : Outcome := .pending
deriving DecidableEq, Repr

/-- `bytes.lower()` -/
def lower (b : Bytes) : Bytes := b.map fun c => if 65 ≤ c ∧ c ≤ 90 then c + 32 else c

/-- `if not buf: if (now - auth_start_time) > return_interval * return_attempts: send_return(); return_attempts += 1` -/
def kick (c : Cfg) (s : ASt) (b : Bytes) (now : Nat) : ASt :=
  if b.isEmpty && decide (now > c.interval * s.attempts) then
    { s with writes := s.writes ++ [c.ret], attempts := s.attempts + 1 }
  else s

/-- `if re.search(username_pattern, authenticate_buf): …` -/
def userStep (c : Cfg) (s : ASt) : ASt :=
  if c.pats.user s.buf then
    let s := { s with buf := [], users := s.users + 1 }
    if s.users > 2 then { s with out := .authFailed }
    else { s with writes := s.writes ++ [c.username, c.ret] }
  else s

/-- `if re.search(password_pattern, authenticate_buf): …` -/
def passStep (c : Cfg) (s : ASt) : ASt :=
  if c.pats.pass s.buf then
    let s := { s with buf := [], passes := s.passes + 1 }
    if s.passes > 2 then { s with out := .authFailed }
    else { s with writes := s.writes ++ [c.password, c.ret] }
  else s

/-- `if re.search(prompt_pattern, authenticate_buf): return` -/
def promptStep (c : Cfg) (s : ASt) : ASt :=
  if c.pats.prompt s.buf then { s with out := .done } else s

/-- the loop body below the read — the same text in both files -/
def afterRead (c : Cfg) (s : ASt) (b : Bytes) (now : Nat) : ASt :=
  let s := kick c s b now
  let s := { s with buf := s.buf ++ lower b }
  let s := userStep c s
  if s.out != .pending then s else
  let s := passStep c s
  if s.out != .pending then s else
  promptStep c s

def stepSync (c : Cfg) (s : ASt) : Ev → ASt
  | .data b now => afterRead c s b now
  | .eof => { s with writes := s.writes ++ [c.ret], attempts := s.attempts + 1 }

def stepAsync (c : Cfg) (s : ASt) : Ev → ASt
  | .data b now => afterRead c s b now
  | .eof => { s with out := .connError }

/-- run a login machine over a tape; once the method has returned or raised the rest of the tape is not read -/
def runFrom (step : Cfg → ASt → Ev → ASt) (c : Cfg) (s : ASt) (tape : List Ev) : ASt :=
  tape.foldl (fun s ev => if s.out = .pending then step c s ev else s) s

def obs (s : ASt) : List Bytes × Outcome := (s.writes, s.out)

def authTelnetSync (c : Cfg) (tape : List Ev) : List Bytes × Outcome := obs (runFrom stepSync c {} tape)
def authTelnetAsync (c : Cfg) (tape : List Ev) : List Bytes × Outcome := obs (runFrom stepAsync c {} tape)

/-- events that deliver no bytes: an empty read, or (asyncio only) a poll whose `wait_for` timed out -/
def Ev.isPoll : Ev → Bool
  | .data b _ => b.isEmpty
  | .eof => false

/-- the tape with all empty reads / polls removed -/
def strip (tape : List Ev) : List Ev := tape.filter (fun e => !e.isPoll)

/-! ### concrete predicates for the default patterns of `BaseChannelArgs` (used by the driver and the
    correspondence check; the theorems hold for arbitrary predicates).  Line based: with re.M, `^`/`$`
    anchor at "\n"; `.` does not match "\n"; the buffer is ASCII. -/

def splitLines (b : Bytes) : List Bytes :=
  (b.foldr (fun c acc => if c == 10 then [] :: acc else
      match acc with
      | l :: rest => (c :: l) :: rest
      | [] => [[c]]) [[]])

def isWs (c : UInt8) : Bool := c == 32 || c == 9 || c == 13 || c == 11 || c == 12

def hasInfix (needle : Bytes) : Bytes → Bool
  | [] => needle.isEmpty
  | c :: rest => needle.isPrefixOf (c :: rest) || hasInfix needle rest

def endsWith (tok l : Bytes) : Bool := tok.reverse.isPrefixOf l.reverse

/-- `tok\s?$` on one line -/
def endsOptWs (tok l : Bytes) : Bool :=
  endsWith tok l || (match l.reverse with
    | w :: rest => isWs w && tok.reverse.isPrefixOf rest
    | [] => false)

def tokUsername : Bytes := [117, 115, 101, 114, 110, 97, 109, 101, 58]   -- "username:"
def tokLogin : Bytes := [108, 111, 103, 105, 110, 58]                       -- "login:"
def tokPassword : Bytes := [112, 97, 115, 115, 119, 111, 114, 100, 58]      -- "password:"

def lowerC (c : UInt8) : UInt8 := if 65 ≤ c ∧ c ≤ 90 then c + 32 else c

/-- `^(.*username:)|(.*login:)\s?$`  (re.I | re.M) -/
def loginPat (b : Bytes) : Bool :=
  (splitLines (b.map lowerC)).any fun l => hasInfix tokUsername l || endsOptWs tokLogin l

/-- `(.*@.*)?password:\s?$`  (re.I | re.M) -/
def passwordPat (b : Bytes) : Bool :=
  (splitLines (b.map lowerC)).any fun l => endsOptWs tokPassword l

def promptCls (c : UInt8) : Bool :=
  let c := lowerC c
  (97 ≤ c && c ≤ 122) || (48 ≤ c && c ≤ 57) || c == 46 || c == 45 || c == 64 || c == 40 || c == 41 || c == 47 || c == 58

/-- `^[a-z0-9.\-@()/:]{1,32}[#>$]$`  (re.I | re.M) -/
def promptPat (b : Bytes) : Bool :=
  (splitLines b).any fun l =>
    match l.reverse with
    | t :: rest => (t == 35 || t == 62 || t == 36) && rest.length ≥ 1 && rest.length ≤ 32 && rest.all promptCls
    | [] => false

def defaultPats : Pats := ⟨loginPat, passwordPat, promptPat⟩

end Scrapli.ParityRun
