import ScrapliModel.FactoryTypes
import ScrapliModel.Gen.FactoryTables
/-
  Model of scrapli/factory.py: `_build_provided_kwargs_dict` (33-124), `_get_community_platform_details`
  (127-178), `_get_driver_kwargs` (181-222), `Scrapli._get_driver_class/_get_community_driver/_get_driver/
  __new__` (235-521) and the `AsyncScrapli` twins (534-820).  Everything that is a table in the source
  (signatures, keyword tables, dict literal, filter condition, merge orders, platform maps, transport
  tuples) comes from Gen/FactoryTables.lean through a `Tables` record; the control flow is written here.

  A Python dict / keyword set is an association list read with `get` = FIRST match, so `b ++ a` is
  `{**a, **b}` and `(k, v) :: d` is `d[k] = v`.  Only the mapping is observable in `f(**d)`.
-/
namespace Scrapli.Factory
open Scrapli.Gen.Factory

/-! ## dicts -/

def get : Kw → String → Option PyVal
  | [], _ => none
  | e :: r, k => if e.1 = k then some e.2 else get r k

def has (d : Kw) (k : String) : Bool := (get d k).isSome

/-- `del d[k]` -/
def del (d : Kw) (k : String) : Kw := d.filter (fun e => !(e.1 == k))

/-- canonical form (first binding of each key, keys in first-occurrence order); used for printing -/
def norm : Kw → Kw
  | [] => []
  | e :: r => e :: norm (del r e.1)
termination_by d => d.length
decreasing_by
  simp only [del, List.length_cons]
  exact Nat.lt_succ_of_le (List.length_filter_le _ _)

/-! ## errors -/

inductive Err
  | scrapliValueError | scrapliTypeError | scrapliModuleNotFound | scrapliException
  | typeError | keyError | nameError
deriving DecidableEq, Repr

/-- is the exception class a subclass of `ScrapliException` -/
def Err.isScrapli : Err → Bool
  | .scrapliValueError | .scrapliTypeError | .scrapliModuleNotFound | .scrapliException => true
  | _ => false

def Err.name : Err → String
  | .scrapliValueError => "ScrapliValueError" | .scrapliTypeError => "ScrapliTypeError"
  | .scrapliModuleNotFound => "ScrapliModuleNotFound" | .scrapliException => "ScrapliException"
  | .typeError => "TypeError" | .keyError => "KeyError" | .nameError => "NameError"

/-! ## calling a Python function with keyword arguments -/

/-- all elements present, or nothing -/
def allSome {α : Type} : List (Option α) → Option (List α)
  | [] => some []
  | none :: _ => none
  | some a :: r => (allSome r).map (a :: ·)

def bindParam (call : Kw) (p : Param) : Option (String × PyVal) :=
  match get call p.name with
  | some v => some (p.name, v)
  | none => p.dflt.map (fun d => (p.name, d))

/-- `f(**call)`: every named parameter receives the passed value or its default (TypeError when it has
    none); keywords that are not parameters go to `**kwargs` (TypeError when there is no `**kwargs`).
    Result: (locals for the named parameters, the `**kwargs` dict). -/
def bindCall (sig : Sig) (call : Kw) : Except Err (Kw × Kw) :=
  let extra := call.filter (fun e => !sig.names.contains e.1)
  if !sig.varKw && !extra.isEmpty then .error .typeError
  else match allSome (sig.params.map (bindParam call)) with
    | none => .error .typeError
    | some named => .ok (named, extra)

/-- the keyword set of a call site `f(kw1=var1, …, **kwargs)`: NameError for an unbound variable,
    TypeError when `**kwargs` repeats an explicit keyword -/
def callSite (tab : List (String × String)) (fwd : Bool) (locals kwargs : Kw) : Except Err Kw :=
  match allSome (tab.map (fun e => (get locals e.2).map (fun v => (e.1, v)))) with
  | none => .error .nameError
  | some explicit =>
    let star := if fwd then kwargs else []
    if star.any (fun e => tab.any (fun t => t.1 == e.1)) then .error .typeError
    else .ok (explicit ++ star)

/-! ## the tables one factory class depends on -/

structure Tables where
  newSig : Sig                          -- `__new__` without `cls`
  call : List (String × String)         -- keywords of the call to `_build_provided_kwargs_dict`
  fwd : Bool                            -- `**kwargs` forwarded in that call
  bpkSig : Sig                          -- `_build_provided_kwargs_dict`
  bpkDict : List (String × String)      -- the `_provided_args` literal
  filter : FilterKind                   -- condition of the comprehension
  bpkReturn : List String               -- `{**_provided_args, **kwargs}`
  finalMerge : List String              -- `{**additional_kwargs, **provided_kwargs}`
  coreMap : List (String × String)      -- CORE_PLATFORM_MAP
  driverMap : List (String × String)    -- DRIVER_MAP
  coreTransports : List String
  asyncioTransports : List String

def genTables (async : Bool) : Tables :=
  if async then
    { newSig := newSigAsync, call := callAsync, fwd := callFwdKwargsAsync, bpkSig := bpkSig, bpkDict := bpkDict,
      filter := bpkFilter, bpkReturn := bpkReturn, finalMerge := finalMergeAsync, coreMap := coreMapAsync,
      driverMap := driverMapAsync, coreTransports := CORE_TRANSPORTS, asyncioTransports := ASYNCIO_TRANSPORTS }
  else
    { newSig := newSigSync, call := callSync, fwd := callFwdKwargsSync, bpkSig := bpkSig, bpkDict := bpkDict,
      filter := bpkFilter, bpkReturn := bpkReturn, finalMerge := finalMergeSync, coreMap := coreMapSync,
      driverMap := driverMapSync, coreTransports := CORE_TRANSPORTS, asyncioTransports := ASYNCIO_TRANSPORTS }

/-! ## `_build_provided_kwargs_dict` (factory.py:33-124) -/

def keep : FilterKind → PyVal → Bool
  | .isNotNone, v => v.isSome
  | .truthy, v => PyVal.truthy v

/-- `{**a, **b, …}` for the named dicts in `order` (later ones win) -/
def starMerge (order : List String) (env : String → Kw) : Kw :=
  order.foldl (fun acc n => env n ++ acc) []

def buildProvided (t : Tables) (args : Kw) : Except Err Kw :=
  match bindCall t.bpkSig args with
  | .error e => .error e
  | .ok (locals, kwargs) =>
    -- 87-118: the literal
    match allSome (t.bpkDict.map (fun e => (get locals e.2).map (fun v => (e.1, v)))) with
    | none => .error .nameError
    | some lit =>
      -- 121: the comprehension
      let provided := lit.filter (fun e => keep t.filter e.2)
      -- 124
      .ok (starMerge t.bpkReturn (fun n => if n = "_provided_args" then provided else if n = "kwargs" then kwargs else []))

/-! ## community platforms (factory.py:127-222, 235-300) -/

inductive DriverType
  | named (s : String)                  -- "network" / "generic" / any other str
  | custom (sync async : String)        -- {"sync": cls, "async": cls}
deriving DecidableEq, Repr

structure Variant where
  driverType : Option DriverType        -- truthy `driver_type` entry of the variant, if any
  kwargs : Kw                           -- its other entries
deriving Repr

/-- a `SCRAPLI_PLATFORM` dict -/
structure Platform where
  driverType : DriverType
  defaults : Kw
  variants : Option (List (String × Variant))   -- `none`: no "variants" key
deriving Repr

inductive Module
  | missing                 -- import raises ModuleNotFoundError
  | noPlatform              -- module without (or with an empty) SCRAPLI_PLATFORM
  | platform (p : Platform)
deriving Repr

structure Env where
  communityInstalled : Bool
  modules : String → Module

/-- `community_platform_name.replace('_', '.')` -/
def dotted (s : String) : String := String.ofList (s.toList.map (fun c => if c = '_' then '.' else c))

/-- 127-178 (the deepcopy matters for isolation, not for the value: see FactoryHeap.lean) -/
def communityDetails (env : Env) (name : String) : Except Err Platform :=
  if !env.communityInstalled then .error .scrapliModuleNotFound
  else match env.modules ("scrapli_community." ++ dotted name) with
    | .missing => .error .scrapliModuleNotFound
    | .noPlatform => .error .scrapliException
    | .platform p => .ok p

/-- `platform_details["variants"][variant]` when `variant` is truthy -/
def selectVariant (p : Platform) (variant : PyVal) : Except Err (Option Variant) :=
  if !PyVal.truthy variant then .ok none
  else match p.variants with
    | none => .error .keyError
    | some vs =>
      match variant with
      | some (.str v) => match vs.lookup v with
        | some x => .ok (some x)
        | none => .error .keyError
      | _ => .error .keyError

/-- `_get_driver_class` (236-271 / 535-570) -/
def driverClass (t : Tables) (async : Bool) (p : Platform) (v : Option Variant) : Except Err String :=
  match v.bind (·.driverType) with
  | some (.custom s a) => .ok (if async then a else s)
  | some (.named _) => .error .typeError          -- "str"["sync"]
  | none =>
    match p.driverType with
    | .named n => match t.driverMap.lookup n with
      | some c => .ok c
      | none => .error .typeError                 -- "str"["sync"]
    | .custom s a => .ok (if async then a else s)

/-- `d.pop(k)`, the popped value is not used -/
def popDrop (d : Kw) (k : String) : Except Err Kw :=
  match get d k with
  | none => .error .keyError
  | some _ => .ok (del d k)

/-- `d[new] = d.pop(old)` -/
def popRename (d : Kw) (old new : String) : Except Err Kw :=
  match get d old with
  | none => .error .keyError
  | some v => .ok ((new, v) :: del d old)

def Except.andThen {α β : Type} (x : Except Err α) (f : α → Except Err β) : Except Err β :=
  match x with
  | .error e => .error e
  | .ok a => f a

/-- `defaults ⊕ variant` (199-205) -/
def platformKwargs (p : Platform) (v : Option Variant) : Kw :=
  match v with
  | some x => x.kwargs ++ p.defaults
  | none => p.defaults

/-- `_get_driver_kwargs` (181-222) -/
def driverKwargs (p : Platform) (v : Option Variant) (async : Bool) : Except Err Kw :=
  let d := platformKwargs p v
  if !async then
    Except.andThen (popDrop d "async_on_open") fun d =>
    Except.andThen (popDrop d "async_on_close") fun d =>
    Except.andThen (popRename d "sync_on_open" "on_open") fun d =>
    popRename d "sync_on_close" "on_close"
  else
    Except.andThen (popDrop d "sync_on_open") fun d =>
    Except.andThen (popDrop d "sync_on_close") fun d =>
    Except.andThen (popRename d "async_on_open" "on_open") fun d =>
    popRename d "async_on_close" "on_close"

/-- `_get_driver` (303-338 / 602-637): (class, additional kwargs) -/
def getDriver (t : Tables) (async : Bool) (env : Env) (platform : String) (variant : PyVal) :
    Except Err (String × Kw) :=
  match t.coreMap.lookup platform with
  | some c => .ok (c, [])
  | none =>
    Except.andThen (communityDetails env platform) fun p =>
    Except.andThen (selectVariant p variant) fun v =>
    Except.andThen (driverClass t async p v) fun c =>
    Except.andThen (driverKwargs p v async) fun kw =>
    .ok (c, kw)

/-! ## `Scrapli.__new__` / `AsyncScrapli.__new__` (340-521 / 639-820) -/

def inTuple (v : PyVal) (l : List String) : Bool :=
  match v with
  | some (.str s) => l.contains s
  | _ => false

/-- 468-469 / 767-768 -/
def transportRejected (t : Tables) (async : Bool) (transport : PyVal) : Bool :=
  if async then inTuple transport t.coreTransports && !inTuple transport t.asyncioTransports
  else inTuple transport t.coreTransports && inTuple transport t.asyncioTransports

/-- the value a call passes for `k`, `None` when it passes nothing (all optional factory parameters
    default to `None`) -/
def val (call : Kw) (k : String) : PyVal := (get call k).getD none

/-- the factory call `Scrapli(**call)` / `AsyncScrapli(**call)`: the driver class that is instantiated and
    the keyword arguments it is given -/
def factoryNew (t : Tables) (async : Bool) (env : Env) (call : Kw) : Except Err (String × Kw) :=
  match bindCall t.newSig call with
  | .error e => .error e
  | .ok (locals, kwargs) =>
    if transportRejected t async (val locals "transport") then .error .scrapliValueError
    else match val locals "platform" with
      | some (.str platform) =>
        Except.andThen (callSite t.call t.fwd locals kwargs) fun args =>
        Except.andThen (buildProvided t args) fun provided =>
        Except.andThen (getDriver t async env platform (val locals "variant")) fun r =>
        let final := if r.2.isEmpty then provided
          else starMerge t.finalMerge (fun n => if n = "additional_kwargs" then r.2
                                                else if n = "provided_kwargs" then provided else [])
        .ok (r.1, final)
      | _ => .error .scrapliTypeError

/-! ## what the driver constructors do with `transport` (base/sync_driver.py:18-22, base/async_driver.py:18-22) -/

/-- the transport check of `Driver.__init__` / `AsyncDriver.__init__` on the effective transport name -/
def driverRejectsTransport (t : Tables) (async : Bool) (sig : Sig) (kw : Kw) : Bool :=
  let eff : PyVal := match get kw "transport" with
    | some v => v
    | none => ((sig.params.find? (·.name == "transport")).bind (·.dflt)).getD none
  transportRejected t async eff

end Scrapli.Factory
