import ScrapliModel.Gen.C05Tables_eos
import ScrapliModel.Spec.PromptGrammar
/- C05: the suite(s) of table `eos` — which prompt grammar (Spec) is checked against this generated table.
   `…Full`: the modes whose grammar is restricted by the predicate of an open finding, WITHOUT the restriction. -/
namespace Scrapli.C05
open Scrapli.Regex Scrapli.PromptClass Scrapli.Spec
def eos : Suite := ⟨"eos", Gen.C05.eos, PromptGrammar.eos⟩
end Scrapli.C05
