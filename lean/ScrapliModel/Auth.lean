import ScrapliModel.AuthPat
import ScrapliModel.Gen.AuthConsts
/-
  Model of the in-channel login loops (C09):
    scrapli/channel/sync_channel.py:262-331  Channel.channel_authenticate_ssh
    scrapli/channel/sync_channel.py:334-423  Channel.channel_authenticate_telnet
    scrapli/channel/async_channel.py:265-338 AsyncChannel.channel_authenticate_ssh
    scrapli/channel/async_channel.py:341-425 AsyncChannel.channel_authenticate_telnet
    scrapli/channel/base_channel.py:418-481  _ssh_message_handler, :512-566 _pre_channel_authenticate_*
  One loop body (`step`) serves the four functions; what differs between them is data regenerated
  from the source (Gen/AuthConsts.lean): the two credentials tested and their order, the thresholds,
  whether the ssh message handler runs, whether ScrapliConnectionError is caught, whether an empty
  read can trigger a return.  The loop is a fold over the READ TAPE.  The credential / prompt tests
  are PARAMETERS of the configuration, so that the theorems hold for every pattern a user may set.
-/
namespace Scrapli.Auth
open Scrapli

/-- one result of `self.read()` inside the loop -/
inductive Read where
  /-- `transport.read()` returned `raw` (possibly empty; async: the `wait_for` timed out ⇒ `b""`);
      `t` = `datetime.now().timestamp() - auth_start_time` at that moment, in the unit of `ivl` -/
  | chunk (raw : Bytes) (t : Nat)
  /-- `read()` raised ScrapliConnectionError (EOF) -/
  | connErr
deriving Repr, DecidableEq

inductive Status where
  | running                    -- still inside `while True`
  | done                       -- `return` (prompt pattern seen)
  | authFailed (k : Kind)      -- ScrapliAuthenticationFailed "<k> prompt seen more than once"
  | fatal                      -- ScrapliAuthenticationFailed raised by `_ssh_message_handler`
  | connError                  -- ScrapliConnectionError left the function
deriving Repr, DecidableEq

/-- one entry of the log: a sighting of credential `kind`'s prompt (`seen` = the buffer on which the
    pattern matched, before it was cleared; `ok` = the credential and a return were written, `false` =
    the guard raised instead) or, for `kind = .ret`, a bare return; `rd` = number of the read -/
structure Entry where
  kind : Kind
  seen : Bytes
  ok : Bool
  rd : Nat
deriving Repr, DecidableEq

/-- `username_count` / `password_count` / `passphrase_count` as one table -/
def bumpf (cnt : Kind → Nat) (k : Kind) : Kind → Nat := fun j => if j = k then cnt j + 1 else cnt j

structure St where
  cnt : Kind → Nat := fun _ => 0   -- username_count, password_count, passphrase_count
  buf : Bytes := []                -- authenticate_buf
  attempts : Nat := 1              -- return_attempts
  log : List Entry := []
  status : Status := .running
  nread : Nat := 0                 -- reads performed
  held : Bytes := []               -- `self._ansi_held`: beginning of an escape sequence kept back by Channel.read

structure Cfg where
  P : Kind → Bytes → Bool      -- re.search(<kind>_pattern, authenticate_buf)
  prompt : Bytes → Bool        -- re.search(prompt_pattern, authenticate_buf)
  fatal : Bytes → Bool         -- `_ssh_message_handler(output=authenticate_buf)` raises
  k1 : Kind                    -- first credential tested in an iteration
  k2 : Kind                    -- second credential tested
  limit : Kind → Nat           -- the N of `if <kind>_count > N: raise`
  handler : Bool               -- the loop calls `_ssh_message_handler`
  catchErr : Bool              -- the loop has an `except ScrapliConnectionError:` branch around read()
  errBranch : List ErrStmt     -- ... and these are its statements (sync_channel.py:372-379)
  kicks : Bool                 -- `if not buf: if elapsed > return_interval * return_attempts: send_return()`
  ivl : Nat                    -- return_interval (= timeout_ops / returnDivisor)
  clean : Bytes → Bytes → Bytes × Bytes
                               -- `Channel.read()` on one transport chunk: held-back bytes → raw chunk → (what the
                               -- loop gets, what is held back for the next read).  A PARAMETER: the invariant
                               -- theorems hold for every cleaner; the real one is Scrapli.Chan.chanReadH (C01/C02)

/-- `Channel.read()` without its escape-sequence part: `\r` removed (what the real cleaner does to a
    chunk without ESC byte when nothing is held back) -/
def chanRead (raw : Bytes) : Bytes := raw.filter (· != 13)

/-- the cleaner for dialogues without escape sequences -/
def crClean : Bytes → Bytes → Bytes × Bytes := fun _ raw => (chanRead raw, [])

/-- `self.send_return(); return_attempts += 1` (sync_channel.py:377-378, 386-387) -/
def kick (s : St) : St :=
  { s with log := s.log ++ [⟨.ret, [], true, s.nread⟩], attempts := s.attempts + 1 }

/-- the body of the `except ScrapliConnectionError:` branch, statement by statement -/
def execErr : List ErrStmt → St → St
  | [], s => s
  | .sendReturn :: r, s => execErr r { s with log := s.log ++ [⟨.ret, [], true, s.nread⟩] }
  | .bumpAttempts :: r, s => execErr r { s with attempts := s.attempts + 1 }
  | .clearBuf :: r, s => execErr r { s with buf := [] }
  | .resetCount k :: r, s => execErr r { s with cnt := fun j => if j = k then 0 else s.cnt j }
  | .cont :: _, s => s

/-- one credential block, e.g. sync_channel.py:391-403:
    `if re.search(pattern, buf): buf = b""; count += 1; if count > N: raise; write(cred); send_return()`.
    Skipped when an earlier statement of the same iteration already raised. -/
def answer (c : Cfg) (k : Kind) (s : St) : St :=
  if s.status != .running then s
  else if c.P k s.buf then
    if s.cnt k + 1 > c.limit k then
      { s with cnt := bumpf s.cnt k, buf := [], log := s.log ++ [⟨k, s.buf, false, s.nread⟩],
               status := .authFailed k }
    else
      { s with cnt := bumpf s.cnt k, buf := [], log := s.log ++ [⟨k, s.buf, true, s.nread⟩] }
  else s

/-- `if re.search(prompt_pattern, buf): return` -/
def finish (c : Cfg) (s : St) : St :=
  if s.status == .running && c.prompt s.buf then { s with status := .done } else s

/-- one pass through the body of `while True` -/
def step (c : Cfg) (s : St) (r : Read) : St :=
  if s.status != .running then s else
  let s := { s with nread := s.nread + 1 }
  match r with
  | .connErr => if c.catchErr then execErr c.errBranch s else { s with status := .connError }
  | .chunk raw t =>
    let b := (c.clean s.held raw).1
    let s := { s with held := (c.clean s.held raw).2 }
    let s := if c.kicks && b.isEmpty && decide (t > c.ivl * s.attempts) then kick s else s
    let s := { s with buf := s.buf ++ lower b }
    if c.handler && c.fatal s.buf then { s with status := .fatal }
    else finish c (answer c c.k2 (answer c c.k1 s))

def init : St := { attempts := Gen.Auth.attempts0 }

/-- the whole login: final status `.running` = the tape ended while the loop was still reading
    (in reality: it blocks until the timeout decorator fires) -/
def run (c : Cfg) (tape : List Read) : St := tape.foldl (step c) init

/-! ### the instance: scrapli's default patterns and its message table -/

/-- `needle in hay` -/
def isInfix (needle : Bytes) : Bytes → Bool
  | [] => needle.isEmpty
  | c :: r => (needle == (c :: r).take needle.length) || isInfix needle r

/-- base_channel.py:432-478: does any substring test of the if/elif chain succeed (⇒ msg ≠ "" ⇒ raise) -/
def fatalMsg (output : Bytes) : Bool :=
  Gen.Auth.fatalTable.any fun (needle, lowered) => isInfix needle (if lowered then lower output else output)

def defaultP : Kind → Bytes → Bool
  | .username => searchAny Gen.Auth.loginBranches
  | .password => searchAny Gen.Auth.passwordBranches
  | .passphrase => searchAny Gen.Auth.passphraseBranches
  | .ret => fun _ => false

/-- the patterns in effect for a channel built by a driver: drivers pass `""` and
    `BaseChannelArgs.__post_init__` (base_channel.py:95-102) substitutes its own copy of the defaults -/
def driverP : Kind → Bytes → Bool
  | .username => searchAny Gen.Auth.loginDriverBranches
  | .password => searchAny Gen.Auth.passwordDriverBranches
  | .passphrase => searchAny Gen.Auth.passphraseDriverBranches
  | .ret => fun _ => false

/-- the prologue of a login function (sync_channel.py:282-290, 354-366): counters, buffer and attempts
    are LOCALS initialised on entry; the only thing a previous call leaves behind is what
    `Channel.read` held back (`self._ansi_held`, an attribute of the channel object) -/
def enter (prev : St) : St := { init with held := prev.held }

/-- several logins on one channel object, one tape each; `prev` = state the previous call ended in -/
def runSession (c : Cfg) : St → List (List Read) → List St
  | _, [] => []
  | prev, t :: ts =>
    let s := t.foldl (step c) (enter prev)
    s :: runSession c s ts

/-- configuration of loop `l` with patterns `P`, prompt test `pr`, return interval `ivl`, cleaner `cl` -/
def cfgOfC (l : Loop) (P : Kind → Bytes → Bool) (pr : Bytes → Bool) (ivl : Nat)
    (cl : Bytes → Bytes → Bytes × Bytes) : Cfg :=
  { P := P, prompt := pr, fatal := fatalMsg,
    k1 := (Gen.Auth.orderOf l).1, k2 := (Gen.Auth.orderOf l).2,
    limit := Gen.Auth.limitOf l, handler := Gen.Auth.hasHandler l,
    catchErr := Gen.Auth.catchesConnErr l, errBranch := Gen.Auth.connErrBranch l, kicks := Gen.Auth.kicksOnEmpty l, ivl := ivl,
    clean := cl }

/-- the same for dialogues without escape sequences (CR removal only) -/
def cfgOf (l : Loop) (P : Kind → Bytes → Bool) (pr : Bytes → Bool) (ivl : Nat) : Cfg := cfgOfC l P pr ivl crClean

/-- loop `l` with all defaults of BaseChannelArgs -/
def defaultCfg (l : Loop) (pr : PromptPat) (ivl : Nat) : Cfg := cfgOf l defaultP pr.search ivl
def defaultCfgC (l : Loop) (pr : PromptPat) (ivl : Nat) (cl : Bytes → Bytes → Bytes × Bytes) : Cfg :=
  cfgOfC l defaultP pr.search ivl cl

/-- loop `l` on a channel built by a driver with default arguments -/
def driverCfg (l : Loop) (pr : PromptPat) (ivl : Nat) : Cfg := cfgOf l driverP pr.search ivl
def driverCfgC (l : Loop) (pr : PromptPat) (ivl : Nat) (cl : Bytes → Bytes → Bytes × Bytes) : Cfg :=
  cfgOfC l driverP pr.search ivl cl

end Scrapli.Auth
