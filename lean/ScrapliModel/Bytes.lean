/-
  Byte-string utilities shared by all models.  Core Lean only (no Mathlib) so that every
  model can also be run by the interpreter as a line-protocol driver.
-/
namespace Scrapli

abbrev Bytes := List UInt8

namespace Hex

def digit (n : Nat) : Char :=
  if n < 10 then Char.ofNat (48 + n) else Char.ofNat (87 + n)

def encode (b : Bytes) : String :=
  if b.isEmpty then "-" else
  String.ofList (b.foldr (fun x acc => digit (x.toNat / 16) :: digit (x.toNat % 16) :: acc) [])

def val (c : Char) : Option Nat :=
  if '0' ≤ c ∧ c ≤ '9' then some (c.toNat - 48)
  else if 'a' ≤ c ∧ c ≤ 'f' then some (c.toNat - 87)
  else if 'A' ≤ c ∧ c ≤ 'F' then some (c.toNat - 55)
  else none

def decodeChars : List Char → Option Bytes
  | [] => some []
  | [_] => none
  | a :: b :: rest => do
    let x ← val a
    let y ← val b
    let r ← decodeChars rest
    pure (UInt8.ofNat (x * 16 + y) :: r)

/-- "-" is the empty string; otherwise lowercase/uppercase hex pairs. -/
def decode (s : String) : Option Bytes :=
  if s == "-" then some [] else decodeChars s.toList

/-- a list of byte strings is rendered as comma separated hex fields; "." is the empty list -/
def encodeList (l : List Bytes) : String :=
  if l.isEmpty then "." else ",".intercalate (l.map encode)

def decodeList (s : String) : Option (List Bytes) :=
  if s == "." then some [] else (s.splitOn ",").mapM decode

end Hex

def ofString (s : String) : Bytes := s.toUTF8.toList

end Scrapli
