import ScrapliModel.Channel.Chan
/-
  The driver layer above the channel, as far as C01 names it:
    scrapli/driver/generic/sync_driver.py  _send_command 96-148 · send_commands 193-277 (and the async twin)
    scrapli/response.py  record_response 113-142 (`failed` stays True unless no marker occurs in the result)
  `eager` is False here (eager sending belongs to send_configs: C13).  The command list is given as
  `init` (= `commands[:-1]`, the `for` loop with its `break`) and `last` (= `commands[-1]`, the `else:` branch).
-/
namespace Scrapli.Chan
open Scrapli

structure Resp where
  raw : Bytes
  result : Bytes
  failed : Bool
deriving Repr, BEq, DecidableEq

/-- `Response.record_response`: failed iff some marker of `failed_when_contains` occurs in the result -/
def failedOf (fwc : List Bytes) (result : Bytes) : Bool := fwc.any (fun e => isInfixB e result)

/-- `_send_command` with eager off: `channel.send_input`, then `_post_send_command` -/
def sendCommand (cfg : Cfg) (dev : σ → Bytes → σ × Bytes) (strip : Bool) (fwc : List Bytes) (c : Bytes)
    (s : Wire × σ) : Option (Resp × (Wire × σ)) :=
  (sendInput cfg dev c strip false false s).map
    (fun r => ({ raw := r.1.1, result := r.1.2, failed := failedOf fwc r.1.2 }, r.2))

/-- the `for command in commands[:-1]:` loop; the Bool says that it ended in `break` -/
def sendCommandsLoop (cfg : Cfg) (dev : σ → Bytes → σ × Bytes) (strip : Bool) (fwc : List Bytes) (stop : Bool) :
    List Bytes → (Wire × σ) → Option (List Resp × (Wire × σ) × Bool)
  | [], s => some ([], s, false)
  | c :: cs, s =>
    match sendCommand cfg dev strip fwc c s with
    | none => none
    | some (r, s') =>
      if stop && r.failed then some ([r], s', true)
      else (sendCommandsLoop cfg dev strip fwc stop cs s').map (fun x => (r :: x.1, x.2.1, x.2.2))

/-- `send_commands(commands, strip_prompt, failed_when_contains, stop_on_failed)` for `commands = init ++ [last]` -/
def sendCommands (cfg : Cfg) (dev : σ → Bytes → σ × Bytes) (strip : Bool) (fwc : List Bytes) (stop : Bool)
    (init : List Bytes) (last : Bytes) (s : Wire × σ) : Option (List Resp × (Wire × σ)) :=
  match sendCommandsLoop cfg dev strip fwc stop init s with
  | none => none
  | some (rs, s', true) => some (rs, s')
  | some (rs, s', false) => (sendCommand cfg dev strip fwc last s').map (fun x => (rs ++ [x.1], x.2))

end Scrapli.Chan
