import ScrapliModel.Channel.Basic
/-
  An executable model of the fragment of CPython's backtracking `re` engine that scrapli's
  patterns use (bytes patterns; MULTILINE; IGNORECASE already folded into the classes by the
  translator tools/rx2lean.py): ordered alternation, greedy / lazy bounded repetition, classes,
  `^` `$`.  Leftmost match, first successful path in priority order — so match SPANS agree with
  CPython (needed for `re.sub` and `group(0)`), not only language membership.
  It is validated against CPython by correspondence; the channel theorems do not depend on it
  (they take the search functions as parameters).
-/
namespace Scrapli.Rx
open Scrapli

inductive Rx where
  | eps
  | cls (w0 w1 w2 w3 : UInt64)           -- byte b matches iff bit (b % 64) of word (b / 64) is set
  | bol | eol                            -- `^` `$` under re.MULTILINE
  | cat (a b : Rx)
  | alt (a b : Rx)
  | rep (r : Rx) (min : Nat) (max : Option Nat) (greedy : Bool)
deriving Repr, Inhabited

/-- a position in the subject: the byte before it (if any) and what follows -/
structure Pos where
  prev : Option UInt8
  rest : Bytes

def clsHas (w0 w1 w2 w3 : UInt64) (c : UInt8) : Bool :=
  let w := if c < 64 then w0 else if c < 128 then w1 else if c < 192 then w2 else w3
  (w >>> (c.toUInt64 % 64)) &&& 1 == 1

def clsOfNat (bm : Nat) : Rx :=
  .cls (UInt64.ofNat (bm % 2^64)) (UInt64.ofNat (bm / 2^64 % 2^64)) (UInt64.ofNat (bm / 2^128 % 2^64))
    (UInt64.ofNat (bm / 2^192 % 2^64))

def belowMax : Option Nat → Nat → Bool
  | some x, i => i < x
  | none, _ => true

def Rx.size : Rx → Nat
  | .cat a b => a.size + b.size + 1
  | .alt a b => a.size + b.size + 1
  | .rep r _ _ _ => r.size + 2
  | _ => 1

mutual
/-- continuation-passing backtracking matcher; `fuel` bounds the recursion depth -/
def m : Nat → Rx → Pos → (Pos → Option Pos) → Option Pos
  | 0, _, _, _ => none
  | _ + 1, .eps, p, k => k p
  | _ + 1, .cls w0 w1 w2 w3, p, k =>
    match p.rest with
    | c :: t => if clsHas w0 w1 w2 w3 c then k ⟨some c, t⟩ else none
    | [] => none
  | _ + 1, .bol, p, k => if p.prev.isNone || p.prev == some Chan.NL then k p else none
  | _ + 1, .eol, p, k =>
    match p.rest with
    | [] => k p
    | c :: _ => if c == Chan.NL then k p else none
  | f + 1, .cat a b, p, k => m f a p (fun p' => m f b p' k)
  | f + 1, .alt a b, p, k =>
    match m f a p k with
    | some r => some r
    | none => m f b p k
  | f + 1, .rep r mn mx g, p, k => mrep f r mn mx g 0 p k

def mrep : Nat → Rx → Nat → Option Nat → Bool → Nat → Pos → (Pos → Option Pos) → Option Pos
  | 0, _, _, _, _, _, _, _ => none
  | f + 1, r, mn, mx, g, i, p, k =>
    let more : Unit → Option Pos := fun _ =>
      if belowMax mx i then
        m f r p (fun p' =>
          -- CPython stops iterating when the body matched the empty string
          if i ≥ mn && p'.rest.length == p.rest.length then none
          else mrep f r mn mx g (i + 1) p' k)
      else none
    if i < mn then more ()
    else if g then
      match more () with
      | some x => some x
      | none => k p
    else
      match k p with
      | some x => some x
      | none => more ()
end

def fuelFor (r : Rx) (s : Bytes) : Nat := 2 * (s.length + 2) + 2 * r.size + 16

/-- try to match at one position; returns the number of bytes matched -/
def matchAt (fuel : Nat) (r : Rx) (p : Pos) : Option Nat :=
  match m fuel r p (fun p' => some p') with
  | some p' => some (p.rest.length - p'.rest.length)
  | none => none

/-- every match of `r` starts with a successful `^` (so only line starts need to be tried) -/
def needsBol : Rx → Bool
  | .bol => true
  | .cat a _ => needsBol a
  | .alt a b => needsBol a && needsBol b
  | .rep r mn _ _ => decide (1 ≤ mn) && needsBol r
  | _ => false

def atLineStart (prev : Option UInt8) : Bool := prev.isNone || prev == some Chan.NL

/-- `re.search`: leftmost match as (start, end) offsets -/
def searchFrom (fuel : Nat) (r : Rx) (anch : Bool) : Nat → Option UInt8 → Bytes → Option (Nat × Nat)
  | off, prev, [] =>
    match matchAt fuel r ⟨prev, []⟩ with
    | some n => some (off, off + n)
    | none => none
  | off, prev, c :: t =>
    if anch && !atLineStart prev then searchFrom fuel r anch (off + 1) (some c) t
    else
      match matchAt fuel r ⟨prev, c :: t⟩ with
      | some n => some (off, off + n)
      | none => searchFrom fuel r anch (off + 1) (some c) t

def search (r : Rx) (s : Bytes) : Option (Nat × Nat) := searchFrom (fuelFor r s) r (needsBol r) 0 none s

def searchB (r : Rx) (s : Bytes) : Bool := (search r s).isSome

/-- `match.group(0)` of `re.search` -/
def firstMatch (r : Rx) (s : Bytes) : Option Bytes :=
  match search r s with
  | some (a, b) => some ((s.drop a).take (b - a))
  | none => none

/-- `re.sub(pattern, b"", s)`: delete every non-overlapping leftmost match -/
def subFrom (fuel : Nat) (r : Rx) : Nat → Option UInt8 → Bytes → Bytes
  | 0, _, s => s
  | _ + 1, _, [] => []
  | f + 1, prev, c :: t =>
    match matchAt fuel r ⟨prev, c :: t⟩ with
    | some (n + 1) =>
      let consumed := (c :: t).take (n + 1)
      subFrom fuel r f consumed.getLast? ((c :: t).drop (n + 1))
    | _ => c :: subFrom fuel r f (some c) t

def sub (r : Rx) (s : Bytes) : Bytes := subFrom (fuelFor r s) r (s.length + 1) none s

/-! ### wire format: prefix tokens separated by `_`
  `e` eps · `c<hex bitmap>` class · `b` bol · `z` eol · `k` cat(2) · `a` alt(2) ·
  `r<min>,<max|i>,<g|l>` rep(1) -/

def hexNat (s : String) : Option Nat :=
  s.toList.foldlM (fun acc ch => (Hex.val ch).map (fun v => acc * 16 + v)) 0

def parseTok : Nat → List String → Option (Rx × List String)
  | 0, _ => none
  | _, [] => none
  | f + 1, t :: ts =>
    if t == "e" then some (.eps, ts)
    else if t == "b" then some (.bol, ts)
    else if t == "z" then some (.eol, ts)
    else if t == "k" then do
      let (x, ts) ← parseTok f ts
      let (y, ts) ← parseTok f ts
      pure (.cat x y, ts)
    else if t == "a" then do
      let (x, ts) ← parseTok f ts
      let (y, ts) ← parseTok f ts
      pure (.alt x y, ts)
    else if t.startsWith "c" then do
      let n ← hexNat (t.drop 1).toString
      pure (clsOfNat n, ts)
    else if t.startsWith "r" then
      match ((t.drop 1).toString).splitOn "," with
      | [mn, mx, g] => do
        let mn ← mn.toNat?
        let mx ← (if mx == "i" then some none else mx.toNat?.map some)
        let (x, ts) ← parseTok f ts
        pure (.rep x mn mx (g == "g"), ts)
      | _ => none
    else none

def parse (s : String) : Option Rx :=
  let toks := s.splitOn "_"
  match parseTok (toks.length + 1) toks with
  | some (r, []) => some r
  | _ => none

end Scrapli.Rx
