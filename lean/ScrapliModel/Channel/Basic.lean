import ScrapliModel.Bytes
/-
  Byte-level helpers of the channel model: CPython `bytes` methods used by
  scrapli/channel/{base,sync,async}_channel.py, written as total list functions.
-/
namespace Scrapli.Chan
open Scrapli

def NL : UInt8 := 10
def CR : UInt8 := 13
def ESC : UInt8 := 27
def BS : UInt8 := 8

/-- ASCII whitespace as understood by `bytes.split()`, `bytes.strip()`, and `\s` in a bytes pattern -/
def isWs (c : UInt8) : Bool := c == 32 || c == 9 || c == 10 || c == 13 || c == 11 || c == 12

/-- `bytes.lower()` on one byte -/
def lowerByte (c : UInt8) : UInt8 := if 65 ≤ c && c ≤ 90 then c + 32 else c

/-- `buf.replace(b"\r", b"")` -/
def stripCR (b : Bytes) : Bytes := b.filter (· != CR)

/-- `b"".join(x.lower().split())` -/
def squish (b : Bytes) : Bytes := (b.map lowerByte).filter (fun c => !isWs c)

/-- `b"".join(buf.lower().replace(b"\x08", b"").split())` -/
def squishBuf (b : Bytes) : Bytes := ((b.map lowerByte).filter (· != BS)).filter (fun c => !isWs c)

/-- `needle in hay` for bytes -/
def isInfixB : Bytes → Bytes → Bool
  | needle, [] => needle.isEmpty
  | needle, h :: t => needle.isPrefixOf (h :: t) || isInfixB needle t

/-- `b.split(b"\n")` — never empty -/
def splitNL : Bytes → List Bytes
  | [] => [[]]
  | c :: rest =>
    match splitNL rest with
    | [] => [[]]          -- unreachable
    | l :: ls => if c == NL then [] :: l :: ls else (c :: l) :: ls

def joinNL : List Bytes → Bytes
  | [] => []
  | [l] => l
  | l :: ls => l ++ NL :: joinNL ls

/-- `bytes.splitlines()` on CR-free input: like `split(b"\n")` but without the empty piece after a
    final newline, and `[]` for the empty string -/
def splitlines (b : Bytes) : List Bytes :=
  let ls := splitNL b
  if ls.getLast? == some [] then ls.dropLast else ls

/-- `bytes.rstrip()` -/
def rstrip (b : Bytes) : Bytes := (b.reverse.dropWhile isWs).reverse

/-- `bytes.lstrip(chars)` -/
def lstripChars (chars : Bytes) (b : Bytes) : Bytes := b.dropWhile (fun c => chars.contains c)

/-- `bytes.strip()` -/
def strip (b : Bytes) : Bytes := rstrip (b.dropWhile isWs)

/-- the last `d` bytes (`seek(-d, SEEK_END); read()` on a BytesIO: clamps at the start) -/
def takeLast (d : Nat) (b : Bytes) : Bytes := b.drop (b.length - d)

/-- `before, _, after = w.partition(b"\n")` -/
def partitionNL (w : Bytes) : Bytes × Bytes :=
  (w.takeWhile (· != NL), (w.dropWhile (· != NL)).drop 1)

/-- `_process_read_buf` (base_channel.py:327-354): last `d` bytes; drop the first (possibly cut)
    line unless nothing follows it -/
def processReadBuf (d : Nat) (b : Bytes) : Bytes :=
  let w := takeLast d b
  let (before, after) := partitionNL w
  if after.isEmpty then before else after

end Scrapli.Chan
