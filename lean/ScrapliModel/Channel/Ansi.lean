import ScrapliModel.Channel.Basic
/-
  `BaseChannel._strip_ansi`: re.sub(ANSI_ESCAPE_PATTERN, b"", buf) with

      \x1B(\s)?( ([78ME]) | ((\]\d).*?[\x07]) | (\[.*?[@-~]) | (\[.*?[0-9;]m) )

  (fix 3f4e39f: ESC is the only introducer; before it 0x9B / 0x9D, continuation bytes of UTF-8 text,
  were introducers too, but only in reads that also contained an ESC)

  written as a deterministic scanner.  Why this is the regex: alternatives are ordered and nothing
  follows the group, so the first alternative that can match wins; `.` does not match newline;
  `.*?X` stops at the FIRST `X` with no newline before it; the 4th alternative can only match where
  the 3rd already does (`m` ∈ [@-~]) so it is dead; after the optional whitespace byte no
  alternative can start with whitespace, so backtracking over `(\s)?` never succeeds.
  tools/gen/c01.py pins the pattern source text to the one quoted here; the scanner is
  differential-tested against CPython on ESC-rich random strings every run.
-/
namespace Scrapli.Chan
open Scrapli

def isAnsiStart (c : UInt8) : Bool := c == 0x1B
def isFinal (c : UInt8) : Bool := 0x40 ≤ c && c ≤ 0x7E      -- [@-~]
def isDigit (c : UInt8) : Bool := 48 ≤ c && c ≤ 57
def isCursor (c : UInt8) : Bool := c == 55 || c == 56 || c == 77 || c == 69   -- [78ME]

/-- length of the shortest prefix `x ++ [stop]` with no newline in `x` and `p stop`: `.*?[p]` -/
def lazyUntil (p : UInt8 → Bool) : Bytes → Option Nat
  | [] => none
  | c :: t => if p c then some 1 else if c == NL then none else (lazyUntil p t).map (· + 1)

/-- the alternatives after the optional whitespace; returns bytes consumed -/
def ansiBody : Bytes → Option Nat
  | [] => none
  | c :: t =>
    if isCursor c then some 1
    else if c == 93 then      -- `]`
      match t with
      | d :: t' => if isDigit d then (lazyUntil (· == 7) t').map (· + 2) else none
      | [] => none
    else if c == 91 then      -- `[`
      (lazyUntil isFinal t).map (· + 1)
    else none

/-- bytes consumed by a match starting right after the introducer byte -/
def ansiAfterStart : Bytes → Option Nat
  | [] => none
  | c :: t => if isWs c then (ansiBody t).map (· + 1) else ansiBody (c :: t)

/-- re.sub(ANSI_ESCAPE_PATTERN, b"", buf) -/
def stripAnsi : Bytes → Bytes
  | [] => []
  | c :: t =>
    if isAnsiStart c then
      match ansiAfterStart t with
      | some n => stripAnsi (t.drop n)
      | none => c :: stripAnsi t
    else c :: stripAnsi t
termination_by b => b.length
decreasing_by
  all_goals simp_wf
  all_goals first | omega | (simp [List.length_drop]; omega)

/-- one transport chunk cleaned on its own (no sequence cut by the chunk boundary): drop CR,
    strip escape sequences only if the chunk contains ESC -/
def chanRead (chunk : Bytes) : Bytes :=
  let b := stripCR chunk
  if b.contains ESC then stripAnsi b else b

/-! ### sequences cut by a read boundary (fix: `_strip_ansi_read`, base_channel.py)

      ANSI_ESCAPE_INCOMPLETE_PATTERN = \x1B(\s)?((\](\d[^\x07\n]*)?)|(\[[^@-~\n]*))?\Z

  searched (leftmost) in the STRIPPED buffer; what it matches is held back for the next read
  (at most 256 bytes). -/

/-- `[^…\n]*\Z`: no byte is a terminator or a newline -/
def noneStop (p : UInt8 → Bool) (b : Bytes) : Bool := b.all (fun c => !p c && c != NL)

/-- `((\](\d[^\x07\n]*)?)|(\[[^@-~\n]*))?\Z` -/
def incompleteBody : Bytes → Bool
  | [] => true
  | c :: t =>
    if c == 93 then
      match t with
      | [] => true
      | d :: t' => isDigit d && noneStop (· == 7) t'
    else if c == 91 then noneStop isFinal t
    else false

/-- the incomplete pattern matched right after an ESC byte (the optional whitespace byte cannot be
    given back: no alternative starts with whitespace) -/
def incompleteAfter : Bytes → Bool
  | [] => true
  | c :: t => if isWs c then incompleteBody t else incompleteBody (c :: t)

def heldMax : Nat := 256

/-- `re.search(ANSI_ESCAPE_INCOMPLETE_PATTERN, buf)`: (what is returned, what is held back) -/
def splitHeld : Bytes → Bytes × Bytes
  | [] => ([], [])
  | c :: t =>
    if c == ESC && incompleteAfter t then
      (if t.length + 1 ≤ heldMax then ([], c :: t) else (c :: t, []))
    else
      let r := splitHeld t
      (c :: r.1, r.2)

/-- `Channel.read()` applied to one transport chunk (sync_channel.py:55-81, `_strip_ansi_read`):
    drop CR, (log), put the held-back beginning of a sequence in front, strip only if there is an
    ESC, hold back a sequence cut by the end of the read.  Returns (output, held back). -/
def cleanBuf (b : Bytes) : Bytes × Bytes :=
  if b.contains ESC then splitHeld (stripAnsi b) else (b, [])

def chanReadH (held chunk : Bytes) : Bytes × Bytes := cleanBuf (held ++ stripCR chunk)

/-- the outputs of a series of reads and what is held back after them -/
def cleanPieces : Bytes → List Bytes → List Bytes × Bytes
  | h, [] => ([], h)
  | h, c :: cs =>
    let r := chanReadH h c
    let rs := cleanPieces r.2 cs
    (r.1 :: rs.1, rs.2)

end Scrapli.Chan
