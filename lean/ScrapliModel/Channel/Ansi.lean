import ScrapliModel.Channel.Basic
/-
  `BaseChannel._strip_ansi`: re.sub(ANSI_ESCAPE_PATTERN, b"", buf) with

      [\x1B\x9B\x9D](\s)?( ([78ME]) | ((\]\d).*?[\x07]) | (\[.*?[@-~]) | (\[.*?[0-9;]m) )

  written as a deterministic scanner.  Why this is the regex: alternatives are ordered and nothing
  follows the group, so the first alternative that can match wins; `.` does not match newline;
  `.*?X` stops at the FIRST `X` with no newline before it; the 4th alternative can only match where
  the 3rd already does (`m` ∈ [@-~]) so it is dead; after the optional whitespace byte no
  alternative can start with whitespace, so backtracking over `(\s)?` never succeeds.
  tools/gen/c01.py pins the pattern source text to the one quoted here; the scanner is
  differential-tested against CPython on ESC-rich random strings every run.
-/
namespace Scrapli.Chan
open Scrapli

def isAnsiStart (c : UInt8) : Bool := c == 0x1B || c == 0x9B || c == 0x9D
def isFinal (c : UInt8) : Bool := 0x40 ≤ c && c ≤ 0x7E      -- [@-~]
def isDigit (c : UInt8) : Bool := 48 ≤ c && c ≤ 57
def isCursor (c : UInt8) : Bool := c == 55 || c == 56 || c == 77 || c == 69   -- [78ME]

/-- length of the shortest prefix `x ++ [stop]` with no newline in `x` and `p stop`: `.*?[p]` -/
def lazyUntil (p : UInt8 → Bool) : Bytes → Option Nat
  | [] => none
  | c :: t => if p c then some 1 else if c == NL then none else (lazyUntil p t).map (· + 1)

/-- the alternatives after the optional whitespace; returns bytes consumed -/
def ansiBody : Bytes → Option Nat
  | [] => none
  | c :: t =>
    if isCursor c then some 1
    else if c == 93 then      -- `]`
      match t with
      | d :: t' => if isDigit d then (lazyUntil (· == 7) t').map (· + 2) else none
      | [] => none
    else if c == 91 then      -- `[`
      (lazyUntil isFinal t).map (· + 1)
    else none

/-- bytes consumed by a match starting right after the introducer byte -/
def ansiAfterStart : Bytes → Option Nat
  | [] => none
  | c :: t => if isWs c then (ansiBody t).map (· + 1) else ansiBody (c :: t)

/-- re.sub(ANSI_ESCAPE_PATTERN, b"", buf) -/
def stripAnsi : Bytes → Bytes
  | [] => []
  | c :: t =>
    if isAnsiStart c then
      match ansiAfterStart t with
      | some n => stripAnsi (t.drop n)
      | none => c :: stripAnsi t
    else c :: stripAnsi t
termination_by b => b.length
decreasing_by
  all_goals simp_wf
  all_goals first | omega | (simp [List.length_drop]; omega)

/-- `Channel.read()` applied to one transport chunk (sync_channel.py:55-82): drop CR, (log),
    strip escape sequences only if the chunk contains ESC -/
def chanRead (chunk : Bytes) : Bytes :=
  let b := stripCR chunk
  if b.contains ESC then stripAnsi b else b

end Scrapli.Chan
