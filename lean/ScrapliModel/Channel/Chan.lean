import ScrapliModel.Channel.Ansi
import ScrapliModel.Gen.ChanConsts
/-
  Model of the channel read/write logic:
    scrapli/channel/sync_channel.py  (and its textual twin async_channel.py)
      read 55-82 · _read_until_input 84-119 · _read_until_prompt 121-156 ·
      _read_until_explicit_prompt 158-197 · get_prompt 425-459 · send_input 461-516 ·
      send_inputs_interact 577-685
    scrapli/channel/base_channel.py  _process_read_buf 327-354 · _get_prompt_pattern · _process_output
    scrapli/helper.py  output_roughly_contains_input 325-376

  Regular-expression operations are PARAMETERS (`Pat`): the theorems assume only what they state
  about them; the driver instantiates them with the executable Rx model.
  The transport is a `Wire`: bytes the device has printed and not yet been read (`avail`), the
  sizes of the coming reads (`cuts`: every list = every segmentation), and the writes so far.
-/
namespace Scrapli.Chan
open Scrapli

/-- a compiled pattern, as far as the channel uses it -/
structure Pat where
  search : Bytes → Bool              -- re.search(p, s) is not None
  first : Bytes → Option Bytes       -- re.search(p, s).group(0)
  sub : Bytes → Bytes                -- re.sub(p, b"", s)

structure Cfg where
  prompt : Pat                       -- compiled comms_prompt_pattern (re.M | re.I)
  compile : Bytes → Pat              -- re.compile(x, re.M | re.I) for explicit `^…$` prompts
  depth : Nat                        -- comms_prompt_search_depth
  ret : Bytes                        -- comms_return_char
  rough : Bool                       -- comms_roughly_match_inputs

/-! ### the wire -/

structure Wire where
  avail : Bytes := []
  cuts : List Nat := []
  writes : List Bytes := []
  held : Bytes := []          -- `_ansi_held`: read from the transport, not yet returned by `read()`
deriving Repr

/-- one `Channel.read()`: a transport read of `max 1 (min k |avail|)` bytes (all of it when the cut
    list is used up), cleaned by `chanReadH`.  `none` = nothing to read: the call would block. -/
def Wire.read (w : Wire) : Option (Bytes × Wire) :=
  if w.avail.isEmpty then none else
  match w.cuts with
  | [] =>
    let r := chanReadH w.held w.avail
    some (r.1, { w with avail := [], held := r.2 })
  | k :: ks =>
    let n := max 1 k
    let r := chanReadH w.held (w.avail.take n)
    some (r.1, { w with avail := w.avail.drop n, cuts := ks, held := r.2 })

/-- `open()` on the same channel object after its transport was closed -- by `close()`, or by the handler of a timeout, which
    closes the TRANSPORT only: a new session on a new transport (`avail`, `cuts`), nothing written in it yet.  Whether the held-back
    beginning of an escape sequence of the OLD session is dropped is what the translator measured on the live channel classes
    (`Gen.Chan.openDropsHeld`). -/
def Wire.reopen (w : Wire) (avail : Bytes) (cuts : List Nat) : Wire :=
  { avail := avail, cuts := cuts, writes := [],
    held := if Scrapli.Gen.Chan.openDropsHeld == some false then w.held else [] }

/-- the chunks a sequence of reads would return (raw, before cleaning) -/
def piecesOf : Bytes → List Nat → List Bytes
  | [], _ => []
  | a :: av, [] => [a :: av]
  | a :: av, k :: ks => (a :: av).take (max 1 k) :: piecesOf ((a :: av).drop (max 1 k)) ks

/-! ### read loops over a list of cleaned pieces (the mathematical core) -/

/-- generic `while True: buf += read(); if stop(buf): return buf` over the pieces to come.
    Returns the buffer and the number of pieces consumed; `none` = pieces used up (would block). -/
def readLoop (stop : Bytes → Bool) : Bytes → List Bytes → Option (Bytes × Nat)
  | _, [] => none
  | acc, c :: cs =>
    let acc' := acc ++ c
    if stop acc' then some (acc', 1)
    else (readLoop stop acc' cs).map (fun r => (r.1, r.2 + 1))

/-- helper.py:355-376 -/
def roughIter (ch : UInt8) : Bytes → Option Bytes
  | [] => none
  | o :: rest => if ch == o then some rest else roughIter ch rest

def roughAll : Bytes → Bytes → Bool
  | [], _ => true
  | ch :: inp, out =>
    match roughIter ch out with
    | some rest => roughAll inp rest
    | none => false

/-- helper.py:325-352 `output_roughly_contains_input(input_, output)` -/
def roughlyContains (inp out : Bytes) : Bool :=
  if isInfixB inp out then true
  else if out.length < inp.length then false
  else roughAll inp out

/-- the stop test of `_read_until_input` for one buffer value -/
def inputSeen (rough : Bool) (input buf : Bytes) : Bool :=
  if !rough then isInfixB (squish input) (squishBuf buf)
  else roughlyContains (squish input) (buf.map lowerByte)      -- `output=buf.lower()` (fix f3f6abb)

/-- the stop test of `_read_until_prompt` -/
def promptSeen (p : Pat) (d : Nat) (buf : Bytes) : Bool := p.search (processReadBuf d buf)

/-- `_get_prompt_pattern(class_pattern, pattern)` for an explicit prompt: `^…$` ⇒ regex (M|I),
    otherwise a literal substring test -/
def explicitSeen (cfg : Cfg) (prompt : Bytes) (s : Bytes) : Bool :=
  if prompt.isEmpty then cfg.prompt.search s
  else if prompt.head? == some 94 && prompt.getLast? == some 36 then (cfg.compile prompt).search s
  else isInfixB prompt s

/-- the stop test of `_read_until_explicit_prompt` -/
def explicitAnySeen (cfg : Cfg) (prompts : List Bytes) (buf : Bytes) : Bool :=
  prompts.any (fun p => explicitSeen cfg p (processReadBuf cfg.depth buf))

/-! ### the same loops on the wire -/

def Wire.write (dev : σ → Bytes → σ × Bytes) (s : Wire × σ) (b : Bytes) : Wire × σ :=
  let (d', out) := dev s.2 b
  ({ s.1 with avail := s.1.avail ++ out, writes := s.1.writes ++ [b] }, d')

/-- run a read loop on the wire; the wire afterwards has lost exactly the pieces consumed -/
def Wire.readUntil (stop : Bytes → Bool) (w : Wire) : Option (Bytes × Wire) :=
  let ps := piecesOf w.avail w.cuts
  match readLoop stop [] (cleanPieces w.held ps).1 with
  | none => none
  | some (buf, k) =>
    some (buf, { w with avail := (ps.drop k).flatten, cuts := w.cuts.drop k,
                        held := (cleanPieces w.held (ps.take k)).2 })

/-! ### output processing -/

/-- `_process_output` (base_channel.py) -/
def processOutput (cfg : Cfg) (buf : Bytes) (stripPrompt : Bool) : Bytes :=
  let b1 := joinNL ((splitlines buf).map rstrip)
  let b2 := if stripPrompt then cfg.prompt.sub b1 else b1
  rstrip (lstripChars cfg.ret b2)

/-! ### channel operations; `none` = the operation would block forever (ends in a timeout) -/

/-- `get_prompt` (sync_channel.py:425-459): send return; search the WHOLE buffer after every read -/
def getPrompt (cfg : Cfg) (dev : σ → Bytes → σ × Bytes) (s : Wire × σ) : Option (Bytes × (Wire × σ)) :=
  let s1 := Wire.write dev s cfg.ret
  match Wire.readUntil cfg.prompt.search s1.1 with
  | none => none
  | some (buf, w) =>
    match cfg.prompt.first buf with
    | none => none
    | some m => some (strip m, (w, s1.2))

/-- `send_input` (461-516) -/
def sendInput (cfg : Cfg) (dev : σ → Bytes → σ × Bytes) (input : Bytes) (stripPrompt eager eagerInput : Bool)
    (s : Wire × σ) : Option ((Bytes × Bytes) × (Wire × σ)) :=
  let s1 := Wire.write dev s input
  let afterEcho : Option Wire :=
    if eagerInput || input.isEmpty then some s1.1
    else (Wire.readUntil (inputSeen cfg.rough input) s1.1).map (·.2)
  match afterEcho with
  | none => none
  | some w1 =>
    let s2 := Wire.write dev (w1, s1.2) cfg.ret
    if eager then some (([], processOutput cfg [] stripPrompt), s2)
    else
      match Wire.readUntil (promptSeen cfg.prompt cfg.depth) s2.1 with
      | none => none
      | some (buf, w2) => some ((buf, processOutput cfg buf stripPrompt), (w2, s2.2))

/-! ### the timed read loop (`_read_until_prompt_or_time`, sync_channel.py:200-268 and its async twin)

  One iteration = one `read()` that either returns a (cleaned) piece or raises `ScrapliTimeout`, which the
  loop suppresses (nothing is appended, the buffer is searched again), then the clock test
  `time.time() - start > read_duration`, then the three stop tests on the search window.  The environment
  supplies, besides the pieces, a *pause pattern* (which iterations time out) and a *clock*
  (`some n` = the duration is found exceeded in the iteration after `n` more; `none` = never). -/

/-- the two expected-output tests of one iteration: a literal expected output in the search window, or the
    compiled `_join_and_compile(outputs)` pattern (`outPat`) finds something there -/
def outsSeen (cfg : Cfg) (outs : List Bytes) (outPat : Pat) (buf : Bytes) : Bool :=
  let sb := processReadBuf cfg.depth buf
  outs.any (fun o => isInfixB o sb) || outPat.search sb

/-- the stop tests of one iteration: the expected outputs, then the class prompt pattern -/
def timedStop (cfg : Cfg) (outs : List Bytes) (outPat : Pat) (buf : Bytes) : Bool :=
  outsSeen cfg outs outPat buf || promptSeen cfg.prompt cfg.depth buf

/-- `while True:` over the events to come; returns the buffer and the number of PIECES consumed
    (pauses consume nothing); `none` = events used up (the loop would go on waiting) -/
def timedLoop (stop : Bytes → Bool) : Bytes → List (Option Bytes) → Option Nat → Option (Bytes × Nat)
  | _, [], _ => none
  | acc, e :: es, clock =>
    let acc' := match e with | some c => acc ++ c | none => acc
    let n := match e with | some _ => 1 | none => 0
    if clock == some 0 then some (acc', n)
    else if stop acc' then some (acc', n)
    else (timedLoop stop acc' es (clock.map (· - 1))).map (fun r => (r.1, r.2 + n))

/-- the events of a call: the pieces in order, the iterations marked `true` in the pause pattern time out
    instead of reading.  Pauses after the last piece are dropped (the loop would go on waiting). -/
def weave : List Bytes → List Bool → List (Option Bytes)
  | ps, [] => ps.map some
  | [], _ :: _ => []
  | p :: ps, true :: bs => none :: weave (p :: ps) bs
  | p :: ps, false :: bs => some p :: weave ps bs

/-- the timed loop on the wire (a pause leaves the wire, also what is held back, untouched) -/
def Wire.readUntilTimed (stop : Bytes → Bool) (pauses : List Bool) (clock : Option Nat) (w : Wire) :
    Option (Bytes × Wire) :=
  let ps := piecesOf w.avail w.cuts
  match timedLoop stop [] (weave (cleanPieces w.held ps).1 pauses) clock with
  | none => none
  | some (buf, k) =>
    some (buf, { w with avail := (ps.drop k).flatten, cuts := w.cuts.drop k,
                        held := (cleanPieces w.held (ps.take k)).2 })

/-- `send_input_and_read` (sync_channel.py:527-583): write, echo read, return, timed read, process -/
def sendInputAndRead (cfg : Cfg) (dev : σ → Bytes → σ × Bytes) (input : Bytes) (stripPrompt : Bool)
    (outs : List Bytes) (outPat : Pat) (pauses : List Bool) (clock : Option Nat)
    (s : Wire × σ) : Option ((Bytes × Bytes) × (Wire × σ)) :=
  let s1 := Wire.write dev s input
  match (if input.isEmpty then some s1.1
         else (Wire.readUntil (inputSeen cfg.rough input) s1.1).map (·.2)) with
  | none => none
  | some w1 =>
    let s2 := Wire.write dev (w1, s1.2) cfg.ret
    match Wire.readUntilTimed (timedStop cfg outs outPat) pauses clock s2.1 with
    | none => none
    | some (buf, w2) => some ((buf, processOutput cfg buf stripPrompt), (w2, s2.2))

/-- `_interaction_complete` (base_channel.py): the read of one event ended on one of the
    interaction complete patterns rather than on the response expected for that event -/
def interactionComplete (cfg : Cfg) (resp : Bytes) (complete : List Bytes) (b : Bytes) : Bool :=
  if complete.isEmpty then false
  else
    let sb := processReadBuf cfg.depth b
    if explicitSeen cfg resp sb then false
    else complete.any (fun p => explicitSeen cfg p sb)

/-- one event of `send_inputs_interact`: (input, expected prompt, hidden); the Bool says that the
    interactive session is over (no further inputs are to be sent) -/
def interactEvent (cfg : Cfg) (dev : σ → Bytes → σ × Bytes) (complete : List Bytes)
    (ev : Bytes × Bytes × Bool) (acc : Bytes) (s : Wire × σ) : Option (Bytes × (Wire × σ) × Bool) :=
  let (input, resp, hidden) := ev
  let s1 := Wire.write dev s input
  let r1 : Option (Bytes × Wire) :=
    if !resp.isEmpty && !hidden && !input.isEmpty then Wire.readUntil (inputSeen cfg.rough input) s1.1
    else some ([], s1.1)
  match r1 with
  | none => none
  | some (b1, w1) =>
    let s2 := Wire.write dev (w1, s1.2) cfg.ret
    match Wire.readUntil (explicitAnySeen cfg (resp :: complete)) s2.1 with
    | none => none
    | some (b2, w2) => some (acc ++ b1 ++ b2, (w2, s2.2), interactionComplete cfg resp complete b2)

def interactLoop (cfg : Cfg) (dev : σ → Bytes → σ × Bytes) (complete : List Bytes) :
    List (Bytes × Bytes × Bool) → Bytes → (Wire × σ) → Option (Bytes × (Wire × σ))
  | [], acc, s => some (acc, s)
  | ev :: evs, acc, s =>
    match interactEvent cfg dev complete ev acc s with
    | none => none
    | some (acc', s', done) => if done then some (acc', s') else interactLoop cfg dev complete evs acc' s'

/-- `send_inputs_interact` (577-690); the accumulated buffer is `lstrip()`ped before processing
    (fix 4c94c83: blanks left unread by the previous operation are not part of the interaction) -/
def sendInputsInteract (cfg : Cfg) (dev : σ → Bytes → σ × Bytes) (events : List (Bytes × Bytes × Bool))
    (complete : List Bytes) (s : Wire × σ) : Option ((Bytes × Bytes) × (Wire × σ)) :=
  match interactLoop cfg dev complete events [] s with
  | none => none
  | some (buf, s') => some ((buf, processOutput cfg (buf.dropWhile isWs) false), s')

end Scrapli.Chan
