import ScrapliModel.SSHConfigTypes
import ScrapliModel.Gen.SSHConfigConsts
/-
  Model of scrapli/ssh_config.py AFTER text parsing:
    SSHConfig.__init__ (dict insertion, default `*`), `_merge_hosts`, `_lookup_fuzzy_match`, `lookup`,
    SSHKnownHosts._parse (per-line dict insertion) and SSHKnownHosts.lookup.
  Input of the model = the sequence of `Host` objects the parse loop (ssh_config.py:209-239) produces,
  in file order (`parsed`), resp. the (host field, key type, public key) triples of known_hosts.
  The regex based text parser itself is NOT modelled (tied by differential testing only).
  Constants (HOST_ATTRS, defaults, wildcard characters, `*` key, hashed-entry syntax) are generated.
  Core Lean only; executable (Drv/C16.lean).

  `mc` (first parameter of most functions) = the pattern characters that reach `re.compile` with a
  regex meaning of their own (generated: `regexMeta`; `[]` once every literal goes through re.escape).
  A pattern containing one of them is outside what the model can say anything about — the real code
  raises `re.error` for `a[b` and matches something else than the text for `a+b` — and is modelled as
  the error outcome `badRegex`.
-/
namespace Scrapli.SSHConfig
open Scrapli.Gen.SSHConfig

/-- the ways the modelled code can raise -/
inductive Err where
  | keyError     -- dict[...] on a missing key
  | badRegex     -- re.compile on a pattern with a regex metacharacter (see above)
  | valueError   -- tuple unpacking of `host_id.split("|")` / base64 decoding in SSHKnownHosts.lookup
  | noFuel       -- the `while True` loop of _merge_hosts did not stop within the fuel given
deriving Repr, DecidableEq

/-- a `Host` object (ssh_config.py:354-372): `hosts`, `hostname`, and the HOST_ATTRS in order -/
structure Entry where
  hosts : Str
  hostname : Val
  attrs : List Val
deriving Repr, DecidableEq

/-- `not getattr(obj, attr)` is `!truthy` -/
def Val.truthy : Val → Bool
  | .none => false
  | .str s => !s.isEmpty
  | .int n => n != 0

/-! ### Python dict with insertion order: association list, first insertion fixes the position -/

abbrev Dict (α : Type) := List (Str × α)

namespace Dict
variable {α : Type}

def keys (d : Dict α) : List Str := d.map (·.1)

def get? (d : Dict α) (k : Str) : Option α := List.lookup k d

/-- `d[k] = v` -/
def set : Dict α → Str → α → Dict α
  | [], k, v => [(k, v)]
  | (k', v') :: r, k, v => if k' == k then (k, v) :: r else (k', v') :: set r k v

/-- `d[k]` -/
def getE (d : Dict α) (k : Str) : Except Err α :=
  match d.get? k with
  | some v => .ok v
  | none => .error .keyError

end Dict

/-! ### str.split() / str.split(sep) -/

/-- `str.isspace` per character -/
def isSpace (c : Char) : Bool :=
  let n := c.toNat
  n == 32 || (9 ≤ n && n ≤ 13) || (28 ≤ n && n ≤ 31) || n == 0x85 || n == 0xa0 || n == 0x1680 ||
  (0x2000 ≤ n && n ≤ 0x200a) || n == 0x2028 || n == 0x2029 || n == 0x202f || n == 0x205f || n == 0x3000

def splitWsAux : Str → Str → List Str
  | [], cur => if cur.isEmpty then [] else [cur]
  | c :: cs, cur =>
    if isSpace c then (if cur.isEmpty then splitWsAux cs [] else cur :: splitWsAux cs [])
    else splitWsAux cs (cur ++ [c])

/-- `s.split()` -/
def splitWs (s : Str) : List Str := splitWsAux s []

def splitOnAux (sep : Char) : Str → Str → List Str
  | [], cur => [cur]
  | c :: cs, cur => if c == sep then cur :: splitOnAux sep cs [] else splitOnAux sep cs (cur ++ [c])

/-- `s.split(sep)` for a one-character separator -/
def splitOn (sep : Char) (s : Str) : List Str := splitOnAux sep s []

/-! ### `_lookup_fuzzy_match` (ssh_config.py:269-325) -/

/-- ssh_config.py:297-299: the chain of `.replace` calls, character by character -/
def tokOf (c : Char) : Tok :=
  if c == wildMany then .many else if c == wildOne then .one else .lit c

def toks (p : Str) : List Tok := p.map tokOf

def lower (c : Char) : Char :=
  if 65 ≤ c.toNat ∧ c.toNat ≤ 90 then Char.ofNat (c.toNat + 32) else c

/-- literal comparison under `flags=re.I` (ASCII) -/
def ceq (a b : Char) : Bool := lower a == lower b

/-- what `.` matches (no DOTALL) -/
def dot (c : Char) : Bool := c != '\n'

/-- greedy `(.*)` followed by the continuation `k`, with backtracking: longest first.
    The result is the number of characters captured by groups in the match found. -/
def starK (k : Str → Option Nat) : Str → Option Nat
  | [] => k []
  | x :: xs =>
    if dot x then
      match starK k xs with
      | some r => some (r + 1)
      | none => k (x :: xs)
    else k (x :: xs)

/-- the backtracking matcher anchored at the start of `s` (not at its end): `some n` = the first
    match in priority order exists and its groups capture `n` characters in total
    (`sum(end - start for start, end in match.regs[1:])`, ssh_config.py:313-315) -/
def matchAt : List Tok → Str → Option Nat
  | [], _ => some 0
  | .lit c :: ts, s =>
    match s with
    | [] => none
    | x :: xs => if ceq c x then matchAt ts xs else none
  | .one :: ts, s =>
    match s with
    | [] => none
    | x :: xs => if dot x then (matchAt ts xs).map (· + 1) else none
  | .many :: ts, s => starK (matchAt ts) s

/-- `re.search`: the leftmost start position that matches wins -/
def search (ts : List Tok) : Str → Option Nat
  | [] => matchAt ts []
  | x :: xs =>
    match matchAt ts (x :: xs) with
    | some r => some r
    | none => search ts xs

def badPat (mc : List Char) (p : Str) : Bool := p.any (mc.contains ·)

/-- ssh_config.py:290-305 `possible_matches` as (chars captured, host_entry), in iteration order -/
def hits (name : Str) (keys : List Str) : List (Nat × Str) :=
  keys.flatMap fun k => (splitWs k).filterMap fun p => (search (toks p) name).map (·, k)

/-- ssh_config.py:308-324: first strict minimum -/
def firstMin (l : List (Nat × Str)) : Option (Nat × Str) :=
  l.foldl (fun cur m =>
    match cur with
    | none => some m
    | some c => if m.1 < c.1 then some m else some c) none

def anyBad (mc : List Char) (keys : List Str) : Bool :=
  keys.any fun k => (splitWs k).any (badPat mc)

/-- `_lookup_fuzzy_match(host=name, hosts=<dict with these keys>)` -/
def fuzzy (mc : List Char) (name : Str) (keys : List Str) : Except Err Str :=
  if anyBad mc keys then .error .badRegex
  else .ok (match firstMin (hits name keys) with
            | some m => m.2
            | none => starKey)

/-! ### `_merge_hosts` (ssh_config.py:242-267) -/

/-- the `for attr in HOST_ATTRS: if not getattr(own, attr): setattr(own, attr, getattr(other, attr))`
    loop on the two attribute lists -/
def mergeAttrs : List Val → List Val → List Val
  | [], _ => []
  | a :: as, [] => a :: as
  | a :: as, b :: bs => (if a.truthy then a else b) :: mergeAttrs as bs

/-- the `while True` loop for one `host`; `cur` = keys of `_current_hosts`; `d` = `self.hosts` -/
def inheritLoop (mc : List Char) (h : Str) : Nat → Dict Entry → List Str → Except Err (Dict Entry)
  | 0, _, _ => .error .noFuel
  | n + 1, d, cur => do
    -- `hosts = hosts or self.hosts` (an empty `_current_hosts` is falsy)
    let fm ← fuzzy mc h (if cur.isEmpty then d.keys else cur)
    let eh ← d.getE h
    let ef ← d.getE fm
    let d' := d.set h { eh with attrs := mergeAttrs eh.attrs ef.attrs }
    -- `_current_hosts.pop(fuzzy_match)`; KeyError -> break
    if cur.contains fm then inheritLoop mc h n d' (cur.erase fm) else .ok d'

def mergeStep (mc : List Char) (acc : Dict Entry) (h : Str) : Except Err (Dict Entry) :=
  inheritLoop mc h (acc.keys.length + 1) acc acc.keys

/-- `for host in self.hosts: _current_hosts = deepcopy(self.hosts); while True: ...` -/
def mergeHosts (mc : List Char) (d : Dict Entry) : Except Err (Dict Entry) :=
  d.keys.foldlM (mergeStep mc) d

/-! ### `SSHConfig.__init__` after `_parse` (ssh_config.py:82-95, 239) and `lookup` (327-351) -/

def defaultEntry : Entry := { hosts := hostsDefault, hostname := hostnameDefault, attrs := attrDefaults }

/-- `discovered_hosts[host.hosts] = host` for every parsed entry, in file order -/
def insertAll (parsed : List Entry) : Dict Entry := parsed.foldl (fun d e => d.set e.hosts e) []

/-- `if "*" not in self.hosts: self.hosts["*"] = Host(); self.hosts["*"].hosts = "*"` -/
def withStar (d : Dict Entry) : Dict Entry :=
  if d.keys.contains starKey then d else d.set starKey { defaultEntry with hosts := starKey }

def build (mc : List Char) (parsed : List Entry) : Except Err (Dict Entry) :=
  mergeHosts mc (withStar (insertAll parsed))

def lookup (mc : List Char) (d : Dict Entry) (name : Str) : Except Err Entry :=
  match d.get? name with
  | some e => .ok e                                               -- `if host in self.hosts`
  | none =>
    match d.find? (fun ke => (splitWs ke.1).contains name) with  -- `if host in host_list`
    | some ke => .ok ke.2
    | none => do
      let fm ← fuzzy mc name d.keys
      d.getE fm

/-- `SSHConfig(file).lookup(name)` where `file` parses to `parsed` -/
def lookupCfg (mc : List Char) (parsed : List Entry) (name : Str) : Except Err Entry := do
  let d ← build mc parsed
  lookup mc d name

/-! ### SSHKnownHosts (ssh_config.py:444-501) -/

structure KHLine where
  host : Str            -- first field (may be a comma separated list or a hashed id)
  val : Str × Str       -- (key_type, public_key)
deriving Repr, DecidableEq

/-- `for individual_host in host.split(","): known_hosts[individual_host] = {...}` -/
def khBuild (lines : List KHLine) : Dict (Str × Str) :=
  lines.foldl (fun d l => (splitOn listSep l.host).foldl (fun d h => d.set h l.val) d) []

/-- the loop over `self.hosts.items()` of `lookup`.  `hm salt hash name` abstracts
    `hmac.HMAC(b64decode(salt), name.encode(), "sha1").digest() == b64decode(hash)`:
    `none` = base64 decoding raises. -/
def khScan (hm : Str → Str → Str → Option Bool) (name : Str) :
    Dict (Str × Str) → Except Err (Option (Str × Str))
  | [] => .ok none
  | (k, v) :: r =>
    if hashedPrefix.isPrefixOf k then
      match splitOn hashSep k with
      | [_, _, salt, hash] =>
        match hm salt hash name with
        | none => .error .valueError
        | some true => .ok (some v)
        | some false => khScan hm name r
      | _ => .error .valueError
    else khScan hm name r

def khLookup (hm : Str → Str → Str → Option Bool) (d : Dict (Str × Str)) (name : Str) :
    Except Err (Option (Str × Str)) :=
  match d.get? name with
  | some v => .ok (some v)
  | none => khScan hm name d

/-! ### objects and lookup HISTORIES

  `SSHConfig.lookup` / `_lookup_fuzzy_match` and `SSHKnownHosts.lookup` store nothing on `self`, on the
  class or in module globals (generated: `cfgLookupWrites = []`, `khLookupWrites = []` — every store on
  the call graph below `lookup`, found in the AST).  A lookup is therefore a step that hands the object
  back unchanged; a history of lookups on ONE object is the fold of that step. -/

/-- one `SSHKnownHosts.lookup` call on the object whose `self.hosts` is `d`: (object afterwards, answer) -/
def khStep (hm : Str → Str → Str → Option Bool) (d : Dict (Str × Str)) (name : Str) :
    Dict (Str × Str) × Except Err (Option (Str × Str)) :=
  (d, khLookup hm d name)

/-- successive lookups on one SSHKnownHosts object -/
def khHistory (hm : Str → Str → Str → Option Bool) (d : Dict (Str × Str)) (names : List Str) :
    Dict (Str × Str) × List (Except Err (Option (Str × Str))) :=
  names.foldl (fun acc n => let s := khStep hm acc.1 n; (s.1, acc.2 ++ [s.2])) (d, [])

/-- one `SSHConfig.lookup` call on the object whose `self.hosts` is `d` -/
def cfgStep (mc : List Char) (d : Dict Entry) (name : Str) : Dict Entry × Except Err Entry :=
  (d, lookup mc d name)

/-- successive lookups on one SSHConfig object -/
def cfgHistory (mc : List Char) (d : Dict Entry) (names : List Str) :
    Dict Entry × List (Except Err Entry) :=
  names.foldl (fun acc n => let s := cfgStep mc acc.1 n; (s.1, acc.2 ++ [s.2])) (d, [])

/-- the same steps made DEPENDENT on the generated store lists: if the lookup path stored anything that outlives the
    call (`writes ≠ []`), the object afterwards is unknown (`havoc`, an arbitrary function) -/
def cfgStepW (writes : List String) (havoc : Dict Entry → Str → Dict Entry) (mc : List Char) (d : Dict Entry)
    (name : Str) : Dict Entry × Except Err Entry :=
  (if writes.isEmpty then d else havoc d name, lookup mc d name)

def cfgHistoryW (writes : List String) (havoc : Dict Entry → Str → Dict Entry) (mc : List Char) (d : Dict Entry)
    (names : List Str) : Dict Entry × List (Except Err Entry) :=
  names.foldl (fun acc n => let s := cfgStepW writes havoc mc acc.1 n; (s.1, acc.2 ++ [s.2])) (d, [])

def khStepW (writes : List String) (havoc : Dict (Str × Str) → Str → Dict (Str × Str))
    (hm : Str → Str → Str → Option Bool) (d : Dict (Str × Str)) (name : Str) :
    Dict (Str × Str) × Except Err (Option (Str × Str)) :=
  (if writes.isEmpty then d else havoc d name, khLookup hm d name)

def khHistoryW (writes : List String) (havoc : Dict (Str × Str) → Str → Dict (Str × Str))
    (hm : Str → Str → Str → Option Bool) (d : Dict (Str × Str)) (names : List Str) :
    Dict (Str × Str) × List (Except Err (Option (Str × Str))) :=
  names.foldl (fun acc n => let s := khStepW writes havoc hm acc.1 n; (s.1, acc.2 ++ [s.2])) (d, [])

/-- `ssh_config_factory(path)` (ssh_config.py:526-533): `cache` = `SSHConfig._config_files`,
    `parsed` = what the file at `path` parses to at the time of the call -/
def factory (mc : List Char) (cache : Dict (Dict Entry)) (path : Str) (parsed : List Entry) :
    Except Err (Dict (Dict Entry) × Dict Entry) :=
  match cache.get? path with
  | some d => .ok (cache, d)
  | none => do
    let d ← build mc parsed
    .ok (cache.set path d, d)

end Scrapli.SSHConfig
