import ScrapliModel.Bytes
import ScrapliModel.LogTypes
import ScrapliModel.Gen.LogConsts
/-
  Model of scrapli/logging.py (ScrapliFormatter, ScrapliFileHandler, get_instance_logger,
  enable_basic_logging) and of the channel log writes in scrapli/channel/{sync,async}_channel.py
  `read()` / base_channel.py `open()`, `close()`, `write()`.

  Python `str` = `List Char` (code points), `bytes` = `List UInt8`.  A Python exception is a value
  of `PyErr` in `Except`; reading an attribute that a record does not have is `attr none`.

  Line numbers refer to /repo at 759456d.  `Variant` has one flag per C20 fix (fixes/C20-*.patch =
  commits 58f1a8a, 93127cf, f3dbcd6), so that the same definitions are also the model of the tree
  before each fix: `Variant.fixed` is the code that exists and that the full theorems are about,
  `Variant.legacy` is /repo at 8ae1258 and is refuted by the stored witnesses (ScrapliProps/C20.lean).
-/
namespace Scrapli.Log
open Scrapli Scrapli.Gen.Log

/-! ## CPython pieces the code relies on (modelled, not verified: trusted base) -/

inductive PyErr where
  | attributeError   -- `record.port` on a record without that attribute
  | typeError        -- `msg % args`: not enough arguments / not all arguments converted
  | valueError       -- `msg % args`: unsupported or incomplete format directive
  | scrapliException -- raised by emit_buffered with an empty buffer
  | unicodeEncodeError -- `stream.write(text)`: a character the file's encoding cannot encode
deriving Repr, DecidableEq

/-- one element of `record.args`; the model keeps CPython's own renderings of the object -/
structure Arg where
  r : Str   -- repr(obj)
  s : Str   -- str(obj)
deriving Repr, DecidableEq

/-- `template % args` for a tuple `args`, restricted to the directives `%r`, `%s`, `%%`
    (anything else is reported as an error) -/
def pyFormat : Str → List Arg → Except PyErr Str
  | [], [] => .ok []
  | [], _ :: _ => .error .typeError                       -- not all arguments converted
  | c :: t, as =>
    if c != '%' then (pyFormat t as).map (c :: ·)
    else match t with
      | [] => .error .valueError                            -- incomplete format
      | d :: t' =>
        if d == '%' then (pyFormat t' as).map ('%' :: ·)
        else if d == 'r' || d == 's' then
          match as with
          | [] => .error .typeError                         -- not enough arguments
          | a :: as' => (pyFormat t' as').map ((if d == 'r' then a.r else a.s) ++ ·)
        else .error .valueError                             -- unsupported format character

/-- UTF-8 (`str.encode()`) -/
def encode (s : Str) : Bytes := s.flatMap String.utf8EncodeChar

def hexDigit (n : Nat) : Char := Hex.digit n

/-- how `repr(bytes)` renders one byte inside quotes `q` (Objects/bytesobject.c, PyBytes_Repr) -/
def escByte (q : Char) (b : UInt8) : Str :=
  if b.toNat == q.toNat || b == 92 then ['\\', Char.ofNat b.toNat]
  else if b == 9 then ['\\', 't']
  else if b == 10 then ['\\', 'n']
  else if b == 13 then ['\\', 'r']
  else if b < 32 || b ≥ 127 then ['\\', 'x', hexDigit (b.toNat / 16), hexDigit (b.toNat % 16)]
  else [Char.ofNat b.toNat]

/-- `repr(b)` for a bytes object: double quotes only when the value has a `'` and no `"` -/
def reprBytes (b : Bytes) : Str :=
  let q : Char := if b.contains 39 && !b.contains 34 then '"' else '\''
  'b' :: q :: (b.flatMap (escByte q) ++ [q])

/-- `format(s, "<fill><width>")` -/
def pad (fill : Char) (w : Nat) (s : Str) : Str := s ++ List.replicate (w - s.length) fill

def natStr (n : Nat) : Str := (toString n).toList

/-! ## Log records -/

/-- a `logging.LogRecord` as far as scrapli's formatter and handler look at it.  `host`, `port`,
    `uid` are the optional attributes set from the LoggerAdapter's `extra` -/
structure Rec where
  msg : Str                       -- record.msg (the template)
  args : List Arg := []           -- record.args (`None` and `()` are both `[]`)
  levelname : Str := []
  asctime : Str := []             -- what Formatter.formatTime returns for the record
  module : Str := []
  funcName : Str := []
  lineno : Nat := 0
  host : Option Str := none
  port : Option Str := none
  uid : Option Str := none
deriving Repr, DecidableEq

/-- `LogRecord.getMessage()`: `msg = str(self.msg); if self.args: msg = msg % self.args` -/
def getMessage (r : Rec) : Except PyErr Str :=
  if r.args.isEmpty then .ok r.msg else pyFormat r.msg r.args

/-- which of the three fixes the tree has (one flag per patch in /verif/fixes) -/
structure Variant where
  lazyAware : Bool      -- C20-lazy-read-records: payload from getMessage(), args dropped when coalescing
  flushOnClose : Bool   -- C20-flush-on-close: close() emits the buffered record
  portDefault : Bool    -- C20-formatter-port: host without port is formatted instead of raising
  asciiStream : Bool    -- ENVIRONMENT and code: the log file was opened with an encoding that cannot
                        -- encode every character — modelled instance: ASCII, i.e. no `encoding=` passed
                        -- by enable_basic_logging (before C20-log-file-utf8) AND a non-UTF-8 locale
                        -- (LC_ALL=C without UTF-8 mode).  false = the stream is UTF-8.
deriving Repr, DecidableEq

def Variant.fixed : Variant := ⟨true, true, true, false⟩
def Variant.legacy : Variant := ⟨false, false, false, false⟩

def isAsciiStr (s : Str) : Bool := s.all (·.toNat < 128)

/-! ## ScrapliFormatter (logging.py:27-139) -/

structure FmtCfg where
  logHeader : Bool := true
  callerInfo : Bool := false
deriving Repr, DecidableEq

/-- the values `self._style.format(record)` substitutes -/
structure View where
  messageId : Str
  asctime : Str
  levelname : Str
  target : Str
  module : Str
  funcName : Str
  lineno : Str
  message : Str
deriving Repr, DecidableEq

def View.get (v : View) : Field → Str
  | .messageId => v.messageId | .asctime => v.asctime | .levelname => v.levelname
  | .target => v.target | .module => v.module | .funcName => v.funcName
  | .lineno => v.lineno | .message => v.message

/-- `fmt.format(**record.__dict__)` for a parsed format -/
def renderPieces (ps : List Piece) (v : View) : Str :=
  ps.flatMap fun p => p.lit ++ match p.field with
    | none => []
    | some (f, fill, w) => pad fill w (v.get f)

def attr {α : Type} (o : Option α) : Except PyErr α :=
  match o with
  | some v => .ok v
  | none => .error .attributeError

/-- `x[:limit] if len(x) <= limit else f"{x[:keep]}..."` (logging.py:115-117, 120-125) -/
def truncate (limit keep : Nat) (s : Str) : Str :=
  if s.length ≤ limit then s.take limit else s.take keep ++ ellipsis

def logFormat (cfg : FmtCfg) : List Piece := if cfg.callerInfo then fmtCaller else fmtPlain

/-- `ScrapliFormatter.formatMessage(record)` with `self.message_id = id`; `message` is
    `record.message`, set by `Formatter.format` just before.  Returns the text; on success the
    caller advances `message_id` (logging.py:137). -/
def formatMessage (v : Variant) (cfg : FmtCfg) (id : Nat) (r : Rec) (message : Str) : Except PyErr Str := do
  -- :97-108
  let hostPort ←
    if r.host.isNone then pure []                                   -- not hasattr(record, "host")
    else if v.portDefault && r.port.isNone then attr r.host         -- :102-106 (f3dbcd6) host but no port
    else do
      let h ← attr r.host
      let p ← attr r.port                                           -- AttributeError when absent
      pure (h ++ [':'] ++ p)
  -- :110
  let uid := match r.uid with
    | none => []
    | some u => u ++ [':']
  -- :113-117
  let target := truncate targetLimit targetKeep (uid ++ hostPort)
  -- :119-125
  let module := if cfg.callerInfo then truncate callerLimit callerKeep r.module else r.module
  let funcName := if cfg.callerInfo then truncate callerLimit callerKeep r.funcName else r.funcName
  -- :127
  let line := renderPieces (logFormat cfg)
    ⟨natStr id, r.asctime, r.levelname, target, module, funcName, natStr r.lineno, message⟩
  -- :129-135
  if id == firstMessageId && cfg.logHeader then
    let hdr := renderPieces (logFormat cfg)
      ⟨hdrMessageId, hdrAsctime, hdrLevelname, pad ' ' target.length hdrTarget, hdrModule, hdrFuncName,
       hdrLineno, hdrMessage⟩
    pure (hdr ++ ['\n'] ++ line)
  else pure line

/-- `logging.Formatter.format(record)`: `record.message = record.getMessage()`, asctime, then
    `formatMessage` (records carry no exc_info / stack_info) -/
def format (v : Variant) (cfg : FmtCfg) (id : Nat) (r : Rec) : Except PyErr Str := do
  let m ← getMessage r
  formatMessage v cfg id r m

/-! ## logging.StreamHandler.emit and ScrapliFileHandler (logging.py:142-269) -/

/-- what one `StreamHandler.emit` does: write `text + "\n"` to the stream, or report the exception
    through `Handler.handleError` ("--- Logging error ---" on stderr) and write nothing -/
inductive Ev where
  | line (s : Str)
  | error (e : PyErr)
deriving Repr, DecidableEq

structure HSt where
  buf : Option Rec := none       -- self._record_buf
  msgBuf : Bytes := []           -- self._record_msg_buf
  nextId : Nat := firstMessageId -- the formatter's self.message_id
  out : List Ev := []
deriving Repr, DecidableEq

/-- `logging.StreamHandler.emit(record)`:
    `try: msg = self.format(record); stream.write(msg + "\n") except Exception: self.handleError(record)`.
    `stream.write` encodes the whole text first: on an ASCII stream a non-ASCII character raises
    UnicodeEncodeError, nothing is written — but `formatMessage` has already advanced `message_id`
    (so a header row that was part of this text is never written at all). -/
def baseEmit (v : Variant) (cfg : FmtCfg) (h : HSt) (r : Rec) : HSt :=
  match format v cfg h.nextId r with
  | .ok s =>
    if v.asciiStream && !isAsciiStr s then
      { h with nextId := h.nextId + 1, out := h.out ++ [.error .unicodeEncodeError] }
    else { h with nextId := h.nextId + 1, out := h.out ++ [.line s] }
  | .error e => { h with out := h.out ++ [.error e] }

/-- `ScrapliFileHandler.emit_buffered()` (called only with a record in the buffer) -/
def emitBuffered (v : Variant) (cfg : FmtCfg) (h : HSt) : HSt :=
  match h.buf with
  | none => { h with out := h.out ++ [.error .scrapliException] }   -- :191-194 (raises)
  | some b =>
    -- :196-199 self._record_buf.msg = f"read : {self._record_msg_buf!r}"; (58f1a8a) .args = None
    let b' := { b with msg := bufferedHead ++ reprBytes h.msgBuf,
                       args := if v.lazyAware then [] else b.args }
    let h := baseEmit v cfg h b'                                      -- :200
    { h with buf := none, msgBuf := [] }                              -- :201-202

def isRead (r : Rec) : Bool := readPrefix.isPrefixOf r.msg

/-- the bytes a read record adds to the buffer (:228-235): `record.getMessage()[6:].encode()` inside
    try/except; before 58f1a8a `record.msg[6:].encode()` -/
def payload (v : Variant) (r : Rec) : Except PyErr Bytes :=
  if v.lazyAware then (getMessage r).map fun m => encode (m.drop readPrefix.length)
  else .ok (encode (r.msg.drop readPrefix.length))

/-- `ScrapliFileHandler.emit(record)` -/
def emit (v : Variant) (cfg : FmtCfg) (h : HSt) (r : Rec) : HSt :=
  if !isRead r then                                  -- :218
    let h := if h.buf.isSome then emitBuffered v cfg h else h     -- :222-223
    baseEmit v cfg h r                               -- :225
  else
    match payload v r with
    | .error e => { h with out := h.out ++ [.error e] }           -- :233-235 handleError, record dropped
    | .ok p =>
      match h.buf with
      | none => { h with buf := some r, msgBuf := p }             -- :237-241
      | some _ => { h with msgBuf := h.msgBuf ++ p }              -- :246

/-- `ScrapliFileHandler.close()` (:248-269, 93127cf): emit the buffered record, then FileHandler.close;
    before the fix there was no override (buffer dropped) -/
def close (v : Variant) (cfg : FmtCfg) (h : HSt) : HSt :=
  if v.flushOnClose && h.buf.isSome then emitBuffered v cfg h else h

/-- a whole life of one handler + formatter pair as installed by `enable_basic_logging`:
    `buffered` = ScrapliFileHandler, otherwise plain logging.FileHandler -/
def runHandler (v : Variant) (cfg : FmtCfg) (buffered : Bool) (recs : List Rec) : List Ev :=
  if buffered then (close v cfg (recs.foldl (emit v cfg) {})).out
  else (recs.foldl (baseEmit v cfg) {}).out

/-- text appended to the log file by a list of events -/
def fileText (evs : List Ev) : Str :=
  evs.flatMap fun
    | .line s => s ++ ['\n']
    | .error _ => []

def errorCount (evs : List Ev) : Nat :=
  (evs.filter fun | .error _ => true | .line _ => false).length

/-- `open(filename, mode)` followed by the writes: "w" truncates, "a" keeps the old content -/
def fileAfter (append : Bool) (old : Str) (written : Str) : Str :=
  if append then old ++ written else written

/-- `enable_basic_logging(mode=…)`: `mode.lower()` must be in the table; result = file mode -/
def basicLoggingMode (mode : Str) : Except PyErr Str :=
  match logModes.lookup (mode.map Char.toLower) with
  | some m => .ok m
  | none => .error .scrapliException

/-- `get_instance_logger(instance_name, host, port, uid)`: the extras (host, port, uid) -/
def instanceExtras (host : Str) (port : Nat) (uid : Str) : Option Str × Option Str × Option Str :=
  let hp := !host.isEmpty && port != 0
  (if hp then some host else none, if hp then some (natStr port) else none,
   if !uid.isEmpty then some uid else none)

/-! ## Channel log (base_channel.py:275-328, 359-379; sync_channel.py:55-82, async_channel.py:55-82) -/

inductive Sink where
  | off                 -- channel_log falsy
  | path (append : Bool) -- str path or True ("scrapli_channel.log"); channel_log_mode "a"/"w"
  | bytesio             -- a user supplied BytesIO (positioned at its end); never closed by the channel
deriving Repr, DecidableEq

structure ChanSt where
  dest : Bytes := []          -- content of the destination (file on disk / BytesIO buffer)
  handle : Bool := false      -- self.channel_log is a file object that can be written to
  recs : List Rec := []       -- log records handed to self.logger, in order
deriving Repr, DecidableEq

inductive ChanOp where
  | open
  | read (chunk : Bytes)               -- `transport.read()` returned `chunk`
  | write (input reprInput : Str) (redacted : Bool)   -- `channel.write(channel_input, redacted)`; + repr(channel_input)
  | close
deriving Repr, DecidableEq

/-- `buf.replace(b"\r", b"")` -/
def stripCR (b : Bytes) : Bytes := b.filter (· != strippedByte)

/-- the record `self.logger.debug("read: %r", buf)` creates (extras from the LoggerAdapter) -/
def readRec (base : Rec) (buf : Bytes) : Rec :=
  { base with msg := chanReadTemplate, args := [⟨reprBytes buf, reprBytes buf⟩] }

def writeRec (base : Rec) (input reprInput : Str) (redacted : Bool) : Rec :=
  if redacted then { base with msg := chanWriteRedacted, args := [] }
  else { base with msg := chanWriteTemplate, args := [⟨reprInput, input⟩] }

def chanStep (sink : Sink) (base : Rec) (s : ChanSt) : ChanOp → ChanSt
  | .open =>                                        -- base_channel.py:289-308
    match sink with
    | .off => s
    | .bytesio => { s with handle := true }
    | .path append => { s with dest := if append then s.dest else [], handle := true }
  | .read chunk =>                                  -- sync_channel.py:71-77
    let buf := stripCR chunk
    let s := { s with recs := s.recs ++ [readRec base buf] }
    if s.handle then { s with dest := s.dest ++ buf } else s
  | .write i ri red => { s with recs := s.recs ++ [writeRec base i ri red] }   -- base_channel.py:374-377
  | .close =>                                       -- base_channel.py:324-328
    match sink with
    | .bytesio => s                                 -- `self.channel_log is args.channel_log`: left open
    | _ => { s with handle := false }

def chanRun (sink : Sink) (base : Rec) (s : ChanSt) (ops : List ChanOp) : ChanSt :=
  ops.foldl (chanStep sink base) s

end Scrapli.Log
