import ScrapliModel.Gen.C05Tables_junos
import ScrapliModel.Spec.PromptGrammar
/- C05: the suite(s) of table `junos` — which prompt grammar (Spec) is checked against this generated table.
   `…Full`: the modes whose grammar is restricted by the predicate of an open finding, WITHOUT the restriction. -/
namespace Scrapli.C05
open Scrapli.Regex Scrapli.PromptClass Scrapli.Spec
def junos : Suite := ⟨"junos", Gen.C05.junos, PromptGrammar.junos⟩
def junosFull : Suite := ⟨"junosFull", Gen.C05.junos, PromptGrammar.junosFull⟩
end Scrapli.C05
