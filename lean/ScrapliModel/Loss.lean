import ScrapliModel.LossTypes
import ScrapliModel.Gen.LossMaps
/-
  C08 — losing the connection surfaces promptly as a scrapli error.  Core Lean only, executable.

  Layer 1: each transport as a small machine over abstract session state.  What a transport method
  does for a boundary outcome is looked up in the GENERATED tables (Gen/LossMaps.lean, observed on
  the real transports); the hand-written part is the session state that scrapli and the library keep:
    * `opened`  — the handle attributes (`socket`, `session`, `stdin`/`stdout` ...) are not None.
      `close()` sets them to None in every transport (telnet/transport.py:172-180,
      asynctelnet/transport.py:168-182, system/transport.py:154-162, paramiko/transport.py:239-250,
      asyncssh/transport.py:233-247) and so does the timeout decorator (decorators.py:_handle_timeout).
    * `lossBy`  — the first detectable loss that was delivered (replaced by `read×empty` when a later
      read meets EOF: the EOF flag then decides).  From then on the sticky flags of
      scrapli (`_eof`, PtyProcess.flag_eof) and of the library (stored reader exception, at_eof) decide:
      table `afterDev`.  A socket.timeout fails the call but does not end the session.
  Layer 2: channel operations as programs over transport calls (get_prompt / send_input /
  send_inputs_interact / the auth loops: writes and read *loops*), run against an adversarial
  environment that chooses every boundary outcome; abstract time: every read that gives control to
  the timeout mechanism costs one tick, the operation timeout `T` (in ticks) is the backstop.
-/
namespace Scrapli.Loss
open Scrapli.Gen.Loss

/-! ### generated tables, as functions -/

def tbl3 {α : Type} (tbl : List (List (List α))) (d : α) (i j k : Nat) : α :=
  ((tbl.getD i []).getD j []).getD k d

/-- can the library call of method `m` of transport `t` have outcome `o`? -/
def domain (t : Transport) (m : Method) (o : Outcome) : Bool :=
  tbl3 domainTbl false t.toNat m.toNat o.toNat

/-- OBSERVED act of a fresh opened transport -/
def errMap (t : Transport) (m : Method) (o : Outcome) : Act :=
  tbl3 errTbl .na t.toNat m.toNat o.toNat

/-- only the Telnet transports have a control buffer -/
def effCtrl (t : Transport) (c : Ctrl) : Ctrl := if t == .telnet || t == .asynctelnet then c else .c0

/-- OBSERVED act of an opened transport without a recorded loss whose control buffer is in state `c` -/
def errMapC (t : Transport) (c : Ctrl) (m : Method) (o : Outcome) : Act :=
  match errDevC.lookup (keyC3 (effCtrl t c) t m o) with
  | some a => a
  | none => errMap t m o

/-- OBSERVED act after the loss `(lm, lo)` has been delivered (control buffer in state `c` since then) -/
def after2 (t : Transport) (c : Ctrl) (lm : Method) (lo : Outcome) (m : Method) (o : Outcome) : Act :=
  match afterDev.lookup (keyC5 (effCtrl t c) t lm lo m o) with
  | some a => a
  | none => errMapC t c m o

/-- OBSERVED `isalive()` right after the loss `(lm, lo)` -/
def aliveAfter (t : Transport) (c : Ctrl) (lm : Method) (lo : Outcome) : Act :=
  (aliveAfterTbl.lookup (keyC3 (effCtrl t c) t lm lo)).getD .na

/-- outcomes a read can still have after the loss `(lm, lo)` (sticky readers), head = default -/
def postRead (t : Transport) (lm : Method) (lo : Outcome) : List Outcome :=
  (postReadTbl.lookup (key3 t lm lo)).getD []

/-- the call delivers bytes -/
def Outcome.dataLike : Outcome → Bool
  | .data | .more | .dataIac | .dataIacVerb | .moreIac | .moreIacVerb => true
  | _ => false

/-- a chunk that does not complete the channel's read loop -/
def Outcome.isMore : Outcome → Bool
  | .more | .moreIac | .moreIacVerb => true
  | _ => false

/-- state of the control buffer after a chunk with this outcome -/
def Outcome.ctrlAfter : Outcome → Option Ctrl
  | .data | .more => some .c0
  | .dataIac | .moreIac => some .cIac
  | .dataIacVerb | .moreIacVerb => some .cIacVerb
  | _ => Option.none

/-- a read with this outcome never delivers bytes (on the sim transport an empty read is a quiet device) -/
def neverData (t : Transport) (o : Outcome) : Bool :=
  !o.dataLike && o != .none && !(t == .sim && o == .empty)

/-- ... and the session is gone for good.  A socket.timeout of a blocking socket fails the call only; a
    TimeoutError out of an asyncio StreamReader is the kernel's ETIMEDOUT delivered by connection_lost. -/
def setsLoss (t : Transport) (o : Outcome) : Bool :=
  neverData t o && (o != .timeout || t == .asynctelnet) && o != .cmdTimeout

/-! ### layer 1: the transport machine -/

structure TState where
  opened : Bool := true
  lossBy : Option (Method × Outcome) := none
  ctrl : Ctrl := .c0
  deriving DecidableEq, Repr

/-- what the library really delivers: once a loss has been delivered a read can only have one of the
    outcomes `postRead` lists (anything else the environment proposes is replaced by the default) -/
def effOutcome (t : Transport) (st : TState) (m : Method) (o : Outcome) : Outcome :=
  match st.lossBy with
  | some (lm, lo) =>
    if m == .read then (if (postRead t lm lo).contains o then o else (postRead t lm lo).headD lo) else o
  | none => o

/-- what method `m` does in state `st` when its boundary call has outcome `o` -/
def tAct (t : Transport) (st : TState) (m : Method) (o : Outcome) : Act :=
  if !st.opened then errMap t m .none          -- `if not self.session: raise ScrapliConnectionNotOpened`
  else match st.lossBy with
    | none => errMapC t st.ctrl m o
    | some (lm, lo) => after2 t st.ctrl lm lo m (effOutcome t st m o)

/-- the control buffer after the call: a chunk read on a live session moves it; nothing completes a
    pending sequence once the session is lost -/
def ctrlNext (st : TState) (m : Method) (o : Outcome) : Ctrl :=
  if st.opened && st.lossBy.isNone && m == .read then (o.ctrlAfter).getD st.ctrl else st.ctrl

/-- a read on an already lost session meets EOF (b"") for the first time: from now on the EOF flag
    (`_eof`, `at_eof`) decides — the state is the one of a session lost by EOF -/
def eofUpgrade (t : Transport) (st : TState) (m : Method) (o : Outcome) : Bool :=
  match st.lossBy with
  | some (lm, lo) =>
    m == .read && effOutcome t st m o == .empty && !(lm == .read && lo == .empty)
      && domain t .read .empty && setsLoss t .empty
  | none => false

/-- `opened` and `lossBy` after the call -/
def tNext0 (t : Transport) (st : TState) (m : Method) (o : Outcome) : TState :=
  if !st.opened then st
  else
    let st1 : TState :=
      if st.lossBy.isNone && (m == .read || m == .write) && setsLoss t o then { st with lossBy := some (m, o) }
      else if eofUpgrade t st m o then { st with lossBy := some (.read, .empty) }
      else st
    if m == .close then { st1 with opened := false } else st1

def tNext (t : Transport) (st : TState) (m : Method) (o : Outcome) : TState :=
  { tNext0 t st m o with ctrl := ctrlNext st m o }

/-- `isalive()` in state `st` (the library's aliveness primitive answering as it does after that loss) -/
def isaliveNow (t : Transport) (st : TState) : Act :=
  if !st.opened then errMap t .isalive .none
  else match st.lossBy with
    | none => errMapC t st.ctrl .isalive .data
    | some (lm, lo) => aliveAfter t st.ctrl lm lo

/-! ### layer 2: channel programs -/

/-- one step of a channel operation.
    `w`  : `transport.write` (channel/base_channel.py:356-392 write / send_return)
    `r`  : one read loop `while True: buf += self.read(); if <pattern found>: break`
           (sync_channel.py:83-160 `_read_until_input/_prompt/_explicit_prompt`, 440-470 `get_prompt`,
           262-330 `channel_authenticate_ssh`; the asyncio twins in async_channel.py)
    `ra` : the read loop of sync `channel_authenticate_telnet` (sync_channel.py:357-364), which
           swallows ScrapliConnectionError, sends a return and reads again -/
inductive Step | w | r | ra
  deriving DecidableEq, Repr

abbrev Program := List Step

def hasRead (p : Program) : Bool := p.any (· != .w)

/-- the environment: the outcome of the `i`-th boundary call if that call is of method `m` -/
abbrev Env := Nat → Method → Outcome

inductive Out | done | raised (c : Cls) | raisedRaw (r : Raw) | hang
  deriving DecidableEq, Repr

structure Res where
  out : Out
  st : TState
  calls : Nat
  ticks : Nat
  deriving DecidableEq, Repr

structure Cfg where
  prog : Program
  st : TState := {}
  calls : Nat := 0
  ticks : Nat := 0
  deriving DecidableEq, Repr

def Cfg.fail (cf : Cfg) (st : TState) (a : Act) (ncalls : Nat) : Res :=
  match a with
  | .raiseS c => ⟨.raised c, st, ncalls, cf.ticks⟩
  | .raiseRaw r => ⟨.raisedRaw r, st, ncalls, cf.ticks⟩
  | _ => ⟨.raisedRaw .other, st, ncalls, cf.ticks⟩     -- a read that returns None/True/False: not a transport read

/-- the operation timeout fires (decorators.py:_handle_timeout): the transport is closed, ScrapliTimeout -/
def Cfg.timedOut (cf : Cfg) : Res := ⟨.raised .timeout, { cf.st with opened := false }, cf.calls, cf.ticks⟩

/-- kind of a read result -/
inductive RK | data | empty | busy | exc
  deriving DecidableEq, Repr

def Act.rk : Act → RK
  | .retData => .data
  | .retEmpty => .empty
  | .retEmptyBusy => .busy
  | _ => .exc

def Act.isRaise : Act → Bool
  | .raiseS _ | .raiseRaw _ => true
  | _ => false

/-- `transport.write` with act `a`: an exception ends the operation, anything else continues with `p` -/
def writeStep (cf : Cfg) (p : Program) (a : Act) (st' : TState) (ncalls : Nat) (nticks : Nat) : Cfg ⊕ Res :=
  if a.isRaise then .inr (cf.fail st' a ncalls) else .inl ⟨p, st', ncalls, nticks⟩

/-- one iteration of a read loop `s` (then `p`) whose `transport.read` had outcome `o` and act `a` -/
def readStep (cf : Cfg) (s : Step) (p : Program) (o : Outcome) (a : Act) (st' : TState) : Cfg ⊕ Res :=
  match a.rk with
  | .data => .inl ⟨if o.isMore then s :: p else p, st', cf.calls + 1, cf.ticks + 1⟩
  | .empty => .inl ⟨s :: p, st', cf.calls + 1, cf.ticks + 1⟩
  | .busy => .inl ⟨s :: p, st', cf.calls + 1, cf.ticks⟩      -- no suspension point: no time passes for the timeout
  | .exc => .inr (cf.fail st' a (cf.calls + 1))

/-- one transition.  `T` = operation timeout in ticks; checked when a read is entered. -/
def step (t : Transport) (env : Env) (T : Nat) (cf : Cfg) : Cfg ⊕ Res :=
  match cf.prog with
  | [] => .inr ⟨.done, cf.st, cf.calls, cf.ticks⟩
  | .w :: p =>
    let o := env cf.calls .write
    writeStep cf p (tAct t cf.st .write o) (tNext t cf.st .write o) (cf.calls + 1) cf.ticks
  | .r :: p =>
    if T ≤ cf.ticks then .inr cf.timedOut else
    let o := env cf.calls .read
    readStep cf .r p o (tAct t cf.st .read o) (tNext t cf.st .read o)
  | .ra :: p =>
    if T ≤ cf.ticks then .inr cf.timedOut else
    let o := env cf.calls .read
    let a := tAct t cf.st .read o
    let st' := tNext t cf.st .read o
    if a = .raiseS .connError then               -- except ScrapliConnectionError: self.send_return(); continue
      let o2 := env (cf.calls + 1) .write
      writeStep cf (.ra :: p) (tAct t st' .write o2) (tNext t st' .write o2) (cf.calls + 2) (cf.ticks + 1)
    else readStep cf .ra p o a st'

/-- run at most `n` transitions; `hang` = the budget is exhausted -/
def exec (t : Transport) (env : Env) (T : Nat) : Nat → Cfg → Res
  | 0, cf => ⟨.hang, cf.st, cf.calls, cf.ticks⟩
  | n + 1, cf =>
    match step t env T cf with
    | .inl cf' => exec t env T n cf'
    | .inr r => r

/-- `n` transitions, stopping at a result -/
def stepsTo (t : Transport) (env : Env) (T : Nat) : Nat → Cfg → Cfg ⊕ Res
  | 0, cf => .inl cf
  | n + 1, cf =>
    match step t env T cf with
    | .inl cf' => stepsTo t env T n cf'
    | .inr r => .inr r

/-- progress measure: every transition decreases it when the transport's map is total -/
def Cfg.mu (T : Nat) (cf : Cfg) : Nat :=
  (T - cf.ticks) + cf.prog.length + (if cf.st.lossBy.isNone then 1 else 0)

/-- run a whole operation from a given session state -/
def run (t : Transport) (env : Env) (T : Nat) (p : Program) (st : TState := {}) : Res :=
  exec t env T (T + p.length + 2) ⟨p, st, 0, 0⟩

/-! ### totality of a transport's maps (the decided hypothesis) -/

def Act.readLossOK : Act → Bool
  | .retEmpty | .retEmptyBusy | .raiseS _ => true
  | _ => false

def Act.readLossOK' : Act → Bool
  | .retEmpty | .raiseS _ => true
  | _ => false

/-- the act of a read: bytes, nothing, or an allowed scrapli class -/
def Act.readOK : Act → Bool
  | .retData | .retEmpty | .retEmptyBusy => true
  | .raiseS c => c != .other
  | _ => false

/-- condition on the rows without a recorded loss, control buffer in state `c` -/
def freshOK (t : Transport) (c : Ctrl) (m : Method) (o : Outcome) : Bool :=
  !domain t m o ||
    ((errMapC t c m o).ok
      && (!(m == .read) || (errMapC t c m o).readOK)
      && (!(m == .read && neverData t o) || (errMapC t c m o).readLossOK)
      && (!(m == .read && errMapC t c m o == .retEmptyBusy) || setsLoss t o))

/-- condition on the rows after the loss `(lm, lo)` -/
def afterOK (t : Transport) (c : Ctrl) (lm : Method) (lo : Outcome) : Bool :=
  !(domain t lm lo && setsLoss t lo) ||
    (!(postRead t lm lo).isEmpty
      && (postRead t lm lo).all (fun o => neverData t o && (after2 t c lm lo .read o).ok && (after2 t c lm lo .read o).readLossOK')
      && Outcome.all.all (fun o => !domain t .write o || (after2 t c lm lo .write o).ok)
      && Outcome.all.all (fun o => !domain t .close o || (after2 t c lm lo .close o).ok))

/-- the error map of `t` is total into the allowed scrapli classes — in every state of the control
    buffer —, a lost session never yields data, a busy empty read happens at most once, a None handle
    raises ScrapliConnectionNotOpened -/
def mapTotalB (t : Transport) : Bool :=
  (Ctrl.all.all fun c => Method.all.all fun m => Outcome.all.all fun o => freshOK t c m o)
  && (Ctrl.all.all fun c => Outcome.all.all fun lo => afterOK t c .read lo && afterOK t c .write lo)
  && (errMap t .read .none == .raiseS .notOpened && errMap t .write .none == .raiseS .notOpened
      && errMap t .isalive .none == .retFalse && (errMap t .close .none).ok)
  && (Ctrl.all.all fun c => !(errMapC t c .write .data).isRaise)

def mapTotal (t : Transport) : Prop := mapTotalB t = true

instance (t : Transport) : Decidable (mapTotal t) := inferInstanceAs (Decidable (mapTotalB t = true))

/-- after every detectable loss `isalive()` is False -/
def aliveTotalB (t : Transport) : Bool :=
  Ctrl.all.all fun c => Outcome.all.all fun lo =>
    (!(domain t .read lo && setsLoss t lo) || aliveAfter t c .read lo == .retFalse)
    && (!(domain t .write lo && setsLoss t lo) || aliveAfter t c .write lo == .retFalse)

def aliveTotal (t : Transport) : Prop := aliveTotalB t = true

instance (t : Transport) : Decidable (aliveTotal t) := inferInstanceAs (Decidable (aliveTotalB t = true))

def Act.isRaiseS : Act → Bool
  | .raiseS _ => true
  | _ => false

/-- every read after the loss `(lm, lo)` raises at once -/
def finalOK (t : Transport) (c : Ctrl) (lm : Method) (lo : Outcome) : Bool :=
  (postRead t lm lo).all fun o => (after2 t c lm lo .read o).isRaiseS

/-- PROMPTNESS of the rows after the loss `(lm, lo)`: a read raises at once, or it is the one read that
    meets EOF on a session lost otherwise (`eofUpgrade`) and every read after that raises at once -/
def promptOK (t : Transport) (c : Ctrl) (lm : Method) (lo : Outcome) : Bool :=
  !(domain t lm lo && setsLoss t lo) ||
    (postRead t lm lo).all fun o =>
      (after2 t c lm lo .read o).isRaiseS ||
        (o == .empty && !(lm == .read && lo == .empty) && domain t .read .empty && setsLoss t .empty
          && finalOK t c .read .empty)

/-- decided per transport: after a detectable loss at most ONE read returns without raising -/
def promptTotalB (t : Transport) : Bool :=
  Ctrl.all.all fun c => Outcome.all.all fun lo => promptOK t c .read lo && promptOK t c .write lo

def promptTotal (t : Transport) : Prop := promptTotalB t = true

instance (t : Transport) : Decidable (promptTotal t) := inferInstanceAs (Decidable (promptTotalB t = true))

def tbl2 {α : Type} (tbl : List (List α)) (d : α) (i j : Nat) : α := (tbl.getD i []).getD j d

/-- in-domain fresh entries that break totality (witnesses to replay) -/
def freshBad (t : Transport) : List (Method × Outcome) :=
  (Method.all.flatMap fun m => Outcome.all.map fun o => (m, o)).filter fun mo => !freshOK t .c0 mo.1 mo.2

/-! ### environments -/

/-- the environment only proposes outcomes the library can produce -/
def InDomain (t : Transport) (env : Env) : Prop :=
  ∀ i, domain t .read (env i .read) = true ∧ domain t .write (env i .write) = true

/-- from boundary call `k` on no read ever delivers bytes again (every fault kind, incl. timeouts) -/
def LossFrom (t : Transport) (k : Nat) (env : Env) : Prop := ∀ i, k ≤ i → neverData t (env i .read) = true

/-- from boundary call `k` on the session is gone: reads meet a loss, writes are either still accepted
    silently or meet a loss -/
def DeadFrom (t : Transport) (k : Nat) (env : Env) : Prop :=
  ∀ i, k ≤ i → setsLoss t (env i .read) = true ∧ (env i .write = .data ∨ setsLoss t (env i .write) = true)

/-- environment given by a finite list and a default, whatever the method of the call (used by the driver) -/
def envOf (l : List Outcome) (dflt : Outcome) : Env := fun i _ => l.getD i dflt

/-- environment given by separate lists for reads and writes -/
def envRW (lr : List Outcome) (dr : Outcome) (lw : List Outcome) (dw : Outcome) : Env :=
  fun i m => if m == .write then lw.getD i dw else lr.getD i dr

end Scrapli.Loss
