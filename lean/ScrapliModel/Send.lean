import ScrapliModel.Bytes
import ScrapliModel.SendTypes
import ScrapliModel.Gen.SendConsts
/-
  C13 — model of the send_command(s) / send_config(s) machinery.

    scrapli/driver/generic/{sync,async}_driver.py   _send_command, send_command, send_commands, send_commands_from_file
    scrapli/driver/generic/base_driver.py            _pre_send_command, _post_send_command, _pre_send_from_file
    scrapli/driver/network/{sync,async}_driver.py   send_command(s), send_configs, send_config, send_configs_from_file,
                                                     _acquire_appropriate_privilege_level
    scrapli/driver/network/base_driver.py            _pre_send_config, _post_send_config, _pre_send_configs
    scrapli/driver/core/*/{sync,async}_driver.py     _abort_config          (plans are GENERATED: Gen/SendConsts.lean)
    scrapli/response.py                              Response.__init__, record_response, MultiResponse.failed
    scrapli/channel/{sync,async}_channel.py          send_input (write input, write return), get_prompt (write return)

  The sync and asyncio files are textual twins (await/async only); one model serves both, the abort plan is
  taken per stack from the generated file.

  Abstractions (deliberately minimal, independent of the Priv/ model of C03/C04):
    * the channel + device are an `Env`: `out m l` = the processed response `send_input` returns for line `l`
      executed in device mode `m` (C01 is the statement that this is what the device printed); `next m l` = the
      device's mode afterwards; `nav tgt belief m` = the lines `acquire_priv(tgt)` writes (bare returns of
      `get_prompt` are the empty line) and whether it succeeds.  Nothing is assumed about `nav`.
    * every line handed to the channel is recorded twice: as transport writes (`encode line`, `encode ret`)
      and as a tagged device-side log entry (origin, device mode at execution, line).
  Core Lean only; executable (Drv/C13.lean).
-/
namespace Scrapli.Send
open Scrapli

/-! ## strings -/

/-- `str.encode()` (UTF-8), base_channel.py:376 -/
def encode (s : Str) : Bytes := s.flatMap String.utf8EncodeChar

/-- `bytes.decode(encoding="ISO-8859-1")` -/
def latin1 (b : Bytes) : Str := b.map (fun x => Char.ofNat x.toNat)

/-- response.py:131-137: `result.decode()`, on UnicodeDecodeError ISO-8859-1 -/
def decode (b : Bytes) : Str :=
  match String.fromUTF8? (ByteArray.mk b.toArray) with
  | some s => s.toList
  | none => latin1 b

/-- Python `m in s` for str -/
def isInfix (m : Str) : Str → Bool
  | [] => m.isEmpty
  | c :: cs => m.isPrefixOf (c :: cs) || isInfix m cs

/-- a line boundary of CPython's `str.splitlines()` (set regenerated from the running interpreter) -/
def isSep (c : Char) : Bool := Gen.Send.lineSeps.contains c

/-- `str.splitlines()`.  `cur` = current line, reversed; `afterCR` = the previous character was a `\r`
    (a `\n` that follows it belongs to the same boundary). -/
def splitAux : Str → Str → Bool → List Str
  | [], cur, _ => if cur.isEmpty then [] else [cur.reverse]
  | c :: rest, cur, afterCR =>
    if afterCR && c == '\n' then splitAux rest cur false
    else if isSep c then cur.reverse :: splitAux rest [] (c == '\r')
    else splitAux rest (c :: cur) false

def splitlines (s : Str) : List Str := splitAux s [] false

/-- reading a file opened in text mode with `newline=None` (generic/base_driver.py:345): `\r\n` and `\r`
    become `\n` -/
def univNl : Str → Bool → Str
  | [], _ => []
  | c :: rest, afterCR =>
    if afterCR && c == '\n' then univNl rest false
    else if c == '\r' then '\n' :: univNl rest true
    else c :: univNl rest false

/-- generic/base_driver.py:345-346 `f.read().splitlines()` -/
def fileLines (text : Str) : List Str := splitlines (univNl text false)

/-- `"\n".join(...)` network/base_driver.py:504 -/
def joinNl (l : List Str) : Str := List.intercalate ['\n'] l

/-! ## responses -/

/-- the `failed_when_contains` argument: `None`, a string or a list -/
inductive Fwc where
  | none
  | str (s : Str)
  | list (l : List Str)
deriving Repr, DecidableEq

/-- response.py:53-55 `Response.__init__`: a string becomes a one-element list -/
def respMarkers : Fwc → Option (List Str)
  | .none => none
  | .str s => some [s]
  | .list l => some l

/-- response.py:139-142 `record_response` (the flag starts as True, :56) -/
def recordFailed (ms : Option (List Str)) (result : Str) : Bool :=
  match ms with
  | none => false                                   -- `if not self.failed_when_contains`
  | some l =>
    if l.isEmpty then false                         -- `if not self.failed_when_contains` (empty list)
    else if l.all (fun m => !(isInfix m result)) then false
    else true

structure Resp where
  input : Str                       -- channel_input
  result : Str
  failed : Bool
  markers : Option (List Str)       -- response.failed_when_contains
deriving Repr, DecidableEq

/-- response.py:309-324 `MultiResponse.failed` -/
def multiFailed (rs : List Resp) : Bool := rs.any (·.failed)

/-- network/sync_driver.py:252-253, 307-308, 364-365: `if failed_when_contains is None: … = self.failed_when_contains` -/
def netFwc (dflt : List Str) : Fwc → Fwc
  | .none => .list dflt
  | f => f

/-- network/base_driver.py:555-560 `_pre_send_configs` -/
def preConfigsFwc (dflt : List Str) : Fwc → Fwc
  | .none => .list dflt
  | .str s => .list [s]
  | .list l => .list l

/-! ## channel, device, driver state -/

inductive Origin where
  | user | nav | abort
deriving Repr, DecidableEq

/-- one executed line on the device side -/
structure Entry (μ : Type) where
  origin : Origin
  mode : μ            -- device mode when the line was executed
  line : Str
deriving Repr, DecidableEq

structure Env (μ : Type) where
  out : μ → Str → Bytes
  next : μ → Str → μ
  nav : Str → Str → μ → List Str × Bool

structure St (μ : Type) where
  belief : Str                      -- self._current_priv_level.name
  mode : μ                          -- the device's mode
  log : List (Entry μ) := []        -- device side
  writes : List Bytes := []         -- transport side, one element per transport.write()
deriving Repr

/-- `Channel.send_input` (sync_channel.py:501-516): write the input, (read the echo), write the return,
    (read to the prompt); returns the processed output. `eager_input` only skips the echo read, `eager` only
    the final read: neither changes what is written. -/
def sendInput (env : Env μ) (ret : Str) (o : Origin) (line : Str) (st : St μ) : St μ × Bytes :=
  ({ st with writes := st.writes ++ [encode line, encode ret]
             log := st.log ++ [⟨o, st.mode, line⟩]
             mode := env.next st.mode line },
   env.out st.mode line)

def sendLines (env : Env μ) (ret : Str) (o : Origin) (ls : List Str) (st : St μ) : St μ :=
  ls.foldl (fun s l => (sendInput env ret o l s).1) st

inductive Err where
  | index     -- raw IndexError from `commands[-1]`
  | priv      -- ScrapliPrivilegeError: unknown level name / generic_driver_mode
  | nav       -- acquire_priv raised
deriving Repr, DecidableEq

structure Cfg where
  ret : Str                         -- comms_return_char
  defaultMarkers : List Str         -- self.failed_when_contains
  defaultPriv : Str                 -- self.default_desired_privilege_level
  levels : List (Str × Str)         -- self.privilege_levels: (name, pattern)
  genericMode : Bool := false       -- self._generic_driver_mode
  abort : AbortPlan                 -- shape of this driver's _abort_config
deriving Repr

def hasLevel (cfg : Cfg) (n : Str) : Bool := cfg.levels.any (·.1 == n)
def levelPattern (cfg : Cfg) (n : Str) : Str := ((cfg.levels.find? (·.1 == n)).map (·.2)).getD []

def dummyName : Str := "DUMMY".toList

/-- `acquire_priv(desired_priv)` network/sync_driver.py:145-182: validate the name, then whatever the
    navigation loop writes; on success the belief is the target (:172). -/
def acquirePriv (env : Env μ) (cfg : Cfg) (tgt : Str) (st : St μ) : St μ × Option Err :=
  if !hasLevel cfg tgt then (st, some .priv) else
  let r := env.nav tgt st.belief st.mode
  let st' := sendLines env cfg.ret .nav r.1 st
  if r.2 then ({ st' with belief := tgt }, none) else ({ st' with belief := dummyName }, some .nav)

/-- `if self._current_priv_level.name != resolved: self.acquire_priv(resolved)` (:216-217, :537-538) -/
def acquireIfNeeded (env : Env μ) (cfg : Cfg) (tgt : Str) (st : St μ) : St μ × Option Err :=
  if st.belief != tgt then acquirePriv env cfg tgt st else (st, none)

/-- `_acquire_appropriate_privilege_level()` with no argument (:207-217) -/
def acquireAppropriate (env : Env μ) (cfg : Cfg) (st : St μ) : St μ × Option Err :=
  if cfg.genericMode then (st, none) else acquireIfNeeded env cfg cfg.defaultPriv st

/-! ## GenericDriver -/

structure Res (μ : Type) where
  st : St μ
  resps : List Resp
  err : Option Err
deriving Repr

/-- `_send_command` generic/sync_driver.py:162-172 + `_post_send_command`: with `eager` the channel returns
    `b""` (sync_channel.py:491, 509-510). -/
def sendCommand1 (env : Env μ) (ret : Str) (o : Origin) (fwc : Fwc) (eager : Bool) (line : Str) (st : St μ) :
    St μ × Resp :=
  let r := sendInput env ret o line st
  let result := decode (if eager then [] else r.2)
  let ms := respMarkers fwc
  (r.1, ⟨line, result, recordFailed ms result, ms⟩)

/-- the `for command in commands[:-1]` loop (generic/sync_driver.py:250-263); the Bool says `break` -/
def loop (env : Env μ) (ret : Str) (o : Origin) (fwc : Fwc) (stop eager : Bool) :
    List Str → St μ → List Resp → St μ × List Resp × Bool
  | [], st, acc => (st, acc, false)
  | c :: cs, st, acc =>
    let r := sendCommand1 env ret o fwc eager c st
    if stop && r.2.failed then (r.1, acc ++ [r.2], true)
    else loop env ret o fwc stop eager cs r.1 (acc ++ [r.2])

/-- `GenericDriver.send_commands` (generic/sync_driver.py:249-277): loop over all but the last, `else:` the last
    one with `eager=False`; `commands[-1]` of an empty list raises IndexError. -/
def genericSendCommands (env : Env μ) (ret : Str) (o : Origin) (fwc : Fwc) (stop eager : Bool)
    (commands : List Str) (st : St μ) : Res μ :=
  let r := loop env ret o fwc stop eager commands.dropLast st []
  if r.2.2 then ⟨r.1, r.2.1, none⟩
  else match commands.getLast? with
    | none => ⟨r.1, r.2.1, some .index⟩
    | some last =>
      let q := sendCommand1 env ret o fwc false last r.1
      ⟨q.1, r.2.1 ++ [q.2], none⟩

/-- `GenericDriver.send_commands_from_file` (:316-326) -/
def genericSendCommandsFromFile (env : Env μ) (ret : Str) (fwc : Fwc) (stop eager : Bool) (text : Str)
    (st : St μ) : Res μ :=
  genericSendCommands env ret .user fwc stop eager (fileLines text) st

/-! ## NetworkDriver -/

/-- `NetworkDriver.send_command` (network/sync_driver.py:250-264) -/
def sendCommand (env : Env μ) (cfg : Cfg) (fwc : Fwc) (command : Str) (st : St μ) : Res μ :=
  let a := acquireAppropriate env cfg st
  match a.2 with
  | some e => ⟨a.1, [], some e⟩
  | none =>
    let q := sendCommand1 env cfg.ret .user (netFwc cfg.defaultMarkers fwc) Gen.Send.eagerDefault command a.1
    ⟨q.1, [q.2], none⟩

/-- `NetworkDriver.send_commands` (:305-323) -/
def sendCommands (env : Env μ) (cfg : Cfg) (fwc : Fwc) (stop eager : Bool) (commands : List Str) (st : St μ) :
    Res μ :=
  let a := acquireAppropriate env cfg st
  match a.2 with
  | some e => ⟨a.1, [], some e⟩
  | none => genericSendCommands env cfg.ret .user (netFwc cfg.defaultMarkers fwc) stop eager commands a.1

/-- `NetworkDriver.send_commands_from_file` (:362-375): acquires, reads the file, then calls
    `self.send_commands`, i.e. the NetworkDriver method again (which acquires again). -/
def sendCommandsFromFile (env : Env μ) (cfg : Cfg) (fwc : Fwc) (stop eager : Bool) (text : Str) (st : St μ) :
    Res μ :=
  let a := acquireAppropriate env cfg st
  match a.2 with
  | some e => ⟨a.1, [], some e⟩
  | none => sendCommands env cfg (netFwc cfg.defaultMarkers fwc) stop eager (fileLines text) a.1

/-- `send_configs` up to and including `super().send_commands` (:531-548): `_pre_send_configs`
    (generic-mode check, marker resolution, level validation), acquire, the GenericDriver loop. -/
def sendConfigsCore (env : Env μ) (cfg : Cfg) (o : Origin) (fwc : Fwc) (stop : Bool) (priv : Str) (eager : Bool)
    (configs : List Str) (st : St μ) : Res μ :=
  if cfg.genericMode then ⟨st, [], some .priv⟩
  else if !priv.isEmpty && !hasLevel cfg priv then ⟨st, [], some .priv⟩
  else
    let tgt := if priv.isEmpty then Gen.Send.configsDefaultLevel else priv
    let a := acquireIfNeeded env cfg tgt st
    match a.2 with
    | some e => ⟨a.1, [], some e⟩
    | none => genericSendCommands env cfg.ret o (preConfigsFwc cfg.defaultMarkers fwc) stop eager configs a.1

/-- the `privilege_level` the inner `send_configs` of a `_abort_config` is called with -/
def abortLevel (belief : Str) : LevelArg → Str
  | .default => Gen.Send.privilegeLevelDefault
  | .current => belief
  | .currentIfPrefix p => if p.isPrefixOf belief then belief else []

/-- the platform's `_abort_config` (plan from the generated file).  The inner `send_configs` of the Junos
    shape runs with the public defaults (`stop_on_failed=False`: its own abort branch is dead, so it is
    `sendConfigsCore`); its responses are dropped. -/
def abortConfig (env : Env μ) (cfg : Cfg) (st : St μ) : St μ × Option Err :=
  match cfg.abort with
  | .nothing => (st, none)
  | .direct guard cmds belief =>
    let go := match guard with
      | none => true
      | some m => isInfix m (levelPattern cfg st.belief)
    if go then ({ sendLines env cfg.ret .abort cmds st with belief := belief }, none) else (st, none)
  | .viaSendConfigs cmds level belief =>
    let r := sendConfigsCore env cfg .abort .none Gen.Send.stopOnFailedDefault (abortLevel st.belief level)
      Gen.Send.eagerDefault cmds st
    match r.err with
    | some e => (r.st, some e)
    | none => ({ r.st with belief := belief }, none)

/-- `NetworkDriver.send_configs` (:531-553) -/
def sendConfigs (env : Env μ) (cfg : Cfg) (fwc : Fwc) (stop : Bool) (priv : Str) (eager : Bool)
    (configs : List Str) (st : St μ) : Res μ :=
  let r := sendConfigsCore env cfg .user fwc stop priv eager configs st
  match r.err with
  | some _ => r
  | none =>
    if stop && multiFailed r.resps then
      let a := abortConfig env cfg r.st
      ⟨a.1, r.resps, a.2⟩
    else r

/-- `_post_send_config` (network/base_driver.py:490-511) -/
def mergeResps (config : Str) (rs : List Resp) : Resp :=
  ⟨config, joinNl (rs.map (·.result)), rs.any (·.failed), (rs.head?.map (·.markers)).getD none⟩

/-- `NetworkDriver.send_config` (:600-613): `_pre_send_config` = `config.splitlines()` -/
def sendConfig (env : Env μ) (cfg : Cfg) (fwc : Fwc) (stop : Bool) (priv : Str) (eager : Bool)
    (config : Str) (st : St μ) : Res μ × Option Resp :=
  let r := sendConfigs env cfg fwc stop priv eager (splitlines config) st
  match r.err with
  | some _ => (r, none)
  | none => (r, some (mergeResps config r.resps))

/-- `NetworkDriver.send_configs_from_file` (:660-671) -/
def sendConfigsFromFile (env : Env μ) (cfg : Cfg) (fwc : Fwc) (stop : Bool) (priv : Str) (eager : Bool)
    (text : Str) (st : St μ) : Res μ :=
  sendConfigs env cfg fwc stop priv eager (fileLines text) st

/-! ## the simulated device's line discipline (tools/harness/simdevice.py `on_write`) -/

/-- (line buffer, executed lines): a line is executed on `\n`, `\r` is ignored -/
def devStep (s : Bytes × List Bytes) (b : UInt8) : Bytes × List Bytes :=
  if b == 10 then ([], s.2 ++ [s.1]) else if b == 13 then s else (s.1 ++ [b], s.2)

def devLines (wire : Bytes) : List Bytes := (wire.foldl devStep ([], [])).2

/-! ## platform configurations built from the generated tables -/

inductive Platform where
  | iosxe | iosxr | nxos | eos | junos
deriving Repr, DecidableEq

def platformMarkers : Platform → List Str
  | .iosxe => Gen.Send.fwcIosxe | .iosxr => Gen.Send.fwcIosxr | .nxos => Gen.Send.fwcNxos
  | .eos => Gen.Send.fwcEos | .junos => Gen.Send.fwcJunos

def platformAbort : Platform → Bool → AbortPlan
  | .iosxe, false => Gen.Send.abortIosxeSync | .iosxe, true => Gen.Send.abortIosxeAsync
  | .iosxr, false => Gen.Send.abortIosxrSync | .iosxr, true => Gen.Send.abortIosxrAsync
  | .nxos, false => Gen.Send.abortNxosSync | .nxos, true => Gen.Send.abortNxosAsync
  | .eos, false => Gen.Send.abortEosSync | .eos, true => Gen.Send.abortEosAsync
  | .junos, false => Gen.Send.abortJunosSync | .junos, true => Gen.Send.abortJunosAsync

end Scrapli.Send
