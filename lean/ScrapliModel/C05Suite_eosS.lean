import ScrapliModel.Gen.C05Tables_eosS
import ScrapliModel.Spec.PromptGrammar
/- C05: the suite(s) of table `eosS` — which prompt grammar (Spec) is checked against this generated table.
   `…Full`: the modes whose grammar is restricted by the predicate of an open finding, WITHOUT the restriction. -/
namespace Scrapli.C05
open Scrapli.Regex Scrapli.PromptClass Scrapli.Spec
def eosS : Suite := ⟨"eosS", Gen.C05.eosS, PromptGrammar.eosS Gen.C05.eosSessions⟩
def eosSFull : Suite := ⟨"eosSFull", Gen.C05.eosS, PromptGrammar.eosSFull Gen.C05.eosSessions⟩
end Scrapli.C05
