/-
  C10 — vocabulary shared by the generated file (Gen/HostKeyGen.lean) and the model (HostKey.lean).
-/
namespace Scrapli.HostKey

/-- the calls of a transport's `open()` the property cares about.  The translator (tools/gen/c10.py)
    lists them in SOURCE ORDER from the AST of each `open()`; the Bool paired with each call says
    whether the call stands inside an `if …auth_strict_key:` block. -/
inductive Call
  | handshake       -- paramiko `session.start_client()` / ssh2 `session.handshake(sock)`: key exchange
  | verifyKey       -- `_verify_key` that compares the key VALUE (paramiko, ssh2)
  | verifyPresent   -- `_verify_key` that only checks the host is PRESENT in known_hosts (asyncssh)
  | verifyValue     -- asyncssh `_verify_key_value` (compares the value, needs the connection)
  | connect (pin fallback overridable : Bool)
      -- `asyncssh.connect(**conn_args)`: key exchange AND authentication in one call;
      -- pin = when strict, `known_hosts=` carries the key expected for the host;
      -- fallback = the method that loads that key has a path that does NOT raise when the key cannot be
      --   loaded (returns nothing): connect() is then called with `known_hosts=None` after all;
      -- overridable = between the pin and connect() the user's `transport_options["asyncssh"]` are merged into the
      --   same arguments (`.update(...)`), so an option `known_hosts: None` takes the pin away again
  | authenticate    -- paramiko / ssh2 `_authenticate()` followed by the `is_authenticated` check
  | openChannel     -- `_open_channel()` / `session.open_session(...)`
deriving DecidableEq, Repr

/-- scrapli exception classes that can leave `open()` (anything else: `library`) -/
inductive Exc
  | authenticationFailed   -- ScrapliAuthenticationFailed
  | connectionNotOpened    -- ScrapliConnectionNotOpened
  | library                -- an exception of the ssh library / Python passes through unmapped
deriving DecidableEq, Repr

end Scrapli.HostKey
