import ScrapliModel.LifecycleSyntax
import ScrapliModel.Gen.TelnetConsts
/-
  C11 — model of the connection life cycle.

  Mirrors, statement by statement,
    scrapli/driver/base/sync_driver.py   __enter__ 34-61, __exit__ 63-84, open 86-118, close 120-142
    scrapli/driver/base/async_driver.py  __aenter__ 32-59, __aexit__ 61-82, open 84-111, close 113-135
    scrapli/channel/base_channel.py      open 275-308, close 310-325
    scrapli/decorators.py                _handle_timeout 118-142 (a timeout closes the transport, then raises)
    transports' open/close: system/transport.py 140-165, telnet/transport.py 170-193,
      asynctelnet/transport.py 142-188, paramiko/transport.py 68-101 + 252-264, asyncssh/transport.py 149-240
    platform hooks: scrapli/driver/core/*/{sync,async}_driver.py  *_on_open / *_on_close

  The four driver methods are *data* (`Code`, see LifecycleSyntax.lean): the hand written programs
  below are what the theorems are about; tools/gen/c11.py regenerates the same programs from the
  source's AST and `ScrapliProps/C11.lean` proves (by `decide`) that the two coincide.

  Environment = a tape of events `Ev`, one consumed by `transport.open()` and one by every
  device-facing step that finds the transport usable; an exhausted tape means "all goes well".
  Faults: `drop` (device gone: the step raises ScrapliConnectionError, every later step fails),
  `stall` (no answer: the timeout decorator closes the transport and raises ScrapliTimeout),
  `refuse` / `authFail` (transport.open() fails before / after the library session exists).
-/
namespace Scrapli.Lifecycle

/-- per-session fields of the Telnet transports (`_eof`, len of `_raw_buf`, `_cooked_buf`,
    `_control_buf`, `_control_char_sent_counter`) -/
structure Tn where
  eof : Bool := false
  raw : Nat := 0
  cooked : Nat := 0
  ctrl : Nat := 0
  counter : Nat := 0
deriving Repr, DecidableEq, Inhabited

structure St where
  sess : Bool := false        -- transport.session / .socket / .stdout is set (the handle close() looks at)
  chan : Bool := false        -- transport.session_channel / .stdin is set
  os : Bool := false          -- OS resources of the session exist: ssh child + pty, socket, library worker thread
  alive : Bool := false       -- the device end of the current session is still there
  fileOpen : Bool := false    -- channel.channel_log is an open file scrapli opened itself
  logAttached : Bool := false -- channel.channel_log is not None
  bioClosed : Bool := false   -- the user's BytesIO sink has been closed
  orphan : Bool := false      -- an OS level session whose handle was overwritten by another open() (nothing can close it any more)
  needClose : Bool := false   -- ghost: open() was called and neither close() nor a with-exit followed yet
  tn : Tn := {}
deriving Repr, DecidableEq, Inhabited

/-- `stallKeep`: the step ends in ScrapliTimeout with the transport left as it is — `Settings.NO_TERMINATE_ON_TIMEOUT`
    (decorators.py `_handle_timeout`: the `transport.close()` is skipped), or the transport's own read raising
    ScrapliTimeout (telnet/transport.py `_read`: socket.timeout -> ScrapliTimeout; no handler involved) -/
inductive EvK | ok | drop | stall | refuse | authFail | stallKeep
deriving Repr, DecidableEq, Inhabited

/-- one environment event; `tn` = `none` when the step never reached `recv()`, otherwise what the
    byte machine of a Telnet transport is left with by the step (`counter` = number of option
    commands delivered during it) -/
structure Ev where
  k : EvK := .ok
  tn : Option Tn := none
deriving Repr, DecidableEq, Inhabited

structure Cfg where
  stack : Stack := .sync
  kind : TKind := .sim
  tname : TName := .system
  bypass : Bool := true
  sink : Sink := .none
  onOpen : Hook := .none
  onClose : Hook := .none
  tcloseRaises : Bool := false   -- transport.close() fails whenever it has an OS level session to close (ptyprocess.py:471-473)
  code : Code
  facts : Facts
deriving Repr, DecidableEq

/-- result of running something: outcome, new state, rest of the tape, statements reached -/
structure R where
  out : Outcome
  st : St
  tape : List Ev
  tr : List String
deriving Repr, DecidableEq

def R.ok (r : R) : Bool := r.out == .returns

/-! ### transports -/

def isTelnet (k : TKind) : Bool := k == .telnet || k == .asynctelnet

def resetsOf (cfg : Cfg) : List TnField :=
  match cfg.kind with
  | .telnet => cfg.facts.telnetOpenResets
  | .asynctelnet => cfg.facts.asynctelnetOpenResets
  | _ => []

/-- fields that `open()` assigns their `__init__` value -/
def resetTn (fs : List TnField) (t : Tn) : Tn :=
  { eof := if fs.contains .eof then false else t.eof
    raw := if fs.contains .raw then 0 else t.raw
    cooked := if fs.contains .cooked then 0 else t.cooked
    ctrl := if fs.contains .ctrl then 0 else t.ctrl
    counter := if fs.contains .counter then 0 else t.counter }

/-- what a device-facing step leaves in the Telnet fields: `_eof = not buf` on every recv
    (telnet/transport.py:226); the sync transport counts answered option commands while below its
    limit (71, 227, 244), the asyncio one never counts -/
def stepTn (cfg : Cfg) (t : Tn) (e : Option Tn) : Tn :=
  match e with
  | none => t
  | some e =>
    if isTelnet cfg.kind then
      -- at or above the limit the sync transport passes bytes through untouched: no option handling
      let machineOn := cfg.kind == .asynctelnet || t.counter < Scrapli.Gen.Telnet.syncLimit
      { eof := e.eof, raw := e.raw, cooked := e.cooked
        ctrl := if machineOn then e.ctrl else t.ctrl
        counter := if cfg.kind == .telnet && machineOn then t.counter + e.counter else t.counter }
    else t

/-- which handle `transport.close()` tests before closing the OS level session:
    system `if self.session` (transport.py:160), telnet `if self.socket` (185-191), asynctelnet
    `if self.stdin` (176), asyncssh `if self.session` (227); paramiko tests `session_channel`
    (paramiko/transport.py:255) unless it also closes `self.session` -/
def ownerHeld (cfg : Cfg) (s : St) : Bool :=
  if cfg.kind == .paramiko && !cfg.facts.paramikoCloseClosesSession then s.chan else s.sess

/-- `transport.close()`: close what the tested handle owns, then set every handle to None.
    Never raises (assumption: PtyProcess.close() manages to terminate the child). -/
def transportClose (cfg : Cfg) (s : St) : St :=
  { s with sess := false, chan := false, os := s.os && !ownerHeld cfg s, alive := false }

/-- `transport.close()` has something to close and fails doing so: PtyProcess.close() raises before
    `fd = -1 / closed = True`, SystemTransport.close() therefore never reaches `self.session = None`
    (system/transport.py:160-163): nothing changes -/
def tcloseFails (cfg : Cfg) (s : St) : Bool := cfg.tcloseRaises && s.os && ownerHeld cfg s

/-- the asyncio transports assign the new streams / connection over the old attribute
    (asynctelnet/transport.py:149, asyncssh/transport.py:195): a session still held at that moment
    stays registered with the event loop and can never be closed through the transport again.
    (system: the replaced PtyProcess is closed by its `__del__`; telnet: a live socket is re-used.) -/
def orphaning (k : TKind) : Bool := k == .asynctelnet || k == .asyncssh

/-- `transport.open()`; consumes one event -/
def transportOpen (cfg : Cfg) (s : St) (tape : List Ev) : R :=
  let s := { s with tn := resetTn (resetsOf cfg) s.tn }
  let k := match tape with | [] => EvK.ok | e :: _ => e.k
  let rest := tape.drop 1
  match k with
  | .refuse =>
    -- nothing was created (telnet: Socket.open raised; asyncio transports: the connect raised)
    -- (every transport reports this as ScrapliConnectionNotOpened; asynctelnet since 8552c21)
    ⟨.raises .notOpened, s, rest, ["topen"]⟩
  | .authFail =>
    if cfg.kind == .paramiko then
      -- paramiko/transport.py:82-97: session started (socket + worker thread), no channel yet
      ⟨.raises .authFailed, { s with sess := true, chan := false, os := true, alive := true }, rest, ["topen"]⟩
    else ⟨.raises .authFailed, s, rest, ["topen"]⟩
  | _ =>
    let orph := s.orphan || (s.os && orphaning cfg.kind)
    ⟨.returns, { s with sess := true, chan := true, os := true, alive := true, orphan := orph }, rest, ["topen"]⟩

/-! ### channel log (base_channel.py 275-325) -/

def channelOpen (cfg : Cfg) (s : St) : St :=
  match cfg.sink with
  | .none => s
  | .path => { s with fileOpen := true, logAttached := true }     -- open(destination, mode)
  | .bytesio => { s with logAttached := true }                   -- self.channel_log = the user's object

def channelClose (cfg : Cfg) (s : St) : St :=
  if !s.logAttached then s                                       -- `if self.channel_log:`
  else match cfg.sink with
    | .none => s
    | .path => { s with fileOpen := false }
    | .bytesio => if cfg.facts.channelCloseKeepsUserSink then s else { s with bioClosed := true }

/-! ### device-facing steps -/

/-- the channel log raises on every read once the attached sink has been closed (sync_channel.py:76-77) -/
def logBroken (cfg : Cfg) (s : St) : Bool :=
  s.logAttached && ((cfg.sink == .bytesio && s.bioClosed) ||
                    -- a log file scrapli closed while the transport lives on (only when transport.close() raised)
                    (cfg.sink == .path && !s.fileOpen))

/-- one device-facing step (`reads` = it waits for the device's answer) -/
def interact (cfg : Cfg) (reads : Bool) (tag : String) (s : St) (tape : List Ev) : R :=
  if !(s.sess && s.chan) then ⟨.raises .notOpened, s, tape, [tag]⟩      -- transport.write/read: "if not self.session"
  else if !s.alive then ⟨.raises .connError, s, tape, [tag]⟩             -- EOF from a dead session
  else match tape with
    | [] => ⟨if reads && logBroken cfg s then .raises .valueError else .returns, s, [], [tag]⟩
    | e :: rest =>
      let s := { s with tn := stepTn cfg s.tn e.tn }
      match e.k with
      | .drop => ⟨.raises .connError, { s with alive := false }, rest, [tag]⟩
      | .stall =>
        if reads then
          -- decorators.py:139-142: transport.close(), then raise ScrapliTimeout (unless the close itself raises)
          if tcloseFails cfg s then ⟨.raises .closeError, s, rest, [tag]⟩
          else ⟨.raises .timeout, transportClose cfg s, rest, [tag]⟩
        else ⟨.returns, s, rest, [tag]⟩
      -- ScrapliTimeout without the closing handler: nothing is closed
      | .stallKeep => ⟨if reads then .raises .timeout else .returns, s, rest, [tag]⟩
      -- the device refuses the login (prompt seen a third time, "Permission denied"): the step raises
      -- ScrapliAuthenticationFailed with the transport up and the session alive (sync_channel.py:309-312, 401-404)
      | .authFail => ⟨.raises .authFailed, s, rest, [tag]⟩
      | _ => ⟨if reads && logBroken cfg s then .raises .valueError else .returns, s, rest, [tag]⟩

def Act.tag : Act → String
  | .acquirePriv => "a:acquire_priv"
  | .sendCommand => "a:send_command"
  | .sendInput => "a:send_input"
  | .getPrompt => "a:get_prompt"
  | .channelWrite => "a:write"
  | .sendReturn => "a:send_return"

/-- the acts of a device-talking hook, in order, until one raises -/
def runActs (cfg : Cfg) : List Act → St → List Ev → R
  | [], s, tape => ⟨.returns, s, tape, []⟩
  | a :: rest, s, tape =>
    let r := interact cfg a.reads a.tag s tape
    if r.ok then
      let r' := runActs cfg rest r.st r.tape
      { r' with tr := r.tr ++ r'.tr }
    else r

def runHook (cfg : Cfg) (h : Hook) (tag : String) (s : St) (tape : List Ev) : R :=
  match h with
  | .none => ⟨.returns, s, tape, []⟩
  | .userOk => ⟨.returns, s, tape, [tag]⟩
  | .userRaises => ⟨.raises .hookError, s, tape, [tag]⟩
  | .acts l => let r := runActs cfg l s tape; { r with tr := tag :: r.tr }

/-! ### the statement language -/

def guardHolds (cfg : Cfg) : Guard → Bool
  | .always => true
  | .systemNoBypass => cfg.tname == .system && !cfg.bypass
  | .telnetNoBypass => (cfg.tname == .telnet || cfg.tname == .asynctelnet) && !cfg.bypass
  | .hasOnOpen => cfg.onOpen != .none
  | .hasOnClose => cfg.onClose != .none

/-- statements that do not call another method of the driver -/
def execStmt0 (cfg : Cfg) (st : Stmt) (s : St) (tape : List Ev) : R :=
  match st with
  | .logPre c => ⟨.returns, s, tape, [if c then "pre:c" else "pre:o"]⟩
  | .logPost c => ⟨.returns, s, tape, [if c then "post:c" else "post:o"]⟩
  | .logCritical => ⟨.returns, s, tape, ["crit"]⟩
  | .transportOpen => transportOpen cfg s tape
  | .transportClose =>
    if tcloseFails cfg s then ⟨.raises .closeError, s, tape, ["tclose"]⟩
    else ⟨.returns, transportClose cfg s, tape, ["tclose"]⟩
  | .channelOpen => ⟨.returns, channelOpen cfg s, tape, ["copen"]⟩
  | .channelClose => ⟨.returns, channelClose cfg s, tape, ["cclose"]⟩
  | .authSystem => interact cfg true "auth:ssh" s tape
  | .authTelnet => interact cfg true "auth:telnet" s tape
  | .onOpen => runHook cfg cfg.onOpen "on_open" s tape
  | .onClose => runHook cfg cfg.onClose "on_close" s tape
  | .callOpen => ⟨.returns, s, tape, []⟩
  | .callClose => ⟨.returns, s, tape, []⟩

/-- a flat statement list, until one raises -/
def execList (f : Stmt → St → List Ev → R) (cfg : Cfg) : List GS → St → List Ev → R
  | [], s, tape => ⟨.returns, s, tape, []⟩
  | x :: rest, s, tape =>
    if guardHolds cfg x.g then
      let r := f x.s s tape
      if r.ok then
        let r' := execList f cfg rest r.st r.tape
        { r' with tr := r.tr ++ r'.tr }
      else r
    else execList f cfg rest s tape

/-- `try: a  finally: b` started in the result `r0` of what ran before (pending outcome `r0.out` is
    not looked at here): the outcome of b if b raised, else that of a -/
def finallyPair (f : Stmt → St → List Ev → R) (cfg : Cfg) (a b : List GS) (s : St) (tape : List Ev) : R :=
  let r1 := execList f cfg a s tape
  let r2 := execList f cfg b r1.st r1.tape
  { r2 with out := if r2.ok then r1.out else r2.out, tr := r1.tr ++ r2.tr }

def execNode (f : Stmt → St → List Ev → R) (cfg : Cfg) (n : Node) (s : St) (tape : List Ev) : R :=
  match n with
  | .simple x => execList f cfg [x] s tape
  | .tryFinally body fin =>
    let r := execList f cfg body s tape
    let r' := execList f cfg fin r.st r.tape
    -- an exception raised in the finally block replaces the pending one
    { r' with out := if r'.ok then r.out else r'.out, tr := r.tr ++ r'.tr }
  | .tryExceptRaise body handler =>
    let r := execList f cfg body s tape
    if r.ok then r
    else
      let r' := execList f cfg handler r.st r.tape
      { r' with out := if r'.ok then .raises .connError else r'.out, tr := r.tr ++ r'.tr }
  | .tryFinallyN body fin1 fin2 =>
    let r := execList f cfg body s tape
    let r' := finallyPair f cfg fin1 fin2 r.st r.tape
    { r' with out := if r'.ok then r.out else r'.out, tr := r.tr ++ r'.tr }
  | .tryExceptRaiseN body h0 h1 h2 =>
    let r := execList f cfg body s tape
    if r.ok then r
    else
      let r0 := execList f cfg h0 r.st r.tape
      if !r0.ok then { r0 with tr := r.tr ++ r0.tr }
      else
        let r' := finallyPair f cfg h1 h2 r0.st r0.tape
        { r' with out := if r'.ok then .raises .connError else r'.out, tr := r.tr ++ r0.tr ++ r'.tr }

def execProg (f : Stmt → St → List Ev → R) (cfg : Cfg) : Prog → St → List Ev → R
  | [], s, tape => ⟨.returns, s, tape, []⟩
  | n :: rest, s, tape =>
    let r := execNode f cfg n s tape
    if r.ok then
      let r' := execProg f cfg rest r.st r.tape
      { r' with tr := r.tr ++ r'.tr }
    else r

/-- `Driver.open()` / `Driver.close()` -/
def runOpen (cfg : Cfg) (s : St) (tape : List Ev) : R := execProg (execStmt0 cfg) cfg cfg.code.openP s tape
def runClose (cfg : Cfg) (s : St) (tape : List Ev) : R := execProg (execStmt0 cfg) cfg cfg.code.closeP s tape

/-- statements of `__enter__` / `__exit__`, which call `self.open()` / `self.close()` -/
def execStmt1 (cfg : Cfg) (st : Stmt) (s : St) (tape : List Ev) : R :=
  match st with
  | .callOpen => runOpen cfg s tape
  | .callClose => runClose cfg s tape
  | st => execStmt0 cfg st s tape

def runEnter (cfg : Cfg) (s : St) (tape : List Ev) : R := execProg (execStmt1 cfg) cfg cfg.code.enterP s tape

/-- the statements `__exit__(exception_type, …)` runs for a with-body that ended with `pending`: the first early-return
    branch whose class test the pending exception passes, else the main program -/
def exitProg (c : Code) (pending : Outcome) : Prog :=
  match pending with
  | .returns => c.exitP
  | .raises e =>
    match c.exitOn.find? (fun p => p.1.selects e) with
    | some p => p.2
    | none => c.exitP

/-- `__exit__` / `__aexit__`; input: how the with-body ended (`exception_type`) -/
def runExit (cfg : Cfg) (pending : Outcome) (s : St) (tape : List Ev) : R :=
  execProg (execStmt1 cfg) cfg (exitProg cfg.code pending) s tape

/-! ### operations a user script performs -/

/-- what the body of a with-block may do with the connection -/
inductive BodyOp
  | operate | close | open
  | raise                    -- the harness' BodyError
  | raiseExc (e : Exc)       -- user code raising one specific class (scrapli classes, ValueError, KeyboardInterrupt, CancelledError …)
deriving Repr, DecidableEq, Inhabited

inductive Op
  | open
  | close
  | operate                          -- send_command
  | withBlock (body : List BodyOp)   -- with conn: body
deriving Repr, DecidableEq, Inhabited

def opOpen (cfg : Cfg) (s : St) (tape : List Ev) : R :=
  runOpen cfg { s with needClose := true } tape

def opClose (cfg : Cfg) (s : St) (tape : List Ev) : R :=
  let r := runClose cfg s tape
  { r with st := { r.st with needClose := false } }

def opOperate (cfg : Cfg) (s : St) (tape : List Ev) : R := interact cfg true "operate" s tape

def runBodyOp (cfg : Cfg) (b : BodyOp) (s : St) (tape : List Ev) : R :=
  match b with
  | .operate => opOperate cfg s tape
  | .close => opClose cfg s tape
  | .open => opOpen cfg s tape
  | .raise => ⟨.raises .bodyError, s, tape, ["raise"]⟩
  | .raiseExc e => ⟨.raises e, s, tape, ["raise"]⟩

/-- the body runs until its first exception, which then leaves the block -/
def runBody (cfg : Cfg) : List BodyOp → St → List Ev → R
  | [], s, tape => ⟨.returns, s, tape, []⟩
  | b :: rest, s, tape =>
    let r := runBodyOp cfg b s tape
    if r.ok then
      let r' := runBody cfg rest r.st r.tape
      { r' with tr := r.tr ++ r'.tr }
    else r

/-- `with conn: body` — `__enter__`; if it raised the block is over (no `__exit__`); otherwise the
    body, then `__exit__` whatever the body did; an exception from `__exit__` replaces the body's -/
def opWith (cfg : Cfg) (body : List BodyOp) (s : St) (tape : List Ev) : R :=
  let r1 := runEnter cfg { s with needClose := true } tape
  if !r1.ok then { r1 with st := { r1.st with needClose := false }, tr := r1.tr ++ ["enter-raised"] }
  else
    let r2 := runBody cfg body r1.st r1.tape
    let r3 := runExit cfg r2.out r2.st r2.tape
    { out := if r3.ok then r2.out else r3.out
      st := { r3.st with needClose := false }
      tape := r3.tape
      tr := r1.tr ++ ["body"] ++ r2.tr ++ ["exit"] ++ r3.tr }

def runOp (cfg : Cfg) (op : Op) (s : St) (tape : List Ev) : R :=
  match op with
  | .open => opOpen cfg s tape
  | .close => opClose cfg s tape
  | .operate => opOperate cfg s tape
  | .withBlock body => opWith cfg body s tape

/-- a history: every operation gets its own event tape (the environment's choices during it);
    an exception of one operation is caught by the script and the history goes on -/
def runHistory (cfg : Cfg) : List (Op × List Ev) → St → List R
  | [], _ => []
  | (op, tape) :: rest, s =>
    let r := runOp cfg op s tape
    r :: runHistory cfg rest r.st

/-! ### the programs the theorems are about (hand written from the source; compared with the
    generated ones by `source_is_model`) -/

/-- sync_driver.py:100-118 -/
def openSync : Prog :=
  [ .simple ⟨.always, .logPre false⟩,           -- 100
    .simple ⟨.always, .transportOpen⟩,          -- 102
    .simple ⟨.always, .channelOpen⟩,            -- 103
    .simple ⟨.systemNoBypass, .authSystem⟩,     -- 105-109
    .simple ⟨.telnetNoBypass, .authTelnet⟩,     -- 110-113
    .simple ⟨.hasOnOpen, .onOpen⟩,              -- 115-116
    .simple ⟨.always, .logPost false⟩ ]         -- 118

/-- async_driver.py:98-111 (no in-channel ssh authentication: there is no asyncio system transport) -/
def openAsync : Prog :=
  [ .simple ⟨.always, .logPre false⟩,
    .simple ⟨.always, .transportOpen⟩,
    .simple ⟨.always, .channelOpen⟩,
    .simple ⟨.telnetNoBypass, .authTelnet⟩,
    .simple ⟨.hasOnOpen, .onOpen⟩,
    .simple ⟨.always, .logPost false⟩ ]

/-- first log statement of close(): sync_driver.py:134 `_pre_…`, async_driver.py:127 `_post_…` (sic) -/
def closeHead (st : Stack) : Node :=
  .simple ⟨.always, match st with | .sync => .logPre true | .async => .logPost true⟩

/-- close() of the unchanged tree (sync_driver.py:134-142): hook, then the two closes, unprotected -/
def closeOrig (st : Stack) : Prog :=
  [ closeHead st,
    .simple ⟨.hasOnClose, .onClose⟩,            -- 136-137
    .simple ⟨.always, .transportClose⟩,         -- 139
    .simple ⟨.always, .channelClose⟩,           -- 140
    .simple ⟨.always, .logPost true⟩ ]          -- 142

/-- close() with fixes/C11-close-finally.patch: the hook inside try, the two closes in finally -/
def closeFixed (st : Stack) : Prog :=
  [ closeHead st,
    .tryFinally [⟨.hasOnClose, .onClose⟩] [⟨.always, .transportClose⟩, ⟨.always, .channelClose⟩],
    .simple ⟨.always, .logPost true⟩ ]

/-- sync_driver.py:48-61 / async_driver.py:46-59 -/
def enterP : Prog :=
  [ .tryExceptRaise [⟨.always, .callOpen⟩]
      [⟨.always, .logCritical⟩, ⟨.always, .transportClose⟩, ⟨.always, .channelClose⟩] ]

/-- sync_driver.py:84 / async_driver.py:82 -/
def exitP : Prog := [ .simple ⟨.always, .callClose⟩ ]

/-- close() with fixes/C11-close-nested-finally.patch: the channel log is closed even if
    transport.close() raises -/
def closeFixed2 (st : Stack) : Prog :=
  [ closeHead st,
    .tryFinallyN [⟨.hasOnClose, .onClose⟩] [⟨.always, .transportClose⟩] [⟨.always, .channelClose⟩],
    .simple ⟨.always, .logPost true⟩ ]

/-- `__enter__` with the same patch -/
def enterP2 : Prog :=
  [ .tryExceptRaiseN [⟨.always, .callOpen⟩] [⟨.always, .logCritical⟩] [⟨.always, .transportClose⟩] [⟨.always, .channelClose⟩] ]

def openOf : Stack → Prog
  | .sync => openSync
  | .async => openAsync

def codeOrig (st : Stack) : Code := ⟨openOf st, closeOrig st, enterP, exitP, []⟩
def codeFixed (st : Stack) : Code := ⟨openOf st, closeFixed st, enterP, exitP, []⟩
def codeFixed2 (st : Stack) : Code := ⟨openOf st, closeFixed2 st, enterP2, exitP, []⟩

def allFields : List TnField := [.eof, .raw, .cooked, .ctrl, .counter]

def factsOrig : Facts := ⟨[], [], false, false⟩
def factsFixed : Facts := ⟨allFields, allFields, true, true⟩

/-- platform hooks: every `*_on_close` is acquire_priv, write "exit", send_return; every `*_on_open`
    is acquire_priv followed by two or three paging/width commands (`eos_on_open` of the sync
    driver uses channel.send_input for them) -/
def onCloseDefault : List Act := [.acquirePriv, .channelWrite, .sendReturn]

def onOpenDefault : Platform → Stack → List Act
  | .generic, _ => [.getPrompt]       -- generic_on_open (driver/generic/sync_driver.py:20-35); GenericDriver has no on_close
  | .junos, _ => [.acquirePriv, .sendCommand, .sendCommand, .sendCommand]
  | .eos, .sync => [.acquirePriv, .sendInput, .sendInput]
  | _, _ => [.acquirePriv, .sendCommand, .sendCommand]

end Scrapli.Lifecycle
