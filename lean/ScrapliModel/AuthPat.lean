import ScrapliModel.Bytes
/-
  Data shapes for the in-channel login model (C09) and the byte-level meaning of the
  authentication / prompt patterns of scrapli/channel/base_channel.py:69-72.
  The translator (tools/gen/c09.py) parses every pattern with CPython's own `re._parser`,
  accepts only the shapes below and emits them as data (Gen/AuthConsts.lean); anything else
  is a TranslateError.  Core Lean only.
-/
namespace Scrapli.Auth
open Scrapli

/-- what the login loop can write: the three credentials (each followed by a return) and the
    bare return ("kick") -/
inductive Kind where
  | username | password | passphrase | ret
deriving DecidableEq, Repr, Inhabited

/-- the four login loops: scrapli/channel/sync_channel.py:262 (ssh), :334 (telnet) and
    scrapli/channel/async_channel.py:265 (ssh), :341 (telnet) -/
inductive Loop where
  | syncTelnet | asyncTelnet | syncSsh | asyncSsh
deriving DecidableEq, Repr, Inhabited

/-- a statement of the `except ScrapliConnectionError:` branch of a login loop, as far as the
    translator recognises it (anything else is a TranslateError) -/
inductive ErrStmt where
  | sendReturn                 -- self.send_return()
  | bumpAttempts               -- return_attempts += 1
  | clearBuf                   -- authenticate_buf = b""
  | resetCount (k : Kind)      -- <k>_count = 0
  | cont                       -- continue
deriving DecidableEq, Repr

/-- one top-level alternative of a credential pattern, compiled with `re.I | re.M` and used
    with `re.search`:   `^`? `(.*…)?`-prefix  LITERAL  (`\s?$`)?   -/
structure Branch where
  bol : Bool        -- the branch starts with `^`
  dotstar : Bool    -- a `.*` (or an optional group) precedes the literal: it may start anywhere in a line
  needle : Bytes    -- the literal, ASCII-lower-cased (the pattern is compiled with re.I)
  tail : Bool       -- the literal is followed by `\s?$`
deriving Repr, DecidableEq

/-- a prompt pattern of shape `^ [head]{lo,hi} [last] (\s? | \s*)? $` (re.I | re.M) -/
structure PromptPat where
  head : Bytes      -- bytes the head class accepts (case folding applied)
  lo : Nat
  hi : Nat
  last : Bytes      -- bytes the final class accepts
  trail : Nat       -- 0: nothing, 1: `\s?`, 2: `\s*` between the last class and `$`
deriving Repr, DecidableEq

/-- `bytes.lower()` -/
def lowerByte (c : UInt8) : UInt8 := if 65 ≤ c ∧ c ≤ 90 then c + 32 else c
def lower (b : Bytes) : Bytes := b.map lowerByte

/-- `\s` for bytes patterns: blank, \t \n \v \f \r -/
def isSpace (c : UInt8) : Bool := c == 32 || (9 ≤ c && c ≤ 13)

/-- `$` under re.M: end of the string or just before a newline -/
def atEOL : Bytes → Bool
  | [] => true
  | c :: _ => c == 10

/-- `\s?$` at the start of `rest` -/
def tailOK : Bytes → Bool
  | [] => true
  | c :: r => c == 10 || (isSpace c && atEOL r)

/-- does the literal start here (case-insensitively)? -/
def startsWith (needle : Bytes) (s : Bytes) : Bool := lower (s.take needle.length) == needle

/-- the branch matches with its literal starting at the head of `s`; `prev` is the byte before
    (none at the start of the buffer) -/
def Branch.here (br : Branch) (prev : Option UInt8) (s : Bytes) : Bool :=
  startsWith br.needle s
    && (!br.bol || br.dotstar || prev == none || prev == some 10)
    && (!br.tail || tailOK (s.drop br.needle.length))

def Branch.scan (br : Branch) : Option UInt8 → Bytes → Bool
  | prev, [] => br.here prev []
  | prev, c :: r => br.here prev (c :: r) || br.scan (some c) r

/-- `re.search(branch, buf)` -/
def Branch.search (br : Branch) (buf : Bytes) : Bool := br.scan none buf

/-- `re.search(pattern, buf)` for a credential pattern = some alternative matches somewhere -/
def searchAny (brs : List Branch) (buf : Bytes) : Bool := brs.any (·.search buf)

/-- split at newlines (`b"a\nb".split(b"\n")`) -/
def splitNl : Bytes → List Bytes
  | [] => [[]]
  | c :: r =>
    match splitNl r with
    | [] => [[]]   -- unreachable
    | l :: ls => if c == 10 then [] :: l :: ls else (c :: l) :: ls

/-- strip what the trailer between the last class and `$` may consume inside the line -/
def stripTrail (trail : Nat) (line : Bytes) : List Bytes :=
  match trail with
  | 0 => [line]
  | 1 => match line.reverse with
         | c :: r => if isSpace c then [line, r.reverse] else [line]
         | [] => [line]
  | _ => [line, (line.reverse.dropWhile isSpace).reverse]

def PromptPat.lineOK (p : PromptPat) (line : Bytes) : Bool :=
  (stripTrail p.trail line).any fun l =>
    match l.reverse with
    | [] => false
    | c :: w => p.last.contains c && p.lo ≤ w.length && w.length ≤ p.hi && w.all p.head.contains

/-- `re.search(prompt_pattern, buf)`: some line of the buffer is a prompt -/
def PromptPat.search (p : PromptPat) (buf : Bytes) : Bool := (splitNl buf).any p.lineOK

end Scrapli.Auth
