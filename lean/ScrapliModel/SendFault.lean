import ScrapliModel.Send
/-
  C13 — the failing channel: the send_command(s) / send_config(s) machinery of Send.lean run against a channel that
  raises while ONE `send_input` call (a user line or an abort line) is in progress.

    scrapli/channel/{sync,async}_channel.py  send_input :501-510
        with self._channel_lock():
            self.write(channel_input)                 -- raises: nothing of this line was written   (beforeWrite)
            self._read_until_input(...)               -- raises: the line is on the wire, no return (afterLine)
            self.send_return()                        -- raises: the same                            (afterLine)
            self._read_until_prompt()                 -- raises: line + return written, the device executed it
                                                         (afterReturn); the return never reached the device and the
                                                         read runs into the timeout (returnLost)
    scrapli/decorators.py:119-143   a timeout closes the transport and raises ScrapliTimeout
    scrapli/driver/generic/{sync,async}_driver.py :162-172, :249-277   no try/except/finally around `send_input`
    scrapli/driver/network/{sync,async}_driver.py :531-553             none around the loop or `_abort_config`
    scrapli/driver/core/*/{sync,async}_driver.py  _abort_config        none

  There is no handler anywhere between `send_input` and the caller: the exception propagates through
  `_send_command`, the `for` loop, `send_commands`, `send_configs` (so `_abort_config` is NOT reached) and the
  `_abort_config` of the platform.  `FOut.bind` is that propagation.

  The environment chooses the call that fails by a countdown (`FSt.fuel` = number of user / abort `send_input`
  calls that still succeed) and the point and the exception class by a `Fault`.  Navigation (`Env.nav`, C03/C04) is
  not faultable here: `_escalate` converts a ScrapliTimeout into ScrapliAuthenticationFailed (:121-125), so the class
  is not preserved there, and what `acquire_priv` writes is abstract in this model anyway.
  Core Lean only; executable (Drv/C13.lean).
-/
namespace Scrapli.Send
open Scrapli

/-- where inside `send_input` the channel fails -/
inductive Point where
  /-- `self.write(channel_input)` raises: nothing of the line is written -/
  | beforeWrite
  /-- the echo read or the write of the return raises: the line is written, the return is not -/
  | afterLine
  /-- the read to the prompt raises: line and return are written, the device has executed the line -/
  | afterReturn
  /-- line and return are handed to the transport, the return never reaches the device (the device is gone /
      silent): the read to the prompt runs into the timeout -/
  | returnLost
deriving Repr, DecidableEq

/-- the class of the exception: ScrapliTimeout / ScrapliConnectionError -/
inductive FKind where
  | timeout | conn
deriving Repr, DecidableEq

structure Fault where
  point : Point
  kind : FKind
deriving Repr, DecidableEq

/-- decorators.py:141 (`transport.close()` before ScrapliTimeout is raised); a connection error means the
    transport is gone: in neither case does the driver reopen or touch the connection -/
def usableAfter (_ : Fault) : Bool := false

structure FSt (μ : Type) where
  st : St μ
  /-- user / abort `send_input` calls that still succeed before the failing one -/
  fuel : Nat

/-- result of an operation over the failing channel: a value, or the channel's exception propagating -/
inductive FOut (μ : Type) (α : Type) where
  | ok (a : α) (fs : FSt μ)
  | fault (k : FKind) (fs : FSt μ)

/-- exception propagation: nothing after the raising statement runs -/
def FOut.bind {μ α β : Type} (x : FOut μ α) (f : α → FSt μ → FOut μ β) : FOut μ β :=
  match x with
  | .ok a fs => f a fs
  | .fault k fs => .fault k fs

variable {μ : Type}

/-- what the failing `send_input` call leaves behind -/
def partialInput (env : Env μ) (ret : Str) (o : Origin) (pt : Point) (line : Str) (st : St μ) : St μ :=
  match pt with
  | .beforeWrite => st
  | .afterLine => { st with writes := st.writes ++ [encode line] }
  | .afterReturn => (sendInput env ret o line st).1
  | .returnLost => { st with writes := st.writes ++ [encode line, encode ret] }

/-- `Channel.send_input` over the failing channel -/
def sendInputF (env : Env μ) (ret : Str) (flt : Fault) (o : Origin) (line : Str) (fs : FSt μ) : FOut μ Bytes :=
  match fs.fuel with
  | 0 => .fault flt.kind ⟨partialInput env ret o flt.point line fs.st, 0⟩
  | k + 1 => .ok (sendInput env ret o line fs.st).2 ⟨(sendInput env ret o line fs.st).1, k⟩

/-- `for c in cmds: self.channel.send_input(c)` (the direct abort plans) -/
def sendLinesF (env : Env μ) (ret : Str) (flt : Fault) (o : Origin) : List Str → FSt μ → FOut μ Unit
  | [], fs => .ok () fs
  | l :: ls, fs => (sendInputF env ret flt o l fs).bind fun _ fs' => sendLinesF env ret flt o ls fs'

/-- `_send_command` (generic/sync_driver.py:162-172) -/
def sendCommand1F (env : Env μ) (ret : Str) (flt : Fault) (o : Origin) (fwc : Fwc) (eager : Bool) (line : Str)
    (fs : FSt μ) : FOut μ Resp :=
  (sendInputF env ret flt o line fs).bind fun out fs' =>
    let result := decode (if eager then [] else out)
    .ok ⟨line, result, recordFailed (respMarkers fwc) result, respMarkers fwc⟩ fs'

/-- the `for command in commands[:-1]` loop (generic/sync_driver.py:250-263) -/
def loopF (env : Env μ) (ret : Str) (flt : Fault) (o : Origin) (fwc : Fwc) (stop eager : Bool) :
    List Str → FSt μ → List Resp → FOut μ (List Resp × Bool)
  | [], fs, acc => .ok (acc, false) fs
  | c :: cs, fs, acc =>
    (sendCommand1F env ret flt o fwc eager c fs).bind fun r fs' =>
      if stop && r.failed then .ok (acc ++ [r], true) fs'
      else loopF env ret flt o fwc stop eager cs fs' (acc ++ [r])

/-- `GenericDriver.send_commands` (generic/sync_driver.py:249-277) -/
def genericSendCommandsF (env : Env μ) (ret : Str) (flt : Fault) (o : Origin) (fwc : Fwc) (stop eager : Bool)
    (commands : List Str) (fs : FSt μ) : FOut μ (List Resp × Option Err) :=
  (loopF env ret flt o fwc stop eager commands.dropLast fs []).bind fun r fs' =>
    if r.2 then .ok (r.1, none) fs'
    else match commands.getLast? with
      | none => .ok (r.1, some .index) fs'
      | some last =>
        (sendCommand1F env ret flt o fwc false last fs').bind fun q fs'' => .ok (r.1 ++ [q], none) fs''

def genericSendCommandsFromFileF (env : Env μ) (ret : Str) (flt : Fault) (fwc : Fwc) (stop eager : Bool) (text : Str)
    (fs : FSt μ) : FOut μ (List Resp × Option Err) :=
  genericSendCommandsF env ret flt .user fwc stop eager (fileLines text) fs

/-- `NetworkDriver.send_command` (network/sync_driver.py:250-264) -/
def sendCommandF (env : Env μ) (cfg : Cfg) (flt : Fault) (fwc : Fwc) (command : Str) (fs : FSt μ) :
    FOut μ (List Resp × Option Err) :=
  let a := acquireAppropriate env cfg fs.st
  match a.2 with
  | some e => .ok ([], some e) ⟨a.1, fs.fuel⟩
  | none =>
    (sendCommand1F env cfg.ret flt .user (netFwc cfg.defaultMarkers fwc) Gen.Send.eagerDefault command ⟨a.1, fs.fuel⟩).bind
      fun q fs' => .ok ([q], none) fs'

/-- `NetworkDriver.send_commands` (:305-323) -/
def sendCommandsF (env : Env μ) (cfg : Cfg) (flt : Fault) (fwc : Fwc) (stop eager : Bool) (commands : List Str)
    (fs : FSt μ) : FOut μ (List Resp × Option Err) :=
  let a := acquireAppropriate env cfg fs.st
  match a.2 with
  | some e => .ok ([], some e) ⟨a.1, fs.fuel⟩
  | none => genericSendCommandsF env cfg.ret flt .user (netFwc cfg.defaultMarkers fwc) stop eager commands ⟨a.1, fs.fuel⟩

/-- `NetworkDriver.send_commands_from_file` (:362-375) -/
def sendCommandsFromFileF (env : Env μ) (cfg : Cfg) (flt : Fault) (fwc : Fwc) (stop eager : Bool) (text : Str)
    (fs : FSt μ) : FOut μ (List Resp × Option Err) :=
  let a := acquireAppropriate env cfg fs.st
  match a.2 with
  | some e => .ok ([], some e) ⟨a.1, fs.fuel⟩
  | none => sendCommandsF env cfg flt (netFwc cfg.defaultMarkers fwc) stop eager (fileLines text) ⟨a.1, fs.fuel⟩

/-- `send_configs` up to and including `super().send_commands` (:531-548) -/
def sendConfigsCoreF (env : Env μ) (cfg : Cfg) (flt : Fault) (o : Origin) (fwc : Fwc) (stop : Bool) (priv : Str)
    (eager : Bool) (configs : List Str) (fs : FSt μ) : FOut μ (List Resp × Option Err) :=
  if cfg.genericMode then .ok ([], some .priv) fs
  else if !priv.isEmpty && !hasLevel cfg priv then .ok ([], some .priv) fs
  else
    let tgt := if priv.isEmpty then Gen.Send.configsDefaultLevel else priv
    let a := acquireIfNeeded env cfg tgt fs.st
    match a.2 with
    | some e => .ok ([], some e) ⟨a.1, fs.fuel⟩
    | none =>
      genericSendCommandsF env cfg.ret flt o (preConfigsFwc cfg.defaultMarkers fwc) stop eager configs ⟨a.1, fs.fuel⟩

/-- `if <marker> in self._current_priv_level.pattern` of the guarded direct plans (as in `abortConfig`) -/
def abortGuard (cfg : Cfg) (belief : Str) : Option Str → Bool
  | none => true
  | some m => isInfix m (levelPattern cfg belief)

/-- the platform's `_abort_config` over the failing channel -/
def abortConfigF (env : Env μ) (cfg : Cfg) (flt : Fault) (fs : FSt μ) : FOut μ (Option Err) :=
  match cfg.abort with
  | .nothing => .ok none fs
  | .direct guard cmds belief =>
    if abortGuard cfg fs.st.belief guard then
      (sendLinesF env cfg.ret flt .abort cmds fs).bind fun _ fs' =>
        .ok none ⟨{ fs'.st with belief := belief }, fs'.fuel⟩
    else .ok none fs
  | .viaSendConfigs cmds level belief =>
    (sendConfigsCoreF env cfg flt .abort .none Gen.Send.stopOnFailedDefault (abortLevel fs.st.belief level)
      Gen.Send.eagerDefault cmds fs).bind fun r fs' =>
      match r.2 with
      | some e => .ok (some e) fs'
      | none => .ok none ⟨{ fs'.st with belief := belief }, fs'.fuel⟩

/-- `NetworkDriver.send_configs` (:531-553): `_abort_config` is an ordinary statement after the loop — a channel
    exception inside the loop skips it -/
def sendConfigsF (env : Env μ) (cfg : Cfg) (flt : Fault) (fwc : Fwc) (stop : Bool) (priv : Str) (eager : Bool)
    (configs : List Str) (fs : FSt μ) : FOut μ (List Resp × Option Err) :=
  (sendConfigsCoreF env cfg flt .user fwc stop priv eager configs fs).bind fun r fs' =>
    match r.2 with
    | some _ => .ok r fs'
    | none =>
      if stop && multiFailed r.1 then
        (abortConfigF env cfg flt fs').bind fun e fs'' => .ok (r.1, e) fs''
      else .ok r fs'

/-- `NetworkDriver.send_config` (:600-613) -/
def sendConfigF (env : Env μ) (cfg : Cfg) (flt : Fault) (fwc : Fwc) (stop : Bool) (priv : Str) (eager : Bool)
    (config : Str) (fs : FSt μ) : FOut μ (List Resp × Option Err) :=
  sendConfigsF env cfg flt fwc stop priv eager (splitlines config) fs

/-- `NetworkDriver.send_configs_from_file` (:660-671) -/
def sendConfigsFromFileF (env : Env μ) (cfg : Cfg) (flt : Fault) (fwc : Fwc) (stop : Bool) (priv : Str) (eager : Bool)
    (text : Str) (fs : FSt μ) : FOut μ (List Resp × Option Err) :=
  sendConfigsF env cfg flt fwc stop priv eager (fileLines text) fs

end Scrapli.Send
