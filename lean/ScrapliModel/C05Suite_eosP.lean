import ScrapliModel.Gen.C05Tables_eosP
import ScrapliModel.Spec.PromptGrammar
/- C05: EOS after registering session names that are RELATED: `abc` / `abcd` (one truncated name is a prefix of
   another: finding F27) and `wxyz` / `WXYZ` (equal up to case: finding F28).  The modes are the ordinary EOS session
   modes of the specification (`eosSessionModes`, one per distinct first-six-characters prefix, each expected to be
   classified as exactly the sessions with that prefix).  `…Full`: no restriction — the generated verdict in
   ScrapliProps/C05Full.lean refutes the modes the real patterns get wrong and proves the others. -/
namespace Scrapli.C05
open Scrapli.Regex Scrapli.PromptClass Scrapli.Spec
def eosPFull : Suite := ⟨"eosPFull", Gen.C05.eosP, PromptGrammar.eosSFull Gen.C05.eosPSessions⟩
end Scrapli.C05
