import ScrapliModel.HostKeyTypes
import ScrapliModel.Gen.HostKeyGen
/-
  C10 — strict host-key checking protects credentials.

  Model of (line numbers: /repo at 4e2f419)
    scrapli/transport/plugins/paramiko/transport.py   open 69-102, _verify_key 104-137, _authenticate 139-172
    scrapli/transport/plugins/ssh2/transport.py       open 46-81,  _verify_key 83-117,  _authenticate 119-213   (ssh2-python is
                                                      NOT installed here: modelled by reading only)
    scrapli/transport/plugins/asyncssh/transport.py   _verify_key 99-119, _known_host_keys 121-150 (added by 304e179),
                                                      _verify_key_value 152-185, open 187-284
    scrapli/transport/plugins/system/transport.py     _build_open_cmd 69-138
    scrapli/ssh_config.py                             SSHKnownHosts._parse 449-476, lookup 478-506

  `open()` is an interpreter (`runFrom`) over the list of calls the translator extracts from the AST of each
  transport's `open()` IN SOURCE ORDER (Gen.paramikoOpenCalls …); each call has the semantics of the
  method it names (`stepCall`).  The result is an event trace.  What a *library* call does internally
  (`asyncssh.connect` = key exchange, then authentication; paramiko `auth_password` = one request on the
  wire) is the library's contract: stated here, observed by the loopback server in the check, not proved.
-/
namespace Scrapli.HostKey
open Scrapli.Gen.HostKey

/-! ## known_hosts (the few lines of scrapli/ssh_config.py the property needs) -/

/-- one host field of a known_hosts line: a plain name / address, or `|1|salt|hash` -/
inductive HostId
  | plain (name : String)
  | hashed (salt hash : String)
deriving DecidableEq, Repr

/-- one line accepted by `_parse` (ssh_config.py:466-468, since f17fdd5:
    `^[ \t]*(?![#@])(\S+)[ \t]+([\w\-@.]+)[ \t]+(\S+)(?:[ \t].*)?$` — leading blanks, runs of blanks / tabs, a trailing
    comment; lines starting with `#` or an `@marker` contribute NOTHING): comma-listed host field, key type, key.
    The text → entries step itself is not modelled; rig A checks it against an oracle written independently of the
    regex (marker / comment / tab / trailing-comment lines) and feeds the model the entries that oracle extracts. -/
structure Entry where
  ids : List HostId
  keyType : String
  key : String
deriving Repr, DecidableEq

/-- `Dict[str, Dict[str,str]]` as Python keeps it: insertion ordered, assignment to an existing key
    replaces the value in place -/
abbrev Dict := List (HostId × (String × String))

def Dict.set (d : Dict) (k : HostId) (v : String × String) : Dict :=
  if d.any (fun p => p.1 == k) then d.map (fun p => if p.1 == k then (p.1, v) else p) else d ++ [(k, v)]

/-- `_parse` 464-471: for every entry, for every comma-separated host: `known_hosts[host] = {...}` -/
def parse (es : List Entry) : Dict :=
  es.foldl (fun d e => e.ids.foldl (fun d id => d.set id (e.keyType, e.key)) d) []

/-- does this host field name `host`?  `hmac salt host` = HMAC-SHA1(salt, host), a PARAMETER -/
def idMatches (hmac : String → String → String) (host : String) : HostId → Bool
  | .plain n => n == host
  | .hashed s h => hmac s host == h

def isHashedMatch (hmac : String → String → String) (host : String) : HostId → Bool
  | .plain _ => false
  | .hashed s h => hmac s host == h

/-- `lookup` 488-501: exact key first, then the first hashed key (dict order) whose HMAC matches -/
def lookup (hmac : String → String → String) (d : Dict) (host : String) : Option (String × String) :=
  match d.find? (fun p => p.1 == HostId.plain host) with
  | some p => some p.2
  | none => (d.find? (fun p => isHashedMatch hmac host p.1)).map (·.2)

/-! ## events and configuration -/

inductive Ev
  | kex                          -- key exchange with the server (it presents its host key)
  | lookup (found equal : Bool)  -- SSHKnownHosts(file).lookup(host): entry found? its key = the server's?
  | verifyOK
  | verifyFail
  | offerKey                     -- a public-key authentication request is sent
  | offerPassword                -- a password (or keyboard-interactive) authentication request is sent
  | openSession
  | raise (e : Exc)
deriving DecidableEq, Repr

/-- everything `open()` branches on -/
structure Cfg where
  strict : Bool     -- truthiness of plugin_transport_args.auth_strict_key
  found : Bool      -- lookup(host) is non-empty
  equal : Bool      -- … and its public_key == the key the server presents
  importable : Bool -- … and `asyncssh.import_public_key(key_type + " " + public_key)` can load it (a known_hosts
                    --   line may hold a truncated / garbage / mislabelled blob: "unusable key")
  hasKey : Bool     -- auth_private_key != ""
  keyLoads : Bool   -- the private key file can be loaded (paramiko: RSAKey(filename=…) does not raise)
  hasPw : Bool      -- auth_password != ""
  hasUser : Bool    -- auth_username != ""
  kexOK : Bool      -- server side: the handshake completes
  accKey : Bool     -- server side: accepts the key
  accPw : Bool      -- server side: accepts the password
  userUnpins : Bool -- the user's transport_options["asyncssh"] carry `known_hosts: None` (asyncssh only)
deriving DecidableEq, Repr

inductive Lib | paramiko | ssh2 | asyncssh
deriving DecidableEq, Repr

structure St where
  evs : List Ev := []
  stop : Bool := false    -- an exception has left open()
deriving Repr, DecidableEq

def St.emit (s : St) (es : List Ev) : St := { s with evs := s.evs ++ es }
def St.raise (s : St) (es : List Ev) (x : Exc) : St := { evs := s.evs ++ es ++ [Ev.raise x], stop := true }

/-- paramiko `_authenticate` 153-171 (+ `is_authenticated` check 94-97); ssh2 137-152 (+ 74-77), where
    `_authenticate_password` 195-213 retries the password as keyboard-interactive when it was refused -/
def authenticate (lib : Lib) (c : Cfg) (s : St) : St :=
  let pw : List Ev := if lib == Lib.ssh2 && !c.accPw then [Ev.offerPassword, Ev.offerPassword] else [Ev.offerPassword]
  if c.hasKey then
    -- _authenticate_public_key: a key that cannot be loaded is swallowed (paramiko 204-205: `except Exception: pass`)
    let s1 := if c.keyLoads then s.emit [Ev.offerKey] else s
    if c.keyLoads && c.accKey then s1                                   -- 158-159 authenticated: return
    else if !c.hasPw || !c.hasUser then s1.raise [] Exc.authenticationFailed   -- 160-169
    else if c.accPw then s1.emit pw else (s1.emit pw).raise [] Exc.authenticationFailed   -- 171, then 94-97
  else if c.accPw then s.emit pw else (s.emit pw).raise [] Exc.authenticationFailed

/-- `asyncssh.connect(**conn_args)` as called at asyncssh/transport.py:237-263, preceded (strict mode,
    214-217) by `common_args["known_hosts"] = self._known_host_keys()`.  `pin` = that assignment
    exists; `fallback` = `_known_host_keys` has a path that yields nothing instead of raising.  LIBRARY CONTRACT (observed, not proved): options incl. client keys are loaded
    first; then key exchange; with trusted keys given, a server key outside them ends the connection
    with HostKeyNotVerifiable BEFORE any authentication request; then publickey (if client keys), then
    password (sent even when empty); PermissionDenied when all are refused. -/
def asyncsshConnect (pin fallback overridable : Bool) (c : Cfg) (s : St) : St :=
  -- `_known_host_keys` 137-150: look the host up again (138), `import_public_key(key_type + " " + public_key)`
  -- (141-144); KeyError (nothing found) / KeyImportError (unusable key) raise ScrapliAuthenticationFailed
  -- (145-148) — unless the method has a non-raising path (`fallback`), in which case connect() gets
  -- `known_hosts=None` as in the code before 304e179
  let s := if pin then s.emit [Ev.lookup c.found (c.found && c.equal)] else s
  let usable := c.found && c.importable
  if pin && !usable && !fallback then s.raise [] Exc.authenticationFailed
  else
  -- 219-220 `common_args.update(transport_options.get("asyncssh", {}))` AFTER the pin (`overridable`): the user's
  -- `known_hosts: None` replaces the expected key, connect() verifies nothing
  let pinned := pin && usable && !(overridable && c.userUnpins)
  if c.hasKey && !c.keyLoads then s.raise [] Exc.library            -- KeyImportError / FileNotFoundError
  else if !c.kexOK then s.raise [Ev.kex] Exc.connectionNotOpened     -- OSError / DisconnectError 260-263
  else if pinned && !c.equal then s.raise [Ev.kex, Ev.verifyFail] Exc.authenticationFailed   -- HostKeyNotVerifiable 242-251
  else
    let offers : List Ev := if c.hasKey then [Ev.offerKey] else []
    if c.hasKey && c.accKey then s.emit (Ev.kex :: offers)
    else if c.accPw then s.emit (Ev.kex :: offers ++ [Ev.offerPassword])
    else s.raise (Ev.kex :: offers ++ [Ev.offerPassword]) Exc.authenticationFailed       -- PermissionDenied 252-255

/-- what one call of `open()` does -/
def stepCall (lib : Lib) (c : Cfg) (s : St) : Call → St
  | .handshake =>                                   -- paramiko 82-87, ssh2 62-66
    if c.kexOK then s.emit [Ev.kex] else s.raise [Ev.kex] Exc.connectionNotOpened
  | .verifyKey =>                                   -- paramiko 123-137, ssh2 101-117
    if !c.found then s.raise [Ev.lookup false false, Ev.verifyFail] Exc.authenticationFailed
    else if !c.equal then s.raise [Ev.lookup true false, Ev.verifyFail] Exc.authenticationFailed
    else s.emit [Ev.lookup true true, Ev.verifyOK]
  | .verifyPresent =>                               -- asyncssh 113-119
    if !c.found then s.raise [Ev.lookup false false, Ev.verifyFail] Exc.authenticationFailed
    else s.emit [Ev.lookup true c.equal]
  | .verifyValue =>                                 -- asyncssh 168-185 (`{}["public_key"]`: KeyError)
    if !c.found then s.raise [Ev.lookup false false] Exc.library
    else if !c.equal then s.raise [Ev.lookup true false, Ev.verifyFail] Exc.authenticationFailed
    else s.emit [Ev.lookup true true, Ev.verifyOK]
  | .connect pin fb ov => asyncsshConnect (pin && c.strict) fb ov c s
  | .authenticate => authenticate lib c s
  | .openChannel => s.emit [Ev.openSession]

/-- the body of `open()`: the calls in order; a call inside `if …auth_strict_key:` is skipped when not
    strict; an exception ends it -/
def runFrom (lib : Lib) (c : Cfg) : St → List (Call × Bool) → St
  | s, [] => s
  | s, (call, guarded) :: rest =>
    if s.stop then s
    else if guarded && !c.strict then runFrom lib c s rest
    else runFrom lib c (stepCall lib c s call) rest

def run (lib : Lib) (calls : List (Call × Bool)) (c : Cfg) : List Ev := (runFrom lib c {} calls).evs

/-- the three transports, on the call order found in the source -/
def paramikoOpen (c : Cfg) : List Ev := run .paramiko paramikoOpenCalls c
def ssh2Open (c : Cfg) : List Ev := run .ssh2 ssh2OpenCalls c
def asyncsshOpen (c : Cfg) : List Ev := run .asyncssh asyncsshOpenCalls c

/-- the order this model was written against (statement order of each `open()`):
    paramiko 83 start_client · 88-90 `if strict: _verify_key()` · 92 _authenticate (+94-97) · 99 _open_channel -/
def paramikoOrder : List (Call × Bool) :=
  [(.handshake, false), (.verifyKey, true), (.authenticate, false), (.openChannel, false)]
/-- ssh2 63 handshake · 68-70 `if strict: _verify_key()` · 72 _authenticate (+74-77) · 79 _open_channel -/
def ssh2Order : List (Call × Bool) :=
  [(.handshake, false), (.verifyKey, true), (.authenticate, false), (.openChannel, false)]
/-- asyncssh 190-195 `if strict: _verify_key()` (presence) · 237-241 connect · 268-273 `if strict:
    _verify_key_value()` · 276 open_session; `pin` = strict mode hands the expected key to connect;
    `fallback` = … unless it cannot load it -/
def asyncsshOrder (pin fallback overridable : Bool) : List (Call × Bool) :=
  [(.verifyPresent, true), (.connect pin fallback overridable, false), (.verifyValue, true), (.openChannel, false)]

/-- the flags of the first `connect` of a call list -/
def connectFlags : List (Call × Bool) → Bool × Bool × Bool
  | [] => (false, false, false)
  | (.connect p f o, _) :: _ => (p, f, o)
  | _ :: r => connectFlags r

/-! ## the property on a trace -/

def isOffer : Ev → Bool
  | .offerKey | .offerPassword => true
  | _ => false

def noOffers (t : List Ev) : Bool := t.all (fun e => !isOffer e)

/-- the attempt ended in ScrapliAuthenticationFailed and nothing was offered before -/
def protectedTrace (t : List Ev) : Bool :=
  noOffers t && t.getLast? == some (Ev.raise Exc.authenticationFailed)

/-- configuration obtained from a concrete known_hosts content; `imp keyType key` = can asyncssh load
    that key (a PARAMETER, like `hmac`) -/
structure Env where
  strict : Bool
  hasKey : Bool
  keyLoads : Bool
  hasPw : Bool
  hasUser : Bool
  kexOK : Bool
  accKey : Bool
  accPw : Bool
  userUnpins : Bool
deriving DecidableEq, Repr

def cfgOf (hmac : String → String → String) (imp : String → String → Bool) (es : List Entry)
    (host serverKey : String) (e : Env) : Cfg :=
  let r := lookup hmac (parse es) host
  { strict := e.strict, found := r.isSome, equal := (r.map (·.2)) == some serverKey,
    importable := (r.map (fun v => imp v.1 v.2)).getD false,
    hasKey := e.hasKey, keyLoads := e.keyLoads, hasPw := e.hasPw, hasUser := e.hasUser,
    kexOK := e.kexOK, accKey := e.accKey, accPw := e.accPw, userUnpins := e.userUnpins }

/-! ## histories: several `open()` attempts on ONE transport object

  A failed attempt leaves state behind (`self.session`, `self.socket`; `close()` resets the session).
  Which path through `open()` an attempt takes may depend on that state; the translator therefore lists
  EVERY path (`Gen.*OpenPaths`, tests other than the strict one taken as free) and an attempt names the
  path it takes.  known_hosts content and server behaviour belong to the attempt (they may change
  between attempts). -/

structure TState where
  sessionLeft : Bool := false   -- `self.session` still references the session object of an earlier attempt
  channelLeft : Bool := false   -- … and a channel was opened on it
deriving DecidableEq, Repr

structure Attempt where
  closeBefore : Bool            -- `close()` is called before this attempt
  path : List (Call × Bool)     -- the path through `open()` taken this time
  cfg : Cfg                     -- configuration AT THIS ATTEMPT
deriving Repr

/-- paramiko / ssh2 assign `self.session` before the handshake; asyncssh when `connect()` has returned
    (approximated by: a session was opened) — advisory, not compared as a property observable -/
def sessionAfter (lib : Lib) (t : List Ev) : Bool :=
  match lib with
  | .asyncssh => t.contains Ev.openSession
  | _ => t.contains Ev.kex

def attemptStep (lib : Lib) (st : TState) (a : Attempt) : TState × List Ev :=
  let st1 : TState := if a.closeBefore then {} else st
  let t := run lib a.path a.cfg
  ({ sessionLeft := st1.sessionLeft || sessionAfter lib t,
     channelLeft := st1.channelLeft || t.contains Ev.openSession }, t)

/-- the traces of the successive attempts -/
def runHistory (lib : Lib) : TState → List Attempt → List (List Ev)
  | _, [] => []
  | st, a :: rest => (attemptStep lib st a).2 :: runHistory lib (attemptStep lib st a).1 rest

/-! ## system transport: `_build_open_cmd` (strict / known-hosts part exact, the rest as it stands) -/

inductive Arg
  | word (s : String)            -- "ssh", the host
  | flag (f v : String)          -- "-p" port, "-i" key, "-l" user, "-F" file
  | opt (key value : String)     -- "-o", "<key>=<value>"
  | user (s : String)            -- an element of transport_options["open_cmd"], as given
deriving DecidableEq, Repr

structure SysArgs where
  host : String
  port : Nat
  timeoutSocket : Nat            -- int(timeout_socket)
  timeoutTransport : Nat         -- int(timeout_transport)
  keyFile : String
  username : String
  strictOff : Bool               -- the value of auth_strict_key takes the non-strict branch (`is False`, :101)
  knownHosts : String            -- plugin_transport_args.ssh_known_hosts_file
  configFile : String
  userArgs : List String
deriving Repr

def optsOf (l : List (String × String)) : List Arg := l.map (fun p => Arg.opt p.1 p.2)

/-- 101-123 -/
def strictPart (a : SysArgs) : List Arg :=
  if a.strictOff then optsOf sysNonStrictOpts                                   -- 101-103
  else optsOf sysStrictOpts ++                                                  -- 105
    (if a.knownHosts == magicKnownHosts then []                                 -- 107-114
     else if a.knownHosts != "" then [Arg.opt sysKnownHostsKey a.knownHosts]    -- 115-121
     else [])                                                                   -- 122-123

/-- 86-131: everything scrapli itself puts on the command line -/
def builtin (a : SysArgs) : List Arg :=
  [Arg.word "ssh", Arg.word a.host, Arg.flag "-p" (toString a.port),            -- 86-87
   Arg.opt (sysPreOpts.getD 0 "") (toString a.timeoutSocket),                   -- 89-91
   Arg.opt (sysPreOpts.getD 1 "") (toString a.timeoutTransport)] ++             -- 92-94
  (if a.keyFile != "" then [Arg.flag "-i" a.keyFile] else []) ++          -- 96-97
  (if a.username != "" then [Arg.flag "-l" a.username] else []) ++              -- 98-99
  strictPart a ++
  (if a.configFile == "" then [Arg.flag "-F" "/dev/null"]                       -- 124-125
   else if a.configFile == magicConfig then []                                  -- 126-129
   else [Arg.flag "-F" a.configFile])                                           -- 130-131

/-- 133-136: the user's extra arguments come last -/
def buildOpenCmd (a : SysArgs) : List Arg := builtin a ++ a.userArgs.map Arg.user

def Arg.render : Arg → List String
  | .word s => [s]
  | .flag f v => [f, v]
  | .opt k v => ["-o", k ++ "=" ++ v]
  | .user s => [s]

def renderCmd (l : List Arg) : List String := (l.map Arg.render).flatten

/-- the value ssh uses for an option given with `-o`: the FIRST one (ssh_config(5): "the first obtained
    value will be used"; OpenSSH's own rule, checked against `ssh -G` in the harness) -/
def optValue (key : String) : List Arg → Option String
  | [] => none
  | .opt k v :: rest => if k == key then some v else optValue key rest
  | _ :: rest => optValue key rest

end Scrapli.HostKey
