import ScrapliModel.Gen.TimeoutRestoreConsts
/-
  Model of the per-call timeout overrides of scrapli (property C14):

    scrapli/decorators.py                      timeout_modifier            (sync + async `decorate`)
    scrapli/channel/{sync,async}_channel.py    _read_until_prompt_or_time, send_input_and_read
    scrapli/driver/generic/{sync,async}_driver.py  _send_command, send_command(s), send_and_read,
                                                   send_interactive, read_callback
    scrapli/driver/network/{sync,async}_driver.py  send_command(s), send_interactive, send_configs (wrappers)
    scrapli/driver/base/base_driver.py         timeout_ops / timeout_transport setters (+ `_set_timeout` push)

  The environment is a *tape* of outcomes: every inner call site (a channel primitive, a hook, a
  callback) consumes the next outcome, which says whether the call returns or which exception class
  it raises, plus one site-specific bit (loop exit condition / failed response / callback matched).
  Python's exception propagation, `try/finally`, `except ScrapliTimeout` and `with suppress(...)`
  are modelled by the monad `M` below (state survives an exception).  Every site appends the
  timeouts in effect to a log, which is what the correspondence check compares with the real code.

  WHERE the restoring assignments stand (inside a `finally` or not) is read from the source by the
  translator (`Shape`, Gen/TimeoutRestoreConsts.lean): the model follows the tree it is checked against.
  Values are abstract (`α` + `ValOps`): nothing below depends on arithmetic; the executable
  instance counts thousandths of a second in `Int`.
-/
namespace Scrapli.TimeoutRestore

/-- exception classes the control flow distinguishes (ScrapliTimeout vs. everything else);
    the others are kept apart only so that they can be reported -/
inductive Exc
  | timeout            -- ScrapliTimeout
  | conn               -- ScrapliConnectionError (and subclasses)
  | priv               -- ScrapliPrivilegeError
  | typeErr            -- ScrapliTypeError
  | other (n : Nat)    -- any other class (re.error, ValueError, IndexError, CancelledError, ...)
deriving DecidableEq, Repr, Inhabited

/-- what the environment decides for one inner call -/
structure Ev where
  exc : Option Exc := none     -- `none`: the call returns
  flag : Bool := false         -- read loops: exit condition holds afterwards; `_send_command`:
                               -- response.failed; `callback.check`: matched (and not skipped)
deriving DecidableEq, Repr, Inhabited

/-- the operations on timeout values the code uses: `int(x)`, `x >= 0`, the `2.5` defaults -/
structure ValOps (α : Type) where
  trunc : α → α
  nonneg : α → Bool
  chanDflt : α

/-- observable state: `_base_channel_args.timeout_ops`, `_base_transport_args.timeout_transport`
    and the value last handed to the library session by `transport._set_timeout`
    (`none`: this transport has no `_set_timeout`, base_driver.py:906) -/
structure St (α : Type) where
  ops : α
  tr : α
  sess : Option α
deriving DecidableEq, Repr

/-- is the restoring assignment in a `finally`?  (decorators.py:315-318 / sync_channel.py:257 /
    sync_driver.py:590,612) -/
structure Shape where
  modFinally : Bool
  chanFinally : Bool
  cbFinally : Bool
  /-- read_callback: does the swapping assignment itself (whose setter calls `_set_timeout`, which can
      raise AFTER the args attribute is assigned) stand inside the `try`?  (generic/sync_driver.py:582) -/
  cbSwapInTry : Bool
  /-- `_read_until_prompt_or_time`: does the swapping assignment stand inside the `try`?  (Matters only under
      `asyncExc`: the channel assigns the args attribute directly, nothing can raise inside the assignment.) -/
  chanSwapInTry : Bool
  /-- an ENVIRONMENT assumption rather than a fact about the source: may an exception also arrive between the
      swapping assignment of `_read_until_prompt_or_time` and its `try` (the SIGALRM of the sync ops timer, which is
      armed around the whole channel operation, raising from its handler after `BytesIO(buf)` / `time.time()`,
      sync_channel.py:237-241)?  `false` = exceptions are raised by call sites only. -/
  asyncExc : Bool := false
deriving DecidableEq, Repr

/-- the three restores stand in a `finally` -/
def Shape.finallys (sh : Shape) : Bool := sh.modFinally && sh.chanFinally && sh.cbFinally
def Shape.all (sh : Shape) : Bool := sh.finallys && sh.cbSwapInTry && (sh.chanSwapInTry || !sh.asyncExc)
/-- the shape of a tree in which every restore stands in a `finally` and both transport-timeout swaps stand inside
    their `try` (fixes/C14-swap-inside-try.patch + fixes/C14-channel-swap-inside-try.patch) -/
def Shape.fixed : Shape := ⟨true, true, true, true, true, false⟩
/-- the shape of the tree from 9d6a16c on: three `finally`s, read_callback's swap before its `try` -/
def Shape.swapOutside : Shape := ⟨true, true, true, false, false, false⟩
/-- the shape of the tree at 8ae1258 (before fixes/C14-restore-timeout-transport.patch) -/
def Shape.prefix : Shape := ⟨true, false, false, false, false, false⟩
/-- the shapes found in the tree by the translator -/
def Shape.sync : Shape :=
  ⟨Gen.TimeoutRestore.syncModFinally, Gen.TimeoutRestore.syncChanFinally, Gen.TimeoutRestore.syncCbFinally,
   Gen.TimeoutRestore.syncCbSwapInTry, Gen.TimeoutRestore.syncChanSwapInTry, false⟩
def Shape.async : Shape :=
  ⟨Gen.TimeoutRestore.asyncModFinally, Gen.TimeoutRestore.asyncChanFinally, Gen.TimeoutRestore.asyncCbFinally,
   Gen.TimeoutRestore.asyncCbSwapInTry, Gen.TimeoutRestore.asyncChanSwapInTry, false⟩

inductive Site
  | pre | sendInput | write | readUntilInput | sendReturn | read | interact | acquire | abort | check | run | push
  | gap       -- not a call: the point between a swapping assignment and its `try`
deriving DecidableEq, Repr

/-- which temporary `timeout_transport` is in force at a site -/
inductive Region
  | none | chan | cb
  | swap      -- inside read_callback's swapping assignment when that stands before the `try`
  | gap       -- between the swap of `_read_until_prompt_or_time` and its `try`
deriving DecidableEq, Repr

structure Entry (α : Type) where
  site : Site
  region : Region
  st : St α
  ev : Ev

structure Ctx (α : Type) where
  st : St α
  tape : List Ev
  log : List (Entry α) := []

/-- computations: the context survives an exception -/
def M (α β : Type) := Ctx α → Except Exc β × Ctx α

namespace M
variable {α β γ : Type}
@[inline] def pure' (x : β) : M α β := fun c => (.ok x, c)
@[inline] def bind' (m : M α β) (f : β → M α γ) : M α γ := fun c =>
  match m c with
  | (.ok x, c') => f x c'
  | (.error e, c') => (.error e, c')
/-- `raise` -/
@[inline] def raise (e : Exc) : M α β := fun c => (.error e, c)
/-- `try: m  finally: fin` (an exception of `fin` replaces the pending one) -/
@[inline] def tryFin (m : M α β) (fin : M α Unit) : M α β := fun c =>
  match m c with
  | (r, c') =>
    match fin c' with
    | (.ok _, c'') => (r, c'')
    | (.error e, c'') => (.error e, c'')
instance : Monad (M α) where
  pure := pure'
  bind := bind'
end M
open M

variable {α : Type}

/-- exhausted tape: the device stays silent — the pending call times out (and a timed loop ends) -/
def nextEv : List Ev → Ev × List Ev
  | [] => (⟨some .timeout, true⟩, [])
  | e :: t => (e, t)

/-- enter a call site: consume one outcome, log it with the timeouts in force; never raises -/
def siteEv (k : Site) (r : Region) : M α Ev := fun c =>
  (.ok (nextEv c.tape).1,
   { c with tape := (nextEv c.tape).2, log := c.log ++ [⟨k, r, c.st, (nextEv c.tape).1⟩] })

/-- a call site: returns the environment bit or raises the exception the environment chose -/
def site (k : Site) (r : Region) : M α Bool := do
  let e ← siteEv k r
  match e.exc with
  | none => pure e.flag
  | some x => raise x

/-- a call site whose environment bit is not used -/
def call (k : Site) (r : Region) : M α Unit := do
  let _ ← site k r
  pure ()

/-- `if b: <call>` -/
def callIf (b : Bool) (k : Site) : M α Unit :=
  if b then call k .none else pure ()

/-- the gap between a swap and its try, present only under `Shape.asyncExc` -/
def callIf' (b : Bool) : M α Unit :=
  if b then call .gap .gap else pure ()

def getSt : M α (St α) := fun c => (.ok c.st, c)
/-- `timeout_ops` setter, base_driver.py:951 -/
def setOps (v : α) : M α Unit := fun c => (.ok (), { c with st := { c.st with ops := v } })
/-- `_transport_args.timeout_transport = v` (channel, no push into the session) -/
def setTrArgs (v : α) : M α Unit := fun c => (.ok (), { c with st := { c.st with tr := v } })
/-- `timeout_transport` setter, base_driver.py:904-909: args, then `_set_timeout(value)` if the transport has it;
    the push never fails.  Used for the pre-fix shape only (a tree that no longer exists). -/
def setTr (v : α) : M α Unit := fun c =>
  (.ok (), { c with st := { c.st with tr := v, sess := c.st.sess.map (fun _ => v) } })

/-- `self.transport._set_timeout(value)` (base_driver.py:919) — a call site of its own when the transport has
    a session timeout: it may raise (paramiko/ssh2 with no session: ScrapliConnectionNotOpened), and then the
    session keeps what it had -/
def push (v : α) (r : Region) : M α Unit := fun c =>
  match c.st.sess with
  | none => (.ok (), c)
  | some _ =>
    match (nextEv c.tape).1.exc with
    | none => (.ok (), { (siteEv .push r c).2 with st := { c.st with sess := some v } })
    | some x => (.error x, (siteEv .push r c).2)

/-- the `timeout_transport` setter with a push that can raise: the args attribute is assigned FIRST (:914) -/
def setTrP (v : α) (r : Region) : M α Unit := do
  setTrArgs v
  push v r

/-- the `timeout_ops=` keyword as `timeout_modifier` sees it -/
inductive Ov (α : Type)
  | none            -- not given / None
  | num (v : α)     -- an int / float
  | bad             -- any other object: the setter raises ScrapliTypeError before assigning
deriving DecidableEq, Repr

/-- decorators.py:300-319 (sync) / 275-294 (async) -/
def timeoutModifier [DecidableEq α] {β : Type} (sh : Shape) (ov : Ov α) (body : M α β) : M α β := do
  match ov with
  | .none => body                                   -- `timeout_ops_kwarg is None`
  | .bad => raise .typeErr                          -- setter: `raise ScrapliTypeError` (nothing assigned)
  | .num v =>
    let s ← getSt
    if v = s.ops then body                          -- `timeout_ops_kwarg == driver_instance.timeout_ops`
    else do
      let base := s.ops                             -- base_timeout_ops = driver_instance.timeout_ops
      setOps v                                      -- driver_instance.timeout_ops = kwargs["timeout_ops"]
      if sh.modFinally then
        tryFin body (setOps base)                   -- try: ... finally: driver_instance.timeout_ops = base_timeout_ops
      else do
        let r ← body
        setOps base
        pure r

/-- `with suppress(ScrapliTimeout):` around the read, sync_channel.py:243-244 -/
def suppressTimeout (e : Ev) : M α Unit :=
  match e.exc with
  | some x => if x = .timeout then pure () else raise x
  | none => pure ()

/-- the `while True` of `_read_until_prompt_or_time`, sync_channel.py:242-255;
    `fuel` bounds the iterations (never reached: see `fuelFor`) -/
def readLoop : Nat → M α Unit
  | 0 => pure ()
  | n + 1 => do
    let e ← siteEv .read .chan                      -- with suppress(ScrapliTimeout): read_buf.write(self.read())
    suppressTimeout e
    if e.flag then pure ()                          -- time is up / expected output / prompt seen: break
    else readLoop n

/-- the protected (or not) part of `_read_until_prompt_or_time`: loop, restore -/
def readTail (sh : Shape) (fuel : Nat) (prev : α) : M α Unit :=
  if sh.chanFinally then
    tryFin (readLoop fuel) (setTrArgs prev)
  else do
    readLoop fuel
    setTrArgs prev                                  -- _transport_args.timeout_transport = previous_timeout_transport

/-- `_read_until_prompt_or_time`, sync_channel.py:230-259 / async_channel.py:232-262 -/
def readUntilPromptOrTime (sh : Shape) (V : ValOps α) (fuel : Nat) (rd : Option α) : M α Unit := do
  let rd := rd.getD V.chanDflt                      -- if read_duration is None: read_duration = 2.5
  let s ← getSt
  let prev := s.tr                                  -- previous_timeout_transport = _transport_args.timeout_transport
  if sh.chanFinally && sh.chanSwapInTry then
    tryFin (do
      setTrArgs (V.trunc rd)                        -- try: _transport_args.timeout_transport = int(read_duration)
      callIf' sh.asyncExc                           --      read_buf = BytesIO(buf); start = time.time()  [async exception?]
      readLoop fuel) (setTrArgs prev)
  else do
    setTrArgs (V.trunc rd)                          -- _transport_args.timeout_transport = int(read_duration)
    callIf' sh.asyncExc                             -- read_buf = BytesIO(buf); start = time.time()  [async exception?]
    readTail sh fuel prev

/-- GenericDriver._send_command (sync_driver.py:118-172): decorated; body = _pre_send_command,
    channel.send_input; returns `response.failed` -/
def sendCommand1 [DecidableEq α] (sh : Shape) (ov : Ov α) : M α Bool :=
  timeoutModifier sh ov do
    call .pre .none                                 -- _pre_send_command
    site .sendInput .none                           -- channel.send_input; _post_send_command

/-- the loop of GenericDriver.send_commands (sync_driver.py:249-275): every command goes through
    the decorated `_send_command` on its own; returns whether the run stopped on a failure -/
def sendCommandsLoop [DecidableEq α] (sh : Shape) (ov : Ov α) (stop : Bool) : Nat → M α Bool
  | 0 => pure false
  | n + 1 => do
    let failed ← sendCommand1 sh ov
    if stop && failed then pure true else sendCommandsLoop sh ov stop n

def sendCommands [DecidableEq α] (sh : Shape) (ov : Ov α) (stop : Bool) (n : Nat) : M α Bool :=
  if n = 0 then raise (.other 0)                    -- commands[-1] on an empty list: IndexError
  else sendCommandsLoop sh ov stop n

/-- GenericDriver.send_and_read (sync_driver.py:328-386) with Channel.send_input_and_read
    (sync_channel.py:544-575) inlined -/
def sendAndRead [DecidableEq α] (sh : Shape) (V : ValOps α) (fuel : Nat) (ov : Ov α) (rd : Option α) : M α Unit :=
  timeoutModifier sh ov do
    call .pre .none                                 -- _pre_send_command
    call .write .none                               -- self.write(channel_input)
    call .readUntilInput .none                      -- self._read_until_input(...)
    call .sendReturn .none                          -- self.send_return()
    readUntilPromptOrTime sh V fuel rd

/-- GenericDriver.send_interactive (sync_driver.py:388-486) -/
def sendInteractive [DecidableEq α] (sh : Shape) (ov : Ov α) : M α Unit :=
  timeoutModifier sh ov do
    call .pre .none                                 -- _pre_send_interactive
    call .interact .none                            -- channel.send_inputs_interact

/-- what read_callback needs to know about a ReadCallback -/
structure Cb (α : Type) where
  complete : Bool
  next : α           -- next_timeout
deriving DecidableEq, Repr

/-- `for callback in callbacks: callback.check(...)` up to the first callback that is to be run -/
def checkCbs : List (Cb α) → M α (Option (Cb α))
  | [] => pure none
  | cb :: rest => do
    let hit ← site .check .cb
    if hit then pure (some cb) else checkCbs rest

/-- what read_callback does with the outcome of `self.channel.read()` (sync_driver.py:587-592).
    Pre-fix shape: `except ScrapliTimeout` restores before re-raising; nothing else is caught. -/
def cbReadExc (sh : Shape) (orig : α) (e : Ev) : M α Unit :=
  match e.exc with
  | some x => do
    (if x = .timeout && !sh.cbFinally then setTr orig else pure ())   -- except ScrapliTimeout: self.timeout_transport = original
    raise x                                         -- (ScrapliTimeout is re-raised as ScrapliTimeout)
  | none => pure ()

/-- the read loop of read_callback up to the callback to run (sync_driver.py:586-631);
    running out of fuel (never reached: see `fuelFor`) = the pending read times out -/
def cbLoop (sh : Shape) (orig : α) (cbs : List (Cb α)) : Nat → M α (Cb α)
  | 0 => do
    cbReadExc sh orig ⟨some .timeout, true⟩
    raise .timeout
  | n + 1 => do
    let e ← siteEv .read .cb                        -- read_output += self.channel.read()
    cbReadExc sh orig e
    let m ← checkCbs cbs                            -- for callback in callbacks: callback.check(...)
    match m with
    | some cb => pure cb
    | none => cbLoop sh orig cbs n                  -- sleep(_read_delay); next iteration

/-- the part of read_callback that runs under the temporary transport timeout
    (sync_driver.py:578-612): swap, read loop, restore; yields the callback to run -/
def cbSwapPre (sh : Shape) (V : ValOps α) (cbs : List (Cb α)) (fuel : Nat) (rt : α) : M α (Cb α) := do
  let s ← getSt                                     -- the form before 9d6a16c (pushes that raise are not modelled here)
  let orig := s.tr
  setTr (if V.nonneg rt then rt else orig)
  let cb ← cbLoop sh orig cbs fuel
  setTr orig                                        -- (before callback.run) self.timeout_transport = original
  pure cb

/-- swap before the `try` (9d6a16c): sync_driver.py:578-624 -/
def cbSwapOut (sh : Shape) (V : ValOps α) (cbs : List (Cb α)) (fuel : Nat) (rt : α) : M α (Cb α) := do
  let s ← getSt
  let orig := s.tr                                  -- original_transport_timeout = self.timeout_transport
  setTrP (if V.nonneg rt then rt else orig) .swap   -- self.timeout_transport = read_timeout if read_timeout >= 0 else ...
  tryFin (cbLoop sh orig cbs fuel) (setTrP orig .none)   -- try: <read loop> finally: self.timeout_transport = original

/-- swap as the first statement inside the `try` (fixes/C14-swap-inside-try.patch) -/
def cbSwapIn (sh : Shape) (V : ValOps α) (cbs : List (Cb α)) (fuel : Nat) (rt : α) : M α (Cb α) := do
  let s ← getSt
  let orig := s.tr
  tryFin (do setTrP (if V.nonneg rt then rt else orig) .cb; cbLoop sh orig cbs fuel) (setTrP orig .none)

def cbSwap (sh : Shape) (V : ValOps α) (cbs : List (Cb α)) (fuel : Nat) (rt : α) : M α (Cb α) :=
  if sh.cbFinally then (if sh.cbSwapInTry then cbSwapIn sh V cbs fuel rt else cbSwapOut sh V cbs fuel rt)
  else cbSwapPre sh V cbs fuel rt

/-- GenericDriver.read_callback (sync_driver.py:568-631 / async_driver.py:567-633) -/
def readCallback (sh : Shape) (V : ValOps α) (cbs : List (Cb α)) : Nat → Bool → α → M α Unit
  | 0, _, _ => raise .timeout
  | n + 1, true, rt => do                           -- if initial_input is not None:
    call .write .none                               --   self.channel.write(...)
    readCallback sh V cbs n false rt                --   return self.read_callback(initial_input=None, ...)
  | n + 1, false, rt => do
    let cb ← cbSwap sh V cbs (n + 1) rt
    call .run .none                                 -- callback.run(driver=self)
    if cb.complete then pure ()
    else readCallback sh V cbs n false cb.next      -- return self.read_callback(read_timeout=callback.next_timeout, ...)

/-- one public call on a driver -/
inductive Op (α : Type)
  /-- send_command; `net`: through NetworkDriver (privilege acquisition first) -/
  | sendCommand (net : Bool) (ov : Ov α)
  /-- send_commands (`file = false`) / send_commands_from_file with `n` commands -/
  | sendCommands (net : Bool) (file : Bool) (ov : Ov α) (n : Nat) (stop : Bool)
  | sendAndRead (ov : Ov α) (rd : Option α)
  | sendInteractive (net : Bool) (ov : Ov α)
  /-- NetworkDriver.send_configs / send_config / send_configs_from_file; `acq`: the current
      privilege level differs from the resolved one -/
  | sendConfigs (ov : Ov α) (n : Nat) (stop : Bool) (acq : Bool)
  | readCallback (init : Bool) (rt : α) (cbs : List (Cb α))

def runOp [DecidableEq α] (sh : Shape) (V : ValOps α) (fuel : Nat) : Op α → M α Unit
  | .sendCommand net ov => do
    callIf net .acquire                             -- network/sync_driver.py:250 _acquire_appropriate_privilege_level
    let _ ← sendCommand1 sh ov
    pure ()
  | .sendCommands net file ov n stop => do
    callIf (net && file) .acquire                   -- network/sync_driver.py:362 (send_commands_from_file), then
                                                    -- generic/sync_driver.py:318 `self.send_commands` = the NetworkDriver one:
    callIf net .acquire                             -- network/sync_driver.py:305
    let _ ← sendCommands sh ov stop n
    pure ()
  | .sendAndRead ov rd => sendAndRead sh V fuel ov rd
  | .sendInteractive net ov => do
    callIf net .acquire                             -- network/sync_driver.py:454
    sendInteractive sh ov
  | .sendConfigs ov n stop acq => do
    call .pre .none                                 -- _pre_send_configs (network/sync_driver.py:531)
    callIf acq .acquire                             -- if current priv != resolved: self.acquire_priv(...)
    let stopped ← sendCommands sh ov stop n         -- super().send_commands(...)
    callIf stopped .abort                           -- if stop_on_failed and responses.failed: self._abort_config()
  | .readCallback init rt cbs => readCallback sh V cbs fuel init rt

/-- result of one call as the caller sees it, and the state it leaves behind -/
structure Step (α : Type) where
  res : Option Exc
  st : St α

def excOf {β : Type} : Except Exc β → Option Exc
  | .ok _ => none
  | .error e => some e

/-- a sequence of calls on one connection; never raises (every call's exception is recorded) -/
def runOps [DecidableEq α] (sh : Shape) (V : ValOps α) (fuel : Nat) : List (Op α) → Ctx α → List (Step α) × Ctx α
  | [], c => ([], c)
  | op :: rest, c =>
    let r := runOp sh V fuel op c
    let rs := runOps sh V fuel rest r.2
    (⟨excOf r.1, r.2.st⟩ :: rs.1, rs.2)

/-- enough fuel for every loop: each iteration / recursion consumes at least one tape entry -/
def fuelFor (tape : List Ev) : Nat := tape.length + 2

/-- the whole experiment: initial state, calls, tape ⟶ per-call results and states, site log -/
def run [DecidableEq α] (sh : Shape) (V : ValOps α) (ops : List (Op α)) (tape : List Ev) (s : St α) :
    List (Step α) × Ctx α :=
  runOps sh V (fuelFor tape) ops { st := s, tape := tape }

/-- executable instance: thousandths of a second; `int()` truncates toward zero -/
def milli (stack : Bool) : ValOps Int where
  trunc x := Int.tdiv x 1000 * 1000
  nonneg x := decide ((if stack then Gen.TimeoutRestore.asyncReadTimeoutThreshold else Gen.TimeoutRestore.syncReadTimeoutThreshold) ≤ x)
  chanDflt := if stack then Gen.TimeoutRestore.asyncChanDefaultReadDuration else Gen.TimeoutRestore.syncChanDefaultReadDuration

end Scrapli.TimeoutRestore
