/-
  Types shared by the hand-written factory / isolation model (Factory.lean, FactoryHeap.lean) and
  the tables GENERATED from scrapli/factory.py and the driver constructors
  (Gen/FactoryTables.lean, written by tools/gen/c18.py).  Core Lean only.
-/
namespace Scrapli.Factory

/-- a Python value as far as the factory can tell values apart.  The factory never inspects a
    value except for `is None`, `transport in CORE_TRANSPORTS`, `isinstance(platform, str)` and
    truthiness of `variant`; everything else is carried through. -/
inductive Val
  | bool (b : Bool)
  | int (i : Int)
  | flt (repr : String)                 -- a float, by its `repr`
  | str (s : String)
  | list (l : List String)              -- list of str (failed_when_contains)
  | dict (l : List (String × String))   -- small dict (transport_options)
  | fn (name : String)                  -- a callable, by identity
  | obj (name : String)                 -- any other object, by identity (privilege level dicts, BytesIO, classes)
deriving DecidableEq, Repr, Inhabited

/-- `none` is Python's `None` -/
abbrev PyVal := Option Val

/-- a Python `dict[str, Any]` / a keyword-argument set, in insertion order -/
abbrev Kw := List (String × PyVal)

/-- Python truthiness of a value (`if variant:`, `if additional_kwargs:` …) -/
def Val.truthy : Val → Bool
  | .bool b => b
  | .int i => i != 0
  | .flt r => !(r == "0.0" || r == "-0.0")
  | .str s => s != ""
  | .list l => !l.isEmpty
  | .dict l => !l.isEmpty
  | .fn _ => true
  | .obj _ => true

def PyVal.truthy : PyVal → Bool
  | none => false
  | some v => v.truthy

/-- one formal parameter: `dflt = none` means "no default" (required) -/
structure Param where
  name : String
  dflt : Option PyVal
deriving DecidableEq, Repr

/-- a signature without `self`/`cls`; `varKw` = has `**kwargs` -/
structure Sig where
  params : List Param
  varKw : Bool
deriving DecidableEq, Repr

def Sig.names (s : Sig) : List String := s.params.map (·.name)

/-- the condition of the dict comprehension in `_build_provided_kwargs_dict` -/
inductive FilterKind
  | isNotNone      -- `if value is not None`
  | truthy         -- `if value`
deriving DecidableEq, Repr

/-- how a constructor obtains its own table from the module-level platform definition -/
inductive CopyMode
  | deep        -- `deepcopy(X)`
  | shallow     -- `X.copy()`, `dict(X)`, `list(X)`, `X[:]`
  | alias       -- `X`
deriving DecidableEq, Repr

/-- the fields of a `PrivilegeLevel` (scrapli/driver/network/base_driver.py:21-72) -/
structure Level where
  pattern : String
  name : String
  previousPriv : String
  deescalate : String
  escalate : String
  escalateAuth : Bool
  escalatePrompt : String
  notContains : List String
deriving DecidableEq, Repr, Inhabited

/-- a piece of a string built from `session_name` in `_create_configuration_session` -/
inductive Part
  | lit (s : String)
  | name                 -- `session_name`
  | esc (n : Nat)        -- `re.escape(session_name[:n])`
deriving DecidableEq, Repr

/-- the `PrivilegeLevel(...)` built by `_create_configuration_session(session_name)` -/
structure LevelTemplate where
  pattern : List Part
  name : List Part
  previousPriv : List Part
  deescalate : List Part
  escalate : List Part
  escalateAuth : Bool
  escalatePrompt : List Part
  notContains : List String
deriving DecidableEq, Repr

/-- facts about one platform driver class taken from its `__init__` -/
structure CtorInfo where
  cls : String                        -- class name
  platform : String                   -- module the tables are imported from (`scrapli.driver.core.<platform>.base_driver`)
  sig : Sig                           -- `__init__` signature without `self`
  superCall : List (String × String)  -- `super().__init__(kw=var, …)`
  privsCopy : CopyMode                -- `privilege_levels = deepcopy(PRIVS)` when the argument is None
  fwcCopy : CopyMode                  -- `failed_when_contains = FAILED_WHEN_CONTAINS.copy()` when None
  session : Option LevelTemplate      -- `_create_configuration_session` of the class's mixin, if any
deriving Repr

end Scrapli.Factory
