import ScrapliModel.Bytes
/-
  Model of the channel lock of scrapli/channel/sync_channel.py and async_channel.py.

    sync_channel.py:30-32     self.channel_lock = Lock() if base_channel_args.channel_lock else None
    sync_channel.py:34-53     @contextmanager _channel_lock():  `with self.channel_lock: yield`  | `yield`
    sync_channel.py:446-459   get_prompt:            with self._channel_lock(): send_return; read*
    sync_channel.py:501-510   send_input:            with …: write; _read_until_input; send_return; _read_until_prompt
    sync_channel.py:561-568   send_input_and_read:   with …: write; _read_until_input; send_return; _read_until_prompt_or_time
    sync_channel.py:651-678   send_inputs_interact:  with …: for event: write; _read_until_input; send_return; _read_until_explicit_prompt
    (async_channel.py: same lines with `async with` around an asyncio.Lock)

  An *operation* is what one call of such a method does with the transport while it is inside the
  `with` block: a finite list of transport calls (`transport.write(b)` | `transport.read()`), any of
  which may raise.  `with` releases the lock on every exit.  A *caller* (thread / asyncio task) runs a
  list of operations.  A *schedule* is a list of caller ids; the chosen caller runs from its current
  yield point to its next one (yield points: waiting for the lock, and just before every transport
  call), or does nothing when it is not enabled (finished, or waiting for a lock that is taken).
  That every transport call of every public operation is lexically inside the `with` block is the
  generated, decided table ScrapliModel/Gen/LockCoverage.lean.
-/
namespace Scrapli.Lock
open Scrapli

/-- one call into the transport -/
inductive Act where
  | write (w : Bytes)    -- BaseChannel.write / send_return -> transport.write(w)   base_channel.py:376
  | read                 -- Channel.read -> transport.read()                        sync_channel.py:71
deriving Repr, DecidableEq

structure Step where
  act : Act
  fails : Bool := false  -- the transport raises at this call (ScrapliConnectionError, ScrapliTimeout, …)
deriving Repr, DecidableEq

abbrev Op := List Step    -- the transport calls of one public channel operation, in order
abbrev Prog := List Op    -- what one caller runs

/-- one entry of the wire trace: who, which of its operations, what, did it raise, and the bytes
    involved (`write`: what the device answered to it, `read`: what was returned) -/
structure Ev where
  caller : Nat
  op : Nat
  act : Act
  failed : Bool
  data : Bytes
deriving Repr, DecidableEq

def Ev.key (e : Ev) : Nat × Nat := (e.caller, e.op)

/-- a causal device: what it emits is a function of its state, i.e. of the writes so far -/
structure Dev (σ : Type) where
  init : σ
  onWrite : σ → Bytes → σ × Bytes

/-- transport + device: device state, bytes emitted and not yet read, the wire trace -/
structure World (σ : Type) where
  dev : σ
  buf : Bytes := []
  wire : List Ev := []
  closed : Bool := false   -- transport.close() was called (by a timeout handler): every later transport call raises

/-- result of one operation as its caller sees it: returned normally / raised, and the reads it got -/
structure Outcome where
  ok : Bool
  reads : List Bytes
deriving Repr, DecidableEq

structure Caller where
  pc : Nat := 0                       -- index of the operation in progress / to start next
  cur : Option (List Step) := none    -- `some rest`: inside `with self._channel_lock():`, `rest` still to do
  reads : List Bytes := []            -- reads of the operation in progress
deriving Repr, DecidableEq

structure St (σ : Type) where
  world : World σ
  callers : List Caller
  /-- threading.Lock / asyncio.Lock: `none` = free.  The lock itself has no owner; the id is kept so
      that the theorems can name the holder, `step` only tests `isSome`. -/
  lock : Option Nat := none
  /-- finished operations in the order they ended, with their outcome -/
  finished : List ((Nat × Nat) × Outcome) := []

/-- does this transport call raise: an injected failure, or the transport has been closed
    (write: ScrapliConnectionNotOpened, read: ScrapliConnectionError) -/
def raises {σ} (w : World σ) (st : Step) : Bool := st.fails || w.closed

/-- one transport call of caller `i`'s operation `k`; returns the new world and what is appended to
    the operation's reads -/
def perform {σ} (D : Dev σ) (w : World σ) (i k : Nat) (st : Step) : World σ × List Bytes :=
  if raises w st then ({ w with wire := w.wire ++ [⟨i, k, st.act, true, []⟩] }, [])
  else match st.act with
    | .write b =>
      let r := D.onWrite w.dev b
      ({ w with dev := r.1, buf := w.buf ++ r.2, wire := w.wire ++ [⟨i, k, .write b, false, r.2⟩] }, [])
    | .read => ({ w with buf := [], wire := w.wire ++ [⟨i, k, .read, false, w.buf⟩] }, [w.buf])

def opAt (progs : List Prog) (i k : Nat) : Option Op := (progs[i]?).bind (·[k]?)

/-- `__enter__` of the lock context (`with self.channel_lock:` when locking, plain `yield` otherwise) -/
def acqSt {σ} (locking : Bool) (s : St σ) (i : Nat) (c : Caller) (op : List Step) : St σ :=
  { s with callers := s.callers.set i { c with cur := some op, reads := [] }, lock := if locking then some i else none }

/-- one more transport call done, still inside the `with` block -/
def contSt {σ} (s : St σ) (w : World σ) (i : Nat) (c : Caller) (rest : List Step) (reads : List Bytes) : St σ :=
  { s with world := w, callers := s.callers.set i { c with cur := some rest, reads := reads } }

/-- the operation ends (normally or by an exception leaving the `with` block): `__exit__` releases -/
def finishOp {σ} (s : St σ) (w : World σ) (i : Nat) (c : Caller) (o : Outcome) : St σ :=
  { world := w, callers := s.callers.set i { pc := c.pc + 1, cur := none, reads := [] },
    lock := none, finished := s.finished ++ [((i, c.pc), o)] }

/-- caller `i` is scheduled -/
def step {σ} (locking : Bool) (D : Dev σ) (progs : List Prog) (s : St σ) (i : Nat) : St σ :=
  match s.callers[i]? with
  | none => s
  | some c =>
    match c.cur with
    | none =>
      match opAt progs i c.pc with
      | none => s                                             -- program finished
      | some op =>
        if locking && s.lock.isSome then s                    -- blocked in `with self.channel_lock:`
        else match op with
          | [] => finishOp s s.world i c ⟨true, []⟩           -- enter and leave at once
          | st :: rest => acqSt locking s i c (st :: rest)
    | some [] => s                                            -- never reached (see `Inv.curne`)
    | some (st :: rest) =>
      let r := perform D s.world i c.pc st
      if raises s.world st then finishOp s r.1 i c ⟨false, c.reads⟩
      else if rest.isEmpty then finishOp s r.1 i c ⟨true, c.reads ++ r.2⟩
      else contSt s r.1 i c rest (c.reads ++ r.2)

def init {σ} (D : Dev σ) (progs : List Prog) : St σ :=
  { world := { dev := D.init }, callers := progs.map (fun _ => {}) }

/-- the state after a schedule (threads: every transport call is a yield point) -/
def run {σ} (locking : Bool) (D : Dev σ) (progs : List Prog) (sched : List Nat) : St σ :=
  sched.foldl (step locking D progs) (init D progs)

/-! ### what "release on every exit" rests on

    `finishOp` frees the lock also when the call raised: that IS the with-statement / (async)contextmanager semantics of
    `_channel_lock` (sync_channel.py:34-53) and is true of the model by construction.  `relOnRaise = false` is the variant
    "`acquire()`; body; `release()` without with/try-finally": a raising call leaves the lock held.  Which of the two the
    source is, is the GENERATED `lockContext` (tools/gen/c19.py); `stepR true = step`. -/
def stepR {σ} (relOnRaise locking : Bool) (D : Dev σ) (progs : List Prog) (s : St σ) (i : Nat) : St σ :=
  let s' := step locking D progs s i
  if relOnRaise then s' else
    match s.callers[i]? with
    | some c =>
      match c.cur with
      | some (st :: _) => if raises s.world st then { s' with lock := s.lock } else s'
      | _ => s'
    | none => s'

def runR {σ} (relOnRaise locking : Bool) (D : Dev σ) (progs : List Prog) (sched : List Nat) : St σ :=
  sched.foldl (stepR relOnRaise locking D progs) (init D progs)

/-! ### asyncio: `transport.write` is a plain function, a task cannot be suspended before it.  A
    scheduled task therefore also runs through the writes that follow, up to its next `await`
    (lock or read).  This is `step` iterated, so every statement about `run` covers it. -/

def nextIsWrite {σ} (s : St σ) (i : Nat) : Bool :=
  match s.callers[i]? with
  | some c => match c.cur with
    | some (⟨.write _, _⟩ :: _) => true
    | _ => false
  | none => false

def drainWrites {σ} (locking : Bool) (D : Dev σ) (progs : List Prog) : Nat → St σ → Nat → St σ
  | 0, s, _ => s
  | fuel + 1, s, i => if nextIsWrite s i then drainWrites locking D progs fuel (step locking D progs s i) i else s

def curLen {σ} (s : St σ) (i : Nat) : Nat :=
  match s.callers[i]? with
  | some c => (c.cur.getD []).length
  | none => 0

def stepAsync {σ} (locking : Bool) (D : Dev σ) (progs : List Prog) (s : St σ) (i : Nat) : St σ :=
  let s1 := step locking D progs s i
  drainWrites locking D progs (curLen s1 i) s1 i

def runAsync {σ} (locking : Bool) (D : Dev σ) (progs : List Prog) (sched : List Nat) : St σ :=
  sched.foldl (stepAsync locking D progs) (init D progs)

/-! ### a caller gives up while it WAITS for the lock

    `cancel i` — `task.cancel()` ONLY, while the task is parked in `async with self.channel_lock:` (async_channel.py:50):
    `asyncio.Lock.acquire()` raises CancelledError, `__aenter__` has not completed so `__aexit__` is NOT run: the operation
    is abandoned without a transport call and WITHOUT touching the lock.  This event has no other effect.
    `timeout i` — the timeout decorator expiring at the same point is NOT that: after the cancel, `_handle_timeout` calls
    `transport.close()` on the transport every caller shares, so the holder's next transport call raises (`raises`).
    `close` — threads cannot be cancelled: a thread whose timeout expires while its pool worker waits for the lock runs
    `_handle_timeout` (close) and then joins the worker, which later takes the lock and fails at its first call: a `close`
    event followed by ordinary `run` events.
    `releases = true` is the variant "release in a `finally` that also covers the acquire" — asyncio.Lock.release()
    does not check ownership — kept to show what the `with` statement excludes. -/

/-- schedule entry: run caller `i` to its next yield point | cancel caller `i` if it is waiting for the lock -/
inductive SEv where
  | run (i : Nat)
  | cancel (i : Nat)     -- task.cancel() ONLY (no timeout handler runs)
  | timeout (i : Nat)    -- asyncio: the timeout decorator's `wait_for` expires while task i waits for the lock
  | close                -- somebody closes the shared transport (threads: `_handle_timeout` of a caller whose pool worker waits for the lock)
deriving Repr, DecidableEq

/-- caller `i` is parked at the lock with an operation left -/
def waiting {σ} (progs : List Prog) (s : St σ) (i : Nat) : Bool :=
  match s.callers[i]? with
  | some c => c.cur.isNone && (opAt progs i c.pc).isSome
  | none => false

/-- `_handle_timeout` (decorators.py:118-142): `transport.close()` — on the transport ALL callers share -/
def closeW {σ} (s : St σ) : St σ := { s with world := { s.world with closed := true } }

def cancelWaiting {σ} (releases : Bool) (progs : List Prog) (s : St σ) (i : Nat) : St σ :=
  match s.callers[i]? with
  | none => s
  | some c =>
    match c.cur with
    | some _ => s                      -- inside an operation: that is a failing transport call (`Step.fails`), not this event
    | none =>
      match opAt progs i c.pc with
      | none => s                      -- program finished
      | some _ =>
        { s with callers := s.callers.set i { pc := c.pc + 1, cur := none, reads := [] },
                 lock := if releases then none else s.lock }

/-- asyncio, decorators.py:192-205: `asyncio.wait_for(wrapped_func(...), timeout)` expires while the task is parked at the
    lock: the task is cancelled there (as `cancelWaiting`) AND `_handle_timeout` closes the shared transport before
    ScrapliTimeout is raised: whoever holds the lock finds its next transport call failing.  Not a side-effect-free event. -/
def timeoutWaiting {σ} (releases : Bool) (progs : List Prog) (s : St σ) (i : Nat) : St σ :=
  if waiting progs s i then closeW (cancelWaiting releases progs s i) else s

def stepE {σ} (releases locking : Bool) (D : Dev σ) (progs : List Prog) (s : St σ) : SEv → St σ
  | .run i => step locking D progs s i
  | .cancel i => cancelWaiting releases progs s i
  | .timeout i => timeoutWaiting releases progs s i
  | .close => closeW s

def stepEAsync {σ} (releases locking : Bool) (D : Dev σ) (progs : List Prog) (s : St σ) : SEv → St σ
  | .run i => stepAsync locking D progs s i
  | .cancel i => cancelWaiting releases progs s i
  | .timeout i => timeoutWaiting releases progs s i
  | .close => closeW s

/-- the state after a history of run / cancel events -/
def runE {σ} (releases locking : Bool) (D : Dev σ) (progs : List Prog) (evs : List SEv) : St σ :=
  evs.foldl (stepE releases locking D progs) (init D progs)

def runEAsync {σ} (releases locking : Bool) (D : Dev σ) (progs : List Prog) (evs : List SEv) : St σ :=
  evs.foldl (stepEAsync releases locking D progs) (init D progs)

/-! ### sequential reference: one operation run from start to end, operations one at a time -/

def runOp {σ} (D : Dev σ) (w : World σ) (i k : Nat) : List Step → List Bytes → World σ × Outcome
  | [], reads => (w, ⟨true, reads⟩)
  | st :: rest, reads =>
    let r := perform D w i k st
    if raises w st then (r.1, ⟨false, reads⟩) else runOp D r.1 i k rest (reads ++ r.2)

def serialStep {σ} (D : Dev σ) (progs : List Prog) (a : World σ × List ((Nat × Nat) × Outcome)) (key : Nat × Nat) :
    World σ × List ((Nat × Nat) × Outcome) :=
  let r := runOp D a.1 key.1 key.2 ((opAt progs key.1 key.2).getD []) []
  (r.1, a.2 ++ [(key, r.2)])

/-- the operations named by `order` executed one after the other by a single caller -/
def serial {σ} (D : Dev σ) (progs : List Prog) (order : List (Nat × Nat)) : World σ × List ((Nat × Nat) × Outcome) :=
  order.foldl (serialStep D progs) ({ dev := D.init }, [])

/-! ### the device used by the driver: tools/harness/simdevice.py `CliDevice` in a mode without
    moves, `outputs = lambda mode, line: "out<"+line+">" if line else None`, echo on, nl = "\n" -/

def cliOnWrite (prompt : Bytes) (line : Bytes) (data : Bytes) : Bytes × Bytes :=
  data.foldl (fun (acc : Bytes × Bytes) b =>
    if b == 10 then
      let out := if acc.1.isEmpty then [10] ++ prompt
                 else [10] ++ ofString "out<" ++ acc.1 ++ ofString ">" ++ [10] ++ prompt
      ([], acc.2 ++ out)
    else if b == 13 then acc
    else (acc.1 ++ [b], acc.2 ++ [b])) (line, [])

def cliDev (prompt : Bytes) : Dev Bytes := { init := [], onWrite := cliOnWrite prompt }

/-! ### a timed-out operation under the thread-pool timeout (scrapli/decorators.py `_multiprocessing_timeout`)

    Used for sync operations called from non-main threads, System/Telnet transports, Windows.  The
    operation runs in a pool worker; the calling thread does `wait([future], timeout)`.  The situation
    modelled: the worker is inside `with self._channel_lock():`, blocked in `transport.read()` on a
    silent device, and the wait expires.  The calling thread then does two things, in the order the
    source gives them: `_handle_timeout` (`transport.close()`, then `raise ScrapliTimeout`) and the
    implicit join of the worker when the `with ThreadPoolExecutor(...)` block is left
    (`shutdown(wait=True)`).  The worker's read returns (raises) only if the transport was closed and
    closing wakes a blocked read; it then leaves the `with` block of the channel lock — the failing
    `read` step of the model above (`finishOp`). -/
namespace PoolTimeout

inductive TAct where
  | close    -- _handle_timeout: transport.close()         decorators.py:140
  | join     -- leaving `with ThreadPoolExecutor`: shutdown(wait=True) joins the worker   decorators.py:106
deriving Repr, DecidableEq

/-- where the calling thread is: in `wait()`, before its first / second action, or `ScrapliTimeout`
    has reached the user -/
inductive CPc where
  | waiting | first | second | raised
deriving Repr, DecidableEq

structure TOpts where
  closeBeforeJoin : Bool   -- `_handle_timeout(...)` is called INSIDE the `with ThreadPoolExecutor` block (GENERATED from the AST)
  closeWakes : Bool        -- transport.close() makes a blocked read of this transport raise (a property of the transport)
deriving Repr, DecidableEq

structure TSt where
  pc : CPc := .waiting
  closed : Bool := false
  blocked : Bool := true   -- the worker is blocked in transport.read(), inside the channel lock context
  lock : Bool := true      -- the channel lock is held (by the worker)
deriving Repr, DecidableEq

def plan (o : TOpts) : TAct × TAct := if o.closeBeforeJoin then (.close, .join) else (.join, .close)

def doAct (s : TSt) (a : TAct) (next : CPc) : TSt :=
  match a with
  | .close => { s with closed := true, pc := next }
  | .join => if s.blocked then s else { s with pc := next }     -- join returns only once the worker has ended

/-- `caller = true`: the calling thread is scheduled; `false`: the worker -/
def tstep (o : TOpts) (s : TSt) (caller : Bool) : TSt :=
  if caller then
    match s.pc with
    | .waiting => { s with pc := .first }                        -- wait([future], timeout) expires
    | .first => doAct s (plan o).1 .second
    | .second => doAct s (plan o).2 .raised
    | .raised => s
  else if s.blocked && s.closed && o.closeWakes then
    { s with blocked := false, lock := false }                   -- read raises, `with self._channel_lock()` is left
  else s

def trun (o : TOpts) (sched : List Bool) : TSt := sched.foldl (tstep o) {}

/-! Two more facts of the mechanism, both invisible while the device stays silent and the pool is a with-block:
    `joins` — leaving the pool JOINS the worker (`with ThreadPoolExecutor(...)`, i.e. `shutdown(wait=True)`; GENERATED
    from the AST); with `shutdown(wait=False)` the `join` action returns at once.
    `late` — the device does answer, only later than `timeout_ops`: the worker's blocked read returns by itself
    (this is what happens under Settings.NO_TERMINATE_ON_TIMEOUT, where nothing closes the transport). -/
def doAct2 (joins : Bool) (s : TSt) (a : TAct) (next : CPc) : TSt :=
  match a with
  | .close => { s with closed := true, pc := next }
  | .join => if joins && s.blocked then s else { s with pc := next }

def tstep2 (o : TOpts) (joins late : Bool) (s : TSt) (caller : Bool) : TSt :=
  if caller then
    match s.pc with
    | .waiting => { s with pc := .first }
    | .first => doAct2 joins s (plan o).1 .second
    | .second => doAct2 joins s (plan o).2 .raised
    | .raised => s
  else if s.blocked && ((s.closed && o.closeWakes) || late) then
    { s with blocked := false, lock := false }      -- the read returns (late answer) or raises (closed): the operation ends, lock freed
  else s

def trun2 (o : TOpts) (joins late : Bool) (sched : List Bool) : TSt := sched.foldl (tstep2 o joins late) {}

end PoolTimeout

end Scrapli.Lock
