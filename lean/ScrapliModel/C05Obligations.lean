import ScrapliModel.Gen.C05Tables
import ScrapliModel.Spec.PromptGrammar
/-
  C05: which prompt grammar (Spec) is checked against which generated privilege table.
  A suite = one constructed driver (table) + the modes its device can be in.
  Obligation `<suite>.<mode index>.incl|disj` is the emptiness of `inclOb` / `disjOb`.
-/
namespace Scrapli.C05
open Scrapli.Regex Scrapli.PromptClass Scrapli.Spec

structure Suite where
  name : String
  table : Table
  modes : List Mode

def iosxe : Suite := ⟨"iosxe", Gen.C05.iosxe, PromptGrammar.iosxe⟩
def iosxr : Suite := ⟨"iosxr", Gen.C05.iosxr, PromptGrammar.iosxr⟩
def nxos : Suite := ⟨"nxos", Gen.C05.nxos, PromptGrammar.nxos⟩
def nxosS : Suite := ⟨"nxosS", Gen.C05.nxosS, PromptGrammar.nxosS Gen.C05.nxosSessions⟩
def eos : Suite := ⟨"eos", Gen.C05.eos, PromptGrammar.eos⟩
def eosS : Suite := ⟨"eosS", Gen.C05.eosS, PromptGrammar.eosS Gen.C05.eosSessions⟩
def junos : Suite := ⟨"junos", Gen.C05.junos, PromptGrammar.junos⟩
/-- the modes whose grammar is restricted by the predicate of an open finding, WITHOUT the restriction
    (the obligations that fail on the unchanged tree carry machine-checked witnesses) -/
def junosFull : Suite := ⟨"junosFull", Gen.C05.junos, PromptGrammar.junosFull⟩
def nxosFull : Suite := ⟨"nxosFull", Gen.C05.nxos, PromptGrammar.nxosFull⟩
def nxosSFull : Suite := ⟨"nxosSFull", Gen.C05.nxosS, PromptGrammar.nxosSFull⟩
def eosSFull : Suite := ⟨"eosSFull", Gen.C05.eosS, PromptGrammar.eosSFull Gen.C05.eosSessions⟩

def suites : List Suite := [iosxe, iosxr, nxos, nxosS, eos, eosS, junos, junosFull, nxosFull, nxosSFull, eosSFull]

def suite (n : String) : Suite := (suites.find? (·.name == n)).getD ⟨"", ⟨"", [], .emp⟩, []⟩

/-- obligation 0: detection, 1: classified by the whole share group, 2: by no other level -/
def Suite.ob (s : Suite) (i k : Nat) : RE :=
  match k with
  | 0 => detOb s.table (nthMode s.modes i)
  | 1 => ownOb s.table (nthMode s.modes i)
  | _ => forOb s.table (nthMode s.modes i)

end Scrapli.C05
