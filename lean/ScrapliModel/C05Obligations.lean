import ScrapliModel.C05Suite_iosxe
import ScrapliModel.C05Suite_iosxr
import ScrapliModel.C05Suite_nxos
import ScrapliModel.C05Suite_nxosS
import ScrapliModel.C05Suite_eos
import ScrapliModel.C05Suite_eosS
import ScrapliModel.C05Suite_eosP
import ScrapliModel.C05Suite_junos
/-
  C05: registry of all suites (used by the model driver Drv/C05.lean and by the summary file).
  The suites themselves live in `C05Suite_<table>.lean`, one file per generated table, so that a
  change of one platform's patterns re-checks only that platform's obligations.
-/
namespace Scrapli.C05
open Scrapli.Regex Scrapli.PromptClass

def suites : List Suite := [iosxe, iosxr, nxos, nxosS, eos, eosS, junos, junosFull, nxosFull, nxosSFull, eosSFull, eosPFull]

def suite (n : String) : Suite := (suites.find? (·.name == n)).getD ⟨"", ⟨"", [], .emp⟩, []⟩

end Scrapli.C05
