import ScrapliModel.Gen.C05Tables
import ScrapliModel.Spec.PromptGrammar
/-
  C05: which prompt grammar (Spec) is checked against which generated privilege table.
  A suite = one constructed driver (table) + the modes its device can be in.
  Obligation `<suite>.<mode index>.incl|disj` is the emptiness of `inclOb` / `disjOb`.
-/
namespace Scrapli.C05
open Scrapli.Regex Scrapli.PromptClass Scrapli.Spec

structure Suite where
  name : String
  table : Table
  modes : List Mode

def suites : List Suite := [
  ⟨"iosxe", Gen.C05.iosxe, PromptGrammar.iosxe⟩,
  ⟨"iosxr", Gen.C05.iosxr, PromptGrammar.iosxr⟩,
  ⟨"nxos", Gen.C05.nxos, PromptGrammar.nxos⟩,
  ⟨"nxosS", Gen.C05.nxosS, PromptGrammar.nxosS Gen.C05.nxosSessions⟩,
  ⟨"eos", Gen.C05.eos, PromptGrammar.eos⟩,
  ⟨"eosS", Gen.C05.eosS, PromptGrammar.eosS Gen.C05.eosSessions⟩,
  ⟨"junos", Gen.C05.junos, PromptGrammar.junos⟩,
  ⟨"junosFull", Gen.C05.junos, PromptGrammar.junosFull⟩]

def suite (n : String) : Suite := (suites.find? (·.name == n)).getD ⟨"", ⟨"", [], .emp⟩, []⟩

/-- the obligation regex: `kind = true` inclusion, `false` disjointness -/
def obligation (sn : String) (i : Nat) (incl : Bool) : RE :=
  let s := suite sn
  if incl then inclOb s.table (nthMode s.modes i) else disjOb s.table (nthMode s.modes i)

end Scrapli.C05
