import ScrapliModel.Bytes
import ScrapliModel.Gen.TelnetConsts
/-
  Model of scrapli/transport/plugins/{telnet,asynctelnet}/transport.py:
  `_handle_control_chars_response`, `_handle_control_chars`, `_read`, `read`.
  The constants come from the generated file (tools/translate.py).
-/
namespace Scrapli.Telnet
open Scrapli Scrapli.Gen.Telnet

structure St where
  ctrl : Bytes := []          -- self._control_buf
  cooked : Bytes := []        -- self._cooked_buf
  writes : List Bytes := []   -- every socket send / stdin.write, in order
  counter : Nat := 0          -- self._control_char_sent_counter
  eof : Bool := false         -- self._eof
deriving Repr, DecidableEq

def isVerb (c : UInt8) : Bool := c == DO || c == DONT || c == WILL || c == WONT

/-- first row of a reply table that applies to `IAC cmd opt` -/
def replyOf (tbl : List (UInt8 × Option UInt8 × UInt8)) (cmd opt : UInt8) : Option Bytes :=
  match tbl.find? (fun r => r.1 == cmd && (match r.2.1 with | none => true | some o => o == opt)) with
  | some r => some [IAC, r.2.2, opt]
  | none => none

/-- the reply written for `IAC cmd opt`: the if/elif chain of `_handle_control_chars_response` as the
    translator read it from the source of that transport (`count` identifies the transport: the sync
    one is the one that counts completed commands); `none` when no branch applies -/
def reply (count : Bool) (cmd opt : UInt8) : Option Bytes :=
  replyOf (if count then syncReplyTable else asyncReplyTable) cmd opt

/-- `_handle_control_chars_response(control_buf, c)`; `count` says whether this transport
    increments the sent counter (sync: yes, asyncio: no). -/
def stepByte (count : Bool) (s : St) (c : UInt8) : St :=
  match s.ctrl with
  | [] => if c != IAC then { s with cooked := s.cooked ++ [c] } else { s with ctrl := [c] }
  | [i] => if isVerb c then { s with ctrl := [i, c] } else s
  | [_, cmd] =>
    let s := { s with ctrl := [] }
    let s := match reply count cmd c with
      | some r => { s with writes := s.writes ++ [r] }
      | none => s
    if count then { s with counter := s.counter + 1 } else s
  | _ => s

/-- `_handle_control_chars()` applied to `self._raw_buf = raw` -/
def handle (count : Bool) (s : St) (raw : Bytes) : St :=
  if s.ctrl.isEmpty then
    let pre := raw.takeWhile (· != IAC)
    let rest := raw.dropWhile (· != IAC)
    rest.foldl (stepByte count) { s with cooked := pre }
  else raw.foldl (stepByte count) s

/-- one pass of the body of the `while` loop in `read()`: `_read()` then, below the limit,
    `_handle_control_chars()`; `chunk` is what `recv` returned (`[]` = EOF) -/
def recvStep (count : Bool) (limit : Nat) (s : St) (chunk : Bytes) : St :=
  let s := { s with eof := chunk.isEmpty }
  if s.counter < limit then handle count s chunk
  else { s with cooked := s.cooked ++ chunk }

def stripNul (b : Bytes) : Bytes := b.filter (· != NULL)

/-- `read()` is `while not cooked and not eof: recvStep`; it returns `stripNul cooked` and clears
    `cooked`.  Hence every `recvStep` starts with `cooked = []`, and the concatenation of all
    `read()` results is the concatenation of `stripNul cooked` after each `recvStep`.  `pump` is one
    such step on the pair (state, data delivered so far). -/
def pump (count : Bool) (limit : Nat) (acc : St × Bytes) (chunk : Bytes) : St × Bytes :=
  let s' := recvStep count limit acc.1 chunk
  ({ s' with cooked := [] }, acc.2 ++ stripNul s'.cooked)

/-- everything observable about a session: concatenated `read()` results and the writes;
    `tape` = the successive `recv` results -/
def run (count : Bool) (limit : Nat) (tape : List Bytes) : Bytes × List Bytes :=
  let r := tape.foldl (pump count limit) ({}, [])
  (r.2, r.1.writes)

/-- the successive results of `read()` for a client that keeps calling it: `read()` loops
    (`while not cooked and not eof`) over recv results until something is cooked or EOF was seen, returns
    the cooked bytes without NULs and clears them; after EOF the next `read()` raises, so the list ends -/
def reads (count : Bool) (limit : Nat) : St → List Bytes → List Bytes
  | _, [] => []
  | s, c :: cs =>
    let s' := recvStep count limit s c
    if s'.cooked.isEmpty && !s'.eof then reads count limit s' cs
    else stripNul s'.cooked :: (if s'.eof then [] else reads count limit { s' with cooked := [] } cs)

/-- the two transports, with the counting behaviour the translator read from the source -/
def runSync (tape : List Bytes) := run syncCounts syncLimit tape
def runAsync (tape : List Bytes) := run asyncCounts asyncLimit tape

end Scrapli.Telnet
