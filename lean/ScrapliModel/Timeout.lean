import ScrapliModel.Gen.TimeoutConsts
/-
  Model of scrapli/decorators.py `timeout_wrapper` (all three mechanisms), `_multiprocessing_timeout`,
  `_handle_timeout`, `_get_timeout_message`.  Data (class-name tuple, message map, NO_TERMINATE
  default, list of decorated methods) comes from the generated file (tools/gen/c07.py).

  Time is a natural number of ticks.  `Option Nat` as a time means "never" when `none`.
  What a wrapped function does is described by a `Prog`: time passes ONLY inside blocking transport
  reads (`work d` = a read that returns after `d` ticks, `hang` = a read on a silent device), a
  function can return, raise, or call another decorated function (`call t name body k`: the channel
  operation over `transport.read`, any depth) and continue with `k` when that returns.
-/
namespace Scrapli.Timeout
open Scrapli.Gen.Timeout

/-! ## mechanism selection — decorators.py:190-231 -/

inductive Mech | direct | asyncio | thread | signal
deriving DecidableEq, Repr

/-- `timeout_wrapper`: `asyncio.iscoroutinefunction` picks the branch (l.190); both branches start with
    `if not timeout: return wrapped_func(...)` (l.195, l.214); the sync branch then tests
    `cls_name in (...) or _IS_WINDOWS or current_thread() is not main_thread()` (l.219-223).
    `timeout = 0` stands for every falsy value (0, 0.0, None). -/
def selectMechanism (isCoroutine : Bool) (cls : String) (windows mainThread : Bool) (timeout : Nat) : Mech :=
  if timeout == 0 then .direct
  else if isCoroutine then .asyncio
  else if threadClassNames.contains cls || windows || !mainThread then .thread
  else .signal

/-- `_get_timeout_message` (l.52): `FUNC_TIMEOUT_MESSAGE_MAP.get(func_name, default)` -/
def message (name : String) : String := (messageMap.lookup name).getD defaultMessage

/-! ## programs and outcomes -/

inductive Prog where
  | ret                                             -- returns
  | raise                                           -- raises some exception of its own
  | hang                                            -- blocks in a transport read forever (silent device)
  | work (d : Nat) (k : Prog)                       -- a transport read that returns after d ticks, then k
  | call (t : Nat) (name : String) (body k : Prog)  -- calls a @timeout_wrapper function, then k
  | spawn (body k : Prog)                           -- asyncio only: `task = ensure_future(body)`, then waits for it with
                                                    -- `asyncio.wait({task})` (which does NOT cancel it when cancelled
                                                    -- itself), takes `task.result()`, then k.  Under the sync mechanisms
                                                    -- it is an ordinary inline call.  No such site exists in the tree
                                                    -- (generated `asyncSpawnSites`); it is here to state what would break.
deriving Repr, DecidableEq

inductive Out where
  | ret
  | timeout (msg : String)     -- ScrapliTimeout(msg)
  | error                      -- any other exception (e.g. read on a closed transport)
  | cancelled                  -- asyncio.CancelledError travelling outwards
deriving Repr, DecidableEq

def Out.isTimeout : Out → Bool
  | .timeout _ => true
  | _ => false

structure Cfg where
  noTerminate : Bool := noTerminateDefault   -- Settings.NO_TERMINATE_ON_TIMEOUT
  closeWakes : Bool := true                  -- per transport: does close() end a read blocked in another thread
  restoreTimer : Bool := restoresTimer       -- signal branch: previously armed ITIMER_REAL re-armed in the finally
                                             -- (generated from the source; false before the fix for finding F18)
deriving Repr, DecidableEq

/-- `_handle_timeout` (l.118-142): close the transport unless NO_TERMINATE_ON_TIMEOUT, then raise
    ScrapliTimeout(message).  Returns the new `closed` flag and the exception. -/
def handleTimeout (cfg : Cfg) (closed : Bool) (msg : String) : Bool × Out :=
  (if cfg.noTerminate then closed else true, .timeout msg)

/-! ## option-time helpers (none = never) -/

def omin : Option Nat → Option Nat → Option Nat
  | none, b => b
  | a, none => a
  | some a, some b => some (min a b)

/-- `max a b` where `b` may be "never" -/
def omaxN (a : Nat) : Option Nat → Option Nat
  | none => none
  | some b => some (max a b)

/-- `a ≤ b` where `a` may be "never" -/
def ole : Option Nat → Nat → Bool
  | none, _ => false
  | some a, b => a ≤ b

/-- `a < b` where `a` may be "never" -/
def olt : Option Nat → Nat → Bool
  | none, _ => false
  | some a, b => a < b

/-! ## signal mechanism — decorators.py:233-247 -/

inductive Handler where
  | user (n : Nat)          -- whatever was installed before (SIG_DFL, SIG_IGN, a user function …)
  | scrapli (msg : String)  -- partial(_signal_raise_exception, …, message=msg)
deriving Repr, DecidableEq

/-- process-wide state -/
structure Proc where
  now : Nat := 0
  handler : Handler := .user 0      -- signal.getsignal(SIGALRM)
  timer : Option Nat := none        -- expiry time of ITIMER_REAL (one-shot), none = disarmed
  closed : Bool := false            -- transport.close() has been called
deriving Repr, DecidableEq

/-- the alarm goes off at time `at_` while the main thread is blocked: the installed handler runs.
    scrapli's handler = `_handle_timeout`; any other handler returns and the read goes on (`none`). -/
def fireS (cfg : Cfg) (p : Proc) (at_ : Nat) : Proc × Option Out :=
  let p := { p with now := max at_ p.now, timer := none }
  match p.handler with
  | .scrapli m => let (c, o) := handleTimeout cfg p.closed m; ({ p with closed := c }, some o)
  | .user _ => (p, none)

/-- the sync `decorate` for the signal mechanism around a wrapped function `f` (l.212-215, 233-247):
    `if not timeout: return f()`; `old = signal.signal(SIGALRM, callback)`;
    `previous = setitimer(ITIMER_REAL, t)`; `try: return f() finally: setitimer(ITIMER_REAL, 0);
    signal.signal(SIGALRM, old)` and, when `cfg.restoreTimer`, `setitimer(ITIMER_REAL, max(previous -
    elapsed, tiny))` if something was armed before: the previous alarm is pending again with its old
    deadline, and if that deadline has passed meanwhile it goes off at once — with the handler that was
    just restored, replacing whatever the call was about to return or raise.
    `f` may itself contain wrapped calls and may return, raise or be interrupted by the alarm at any depth.
    (Timers are one-shot deadlines; the interval of a periodic timer is passed through by the code and
    not modelled.) -/
def wrapS (cfg : Cfg) (t : Nat) (name : String) (f : Proc → Option (Proc × Out)) (p : Proc) : Option (Proc × Out) :=
  if t = 0 then f p
  else
    let old := p.handler
    match f { p with handler := .scrapli (message name), timer := some (p.now + t) } with
    | none => none
    | some (p2, o) =>
      let p3 := { p2 with timer := none, handler := old }   -- finally
      if cfg.restoreTimer then
        match p.timer with
        | none => some (p3, o)
        | some D =>
          if D ≤ p3.now then
            match fireS cfg p3 D with
            | (p4, some o') => some (p4, o')     -- old handler was scrapli's (an enclosing wrapper): it raises
            | (p4, none) => some (p4, o)         -- a foreign handler runs and returns
          else some ({ p3 with timer := some D }, o)
      else some (p3, o)

/-! ### the one interleaving `runS` leaves out

`wrapS` treats the wrapper's own prologue and `finally` as atomic, and `runS` lets an alarm that is due
exactly when a read ends go off inside that read.  In the real code the wrapped call can return on the
tick of its own deadline and the SIGALRM is then delivered INSIDE the wrapper's `finally`, before
`setitimer(ITIMER_REAL, 0)`: scrapli's handler closes the transport and raises ScrapliTimeout from within
the `finally`.  `wrapSRaced` is the wrapper under exactly that interleaving.  `guarded` = the handler
restore (and the re-arming of the previous timer) sit in an OUTER `finally` that still runs when the
inner one is left by that exception (generated `epilogueGuarded`); unguarded, the rest of the `finally`
is skipped. -/

/-- the wrapped function, followed by our own alarm going off right after it returned -/
def racedBody (cfg : Cfg) (name : String) (f : Proc → Option (Proc × Out)) : Proc → Option (Proc × Out) :=
  fun p1 =>
    match f p1 with
    | none => none
    | some (p2, _) =>
      let (c, o') := handleTimeout cfg p2.closed (message name)
      some ({ p2 with closed := c, timer := none }, o')

def wrapSRaced (cfg : Cfg) (guarded : Bool) (t : Nat) (name : String) (f : Proc → Option (Proc × Out)) (p : Proc) :
    Option (Proc × Out) :=
  if guarded then wrapS cfg t name (racedBody cfg name f) p
  else racedBody cfg name f { p with handler := .scrapli (message name), timer := some (p.now + t) }

/-- `a; k`: `k` runs only when `a` returned -/
def seqS (r : Option (Proc × Out)) (k : Proc → Option (Proc × Out)) : Option (Proc × Out) :=
  match r with
  | some (p', .ret) => k p'
  | r => r

/-- Run a program in the main thread under the signal mechanism.  `none` = never returns. -/
def runS (cfg : Cfg) : Prog → Proc → Option (Proc × Out)
  | .ret, p => some (p, .ret)
  | .raise, p => some (p, .error)
  | .hang, p =>
    match p.timer with
    | none => none
    | some D =>
      match fireS cfg p D with
      | (p', some o) => some (p', o)
      | (_, none) => none
  | .work d k, p =>
    match p.timer with
    | none => runS cfg k { p with now := p.now + d }
    | some D =>
      if D ≤ p.now + d then
        match fireS cfg p D with
        | (p', some o) => some (p', o)
        | (p', none) => runS cfg k { p' with now := p.now + d }
      else runS cfg k { p with now := p.now + d }
  | .call t name body k, p => seqS (wrapS cfg t name (runS cfg body) p) (runS cfg k)
  | .spawn body k, p => seqS (runS cfg body p) (runS cfg k)

/-- the decorated call on its own -/
def wrapSignal (cfg : Cfg) (t : Nat) (name : String) (body : Prog) (p : Proc) : Option (Proc × Out) :=
  wrapS cfg t name (runS cfg body) p

/-! ## worker-thread mechanism — `_multiprocessing_timeout`, decorators.py:106-115 -/

/-- one worker thread of one pool: started at `start`, its wrapped call ended at `stop` (none = never) -/
structure Act where
  start : Nat
  stop : Option Nat
  name : String
deriving Repr, DecidableEq

structure TRes where
  fin : Option Nat              -- when the call returns / raises to its caller (none = never)
  out : Out
  closeAt : Option Nat := none  -- first time this call tree itself closed the transport
  acts : List Act := []         -- every worker thread started in this call tree
deriving Repr, DecidableEq

/-- a blocking read that starts at `s`, would return after `d` ticks (`none` = never), while the
    transport gets closed by somebody else at `ext`.  A read on an already closed transport raises at
    once; a close during the read ends it iff the transport's `closeWakes`.
    Result: `.inl (time, error)` or `.inr (time it returned normally)`; `none` = blocked forever -/
def readT (cfg : Cfg) (s : Nat) (d : Option Nat) (ext : Option Nat) : Option (Nat ⊕ Nat) :=
  match ext with
  | some C =>
    if C ≤ s then some (.inl s)
    else match d with
      | some d => if cfg.closeWakes && C < s + d then some (.inl C) else some (.inr (s + d))
      | none => if cfg.closeWakes then some (.inl C) else none
  | none => d.map fun d => .inr (s + d)

/-- `_multiprocessing_timeout` around a wrapped function `f` started at `s` (`f s ext` = what the
    function does when the transport is closed from outside at `ext`):
    `with ThreadPoolExecutor(max_workers=1) as pool: future = pool.submit(f);
    wait([future], timeout=t); if not future.done(): _handle_timeout(...)  # raises
    return future.result()` and the `with` exit is `pool.shutdown(wait=True)`: it JOINS the worker. -/
def poolT (cfg : Cfg) (t : Nat) (name : String) (f : Nat → Option Nat → TRes) (s : Nat) (ext : Option Nat) : TRes :=
  if t = 0 then f s ext
  else
    let r0 := f s ext                                  -- the worker, as long as we do not interfere
    if olt r0.fin (s + t) then                         -- future.done() after wait(); ties: the deadline was set first
      { r0 with acts := ⟨s, r0.fin, name⟩ :: r0.acts }     -- future.result(): value or exception
    else
      let own : Option Nat := if cfg.noTerminate then none else some (s + t)   -- _handle_timeout
      let r1 := f s (omin ext own)                     -- the worker with our close() at s+t
      { fin := omaxN (s + t) r1.fin                    -- pool exit joins the worker, then the raise
        out := .timeout (message name)
        closeAt := omin own r1.closeAt
        acts := ⟨s, r1.fin, name⟩ :: r1.acts }

/-- `a; k` -/
def seqT (a : TRes) (k : Nat → Option Nat → TRes) (ext : Option Nat) : TRes :=
  match a.fin, a.out with
  | some e, .ret =>
    let r := k e (omin ext a.closeAt)
    { r with closeAt := omin a.closeAt r.closeAt, acts := a.acts ++ r.acts }
  | _, _ => a

/-- Run a program in a thread under the worker-thread mechanism; `s` = start time, `ext` = when the
    transport is closed from outside this call tree. -/
def runT (cfg : Cfg) : Prog → Nat → Option Nat → TRes
  | .ret, s, _ => { fin := some s, out := .ret }
  | .raise, s, _ => { fin := some s, out := .error }
  | .hang, s, ext =>
    match readT cfg s none ext with
    | some (.inl e) => { fin := some e, out := .error }
    | _ => { fin := none, out := .error }
  | .work d k, s, ext =>
    match readT cfg s (some d) ext with
    | some (.inl e) => { fin := some e, out := .error }
    | some (.inr e) => runT cfg k e ext
    | none => { fin := none, out := .error }
  | .call t name body k, s, ext => seqT (poolT cfg t name (runT cfg body) s ext) (runT cfg k) ext
  | .spawn body k, s, ext => seqT (runT cfg body s ext) (runT cfg k) ext

/-- is some worker thread of this call tree still running at time `τ` -/
def TRes.busyAt (r : TRes) (τ : Nat) : Bool := r.acts.any fun a => a.start ≤ τ && !ole a.stop τ

/-- channel operations are the decorated methods of `Channel`; each of them takes the channel lock
    for (part of) its body — sync_channel.py `with self._channel_lock():` -/
def isChannelOp (name : String) : Bool := decoratedSync.any fun cm => cm.1 == "Channel" && cm.2 == name

/-- the channel lock can only be held by a worker that runs a channel operation -/
def TRes.lockHeldAt (r : TRes) (τ : Nat) : Bool :=
  r.acts.any fun a => isChannelOp a.name && a.start ≤ τ && !ole a.stop τ

/-! ## asyncio mechanism — decorators.py:192-205 -/

structure ARes where
  fin : Option Nat
  out : Out
  closed : Bool := false
  tasks : List Act := []     -- every asyncio Task created in this call tree (wait_for wraps its coroutine in one)
deriving Repr, DecidableEq

/-- does our own deadline `D` come before the enclosing cancellation -/
def ownFirst (cancelAt : Option Nat) (D : Nat) : Bool :=
  match cancelAt with
  | some C => decide (D < C)
  | none => true

/-- the async `decorate` around a coroutine function `f` (l.192-205): `if not timeout: return await f()`;
    `try: return await asyncio.wait_for(f(), timeout=t) except asyncio.TimeoutError:
    _handle_timeout(...)`.  `wait_for` cancels the inner coroutine at `s + t`; a cancellation that comes
    from an enclosing `wait_for` (`cancelAt`) is not a TimeoutError here and travels on. -/
def waitForA (cfg : Cfg) (t : Nat) (name : String) (f : Nat → Option Nat → Bool → ARes)
    (s : Nat) (cancelAt : Option Nat) (c : Bool) : ARes :=
  if t = 0 then f s cancelAt c
  else
    let r := f s (omin cancelAt (some (s + t))) c
    if r.out == .cancelled && ownFirst cancelAt (s + t) then
      let (c', o) := handleTimeout cfg r.closed (message name)
      { fin := r.fin, out := o, closed := c', tasks := ⟨s, r.fin, name⟩ :: r.tasks }
    else { r with tasks := ⟨s, r.fin, name⟩ :: r.tasks }

/-- `task = asyncio.ensure_future(f()); done, _ = await asyncio.wait({task}); task.result()`: the task does
    not see the enclosing cancellation; if the waiter is cancelled first (ties: the deadline was set
    first) the task simply stays behind -/
def spawnA (f : Nat → Option Nat → Bool → ARes) (s : Nat) (cancelAt : Option Nat) (c : Bool) : ARes :=
  let r := f s none c
  match cancelAt with
  | some C =>
    if olt r.fin C then { r with tasks := ⟨s, r.fin, "task"⟩ :: r.tasks }
    else { fin := some (max C s), out := .cancelled, closed := c, tasks := ⟨s, r.fin, "task"⟩ :: r.tasks }
  | none => { r with tasks := ⟨s, r.fin, "task"⟩ :: r.tasks }

def seqA (a : ARes) (k : Nat → Bool → ARes) : ARes :=
  match a.fin, a.out with
  | some e, .ret => let r := k e a.closed; { r with tasks := a.tasks ++ r.tasks }
  | _, _ => a

/-- is some task of this call tree still pending at time `τ` -/
def ARes.pendingAt (r : ARes) (τ : Nat) : Bool := r.tasks.any fun a => a.start ≤ τ && !ole a.stop τ

/-- Run a coroutine; `cancelAt` = when an enclosing `wait_for` cancels it; `c` = transport closed. -/
def runA (cfg : Cfg) : Prog → Nat → Option Nat → Bool → ARes
  | .ret, s, _, c => { fin := some s, out := .ret, closed := c }
  | .raise, s, _, c => { fin := some s, out := .error, closed := c }
  | .hang, s, cancelAt, c =>
    match cancelAt with
    | some C => { fin := some (max C s), out := .cancelled, closed := c }
    | none => { fin := none, out := .cancelled, closed := c }
  | .work d k, s, cancelAt, c =>
    match cancelAt with
    | some C => if C ≤ s + d then { fin := some (max C s), out := .cancelled, closed := c } else runA cfg k (s + d) cancelAt c
    | none => runA cfg k (s + d) cancelAt c
  | .call t name body k, s, cancelAt, c =>
    seqA (waitForA cfg t name (runA cfg body) s cancelAt c) (fun e c' => runA cfg k e cancelAt c')
  | .spawn body k, s, cancelAt, c =>
    seqA (spawnA (runA cfg body) s cancelAt c) (fun e c' => runA cfg k e cancelAt c')

/-! ## one entry point -/

/-- everything observable after a decorated call -/
structure Res where
  fin : Option Nat
  out : Out
  closed : Bool
  handler : Handler
  timer : Option Nat
  acts : List Act := []
deriving Repr, DecidableEq

/-- run `prog` (normally a single `call`) the way the mechanism `m` would; `.direct` is a `call` whose
    timeout is 0, which every mechanism treats alike -/
def run (cfg : Cfg) (m : Mech) (prog : Prog) (p : Proc) : Res :=
  match m with
  | .thread =>
    let r := runT cfg prog p.now (if p.closed then some 0 else none)
    { fin := r.fin, out := r.out, closed := p.closed || r.closeAt.isSome, handler := p.handler, timer := p.timer, acts := r.acts }
  | .asyncio =>
    let r := runA cfg prog p.now none p.closed
    { fin := r.fin, out := r.out, closed := r.closed, handler := p.handler, timer := p.timer, acts := r.tasks }
  | _ =>
    match runS cfg prog p with
    | some (q, o) => { fin := some q.now, out := o, closed := q.closed, handler := q.handler, timer := q.timer }
    | none => { fin := none, out := .error, closed := p.closed, handler := p.handler, timer := p.timer }

end Scrapli.Timeout
