/-
  C12 — generic flow graphs and the reachability computation used on the graph that
  tools/gen/c12.py extracts from the AST of all of scrapli (ScrapliModel/Gen/FlowGraph.lean).
  Core Lean only.  Nodes are the numbers `0 … adj.length-1`; `adj[i]` lists the successors of `i`.
  Every node has one of four kinds: source, sink, sanitiser or plain (plain = in none of the lists).
-/
namespace Scrapli.Flow

structure Graph where
  adj : List (List Nat)
  sources : List Nat
  sinks : List Nat
  sanitisers : List Nat
deriving Repr

namespace Graph

def n (g : Graph) : Nat := g.adj.length
def succ (g : Graph) (a : Nat) : List Nat := g.adj.getD a []
def san (g : Graph) (a : Nat) : Bool := g.sanitisers.contains a
def isSink (g : Graph) (a : Nat) : Bool := g.sinks.contains a

/-- every successor is a node of the graph -/
def wf (g : Graph) : Bool := g.adj.all (fun l => l.all (fun b => decide (b < g.adj.length)))

/-- the same check with the number of nodes supplied (the kernel then does not recount the list for
    every edge) -/
def wfN (g : Graph) (k : Nat) : Bool :=
  g.adj.length == k && g.adj.all (fun l => l.all (fun b => decide (b < k)))

/-- the same graph with the sanitisers treated as plain nodes (used for non-vacuity: what would
    flow if the redaction guards were not there) -/
def unsanitised (g : Graph) : Graph := { g with sanitisers := [] }

end Graph

/-- `addNew g cands v fr`: add to the visited list `v` every candidate that is neither a sanitiser
    nor already visited; `fr` collects the nodes that were added -/
def addNew (g : Graph) : List Nat → List Nat → List Nat → List Nat × List Nat
  | [], v, fr => (v, fr)
  | c :: cs, v, fr =>
    if g.san c || v.contains c then addNew g cs v fr
    else addNew g cs (c :: v) (c :: fr)

/-- frontier-based closure: `v` = visited so far, `fr` = the part of `v` whose successors have not
    been looked at yet.  One unit of fuel per round. -/
def reachAux (g : Graph) : Nat → List Nat → List Nat → List Nat
  | 0, v, _ => v
  | _ + 1, v, [] => v
  | fuel + 1, v, a :: fr =>
    let r := addNew g ((a :: fr).flatMap g.succ) v []
    reachAux g fuel r.1 r.2

/-- nodes reachable from `starts` along edges without entering a sanitiser node -/
def reachFrom (g : Graph) (fuel : Nat) (starts : List Nat) : List Nat :=
  reachAux g fuel starts starts

def reach (g : Graph) (fuel : Nat) (start : Nat) : List Nat := reachFrom g fuel [start]

def sinksReachedFrom (g : Graph) (starts : List Nat) : List Nat :=
  (reachFrom g g.n starts).filter g.isSink

def sinksReached (g : Graph) (src : Nat) : List Nat := sinksReachedFrom g [src]

/-! ### Certificates.  Evaluating the closure loop inside the kernel is slow (lazy thunks); the
    translator therefore also emits the closed set it computed and a witness walk, and the kernel
    only *checks* them (flat `List.all`).  C12Lemmas.lean proves that a checked certificate forces
    the value of `sinksReachedFrom`. -/

/-- `r` contains the start nodes, is closed under non-sanitiser successors and contains no sink -/
def certOk (g : Graph) (starts r : List Nat) : Bool :=
  starts.all (fun s => r.contains s) &&
  r.all (fun a => (g.succ a).all (fun c => g.san c || r.contains c)) &&
  r.all (fun a => !g.isSink a)

/-- follow a walk `a, b₁, b₂, …` along edges that do not enter sanitisers; `some (last node)` if every
    step is an edge -/
def walkEnd (g : Graph) : Nat → List Nat → Option Nat
  | a, [] => some a
  | a, b :: rest => if (g.succ a).contains b && !g.san b then walkEnd g b rest else none

/-! ### Hand model of the two logging sites that take a secret-marking flag
    (scrapli/channel/base_channel.py `write`, sync_channel.py / async_channel.py
    `send_inputs_interact`).  A log record is its format string and its arguments, exactly what
    `logging` receives (`record.msg`, `record.args`). -/

structure LogRec where
  msg : String
  args : List String
deriving Repr, DecidableEq

/-- base_channel.py:371-374
    `if redacted: self.logger.debug("write: REDACTED") else: self.logger.debug("write: %r", channel_input)` -/
def writeLog (redactedMsg plainFmt : String) (channelInput : String) (redacted : Bool) : LogRec :=
  if redacted then ⟨redactedMsg, []⟩ else ⟨plainFmt, [channelInput]⟩

/-- sync_channel.py:666-674 for one interact event: `hidden` is the truth value of the event's third
    member, `hiddenText` its `%s` rendering.
    `_channel_input = channel_input if not hidden_input else "REDACTED"`; `logger.info(fmt, _channel_input,
    channel_response, hidden_input)`; `self.write(channel_input, redacted=bool(hidden_input))` -/
def interactLogs (token fmt redactedMsg plainFmt : String) (channelInput channelResponse : String)
    (hidden : Bool) (hiddenText : String) : List LogRec :=
  [⟨fmt, [if !hidden then channelInput else token, channelResponse, hiddenText]⟩,
   writeLog redactedMsg plainFmt channelInput (hidden)]

end Scrapli.Flow
