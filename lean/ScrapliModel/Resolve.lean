import ScrapliModel.Gen.ResolveConsts
/-
  C17 — model of how a scrapli driver resolves its connection parameters and what its transport
  object will connect with.

  scrapli/driver/base/base_driver.py  `BaseDriver.__init__` (order of statements), `_setup_host`,
      `_setup_auth`, `_setup_ssh_file_args`, `_resolve_ssh_config`, `_resolve_ssh_known_hosts`,
      `_update_ssh_args_from_ssh_config`, `_transport_factory`
  scrapli/helper.py                   `resolve_file`
  scrapli/transport/plugins/system/transport.py  `_build_open_cmd`
  and a model of OpenSSH's command line grammar (`parseSshArgv`, ssh.c + BSD getopt) together with the
  part of ssh's semantics the property needs (`sshEffective`: command line beats configuration file).

  Strings are `List Char` (Unicode code points, as Python `str`).  All literals, defaults, tables come
  from the generated file.  The four `Fixes` flags select, statement by statement, between the code
  before the fix commits (`Fixes.none`) and the code as it is since /repo commits caab241 (stripped host
  into BaseTransportArgs), bf7e480 (ssh config Port dialed as well as reported, explicit port wins) and
  184466f (host starting with `-` refused) — `Fixes.all`, the tree the headline theorems speak about.  The
  check determines by replaying the stored pre-fix witnesses which variant the tree under test is, so a
  regression of a fix shows up as that witness failing again (a violation, the findings are marked fixed).
-/
namespace Scrapli.Resolve
open Scrapli.Gen.Resolve

abbrev Str := List Char

/-! ### the inputs -/

/-- the six core transports (`CORE_TRANSPORTS`); theorem `core_transports_are_modelled` ties the
    names to the generated tuple -/
inductive Transport where
  | telnet | system | ssh2 | paramiko | asynctelnet | asyncssh
  deriving DecidableEq, Repr

def Transport.all : List Transport := [.telnet, .system, .ssh2, .paramiko, .asynctelnet, .asyncssh]

def Transport.name : Transport → Str
  | .telnet => ['t', 'e', 'l', 'n', 'e', 't']
  | .system => ['s', 'y', 's', 't', 'e', 'm']
  | .ssh2 => ['s', 's', 'h', '2']
  | .paramiko => ['p', 'a', 'r', 'a', 'm', 'i', 'k', 'o']
  | .asynctelnet => ['a', 's', 'y', 'n', 'c', 't', 'e', 'l', 'n', 'e', 't']
  | .asyncssh => ['a', 's', 'y', 'n', 'c', 's', 's', 'h']

/-- `"telnet" in transport` (base_driver.py:148, 357) -/
def isTelnet (t : Transport) : Bool := telnetLike.contains t.name
/-- `self.transport_name in ("asyncssh", "ssh2", "paramiko")` (base_driver.py:201) -/
def consultsCfg (t : Transport) : Bool := cfgConsulting.contains t.name
/-- `transport == "system"` (base_driver.py:625, 657); the system transport is also the only one with an argv -/
def isSystem (t : Transport) : Bool := t.name == systemName

/-- `ssh_config_file` / `ssh_known_hosts_file` argument: `False` | `True` | a string -/
inductive FileArg where
  | no | auto | path (p : Str)
  deriving DecidableEq, Repr

structure Args where
  transport : Transport
  host : Str
  port : Option Nat := none            -- `None` = omitted
  user : Str := []                     -- auth_username
  password : Str := []
  key : Str := []                      -- auth_private_key as given
  passphrase : Str := []
  strict : Bool := defaultStrict
  cfgArg : FileArg := .no
  khArg : FileArg := .no
  tSocket : Nat := defaultTimeoutSocket        -- int(timeout_socket)
  tTransport : Nat := defaultTimeoutTransport  -- int(timeout_transport)
  extra : List Str := []               -- transport_options["open_cmd"] (list form)
  deriving Repr

/-- what `SSHConfig(file).lookup(host)` returns, as far as `_update_ssh_args_from_ssh_config` reads it -/
structure HostCfg where
  port : Option Nat := none
  user : Str := []
  identityFile : Str := []             -- `None` and `""` are both falsy
  deriving DecidableEq, Repr

/-- The world outside the constructor: the file system as `Path.is_file` / `expanduser` see it and
    the contents of ssh configuration files *for the host being connected to* (the lookup itself is
    property C16).  `sshDefault` is what the `ssh` program finds for the host in its own default
    configuration files when scrapli passes no `-F`. -/
structure SshConfigView where
  home : Str
  isFile : Str → Bool
  lookup : Str → HostCfg
  sshDefault : HostCfg := {}

/-! ### which variant of the code -/

structure Fixes where
  /-- commit caab241 (fixes/C17-transport-args-stripped-host.patch): BaseTransportArgs gets the stripped host -/
  stripDialedHost : Bool
  /-- commit bf7e480 (fixes/C17-ssh-config-port.patch): a Port from the ssh config also updates `_base_transport_args.port` -/
  cfgPortDialed : Bool
  /-- commit bf7e480 (same patch): a Port from the ssh config is used only when `port` was omitted -/
  explicitPortWins : Bool
  /-- commit 184466f (fixes/C17-reject-dash-host.patch): `_setup_host` refuses a host starting with `-` -/
  rejectDashHost : Bool
  /-- PROPOSED, not in /repo: fixes/C17-reject-destination-syntax.patch: `_setup_host` refuses a host containing `@`
      or starting with `ssh://` (ssh would take a user / port out of it, finding F16c) -/
  rejectDestSyntax : Bool
  deriving DecidableEq, Repr

def Fixes.none : Fixes := ⟨false, false, false, false, false⟩
/-- /repo HEAD: the three fix commits, without the proposed destination-syntax patch -/
def Fixes.head : Fixes := ⟨true, true, true, true, false⟩
def Fixes.all : Fixes := ⟨true, true, true, true, true⟩

/-! ### Python string helpers -/

/-- `chr(c).isspace()` -/
def isSpace (c : Char) : Bool := pyWhitespace.contains c.toNat

/-- `s.rstrip()` -/
def rstrip : Str → Str
  | [] => []
  | c :: t =>
    match rstrip t with
    | [] => if isSpace c then [] else [c]
    | r => c :: r

/-- `s.strip()` -/
def strip (s : Str) : Str := rstrip (s.dropWhile isSpace)

/-- `str(n)` for a non-negative int -/
def natStr (n : Nat) : Str := Nat.toDigits 10 n

/-- `Path(p).expanduser()` with `$HOME = home` for the two forms that occur (`~`, `~/…`); `~user` is outside the model -/
def expandUser (home : Str) : Str → Str
  | ['~'] => home
  | '~' :: '/' :: rest => home ++ '/' :: rest
  | p => p

/-! ### the driver object -/

/-- the attributes the driver reports -/
structure Drv where
  host : Str
  port : Nat
  user : Str
  password : Str
  key : Str
  passphrase : Str
  strict : Bool
  cfgFile : Str
  khFile : Str
  deriving DecidableEq, Repr

/-- `BaseTransportArgs` — the object shared by driver and transport; the transports dial
    `host`/`port` from here (paramiko/transport.py:72-76, asyncssh/transport.py:167-170,
    telnet/transport.py:174-178, asynctelnet/transport.py:146-148, system/transport.py:86-87) -/
structure BTA where
  host : Str
  port : Nat
  tSocket : Nat
  tTransport : Nat
  extra : List Str
  deriving DecidableEq, Repr

inductive Field where
  | auth_username | auth_password | auth_private_key | auth_private_key_passphrase
  | auth_strict_key | ssh_config_file | ssh_known_hosts_file
  deriving DecidableEq, Repr

def Field.all : List Field := [.auth_username, .auth_password, .auth_private_key,
  .auth_private_key_passphrase, .auth_strict_key, .ssh_config_file, .ssh_known_hosts_file]

def Field.name : Field → Str
  | .auth_username => ['a', 'u', 't', 'h', '_', 'u', 's', 'e', 'r', 'n', 'a', 'm', 'e']
  | .auth_password => ['a', 'u', 't', 'h', '_', 'p', 'a', 's', 's', 'w', 'o', 'r', 'd']
  | .auth_private_key => ['a', 'u', 't', 'h', '_', 'p', 'r', 'i', 'v', 'a', 't', 'e', '_', 'k', 'e', 'y']
  | .auth_private_key_passphrase => ['a', 'u', 't', 'h', '_', 'p', 'r', 'i', 'v', 'a', 't', 'e', '_', 'k', 'e', 'y', '_', 'p', 'a', 's', 's', 'p', 'h', 'r', 'a', 's', 'e']
  | .auth_strict_key => ['a', 'u', 't', 'h', '_', 's', 't', 'r', 'i', 'c', 't', '_', 'k', 'e', 'y']
  | .ssh_config_file => ['s', 's', 'h', '_', 'c', 'o', 'n', 'f', 'i', 'g', '_', 'f', 'i', 'l', 'e']
  | .ssh_known_hosts_file => ['s', 's', 'h', '_', 'k', 'n', 'o', 'w', 'n', '_', 'h', 'o', 's', 't', 's', '_', 'f', 'i', 'l', 'e']

def Field.ofName (n : Str) : Option Field := Field.all.find? (·.name == n)

inductive Val where
  | s (v : Str) | b (v : Bool)
  deriving DecidableEq, Repr

/-- `getattr(self, field.name)` -/
def Drv.getattr (d : Drv) : Field → Val
  | .auth_username => .s d.user
  | .auth_password => .s d.password
  | .auth_private_key => .s d.key
  | .auth_private_key_passphrase => .s d.passphrase
  | .auth_strict_key => .b d.strict
  | .ssh_config_file => .s d.cfgFile
  | .ssh_known_hosts_file => .s d.khFile

abbrev Plugin := List (Field × Val)

/-- `fields(_plugin_transport_args_class)` from the generated per-transport table -/
def pluginFieldsOf (t : Transport) : List Field :=
  match pluginFields.find? (·.1 == t.name) with
  | some (_, names) => names.filterMap Field.ofName
  | none => []

def Plugin.str (p : Plugin) (f : Field) : Str :=
  match p.find? (·.1 == f) with
  | some (_, .s v) => v
  | _ => []

def Plugin.bool (p : Plugin) (f : Field) : Bool :=
  match p.find? (·.1 == f) with
  | some (_, .b v) => v
  | _ => true

inductive Err where
  | noHost            -- ScrapliValueError "`host` should be a hostname/ip address, got nothing!"
  | dashHost          -- ScrapliValueError (only with fix rejectDashHost)
  | destSyntaxHost    -- ScrapliValueError (only with the proposed fix rejectDestSyntax)
  | keyUnresolvable   -- ScrapliValueError "File path … could not be resolved"
  deriving DecidableEq, Repr

/-- no `@` in the word -/
def noAt (h : Str) : Bool := h.all (· != '@')

/-- the word starts with `ssh://` (ssh.c `parse_ssh_uri`, case sensitive) -/
def isSshUri (h : Str) : Bool := ['s', 's', 'h', ':', '/', '/'].isPrefixOf h

/-- ssh takes the whole destination word as the host name: no `user@`, no `ssh://` URI -/
def destPlain (h : Str) : Bool := noAt h && !isSshUri h

/-- `_setup_host` (base_driver.py:274-296); the `isinstance(port, int)` test is outside the model (ports are
    ints) and the port is returned unchanged -/
def setupHost (fx : Fixes) (host : Str) : Except Err Str :=
  if host.isEmpty then .error .noHost                        -- :291 `if not host`
  else
    let h := strip host                                       -- :296 `host.strip()`
    if fx.rejectDashHost && h.head? == some '-' then .error .dashHost   -- fix: refuse a leading `-`
    else if fx.rejectDestSyntax && !destPlain h then .error .destSyntaxHost   -- proposed: refuse `@` / `ssh://`
    else .ok h

/-- `resolve_file` (helper.py:237-255) -/
def resolveFile (v : SshConfigView) (file : Str) : Except Err Str :=
  if v.isFile file then .ok file                              -- :251-252
  else if v.isFile (expandUser v.home file) then .ok (expandUser v.home file)   -- :253-254
  else .error .keyUnresolvable                                -- :255

/-- the `for path in (…): full_path = Path(path).expanduser(); if full_path.is_file(): return str(full_path)`
    loop of both resolvers (base_driver.py:628-634, 661-667); `Path("")` is `.` — a directory, never a file -/
def firstFile (v : SshConfigView) : List Str → Str
  | [] => []
  | p :: ps =>
    if !p.isEmpty && v.isFile (expandUser v.home p) then expandUser v.home p else firstFile v ps

/-- `_resolve_ssh_config` (base_driver.py:604-634) -/
def resolveSshConfig (v : SshConfigView) (t : Transport) (cfg : Str) : Str :=
  if cfg.isEmpty && isSystem t then magicCfg                  -- :625-626
  else firstFile v [cfg, userCfgPath, sysCfgPath]             -- :628-634

/-- `_resolve_ssh_known_hosts` (base_driver.py:636-667) -/
def resolveSshKnownHosts (v : SshConfigView) (t : Transport) (kh : Str) : Str :=
  if kh.isEmpty && isSystem t then magicKh                    -- :657-659
  else firstFile v [kh, userKhPath, sysKhPath]                -- :661-667

/-- the string handed to the resolver: `True` becomes `""` (base_driver.py:371-375, 380-384) -/
def FileArg.str : FileArg → Str
  | .path p => p
  | _ => []

/-- `_setup_ssh_file_args` (base_driver.py:333-391) -/
def setupSshFileArgs (v : SshConfigView) (t : Transport) (cfgArg khArg : FileArg) : Str × Str :=
  if isTelnet t then ([], [])                                 -- :357-360
  else
    let c := if cfgArg != .no then resolveSshConfig v t cfgArg.str else []        -- :371-378
    let k := if khArg != .no then resolveSshKnownHosts v t khArg.str else []      -- :380-389
    (c, k)

/-- `host_config.port` truthy -/
def HostCfg.portTruthy (h : HostCfg) : Option Nat :=
  match h.port with
  | some p => if p != 0 then some p else none
  | none => none

/-- `ssh_config_factory(self.ssh_config_file).lookup(self.host)` (base_driver.py:407-408; ssh_config.py:80-91:
    an empty file name gives a configuration with only an empty `Host *`) -/
def lookupCfg (v : SshConfigView) (cfgFile : Str) : HostCfg :=
  if cfgFile.isEmpty then {} else v.lookup cfgFile

/-- `_update_ssh_args_from_ssh_config` (base_driver.py:393-432); `explicitPort` = the caller gave `port` -/
def updateFromSshConfig (fx : Fixes) (explicitPort : Bool) (v : SshConfigView) (d : Drv) (b : BTA) : Drv × BTA :=
  let hc := lookupCfg v d.cfgFile
  let (d, b) :=
    match hc.portTruthy with                                  -- :410
    | some p =>
      if fx.explicitPortWins && explicitPort then (d, b)      -- fix: `and not self._port_provided`
      else ({ d with port := p },                             -- :418
            if fx.cfgPortDialed then { b with port := p } else b)   -- fix: `self._base_transport_args.port = …`
    | none => (d, b)
  let d := if !hc.user.isEmpty && d.user.isEmpty then { d with user := hc.user } else d              -- :419-425
  let d := if !hc.identityFile.isEmpty && d.key.isEmpty then { d with key := hc.identityFile } else d -- :426-432
  (d, b)

/-! ### the system transport's command line -/

/-- `SystemTransport._build_open_cmd` (system/transport.py:69-138) -/
def buildOpenCmd (b : BTA) (p : Plugin) : List Str :=
  [argvSsh, b.host]                                                          -- :86
  ++ [optP, natStr b.port]                                                   -- :87
  ++ [optO, connectTimeoutPfx ++ natStr b.tSocket]                           -- :89-91
  ++ [optO, serverAlivePfx ++ natStr b.tTransport]                           -- :92-94
  ++ (if !(p.str .auth_private_key).isEmpty then [optI, p.str .auth_private_key] else [])   -- :96-97
  ++ (if !(p.str .auth_username).isEmpty then [optL, p.str .auth_username] else [])         -- :98-99
  ++ (if p.bool .auth_strict_key == false then [optO, strictNo, optO, khDevNull]            -- :101-103
      else [optO, strictYes]                                                                -- :105
        ++ (if p.str .ssh_known_hosts_file == magicKh then []                               -- :107-114
            else if !(p.str .ssh_known_hosts_file).isEmpty then [optO, khPfx ++ p.str .ssh_known_hosts_file]  -- :115-121
            else []))
  ++ (if (p.str .ssh_config_file).isEmpty then [optF, devNull]                              -- :124-125
      else if p.str .ssh_config_file == magicCfg then []                                    -- :126-129
      else [optF, p.str .ssh_config_file])                                                  -- :130-131
  ++ b.extra                                                                                -- :133-136

/-! ### the constructor -/

structure Resolved where
  /-- the driver attributes (what is reported) -/
  reported : Drv
  /-- `transport._base_transport_args` (host, port the transport dials) -/
  bta : BTA
  /-- `transport.plugin_transport_args` (user, key, files the transport uses) -/
  plugin : Plugin
  /-- `transport.open_cmd` after `_build_open_cmd()` for the system transport, `[]` otherwise -/
  argv : List Str
  deriving DecidableEq, Repr

/-- base_driver.py:146-149 -/
def initialPort (a : Args) : Nat :=
  match a.port with
  | some p => p
  | none => if isTelnet a.transport then defaultPortTelnet else defaultPortSsh

/-- base_driver.py:172-179 `BaseTransportArgs(host=host, port=port, …)`; with fix stripDialedHost
    `_setup_host` runs first and `host=self.host` (the stripped host) is passed -/
def bta0 (fx : Fixes) (a : Args) (host : Str) : BTA :=
  { host := if fx.stripDialedHost then host else a.host, port := initialPort a,
    tSocket := a.tSocket, tTransport := a.tTransport, extra := a.extra }

/-- base_driver.py:181-196 the driver attributes before the ssh config is folded in; `host` is the result
    of `_setup_host` (:181), `key` of `_setup_auth` (:186), the files of `_setup_ssh_file_args` (:192) -/
def drv0 (a : Args) (v : SshConfigView) (host key : Str) : Drv :=
  { host := host, port := initialPort a, user := a.user, password := a.password, key := key,
    passphrase := a.passphrase, strict := a.strict,
    cfgFile := (setupSshFileArgs v a.transport a.cfgArg a.khArg).1,
    khFile := (setupSshFileArgs v a.transport a.cfgArg a.khArg).2 }

/-- base_driver.py:200-205: only the library ssh transports fold the ssh config into the driver -/
def folded (fx : Fixes) (a : Args) (v : SshConfigView) (host key : Str) : Drv × BTA :=
  if consultsCfg a.transport then updateFromSshConfig fx a.port.isSome v (drv0 a v host key) (bta0 fx a host)
  else (drv0 a v host key, bta0 fx a host)

/-- `BaseDriver.__init__` (base_driver.py:146-212) in statement order, given the results of the two
    statements that can raise: `host` from `_setup_host` (:181) and `key` from `_setup_auth` (:186) -/
def construct (fx : Fixes) (a : Args) (v : SshConfigView) (host key : Str) : Resolved :=
  -- :146-196, 200-205
  let db := folded fx a v host key
  -- :207 `_transport_factory`: plugin args copied from the driver attributes by dataclass field name (:486-488)
  let plugin : Plugin := (pluginFieldsOf a.transport).map fun f => (f, db.1.getattr f)
  -- :209-212 the transport holds the same BaseTransportArgs object and the plugin args;
  -- `open_cmd` is what `_build_open_cmd()` makes of them
  { reported := db.1, bta := db.2, plugin := plugin,
    argv := if isSystem a.transport then buildOpenCmd db.2 plugin else [] }

/-- `BaseDriver.__init__`: `_setup_host` (:181) and `_setup_auth` (:186, `resolve_file` only when a key is
    given, :326-329) may raise `ScrapliValueError`, in this order; everything else is `construct` -/
def resolve (fx : Fixes) (a : Args) (v : SshConfigView) : Except Err Resolved :=
  match setupHost fx a.host with
  | .error e => .error e
  | .ok host =>
    match (if !a.key.isEmpty then resolveFile v a.key else .ok []) with
    | .error e => .error e
    | .ok key => .ok (construct fx a v host key)

/-! ### OpenSSH's command line grammar (ssh.c `main`, openbsd-compat/getopt_long.c `BSDgetopt`) -/

/-- options of ssh(1) without argument -/
def sshFlags : Str := ['4', '6', 'A', 'a', 'C', 'f', 'G', 'g', 'K', 'k', 'M', 'N', 'n', 'q', 's', 'T', 't', 'V', 'v', 'X', 'x', 'Y', 'y']
/-- options of ssh(1) with argument -/
def sshArgOpts : Str := ['B', 'b', 'c', 'D', 'E', 'e', 'F', 'I', 'i', 'J', 'L', 'l', 'm', 'O', 'o', 'p', 'Q', 'R', 'S', 'W', 'w']

abbrev Opt := Char × Option Str

inductive ParseErr where
  | unknownOption | missingArgument | noDestination
  deriving DecidableEq, Repr

/-- what getopt does with the characters after the leading `-` of one word -/
inductive Cluster where
  | done (flags : List Opt)                    -- only flags, or flags then an option with attached argument
  | pending (flags : List Opt) (c : Char)      -- last option needs the next word as its argument
  | bad
  deriving DecidableEq, Repr

def scanCluster : Str → Cluster
  | [] => .done []
  | c :: cs =>
    if sshArgOpts.contains c then
      if cs.isEmpty then .pending [] c else .done [(c, some cs)]
    else if sshFlags.contains c then
      match scanCluster cs with
      | .done fl => .done ((c, none) :: fl)
      | .pending fl x => .pending ((c, none) :: fl) x
      | .bad => .bad
    else .bad

inductive WordKind where
  | nonOption | terminator | cluster (c : Cluster)
  deriving DecidableEq, Repr

/-- a word not starting with `-`, and `-` itself, are operands; `--` ends the options; `--x` is an illegal
    option (`-` is no option letter) -/
def classify : Str → WordKind
  | '-' :: c :: cs => if c == '-' && cs.isEmpty then .terminator else .cluster (scanCluster (c :: cs))
  | _ => .nonOption

structure GetoptResult where
  opts : List Opt
  rest : List Str
  terminated : Bool
  deriving DecidableEq, Repr

def GetoptResult.cons (os : List Opt) : Except ParseErr GetoptResult → Except ParseErr GetoptResult
  | .ok r => .ok { r with opts := os ++ r.opts }
  | .error e => .error e

/-- one `while ((opt = getopt(...)) != -1)` loop: options up to the first operand or `--`.
    `pend` = an option letter still waiting for its argument word. -/
def getopts : Option Char → List Str → Except ParseErr GetoptResult
  | some _, [] => .error .missingArgument
  | some c, a :: ws => GetoptResult.cons [(c, some a)] (getopts none ws)
  | none, [] => .ok { opts := [], rest := [], terminated := false }
  | none, w :: ws =>
    match classify w with
    | .nonOption => .ok { opts := [], rest := w :: ws, terminated := false }
    | .terminator => .ok { opts := [], rest := ws, terminated := true }
    | .cluster (.done fl) => GetoptResult.cons fl (getopts none ws)
    | .cluster (.pending fl c) => GetoptResult.cons fl (getopts (some c) ws)
    | .cluster .bad => .error .unknownOption

structure SshParse where
  /-- every option in command line order -/
  opts : List Opt
  /-- the destination operand (`[user@]hostname` or an ssh:// URI; not taken apart here) -/
  dest : Str
  /-- the remote command words -/
  command : List Str
  deriving DecidableEq, Repr

/-- ssh.c `main`: options, then the first operand is the destination, then (unless `--` was seen)
    options again (`goto again`), then the command.  `argv[0]` is the program name. -/
def parseSshArgv : List Str → Except ParseErr SshParse
  | [] => .error .noDestination
  | _ :: ws =>
    match getopts none ws with
    | .error e => .error e
    | .ok g1 =>
      match g1.rest with
      | [] => .error .noDestination                            -- `if (!host) usage();`
      | dest :: more =>
        if g1.terminated then .ok { opts := g1.opts, dest := dest, command := more }
        else
          match getopts none more with
          | .error e => .error e
          | .ok g2 => .ok { opts := g1.opts ++ g2.opts, dest := dest, command := g2.rest }

def firstOpt (c : Char) (os : List Opt) : Option Str :=
  match os.find? (·.1 == c) with
  | some (_, a) => a
  | none => none

def lastOpt (c : Char) (os : List Opt) : Option Str := firstOpt c os.reverse

def allOpt (c : Char) (os : List Opt) : List Str := os.filterMap fun o => if o.1 == c then o.2 else none

/-- the connection parameters in effect -/
structure Eff where
  host : Str
  port : Str        -- decimal
  user : Str        -- `[]` = not specified (ssh: local user name; telnet: typed in the channel)
  key : Str         -- `[]` = not specified (ssh: default identities)
  deriving DecidableEq, Repr

/-- the configuration entry ssh applies, by its `-F` option: absent = ssh's own default files,
    `/dev/null` = none, else that file -/
def cfgOfF (v : SshConfigView) : Option Str → HostCfg
  | none => v.sshDefault
  | some f => if f == devNull then {} else v.lookup f

/-- `strrchr(p, '@')`: the word split at its LAST `@` -/
def splitLastAt : Str → Option (Str × Str)
  | [] => none
  | c :: cs =>
    match splitLastAt cs with
    | some (u, h) => some (c :: u, h)
    | none => if c == '@' then some ([], cs) else none

/-- the word split at its FIRST occurrence of `x` -/
def splitFirst (x : Char) : Str → Option (Str × Str)
  | [] => none
  | c :: cs =>
    if c == x then some ([], cs)
    else match splitFirst x cs with
      | some (u, h) => some (c :: u, h)
      | none => none

/-- what ssh takes out of the destination word -/
structure Dest where
  user : Option Str
  host : Str
  port : Option Str
  deriving DecidableEq, Repr

/-- ssh.c `main`: `ssh://[user@]host[:port][/path]` (misc.c `parse_uri`: path cut at the first `/`, user = text
    before the FIRST `@`, port after the `:` — simplified: no `[v6]` brackets, no percent decoding, no `;params`),
    else `[user@]host` split at the LAST `@`, else the word is the host.  Exact on `destPlain` words (the
    theorems' domain) and on the plain `user@host` form. -/
def parseDest (d : Str) : Dest :=
  if isSshUri d then
    let auth := (d.drop 6).takeWhile (· != '/')
    let (user, hp) := match splitFirst '@' auth with
      | some (u, rest) => (some u, rest)
      | none => (none, auth)
    match splitFirst ':' hp with
    | some (h, q) => { user := user, host := h, port := some q }
    | none => { user := user, host := hp, port := none }
  else
    match splitLastAt d with
    | some (u, h) => { user := some u, host := h, port := none }
    | none => { user := none, host := d, port := none }

/-- What ssh connects with, for a parsed command line.  User and port are "first obtained wins" (ssh.c
    `if (options.user == NULL)`, `if (options.port == -1)`): scrapli puts the destination BEFORE `-p` / `-l`,
    so a user / port inside the destination word beats them; then `-p` / `-l` (first occurrence), `-i`, else
    the configuration file (`-F`, last wins), else the default port. -/
def sshEffective (p : SshParse) (v : SshConfigView) : Eff :=
  let hc : HostCfg := cfgOfF v (lastOpt 'F' p.opts)
  let d := parseDest p.dest
  { host := d.host,
    port := match d.port with
      | some q => q
      | none => match firstOpt 'p' p.opts with
        | some s => s
        | none => match hc.portTruthy with
          | some q => natStr q
          | none => natStr defaultPortSsh,
    user := match d.user with
      | some u => u
      | none => match firstOpt 'l' p.opts with
        | some u => u
        | none => hc.user,
    key := match firstOpt 'i' p.opts with
      | some k => k
      | none => hc.identityFile }

/-- what the constructed transport will connect with -/
def effective (t : Transport) (r : Resolved) (v : SshConfigView) : Except ParseErr Eff :=
  if isSystem t then
    match parseSshArgv r.argv with
    | .ok p => .ok (sshEffective p v)
    | .error e => .error e
  else .ok { host := r.bta.host, port := natStr r.bta.port,
             user := r.plugin.str .auth_username, key := r.plugin.str .auth_private_key }

/-! ### several drivers in one process

  `ssh_config_factory` (ssh_config.py:504-533) keeps one parsed `SSHConfig` per path for the whole
  process (`SSHConfig._config_files`); `lookup` hands out the `Host` objects that live in it.  The
  constructor only *reads* them.  `Cache` is that process-wide state, at the granularity the constructor
  sees it: the entry object handed out for (config path, host). -/

abbrev Cache := List ((Str × Str) × HostCfg)

def Cache.get (c : Cache) (p h : Str) : Option HostCfg :=
  match c.find? (fun e => e.1 == (p, h)) with
  | some e => some e.2
  | none => none

/-- what `ssh_config_factory(path).lookup(host)` returns in a process whose cache is `c`: the cached object
    if there is one, else the entry parsed from the file now -/
def cachedLookup (c : Cache) (host : Str) (v : SshConfigView) (p : Str) : HostCfg :=
  match c.get p host with
  | some e => e
  | none => v.lookup p

def cachedView (c : Cache) (host : Str) (v : SshConfigView) : SshConfigView :=
  { home := v.home, isFile := v.isFile, lookup := cachedLookup c host v, sshDefault := v.sshDefault }

/-- constructing one driver in a process with cache `c`: the constructor runs against the cached
    view; a library ssh transport's `ssh_config_factory` call leaves the parsed entry in the cache (only if
    none was there — a cached config is never parsed again), and nothing is ever written into an entry -/
def step (fx : Fixes) (c : Cache) (a : Args) (v : SshConfigView) : Cache × Except Err Resolved :=
  let r := resolve fx a (cachedView c (strip a.host) v)
  let c' := match r with
    | .ok res =>
      if consultsCfg a.transport && (c.get res.reported.cfgFile (strip a.host)).isNone
      then ((res.reported.cfgFile, strip a.host), v.lookup res.reported.cfgFile) :: c
      else c
    | .error _ => c
  (c', r)

/-- a history of constructions in one process -/
def runHistory (fx : Fixes) : Cache → List (Args × SshConfigView) → List (Except Err Resolved)
  | _, [] => []
  | c, (a, v) :: rest => (step fx c a v).2 :: runHistory fx (step fx c a v).1 rest

end Scrapli.Resolve
