import ScrapliModel.Regex.Lemmas
/-
  Emptiness by certificate.  A certificate for `r` is a finite set `S` of regexes containing `r`,
  none of them nullable, closed under `derivN c` for the byte-class representatives `reps`, together
  with a list `A` of class bitmaps such that every bitmap occurring in a state is in `A` and every
  byte 0..255 has the same membership signature over `A` as some representative.  The checker
  VERIFIES all of this (in particular the coverage of the alphabet); nothing about how the
  certificate was computed is trusted.
-/
namespace Scrapli.Regex
open RE

/-- every class bitmap occurring in the regex is in the list `A` -/
def atomsIn (A : List Nat) : RE → Bool
  | emp => true
  | eps => true
  | cls bm => A.any (fun x => Nat.beq bm x)
  | cat a b => atomsIn A a && atomsIn A b
  | alt a b => atomsIn A a && atomsIn A b
  | RE.and a b => atomsIn A a && atomsIn A b
  | RE.not a => atomsIn A a
  | star a => atomsIn A a
  | rep a _ _ => atomsIn A a

/-- bytes `c`, `c'` are members of exactly the same bitmaps of `A` -/
def sameSig (A : List Nat) (c c' : Nat) : Bool :=
  A.all (fun bm => bm.testBit c == bm.testBit c')

/-- alphabet compression: bytes with the same signature over the atoms of `r` have the same derivative -/
theorem derivN_congr (A : List Nat) (r : RE) (c c' : Nat)
    (hA : atomsIn A r = true) (hs : sameSig A c c' = true) : derivN c r = derivN c' r := by
  induction r with
  | emp => rfl
  | eps => rfl
  | cls bm =>
    simp only [atomsIn, List.any_eq_true] at hA
    obtain ⟨x, hx, hbx⟩ := hA
    have hbx : bm = x := Nat.eq_of_beq_eq_true hbx
    subst hbx
    simp only [sameSig, List.all_eq_true] at hs
    have := hs bm hx
    simp only [beq_iff_eq] at this
    simp only [derivN, this]
  | cat a b iha ihb =>
    simp only [atomsIn, Bool.and_eq_true] at hA
    simp only [derivN, iha hA.1, ihb hA.2]
  | alt a b iha ihb =>
    simp only [atomsIn, Bool.and_eq_true] at hA
    simp only [derivN, iha hA.1, ihb hA.2]
  | and a b iha ihb =>
    simp only [atomsIn, Bool.and_eq_true] at hA
    simp only [derivN, iha hA.1, ihb hA.2]
  | not a iha =>
    simp only [atomsIn] at hA
    simp only [derivN, iha hA]
  | star a iha =>
    simp only [atomsIn] at hA
    simp only [derivN, iha hA]
  | rep a m n iha =>
    simp only [atomsIn] at hA
    simp only [derivN, iha hA]

/-- every byte has a representative with the same signature -/
def cover (A reps : List Nat) : Bool :=
  (List.range 256).all (fun b => reps.any (fun c => sameSig A b c))

theorem cover_spec {A reps : List Nat} (h : cover A reps = true) (b : Nat) (hb : b < 256) :
    ∃ c, c ∈ reps ∧ sameSig A b c = true := by
  simp only [cover, List.all_eq_true, List.any_eq_true] at h
  exact h b (List.mem_range.2 hb)

def nth {α : Type} : List α → Nat → Option α
  | [], _ => none
  | x :: _, 0 => some x
  | _ :: xs, n + 1 => nth xs n

theorem nth_mem {α : Type} {l : List α} {n : Nat} {x : α} (h : nth l n = some x) : x ∈ l := by
  induction l generalizing n with
  | nil => simp [nth] at h
  | cons y ys ih =>
    cases n with
    | zero => simp [nth] at h; rw [h]; exact List.mem_cons_self
    | succ n => simp only [nth] at h; exact List.mem_cons_of_mem _ (ih h)

/-- states are stored in chunks of (about) 32 so that a lookup costs `j/32 + j%32` steps -/
def lookup (S : List (List RE)) (j : Nat) : Option RE :=
  match nth S (j / 32) with
  | some ch => nth ch (j % 32)
  | none => none

theorem lookup_mem {S : List (List RE)} {j : Nat} {s : RE} (h : lookup S j = some s) :
    s ∈ S.flatten := by
  unfold lookup at h
  split at h
  · rename_i ch hch
    exact List.mem_flatten.2 ⟨ch, nth_mem hch, nth_mem h⟩
  · cases h

/-- the derivative of `r` by each representative `c` is (structurally) the state the row names -/
def checkRow (S : List (List RE)) (r : RE) : List Nat → List Nat → Bool
  | [], [] => true
  | c :: cs, j :: js =>
    (match lookup S j with
     | some s => RE.beq (derivN c r) s
     | none => false) && checkRow S r cs js
  | _, _ => false

theorem checkRow_spec {S : List (List RE)} {r : RE} {reps row : List Nat}
    (h : checkRow S r reps row = true) : ∀ c ∈ reps, derivN c r ∈ S.flatten := by
  induction reps generalizing row with
  | nil => intro c hc; cases hc
  | cons c cs ih =>
    cases row with
    | nil => simp [checkRow] at h
    | cons j js =>
      simp only [checkRow, Bool.and_eq_true] at h
      obtain ⟨h1, h2⟩ := h
      intro c' hc'
      rcases List.mem_cons.1 hc' with e | e
      · subst e
        split at h1
        · rename_i s hs
          rw [RE.beq_eq h1]; exact lookup_mem hs
        · cases h1
      · exact ih h2 c' e

def checkChunk (S : List (List RE)) (reps : List Nat) : List RE → List (List Nat) → Bool
  | [], [] => true
  | r :: rs, row :: rows => !nullable r && checkRow S r reps row && checkChunk S reps rs rows
  | _, _ => false

theorem checkChunk_spec {S : List (List RE)} {reps : List Nat} {Sl : List RE} {rows : List (List Nat)}
    (h : checkChunk S reps Sl rows = true) :
    ∀ r ∈ Sl, nullable r = false ∧ ∀ c ∈ reps, derivN c r ∈ S.flatten := by
  induction Sl generalizing rows with
  | nil => intro r hr; cases hr
  | cons r rs ih =>
    cases rows with
    | nil => simp [checkChunk] at h
    | cons row rows =>
      simp only [checkChunk, Bool.and_eq_true] at h
      obtain ⟨⟨h1, h2⟩, h3⟩ := h
      intro r' hr'
      rcases List.mem_cons.1 hr' with e | e
      · subst e
        refine ⟨?_, checkRow_spec h2⟩
        cases hn : nullable r' <;> simp [hn] at h1 ⊢
      · exact ih h3 r' e

def checkChunks (S : List (List RE)) (reps : List Nat) : List (List RE) → List (List (List Nat)) → Bool
  | [], [] => true
  | ch :: chs, rows :: tbl => checkChunk S reps ch rows && checkChunks S reps chs tbl
  | _, _ => false

theorem checkChunks_spec {S : List (List RE)} {reps : List Nat} {Sl : List (List RE)}
    {tbl : List (List (List Nat))} (h : checkChunks S reps Sl tbl = true) :
    ∀ r ∈ Sl.flatten, nullable r = false ∧ ∀ c ∈ reps, derivN c r ∈ S.flatten := by
  induction Sl generalizing tbl with
  | nil => intro r hr; simp at hr
  | cons ch chs ih =>
    cases tbl with
    | nil => simp [checkChunks] at h
    | cons rows tbl =>
      simp only [checkChunks, Bool.and_eq_true] at h
      intro r hr
      rw [List.flatten_cons] at hr
      rcases List.mem_append.1 hr with e | e
      · exact checkChunk_spec h.1 r e
      · exact ih h.2 r e

/-- `A`: atom bitmaps, `reps`: class representatives, `S`: states in chunks, `tbl`: for each state the
    indices (into the flattened `S`) of its derivatives by each representative, chunked like `S` -/
def checkCert (A reps : List Nat) (S : List (List RE)) (tbl : List (List (List Nat))) : Bool :=
  cover A reps && S.all (fun ch => ch.all (atomsIn A)) && checkChunks S reps S tbl

theorem checkCert_sound {A reps : List Nat} {S : List (List RE)} {tbl : List (List (List Nat))}
    (h : checkCert A reps S tbl = true) {r : RE} (hr : r ∈ S.flatten) : ∀ w, ¬ Lang r w := by
  simp only [checkCert, Bool.and_eq_true] at h
  obtain ⟨⟨hc, ha⟩, hrows⟩ := h
  have hspec := checkChunks_spec hrows
  have hatoms : ∀ r ∈ S.flatten, atomsIn A r = true := by
    intro r hr
    obtain ⟨ch, hch, hrch⟩ := List.mem_flatten.1 hr
    exact (List.all_eq_true.1 ((List.all_eq_true.1 ha) ch hch)) r hrch
  intro w
  induction w generalizing r with
  | nil =>
    intro hl
    have := (nullable_iff r).2 hl
    rw [(hspec r hr).1] at this
    cases this
  | cons c w ih =>
    intro hl
    have hl' : Lang (derivN c.toNat r) w := (derivN_iff c r w).2 hl
    have hlt : c.toNat < 256 := by
      have := c.toNat_lt; omega
    obtain ⟨c', hc', hs⟩ := cover_spec hc c.toNat hlt
    rw [derivN_congr A r c.toNat c' (hatoms r hr) hs] at hl'
    exact ih ((hspec r hr).2 c' hc') hl'

/-- certificate check for a regex given by name: the first state must be (structurally) `r` -/
def checkCertFor (r : RE) (A reps : List Nat) (S : List (List RE)) (tbl : List (List (List Nat))) : Bool :=
  (match S with
   | (s0 :: _) :: _ => RE.beq r s0
   | _ => false) && checkCert A reps S tbl

theorem empty_of_cert {r : RE} {A reps : List Nat} {S : List (List RE)} {tbl : List (List (List Nat))}
    (h : checkCertFor r A reps S tbl = true) : ∀ w, ¬ Lang r w := by
  simp only [checkCertFor, Bool.and_eq_true] at h
  obtain ⟨h0, hc⟩ := h
  split at h0
  · rename_i s0 rest chs
    have : r = s0 := RE.beq_eq h0
    subst this
    exact checkCert_sound hc (by simp)
  · cases h0

/-- inclusion `A ⊆ B` from emptiness of `A ∩ ¬B` -/
theorem incl_of_empty {a b : RE} (h : ∀ w, ¬ Lang (RE.and a (RE.not b)) w) :
    ∀ w, Lang a w → Lang b w := by
  intro w ha
  apply Classical.byContradiction
  intro hb
  exact h w ⟨ha, hb⟩

/-- disjointness from emptiness of `A ∩ B` -/
theorem disj_of_empty {a b : RE} (h : ∀ w, ¬ Lang (RE.and a b) w) :
    ∀ w, Lang a w → ¬ Lang b w := fun w ha hb => h w ⟨ha, hb⟩

/-- a machine-checked witness refutes emptiness -/
theorem nonempty_of_witness {r : RE} {w : Word} (h : rmatch r w = true) : ¬ ∀ w, ¬ Lang r w :=
  fun hall => hall w ((rmatch_iff r w).1 h)

/-! language-level reading of the building blocks used by the obligations -/

theorem Lang_and (a b : RE) (w : Word) : Lang (RE.and a b) w ↔ Lang a w ∧ Lang b w := Iff.rfl
theorem Lang_not (a : RE) (w : Word) : Lang (RE.not a) w ↔ ¬ Lang a w := Iff.rfl
theorem Lang_alt (a b : RE) (w : Word) : Lang (RE.alt a b) w ↔ Lang a w ∨ Lang b w := Iff.rfl

end Scrapli.Regex
