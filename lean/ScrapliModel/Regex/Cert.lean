import ScrapliModel.Regex.Lemmas
/-
  Emptiness by certificate.  A certificate for `r` is a finite list `S` of regexes (in chunks of
  32) whose first element is `r`, none of them nullable, together with, for every state, a row
  `[c₀, cl₀, j₀, c₁, cl₁, j₁, …]`: byte classes `clₖ` (256-bit bitmaps) with a representative
  `cₖ ∈ clₖ` and the index `jₖ` of the state that is (structurally, `RE.beq`) the derivative by `cₖ`.
  The checker VERIFIES, per state, that the classes cover all 256 bytes and that every class is
  either inside or disjoint from every class bitmap occurring in the state (so all bytes of a class
  have the same derivative — `derivN_congr`).  Nothing about how the certificate was computed is
  trusted; a representative list that does not cover the alphabet is rejected.
-/
namespace Scrapli.Regex
open RE

/-- bytes `c`, `c'` are members of exactly the same class bitmaps among those the derivative looks at
    (the second factor of a `cat` is only inspected when the first is nullable) -/
def agreeOn (c c' : Nat) : RE → Bool
  | emp => true
  | eps => true
  | cls bm => bm.testBit c == bm.testBit c'
  | cat a b => agreeOn c c' a && (!nullable a || agreeOn c c' b)
  | alt a b => agreeOn c c' a && agreeOn c c' b
  | RE.and a b => agreeOn c c' a && agreeOn c c' b
  | RE.not a => agreeOn c c' a
  | star a => agreeOn c c' a
  | rep a _ _ => agreeOn c c' a

/-- alphabet compression: bytes that agree on every class bitmap of `r` have the same derivative -/
theorem derivN_congr (r : RE) (c c' : Nat) (h : agreeOn c c' r = true) : derivN c r = derivN c' r := by
  induction r with
  | emp => rfl
  | eps => rfl
  | cls bm =>
    simp only [agreeOn, beq_iff_eq] at h
    simp only [derivN, h]
  | cat a b iha ihb =>
    simp only [agreeOn, Bool.and_eq_true] at h
    cases hn : nullable a with
    | false => simp only [derivN, hn, iha h.1]; rfl
    | true =>
      have h2 := h.2
      rw [hn] at h2
      simp only [derivN, hn, iha h.1, ihb (by simpa using h2)]
  | alt a b iha ihb =>
    simp only [agreeOn, Bool.and_eq_true] at h
    simp only [derivN, iha h.1, ihb h.2]
  | and a b iha ihb =>
    simp only [agreeOn, Bool.and_eq_true] at h
    simp only [derivN, iha h.1, ihb h.2]
  | not a iha =>
    simp only [agreeOn] at h
    simp only [derivN, iha h]
  | star a iha =>
    simp only [agreeOn] at h
    simp only [derivN, iha h]
  | rep a m n iha =>
    simp only [agreeOn] at h
    simp only [derivN, iha h]

/-- the byte class `cl` is inside or disjoint from every class bitmap the derivative looks at -/
def classOK (cl : Nat) : RE → Bool
  | emp => true
  | eps => true
  | cls bm => Nat.beq (cl &&& bm) 0 || Nat.beq (cl &&& bm) cl
  | cat a b => classOK cl a && (!nullable a || classOK cl b)
  | alt a b => classOK cl a && classOK cl b
  | RE.and a b => classOK cl a && classOK cl b
  | RE.not a => classOK cl a
  | star a => classOK cl a
  | rep a _ _ => classOK cl a

theorem agree_of_classOK (cl : Nat) (r : RE) (b c : Nat) (h : classOK cl r = true)
    (hb : cl.testBit b = true) (hc : cl.testBit c = true) : agreeOn b c r = true := by
  induction r with
  | emp => rfl
  | eps => rfl
  | cls bm =>
    simp only [classOK, Bool.or_eq_true] at h
    simp only [agreeOn, beq_iff_eq]
    rcases h with h | h
    · have h0 : cl &&& bm = 0 := Nat.eq_of_beq_eq_true h
      have e1 : (cl &&& bm).testBit b = false := by rw [h0]; exact Nat.zero_testBit b
      have e2 : (cl &&& bm).testBit c = false := by rw [h0]; exact Nat.zero_testBit c
      rw [Nat.testBit_and, hb, Bool.true_and] at e1
      rw [Nat.testBit_and, hc, Bool.true_and] at e2
      rw [e1, e2]
    · have h0 : cl &&& bm = cl := Nat.eq_of_beq_eq_true h
      have e1 : (cl &&& bm).testBit b = true := by rw [h0]; exact hb
      have e2 : (cl &&& bm).testBit c = true := by rw [h0]; exact hc
      rw [Nat.testBit_and, hb, Bool.true_and] at e1
      rw [Nat.testBit_and, hc, Bool.true_and] at e2
      rw [e1, e2]
  | cat a b iha ihb =>
    simp only [classOK, Bool.and_eq_true] at h
    simp only [agreeOn, Bool.and_eq_true]
    refine ⟨iha h.1, ?_⟩
    cases hn : nullable a with
    | false => rfl
    | true =>
      have h2 := h.2
      rw [hn] at h2
      simpa using ihb (by simpa using h2)
  | alt a b iha ihb =>
    simp only [classOK, Bool.and_eq_true] at h
    simp only [agreeOn, Bool.and_eq_true]; exact ⟨iha h.1, ihb h.2⟩
  | and a b iha ihb =>
    simp only [classOK, Bool.and_eq_true] at h
    simp only [agreeOn, Bool.and_eq_true]; exact ⟨iha h.1, ihb h.2⟩
  | not a iha => simp only [classOK] at h; simp only [agreeOn]; exact iha h
  | star a iha => simp only [classOK] at h; simp only [agreeOn]; exact iha h
  | rep a m n iha => simp only [classOK] at h; simp only [agreeOn]; exact iha h

def nth {α : Type} : List α → Nat → Option α
  | [], _ => none
  | x :: _, 0 => some x
  | _ :: xs, n + 1 => nth xs n

theorem nth_mem {α : Type} {l : List α} {n : Nat} {x : α} (h : nth l n = some x) : x ∈ l := by
  induction l generalizing n with
  | nil => simp [nth] at h
  | cons y ys ih =>
    cases n with
    | zero => simp [nth] at h; rw [h]; exact List.mem_cons_self
    | succ n => simp only [nth] at h; exact List.mem_cons_of_mem _ (ih h)

/-- states are stored in chunks of (about) 32 so that a lookup costs `j/32 + j%32` steps -/
def lookup (S : List (List RE)) (j : Nat) : Option RE :=
  match nth S (j / 32) with
  | some ch => nth ch (j % 32)
  | none => none

theorem lookup_mem {S : List (List RE)} {j : Nat} {s : RE} (h : lookup S j = some s) :
    s ∈ S.flatten := by
  unfold lookup at h
  split at h
  · rename_i ch hch
    exact List.mem_flatten.2 ⟨ch, nth_mem hch, nth_mem h⟩
  · cases h

/-- union of the class bitmaps of a row `[c, cl, j, c, cl, j, …]` -/
def rowCover : List Nat → Nat
  | _ :: cl :: _ :: rest => cl ||| rowCover rest
  | _ => 0

/-- for every triple `c, cl, j` of the row: `c ∈ cl`, `cl` is compatible with the class bitmaps of
    `r`, and the derivative of `r` by `c` is (structurally) state `j` -/
def checkRow (S : List (List RE)) (r : RE) : List Nat → Bool
  | [] => true
  | c :: cl :: j :: rest =>
    cl.testBit c && classOK cl r &&
    (match lookup S j with
     | some s => RE.beq (derivN c r) s
     | none => false) && checkRow S r rest
  | _ => false

theorem checkRow_spec {S : List (List RE)} {r : RE} : ∀ (row : List Nat) (b : Nat),
    checkRow S r row = true → (rowCover row).testBit b = true → derivN b r ∈ S.flatten
  | [], b, _, hb => by simp [rowCover] at hb
  | [_], b, h, _ => by simp [checkRow] at h
  | [_, _], b, h, _ => by simp [checkRow] at h
  | c :: cl :: j :: rest, b, h, hb => by
    simp only [checkRow, Bool.and_eq_true] at h
    obtain ⟨⟨⟨h1, h2⟩, h3⟩, h4⟩ := h
    simp only [rowCover, Nat.testBit_or, Bool.or_eq_true] at hb
    rcases hb with hb | hb
    · rw [derivN_congr r b c (agree_of_classOK cl r b c h2 hb h1)]
      split at h3
      · rename_i s hs
        rw [RE.beq_eq h3]; exact lookup_mem hs
      · cases h3
    · exact checkRow_spec rest b h4 hb

def bmFull256 : Nat := 115792089237316195423570985008687907853269984665640564039457584007913129639935

theorem bmFull256_testBit (b : Nat) (hb : b < 256) : bmFull256.testBit b = true := by
  have : bmFull256 = 2 ^ 256 - 1 := by decide
  rw [this, Nat.testBit_two_pow_sub_one]
  simpa using hb

def checkState (S : List (List RE)) (r : RE) (row : List Nat) : Bool :=
  !nullable r && Nat.beq (rowCover row) bmFull256 && checkRow S r row

theorem checkState_spec {S : List (List RE)} {r : RE} {row : List Nat}
    (h : checkState S r row = true) :
    nullable r = false ∧ ∀ b, b < 256 → derivN b r ∈ S.flatten := by
  simp only [checkState, Bool.and_eq_true] at h
  obtain ⟨⟨h1, h2⟩, h3⟩ := h
  refine ⟨?_, ?_⟩
  · cases hn : nullable r <;> simp [hn] at h1 ⊢
  · intro b hb
    have hc : rowCover row = bmFull256 := Nat.eq_of_beq_eq_true h2
    exact checkRow_spec row b h3 (by rw [hc]; exact bmFull256_testBit b hb)

def checkChunk (S : List (List RE)) : List RE → List (List Nat) → Bool
  | [], [] => true
  | r :: rs, row :: rows => checkState S r row && checkChunk S rs rows
  | _, _ => false

theorem checkChunk_spec {S : List (List RE)} {Sl : List RE} {rows : List (List Nat)}
    (h : checkChunk S Sl rows = true) :
    ∀ r ∈ Sl, nullable r = false ∧ ∀ b, b < 256 → derivN b r ∈ S.flatten := by
  induction Sl generalizing rows with
  | nil => intro r hr; cases hr
  | cons r rs ih =>
    cases rows with
    | nil => simp [checkChunk] at h
    | cons row rows =>
      simp only [checkChunk, Bool.and_eq_true] at h
      intro r' hr'
      rcases List.mem_cons.1 hr' with e | e
      · subst e; exact checkState_spec h.1
      · exact ih h.2 r' e

def checkChunks (S : List (List RE)) : List (List RE) → List (List (List Nat)) → Bool
  | [], [] => true
  | ch :: chs, rows :: tbl => checkChunk S ch rows && checkChunks S chs tbl
  | _, _ => false

theorem checkChunks_spec {S : List (List RE)} {Sl : List (List RE)}
    {tbl : List (List (List Nat))} (h : checkChunks S Sl tbl = true) :
    ∀ r ∈ Sl.flatten, nullable r = false ∧ ∀ b, b < 256 → derivN b r ∈ S.flatten := by
  induction Sl generalizing tbl with
  | nil => intro r hr; simp at hr
  | cons ch chs ih =>
    cases tbl with
    | nil => simp [checkChunks] at h
    | cons rows tbl =>
      simp only [checkChunks, Bool.and_eq_true] at h
      intro r hr
      rw [List.flatten_cons] at hr
      rcases List.mem_append.1 hr with e | e
      · exact checkChunk_spec h.1 r e
      · exact ih h.2 r e

/-! Block-wise checking: the kernel's evaluation caches live as long as one `decide +kernel`, so a
    certificate with thousands of states is checked in blocks of 8 chunks (256 states), one theorem
    per block, and the blocks are combined by `checkChunks_blocks`. -/

theorem checkChunks_split (S : List (List RE)) (n : Nat) :
    ∀ (L : List (List RE)) (T : List (List (List Nat))),
      checkChunks S (L.take n) (T.take n) = true → checkChunks S (L.drop n) (T.drop n) = true →
      checkChunks S L T = true := by
  induction n with
  | zero => intro L T _ h2; simpa using h2
  | succ n ih =>
    intro L T h1 h2
    cases L with
    | nil =>
      cases T with
      | nil => rfl
      | cons y ys => simp [checkChunks] at h1
    | cons x xs =>
      cases T with
      | nil => simp [checkChunks] at h1
      | cons y ys =>
        simp only [List.take_succ_cons, List.drop_succ_cons, checkChunks, Bool.and_eq_true] at h1 h2 ⊢
        exact ⟨h1.1, ih xs ys h1.2 h2⟩

def dropB {α : Type} : Nat → List α → List α
  | 0, l => l
  | k + 1, l => dropB k (l.drop 8)

theorem checkChunks_blocks (S : List (List RE)) (nb : Nat) :
    ∀ (L : List (List RE)) (T : List (List (List Nat))),
      (∀ k, k < nb → checkChunks S ((dropB k L).take 8) ((dropB k T).take 8) = true) →
      checkChunks S (dropB nb L) (dropB nb T) = true → checkChunks S L T = true := by
  induction nb with
  | zero => intro L T _ h; exact h
  | succ nb ih =>
    intro L T h hend
    apply checkChunks_split S 8 L T (h 0 (Nat.succ_pos _))
    exact ih (L.drop 8) (T.drop 8) (fun k hk => h (k + 1) (Nat.succ_lt_succ hk)) hend

/-- `S`: states in chunks, `tbl`: one row per state, chunked like `S` -/
def checkCert (S : List (List RE)) (tbl : List (List (List Nat))) : Bool := checkChunks S S tbl

theorem checkCert_sound {S : List (List RE)} {tbl : List (List (List Nat))}
    (h : checkCert S tbl = true) {r : RE} (hr : r ∈ S.flatten) : ∀ w, ¬ Lang r w := by
  have hspec := checkChunks_spec h
  intro w
  induction w generalizing r with
  | nil =>
    intro hl
    have := (nullable_iff r).2 hl
    rw [(hspec r hr).1] at this
    cases this
  | cons c w ih =>
    intro hl
    have hl' : Lang (derivN c.toNat r) w := (derivN_iff c r w).2 hl
    have hlt : c.toNat < 256 := by
      have := c.toNat_lt; omega
    exact ih ((hspec r hr).2 c.toNat hlt) hl'

/-- certificate check for a regex given by name: the first state must be (structurally) `r` -/
def checkCertFor (r : RE) (S : List (List RE)) (tbl : List (List (List Nat))) : Bool :=
  (match S with
   | (s0 :: _) :: _ => RE.beq r s0
   | _ => false) && checkCert S tbl

theorem empty_of_cert {r : RE} {S : List (List RE)} {tbl : List (List (List Nat))}
    (h : checkCertFor r S tbl = true) : ∀ w, ¬ Lang r w := by
  simp only [checkCertFor, Bool.and_eq_true] at h
  obtain ⟨h0, hc⟩ := h
  split at h0
  · rename_i s0 rest chs
    have : r = s0 := RE.beq_eq h0
    subst this
    exact checkCert_sound hc (by simp)
  · cases h0

/-- the same from block-wise facts -/
theorem empty_of_blocks {r : RE} {S : List (List RE)} {tbl : List (List (List Nat))} (nb : Nat)
    (h0 : (match S with
           | (s0 :: _) :: _ => RE.beq r s0
           | _ => false) = true)
    (hb : ∀ k, k < nb → checkChunks S ((dropB k S).take 8) ((dropB k tbl).take 8) = true)
    (hend : checkChunks S (dropB nb S) (dropB nb tbl) = true) : ∀ w, ¬ Lang r w := by
  apply empty_of_cert (S := S) (tbl := tbl)
  simp only [checkCertFor, Bool.and_eq_true]
  exact ⟨h0, checkChunks_blocks S nb S tbl hb hend⟩

/-- inclusion `A ⊆ B` from emptiness of `A ∩ ¬B` -/
theorem incl_of_empty {a b : RE} (h : ∀ w, ¬ Lang (RE.and a (RE.not b)) w) :
    ∀ w, Lang a w → Lang b w := by
  intro w ha
  apply Classical.byContradiction
  intro hb
  exact h w ⟨ha, hb⟩

/-- disjointness from emptiness of `A ∩ B` -/
theorem disj_of_empty {a b : RE} (h : ∀ w, ¬ Lang (RE.and a b) w) :
    ∀ w, Lang a w → ¬ Lang b w := fun w ha hb => h w ⟨ha, hb⟩

/-- a machine-checked witness refutes emptiness -/
theorem nonempty_of_witness {r : RE} {w : Word} (h : rmatch r w = true) : ¬ ∀ w, ¬ Lang r w :=
  fun hall => hall w ((rmatch_iff r w).1 h)

end Scrapli.Regex
