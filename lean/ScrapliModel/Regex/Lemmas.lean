import ScrapliModel.Regex.Basic
/-
  Correctness of the regular-language engine: `beq` is equality, smart constructors preserve
  `Lang`, `nullable` and `deriv` are what they claim, hence `rmatch r w = true ↔ Lang r w`.
-/
namespace Scrapli.Regex
open RE

/-! ### structural equality -/

theorem RE.beq_eq {a b : RE} (h : RE.beq a b = true) : a = b := by
  induction a generalizing b with
  | emp => cases b <;> simp [RE.beq] at h; rfl
  | eps => cases b <;> simp [RE.beq] at h; rfl
  | cls x =>
    cases b <;> simp [RE.beq] at h
    rw [h]
  | cat a1 a2 ih1 ih2 =>
    cases b <;> simp [RE.beq] at h
    rw [ih1 h.1, ih2 h.2]
  | alt a1 a2 ih1 ih2 =>
    cases b <;> simp [RE.beq] at h
    rw [ih1 h.1, ih2 h.2]
  | and a1 a2 ih1 ih2 =>
    cases b <;> simp [RE.beq] at h
    rw [ih1 h.1, ih2 h.2]
  | not a1 ih1 =>
    cases b <;> simp [RE.beq] at h
    rw [ih1 h]
  | star a1 ih1 =>
    cases b <;> simp [RE.beq] at h
    rw [ih1 h]
  | rep a1 m n ih1 =>
    cases b <;> simp [RE.beq] at h
    rw [ih1 h.2, h.1.1, h.1.2]

/-! ### language algebra -/

theorem Lcat_congr_left {L L' M : Word → Prop} (h : ∀ u, L u ↔ L' u) (w : Word) :
    Lcat L M w ↔ Lcat L' M w := by
  constructor
  · rintro ⟨u, v, e, hu, hv⟩; exact ⟨u, v, e, (h u).1 hu, hv⟩
  · rintro ⟨u, v, e, hu, hv⟩; exact ⟨u, v, e, (h u).2 hu, hv⟩

theorem Lcat_congr_right {L M M' : Word → Prop} (h : ∀ u, M u ↔ M' u) (w : Word) :
    Lcat L M w ↔ Lcat L M' w := by
  constructor
  · rintro ⟨u, v, e, hu, hv⟩; exact ⟨u, v, e, hu, (h v).1 hv⟩
  · rintro ⟨u, v, e, hu, hv⟩; exact ⟨u, v, e, hu, (h v).2 hv⟩

theorem Lcat_assoc {L M N : Word → Prop} (w : Word) :
    Lcat (Lcat L M) N w ↔ Lcat L (Lcat M N) w := by
  constructor
  · rintro ⟨uv, x, e, ⟨u, v, e', hu, hv⟩, hx⟩
    exact ⟨u, v ++ x, by rw [e, e', List.append_assoc], hu, v, x, rfl, hv, hx⟩
  · rintro ⟨u, vx, e, hu, v, x, e', hv, hx⟩
    exact ⟨u ++ v, x, by rw [e, e', List.append_assoc], ⟨u, v, rfl, hu, hv⟩, hx⟩

theorem Lcat_nil_left {M : Word → Prop} (w : Word) : Lcat (fun u => u = []) M w ↔ M w := by
  constructor
  · rintro ⟨u, v, e, hu, hv⟩; subst hu; simpa [e] using hv
  · intro h; exact ⟨[], w, rfl, rfl, h⟩

theorem Lcat_nil_right {L : Word → Prop} (w : Word) : Lcat L (fun u => u = []) w ↔ L w := by
  constructor
  · rintro ⟨u, v, e, hu, hv⟩; subst hv; simpa [e] using hu
  · intro h; exact ⟨w, [], by simp, h, rfl⟩

theorem Lcat_false_left {M : Word → Prop} (w : Word) : Lcat (fun _ => False) M w ↔ False := by
  constructor
  · rintro ⟨_, _, _, hu, _⟩; exact hu
  · intro h; exact h.elim

theorem Lcat_false_right {L : Word → Prop} (w : Word) : Lcat L (fun _ => False) w ↔ False := by
  constructor
  · rintro ⟨_, _, _, _, hv⟩; exact hv
  · intro h; exact h.elim

theorem Lcat_nil_iff {L M : Word → Prop} : Lcat L M [] ↔ L [] ∧ M [] := by
  constructor
  · rintro ⟨u, v, e, hu, hv⟩
    have h := List.append_eq_nil_iff.1 e.symm
    rw [h.1] at hu; rw [h.2] at hv; exact ⟨hu, hv⟩
  · rintro ⟨h1, h2⟩; exact ⟨[], [], rfl, h1, h2⟩

theorem Lcat_cons {L M : Word → Prop} (c : UInt8) (w : Word) :
    Lcat L M (c :: w) ↔ (L [] ∧ M (c :: w)) ∨ Lcat (fun u => L (c :: u)) M w := by
  constructor
  · rintro ⟨u, v, e, hu, hv⟩
    cases u with
    | nil => left; simp at e; rw [e]; exact ⟨hu, hv⟩
    | cons c' u' =>
      right
      simp at e
      obtain ⟨e1, e2⟩ := e
      subst e1
      exact ⟨u', v, e2, hu, hv⟩
  · rintro (⟨h1, h2⟩ | ⟨u, v, e, hu, hv⟩)
    · exact ⟨[], c :: w, rfl, h1, h2⟩
    · exact ⟨c :: u, v, by rw [e]; rfl, hu, hv⟩

theorem Lpow_nil {L : Word → Prop} (k : Nat) : Lpow L k [] ↔ k = 0 ∨ L [] := by
  induction k with
  | zero => simp [Lpow]
  | succ k ih =>
    show Lcat L (Lpow L k) [] ↔ _
    rw [Lcat_nil_iff, ih]
    constructor
    · rintro ⟨h, _⟩; exact Or.inr h
    · rintro (h | h)
      · omega
      · exact ⟨h, Or.inr h⟩

theorem Lpow_succ_of_nil {L : Word → Prop} (h : L []) {k : Nat} {w : Word} (hw : Lpow L k w) :
    Lpow L (k + 1) w := ⟨[], w, rfl, h, hw⟩

theorem Lpow_mono {L : Word → Prop} (h : L []) {j k : Nat} (hjk : j ≤ k) {w : Word}
    (hw : Lpow L j w) : Lpow L k w := by
  induction hjk with
  | refl => exact hw
  | step _ ih => exact Lpow_succ_of_nil h ih

theorem Lpow_cons {L : Word → Prop} (c : UInt8) (w : Word) (k : Nat) :
    Lpow L k (c :: w) ↔
      ∃ j, j < k ∧ (j + 1 = k ∨ L []) ∧ Lcat (fun u => L (c :: u)) (Lpow L j) w := by
  induction k with
  | zero =>
    constructor
    · intro h; simp [Lpow] at h
    · rintro ⟨j, hj, _⟩; omega
  | succ k ih =>
    show Lcat L (Lpow L k) (c :: w) ↔ _
    rw [Lcat_cons]
    constructor
    · rintro (⟨h0, hk⟩ | h)
      · obtain ⟨j, hj, _, hc⟩ := ih.1 hk
        exact ⟨j, by omega, Or.inr h0, hc⟩
      · exact ⟨k, by omega, Or.inl rfl, h⟩
    · rintro ⟨j, hj, hor, hc⟩
      by_cases hjk : j = k
      · subst hjk; exact Or.inr hc
      · have h0 : L [] := by
          rcases hor with h | h
          · omega
          · exact h
        left
        refine ⟨h0, ?_⟩
        obtain ⟨u, v, e, hu, hv⟩ := hc
        have : Lpow L (j + 1) (c :: w) := ⟨c :: u, v, by rw [e]; rfl, hu, hv⟩
        exact Lpow_mono h0 (by omega) this

/-! ### smart constructors preserve the language -/

theorem Lang_catR (a b : RE) (w : Word) : Lang (catR a b) w ↔ Lcat (Lang a) (Lang b) w := by
  induction a generalizing w with
  | emp => simp only [catR, Lang]; exact (Lcat_false_left w).symm
  | eps => simp only [catR]; exact (Lcat_nil_left w).symm
  | cat a1 a2 _ ih2 =>
    simp only [catR]
    show Lcat (Lang a1) (Lang (catR a2 b)) w ↔ Lcat (Lcat (Lang a1) (Lang a2)) (Lang b) w
    rw [Lcat_assoc]
    exact Lcat_congr_right ih2 w
  | cls _ => exact Iff.rfl
  | alt _ _ => exact Iff.rfl
  | and _ _ => exact Iff.rfl
  | not _ => exact Iff.rfl
  | star _ => exact Iff.rfl
  | rep _ _ _ => exact Iff.rfl

theorem Lang_mkCat (a b : RE) (w : Word) : Lang (mkCat a b) w ↔ Lcat (Lang a) (Lang b) w := by
  cases b with
  | emp => simp only [mkCat, Lang]; exact (Lcat_false_right w).symm
  | eps => simp only [mkCat]; exact (Lcat_nil_right w).symm
  | cls _ => exact Lang_catR _ _ w
  | cat _ _ => exact Lang_catR _ _ w
  | alt _ _ => exact Lang_catR _ _ w
  | and _ _ => exact Lang_catR _ _ w
  | not _ => exact Lang_catR _ _ w
  | star _ => exact Lang_catR _ _ w
  | rep _ _ _ => exact Lang_catR _ _ w

theorem Lang_insLeaf (a b : RE) (w : Word) : Lang (insLeaf a b) w ↔ Lang a w ∨ Lang b w := by
  unfold insLeaf
  split
  · rename_i h; rw [RE.beq_eq h]; simp
  · split
    · exact Iff.rfl
    · exact Or.comm

theorem Lang_insAlt (a b : RE) (w : Word) : Lang (insAlt a b) w ↔ Lang a w ∨ Lang b w := by
  induction b with
  | alt b1 b2 _ ih2 =>
    simp only [insAlt]
    split
    · rename_i h; rw [RE.beq_eq h]
      show Lang b1 w ∨ Lang b2 w ↔ Lang b1 w ∨ (Lang b1 w ∨ Lang b2 w)
      constructor
      · intro h; exact Or.inr h
      · rintro (h | h); exact Or.inl h; exact h
    · split
      · exact Iff.rfl
      · show Lang b1 w ∨ Lang (insAlt a b2) w ↔ Lang a w ∨ (Lang b1 w ∨ Lang b2 w)
        rw [ih2]
        constructor
        · rintro (h | h | h)
          · exact Or.inr (Or.inl h)
          · exact Or.inl h
          · exact Or.inr (Or.inr h)
        · rintro (h | h | h)
          · exact Or.inr (Or.inl h)
          · exact Or.inl h
          · exact Or.inr (Or.inr h)
  | emp => simp [insAlt, Lang]
  | eps => exact Lang_insLeaf _ _ w
  | cls _ => exact Lang_insLeaf _ _ w
  | cat _ _ => exact Lang_insLeaf _ _ w
  | and _ _ => exact Lang_insLeaf _ _ w
  | not _ => exact Lang_insLeaf _ _ w
  | star _ => exact Lang_insLeaf _ _ w
  | rep _ _ _ => exact Lang_insLeaf _ _ w

theorem Lang_mkAlt (a b : RE) (w : Word) : Lang (mkAlt a b) w ↔ Lang a w ∨ Lang b w := by
  induction a generalizing b with
  | emp => simp [mkAlt, Lang]
  | alt a1 a2 ih1 ih2 =>
    simp only [mkAlt]
    rw [ih1, ih2]
    show _ ↔ (Lang a1 w ∨ Lang a2 w) ∨ Lang b w
    exact or_assoc.symm
  | eps => exact Lang_insAlt _ _ w
  | cls _ => exact Lang_insAlt _ _ w
  | cat _ _ => exact Lang_insAlt _ _ w
  | and _ _ => exact Lang_insAlt _ _ w
  | not _ => exact Lang_insAlt _ _ w
  | star _ => exact Lang_insAlt _ _ w
  | rep _ _ _ => exact Lang_insAlt _ _ w

theorem Lang_mkAnd (a b : RE) (w : Word) : Lang (mkAnd a b) w ↔ Lang a w ∧ Lang b w := by
  unfold mkAnd
  split
  · simp [Lang]
  · simp [Lang]
  · split
    · rename_i h; rw [RE.beq_eq h]; simp
    · exact Iff.rfl

theorem Lang_mkNot (a : RE) (w : Word) : Lang (mkNot a) w ↔ ¬ Lang a w := by
  cases a with
  | not a => simp only [mkNot]; show Lang a w ↔ ¬ ¬ Lang a w; exact Classical.not_not.symm
  | emp => exact Iff.rfl
  | eps => exact Iff.rfl
  | cls _ => exact Iff.rfl
  | cat _ _ => exact Iff.rfl
  | alt _ _ => exact Iff.rfl
  | and _ _ => exact Iff.rfl
  | star _ => exact Iff.rfl
  | rep _ _ _ => exact Iff.rfl

theorem Lang_mkRep (a : RE) (m n : Nat) (w : Word) : Lang (mkRep a m n) w ↔ Lang (rep a m n) w := by
  unfold mkRep
  split
  · rename_i hn
    have hn : n = 0 := Nat.eq_of_beq_eq_true hn
    subst hn
    split
    · rename_i hm
      have hm : m = 0 := Nat.eq_of_beq_eq_true hm
      subst hm
      show w = [] ↔ ∃ k, 0 ≤ k ∧ k ≤ 0 ∧ Lpow (Lang a) k w
      constructor
      · intro h; exact ⟨0, Nat.le_refl _, Nat.le_refl _, h⟩
      · rintro ⟨k, _, hk, h⟩
        have : k = 0 := by omega
        subst this; exact h
    · rename_i hm
      have hm : m ≠ 0 := fun h => hm (by rw [h]; rfl)
      show False ↔ ∃ k, m ≤ k ∧ k ≤ 0 ∧ Lpow (Lang a) k w
      constructor
      · intro h; exact h.elim
      · rintro ⟨k, h1, h2, _⟩; omega
  · exact Iff.rfl

theorem Lpow_emp (k : Nat) (w : Word) : Lpow (fun _ => False) k w ↔ k = 0 ∧ w = [] := by
  cases k with
  | zero => simp [Lpow]
  | succ k =>
    show Lcat _ _ w ↔ _
    rw [Lcat_false_left]; simp

theorem Lpow_eps (k : Nat) (w : Word) : Lpow (fun u => u = []) k w ↔ w = [] := by
  induction k generalizing w with
  | zero => simp [Lpow]
  | succ k ih =>
    show Lcat _ _ w ↔ _
    rw [Lcat_nil_left]; exact ih w

theorem Lpow_star_star {L : Word → Prop} (k : Nat) (w : Word)
    (h : Lpow (fun u => ∃ j, Lpow L j u) k w) : ∃ j, Lpow L j w := by
  induction k generalizing w with
  | zero => exact ⟨0, h⟩
  | succ k ih =>
    obtain ⟨u, v, e, ⟨j, hu⟩, hv⟩ := h
    obtain ⟨j', hv'⟩ := ih v hv
    subst e
    clear hv ih
    induction j generalizing u with
    | zero => rw [show u = [] from hu]; exact ⟨j', hv'⟩
    | succ j ihj =>
      obtain ⟨u1, u2, e, h1, h2⟩ := hu
      obtain ⟨n, hn⟩ := ihj u2 h2
      exact ⟨n + 1, u1, u2 ++ v, by rw [e, List.append_assoc], h1, hn⟩

theorem Lang_mkStar (a : RE) (w : Word) : Lang (mkStar a) w ↔ Lang (star a) w := by
  cases a with
  | star a =>
    simp only [mkStar]
    constructor
    · rintro ⟨k, hk⟩; exact ⟨1, w, [], by simp, ⟨k, hk⟩, rfl⟩
    · rintro ⟨k, hk⟩; exact Lpow_star_star k w hk
  | emp =>
    simp only [mkStar]
    show w = [] ↔ ∃ k, Lpow (fun _ => False) k w
    constructor
    · intro h; exact ⟨0, h⟩
    · rintro ⟨k, hk⟩; exact ((Lpow_emp k w).1 hk).2
  | eps =>
    simp only [mkStar]
    show w = [] ↔ ∃ k, Lpow (fun u => u = []) k w
    constructor
    · intro h; exact ⟨0, h⟩
    · rintro ⟨k, hk⟩; exact (Lpow_eps k w).1 hk
  | cls _ => exact Iff.rfl
  | cat _ _ => exact Iff.rfl
  | alt _ _ => exact Iff.rfl
  | and _ _ => exact Iff.rfl
  | not _ => exact Iff.rfl
  | rep _ _ _ => exact Iff.rfl

/-! ### nullable -/

theorem nullable_iff (r : RE) : nullable r = true ↔ Lang r [] := by
  induction r with
  | emp => simp [nullable, Lang]
  | eps => simp [nullable, Lang]
  | cls bm => simp [nullable, Lang]
  | cat a b iha ihb =>
    show (nullable a && nullable b) = true ↔ Lcat (Lang a) (Lang b) []
    rw [Lcat_nil_iff, Bool.and_eq_true, iha, ihb]
  | alt a b iha ihb =>
    show (nullable a || nullable b) = true ↔ (Lang a [] ∨ Lang b [])
    rw [Bool.or_eq_true, iha, ihb]
  | and a b iha ihb =>
    show (nullable a && nullable b) = true ↔ (Lang a [] ∧ Lang b [])
    rw [Bool.and_eq_true, iha, ihb]
  | not a iha =>
    show (!nullable a) = true ↔ ¬ Lang a []
    rw [← iha]; cases nullable a <;> simp
  | star a _ =>
    show true = true ↔ ∃ k, Lpow (Lang a) k []
    constructor
    · intro _; exact ⟨0, rfl⟩
    · intro _; rfl
  | rep a m n iha =>
    show (Nat.ble m n && (Nat.beq m 0 || nullable a)) = true ↔ ∃ k, m ≤ k ∧ k ≤ n ∧ Lpow (Lang a) k []
    rw [Bool.and_eq_true, Bool.or_eq_true, iha, Nat.ble_eq]
    constructor
    · rintro ⟨hmn, h | h⟩
      · have := Nat.eq_of_beq_eq_true h
        exact ⟨0, by omega, by omega, rfl⟩
      · exact ⟨m, Nat.le_refl _, hmn, (Lpow_nil m).2 (Or.inr h)⟩
    · rintro ⟨k, h1, h2, h3⟩
      refine ⟨by omega, ?_⟩
      rcases (Lpow_nil k).1 h3 with h | h
      · left
        have : m = 0 := by omega
        rw [this]; rfl
      · right; exact h

/-! ### derivative -/

theorem derivN_iff (c : UInt8) (r : RE) (w : Word) :
    Lang (derivN c.toNat r) w ↔ Lang r (c :: w) := by
  induction r generalizing w with
  | emp => exact Iff.rfl
  | eps =>
    show False ↔ c :: w = []
    simp
  | cls bm =>
    simp only [derivN]
    split
    · rename_i h
      show w = [] ↔ ∃ c' : UInt8, c :: w = [c'] ∧ bm.testBit c'.toNat = true
      constructor
      · intro hw; exact ⟨c, by rw [hw], h⟩
      · rintro ⟨c', e, _⟩; simp at e; exact e.2
    · rename_i h
      show False ↔ ∃ c' : UInt8, c :: w = [c'] ∧ bm.testBit c'.toNat = true
      constructor
      · intro hf; exact hf.elim
      · rintro ⟨c', e, h'⟩; simp at e; rw [← e.1] at h'; exact h h'
  | cat a b iha ihb =>
    simp only [derivN]
    show _ ↔ Lcat (Lang a) (Lang b) (c :: w)
    rw [Lcat_cons]
    split
    · rename_i hn
      rw [Lang_mkAlt, Lang_mkCat, ihb, Lcat_congr_left iha]
      have := (nullable_iff a).1 hn
      constructor
      · rintro (h | h)
        · exact Or.inr h
        · exact Or.inl ⟨this, h⟩
      · rintro (h | h)
        · exact Or.inr h.2
        · exact Or.inl h
    · rename_i hn
      rw [Lang_mkCat, Lcat_congr_left iha]
      have : ¬ Lang a [] := fun h => hn ((nullable_iff a).2 h)
      constructor
      · intro h; exact Or.inr h
      · rintro (h | h)
        · exact (this h.1).elim
        · exact h
  | alt a b iha ihb =>
    simp only [derivN]
    rw [Lang_mkAlt, iha, ihb]; exact Iff.rfl
  | and a b iha ihb =>
    simp only [derivN]
    rw [Lang_mkAnd, iha, ihb]; exact Iff.rfl
  | not a iha =>
    simp only [derivN]
    rw [Lang_mkNot, iha]; exact Iff.rfl
  | star a iha =>
    simp only [derivN]
    rw [Lang_mkCat, Lcat_congr_left iha]
    show Lcat _ (fun v => ∃ k, Lpow (Lang a) k v) w ↔ ∃ k, Lpow (Lang a) k (c :: w)
    constructor
    · rintro ⟨u, v, e, hu, j, hv⟩
      exact ⟨j + 1, (Lpow_cons c w (j + 1)).2 ⟨j, Nat.lt_succ_self _, Or.inl rfl, u, v, e, hu, hv⟩⟩
    · rintro ⟨k, hk⟩
      obtain ⟨j, _, _, u, v, e, hu, hv⟩ := (Lpow_cons c w k).1 hk
      exact ⟨u, v, e, hu, j, hv⟩
  | rep a m n iha =>
    simp only [derivN]
    split
    · rename_i hn
      have hn : n = 0 := Nat.eq_of_beq_eq_true hn
      show False ↔ ∃ k, m ≤ k ∧ k ≤ n ∧ Lpow (Lang a) k (c :: w)
      constructor
      · intro h; exact h.elim
      · rintro ⟨k, _, h2, h3⟩
        have : k = 0 := by omega
        subst this
        simp [Lpow] at h3
    · rename_i hn
      have hn : n ≠ 0 := fun h => hn (by rw [h]; rfl)
      rw [Lang_mkCat, Lcat_congr_left iha, Lcat_congr_right (Lang_mkRep a (m - 1) (n - 1))]
      show Lcat _ (fun v => ∃ j, m - 1 ≤ j ∧ j ≤ n - 1 ∧ Lpow (Lang a) j v) w ↔
        ∃ k, m ≤ k ∧ k ≤ n ∧ Lpow (Lang a) k (c :: w)
      constructor
      · rintro ⟨u, v, e, hu, j, h1, h2, hv⟩
        exact ⟨j + 1, by omega, by omega,
          (Lpow_cons c w (j + 1)).2 ⟨j, Nat.lt_succ_self _, Or.inl rfl, u, v, e, hu, hv⟩⟩
      · rintro ⟨k, h1, h2, hk⟩
        obtain ⟨j, hj, hor, u, v, e, hu, hv⟩ := (Lpow_cons c w k).1 hk
        rcases hor with h | h
        · exact ⟨u, v, e, hu, j, by omega, by omega, hv⟩
        · exact ⟨u, v, e, hu, k - 1, by omega, by omega, Lpow_mono h (by omega) hv⟩

theorem deriv_iff (c : UInt8) (r : RE) (w : Word) : Lang (deriv c r) w ↔ Lang r (c :: w) :=
  derivN_iff c r w

theorem derivs_iff (r : RE) (w v : Word) : Lang (derivs r w) v ↔ Lang r (w ++ v) := by
  induction w generalizing r with
  | nil => exact Iff.rfl
  | cons c w ih =>
    show Lang (derivs (deriv c r) w) v ↔ Lang r (c :: (w ++ v))
    rw [ih, deriv_iff]

theorem rmatch_iff (r : RE) (w : Word) : rmatch r w = true ↔ Lang r w := by
  unfold rmatch
  rw [nullable_iff, derivs_iff, List.append_nil]

theorem not_rmatch_iff (r : RE) (w : Word) : rmatch r w = false ↔ ¬ Lang r w := by
  rw [← rmatch_iff]; cases rmatch r w <;> simp

instance (r : RE) (w : Word) : Decidable (Lang r w) :=
  decidable_of_iff _ (rmatch_iff r w)

end Scrapli.Regex
