/-
  Regular-language engine over bytes (DESIGN §3.2).  Core Lean only, executable, self-contained.

  ## API (namespace `Scrapli.Regex`)

  * `RE` — regex syntax:  `emp | eps | cls bm | cat a b | alt a b | and a b | not a | star a | rep a m n`
      - `cls bm`: one byte from the class whose 256-bit bitmap is the `Nat` `bm` (bit b set ⇔ byte b in class)
      - `rep a m n`: between `m` and `n` copies of `a` (native counted repetition, NOT unfolded);
        `{m,}` is written `cat (rep a m m) (star a)` (see `RE.repFrom`), `+` is `RE.plus`.
      - `and` / `not`: intersection / complement (extended regexes), so
        inclusion `A ⊆ B` is emptiness of `and A (not B)`, disjointness is emptiness of `and A B`.
  * helpers: `RE.any` (any byte), `RE.all` (Σ*), `RE.byte b`, `RE.lit bytes`, `RE.str "…"`, `RE.opt`,
    `RE.plus`, `RE.repFrom`, `RE.alts`, `RE.cats`, `RE.contains x` (Σ*·x·Σ*), `bmOfList`, `bmRange`.
  * `Lang : RE → List UInt8 → Prop` — denotation.
  * `nullable : RE → Bool`, `deriv : UInt8 → RE → RE` (Brzozowski, with smart constructors
    `mkCat mkAlt mkAnd mkNot mkStar mkRep` that normalise modulo ACI of `alt`, unit/zero laws and
    right-nesting of `cat`), `derivN : Nat → RE → RE` (same, byte given as a `Nat`; cheap in the kernel),
    `rmatch : RE → List UInt8 → Bool` := `nullable (foldl deriv)`.
  * `RE.beq : RE → RE → Bool` hand-written structural equality (used inside the smart constructors).

  Theorems (file `Regex/Lemmas.lean`, no sorry):
    `nullable_iff : nullable r = true ↔ Lang r []`
    `deriv_iff    : Lang (deriv c r) w ↔ Lang r (c :: w)`
    `rmatch_iff   : rmatch r w = true ↔ Lang r w`
    `beq_eq       : RE.beq a b = true → a = b`
    `Lang_mkCat / Lang_mkAlt / Lang_mkAnd / Lang_mkNot / Lang_mkStar / Lang_mkRep` (smart constructors preserve Lang)
  Certificates (file `Regex/Cert.lean`):
    `checkCert atoms reps S tbl : Bool`, `checkCert_sound : checkCert … = true → r ∈ S → ∀ w, ¬ Lang r w`
    `derivN_congr` (alphabet compression), corollaries `incl_of_cert`, `disj_of_cert`.
  Explorer / printer / sampler (file `Regex/Explore.lean`, interpreter only, untrusted):
    `explore r : Sum (List UInt8) Cert` (shortest witness or closed automaton), `Cert.toLean`, `sample`.
-/
namespace Scrapli.Regex

inductive RE where
  | emp
  | eps
  | cls (bm : Nat)
  | cat (a b : RE)
  | alt (a b : RE)
  | and (a b : RE)
  | not (a : RE)
  | star (a : RE)
  | rep (a : RE) (m n : Nat)
  deriving Repr, Inhabited, Hashable

namespace RE

/-- hand-written structural equality (no derived `DecidableEq`: this one reduces well in the kernel) -/
def beq : RE → RE → Bool
  | emp, emp => true
  | eps, eps => true
  | cls a, cls b => Nat.beq a b
  | cat a b, cat c d => beq a c && beq b d
  | alt a b, alt c d => beq a c && beq b d
  | and a b, and c d => beq a c && beq b d
  | not a, not c => beq a c
  | star a, star c => beq a c
  | rep a m n, rep c k l => Nat.beq m k && Nat.beq n l && beq a c
  | _, _ => false

def rank : RE → Nat
  | emp => 0 | eps => 1 | cls _ => 2 | cat .. => 3 | alt .. => 4 | and .. => 5 | not _ => 6
  | star _ => 7 | rep .. => 8

def cmpNat (a b : Nat) : Ordering :=
  if Nat.blt a b then .lt else if Nat.beq a b then .eq else .gt

/-- some total order on `RE` (only used to put `alt` lists into a canonical order; nothing is
    proved about it and nothing needs to be) -/
def cmp : RE → RE → Ordering
  | cls a, cls b => cmpNat a b
  | cat a b, cat c d => (cmp a c).then (cmp b d)
  | alt a b, alt c d => (cmp a c).then (cmp b d)
  | and a b, and c d => (cmp a c).then (cmp b d)
  | not a, not c => cmp a c
  | star a, star c => cmp a c
  | rep a m n, rep c k l => ((cmpNat m k).then (cmpNat n l)).then (cmp a c)
  | a, b => cmpNat a.rank b.rank

def lt (a b : RE) : Bool := match cmp a b with | .lt => true | _ => false

end RE

open RE

/-! ### denotation -/

abbrev Word := List UInt8

def Lcat (L M : Word → Prop) (w : Word) : Prop := ∃ u v, w = u ++ v ∧ L u ∧ M v

def Lpow (L : Word → Prop) : Nat → Word → Prop
  | 0, w => w = []
  | k + 1, w => Lcat L (Lpow L k) w

def Lang : RE → Word → Prop
  | emp, _ => False
  | eps, w => w = []
  | cls bm, w => ∃ c : UInt8, w = [c] ∧ bm.testBit c.toNat = true
  | cat a b, w => Lcat (Lang a) (Lang b) w
  | alt a b, w => Lang a w ∨ Lang b w
  | RE.and a b, w => Lang a w ∧ Lang b w
  | RE.not a, w => ¬ Lang a w
  | star a, w => ∃ k, Lpow (Lang a) k w
  | rep a m n, w => ∃ k, m ≤ k ∧ k ≤ n ∧ Lpow (Lang a) k w

/-! ### nullable, smart constructors, derivative, matcher -/

def nullable : RE → Bool
  | emp => false
  | eps => true
  | cls _ => false
  | cat a b => nullable a && nullable b
  | alt a b => nullable a || nullable b
  | RE.and a b => nullable a && nullable b
  | RE.not a => !nullable a
  | star _ => true
  | rep a m n => Nat.ble m n && (Nat.beq m 0 || nullable a)

/-- right-nest: `catR (cat a1 a2) b = cat a1 (catR a2 b)` -/
def catR : RE → RE → RE
  | emp, _ => emp
  | eps, b => b
  | cat a1 a2, b => cat a1 (catR a2 b)
  | cls bm, b => cat (cls bm) b
  | alt x y, b => cat (alt x y) b
  | RE.and x y, b => cat (RE.and x y) b
  | RE.not x, b => cat (RE.not x) b
  | star x, b => cat (star x) b
  | rep x m n, b => cat (rep x m n) b

def mkCat (a b : RE) : RE :=
  match b with
  | emp => emp
  | eps => a
  | _ => catR a b

/-- join two non-`alt` terms into an ordered, duplicate-free alternative -/
def insLeaf (a b : RE) : RE :=
  if beq a b then b else if lt a b then alt a b else alt b a

/-- insert the non-`alt` term `a` into the right-nested, ordered, duplicate-free alternative list `b` -/
def insAlt (a : RE) : RE → RE
  | alt b1 b2 =>
    if beq a b1 then alt b1 b2
    else if lt a b1 then alt a (alt b1 b2)
    else alt b1 (insAlt a b2)
  | emp => a
  | eps => insLeaf a eps
  | cls bm => insLeaf a (cls bm)
  | cat x y => insLeaf a (cat x y)
  | RE.and x y => insLeaf a (RE.and x y)
  | RE.not x => insLeaf a (RE.not x)
  | star x => insLeaf a (star x)
  | rep x m n => insLeaf a (rep x m n)

/-- union modulo associativity, commutativity, idempotence and `emp` -/
def mkAlt : RE → RE → RE
  | emp, b => b
  | alt a1 a2, b => mkAlt a1 (mkAlt a2 b)
  | eps, b => insAlt eps b
  | cls bm, b => insAlt (cls bm) b
  | cat x y, b => insAlt (cat x y) b
  | RE.and x y, b => insAlt (RE.and x y) b
  | RE.not x, b => insAlt (RE.not x) b
  | star x, b => insAlt (star x) b
  | rep x m n, b => insAlt (rep x m n) b

def mkAnd (a b : RE) : RE :=
  match a, b with
  | emp, _ => emp
  | _, emp => emp
  | a, b => if beq a b then a else RE.and a b

def mkNot : RE → RE
  | RE.not a => a
  | a => RE.not a

def mkStar : RE → RE
  | star a => star a
  | emp => eps
  | eps => eps
  | a => star a

def mkRep (a : RE) (m n : Nat) : RE :=
  if Nat.beq n 0 then (if Nat.beq m 0 then eps else emp) else rep a m n

/-- Brzozowski derivative by the byte with code `c` -/
def derivN (c : Nat) : RE → RE
  | emp => emp
  | eps => emp
  | cls bm => if bm.testBit c then eps else emp
  | cat a b =>
    if nullable a then mkAlt (mkCat (derivN c a) b) (derivN c b) else mkCat (derivN c a) b
  | alt a b => mkAlt (derivN c a) (derivN c b)
  | RE.and a b => mkAnd (derivN c a) (derivN c b)
  | RE.not a => mkNot (derivN c a)
  | star a => mkCat (derivN c a) (star a)
  | rep a m n => if Nat.beq n 0 then emp else mkCat (derivN c a) (mkRep a (m - 1) (n - 1))

def deriv (c : UInt8) (r : RE) : RE := derivN c.toNat r

def derivs (r : RE) (w : Word) : RE := w.foldl (fun r c => deriv c r) r

def rmatch (r : RE) (w : Word) : Bool := nullable (derivs r w)

/-! ### building blocks -/

def bmFull : Nat := 2 ^ 256 - 1

def bmOfList (l : List Nat) : Nat := l.foldl (fun acc b => acc ||| (1 <<< b)) 0

/-- bytes `lo … hi` inclusive -/
def bmRange (lo hi : Nat) : Nat := (2 ^ (hi + 1) - 1) - (2 ^ lo - 1)

def bmOfString (s : String) : Nat := bmOfList (s.toUTF8.toList.map (·.toNat))

namespace RE
def any : RE := cls bmFull
def all : RE := star any
def byte (b : UInt8) : RE := cls (1 <<< b.toNat)
def lit : List UInt8 → RE
  | [] => eps
  | [b] => byte b
  | b :: bs => cat (byte b) (lit bs)
def str (s : String) : RE := lit s.toUTF8.toList
def opt (a : RE) : RE := alt eps a
def plus (a : RE) : RE := cat a (star a)
def repFrom (a : RE) (m : Nat) : RE := cat (rep a m m) (star a)
def alts : List RE → RE
  | [] => emp
  | [a] => a
  | a :: as => alt a (alts as)
def cats : List RE → RE
  | [] => eps
  | [a] => a
  | a :: as => cat a (cats as)
/-- all strings containing the byte string `x` -/
def contains (x : List UInt8) : RE := cat all (cat (lit x) all)
/-- one byte out of the characters of `s` -/
def oneOf (s : String) : RE := cls (bmOfString s)
end RE

end Scrapli.Regex
