import ScrapliModel.Regex.Cert
import Std.Data.HashMap
/-
  UNTRUSTED helpers, run by the interpreter only (`lake env lean --run`): derivative-automaton
  explorer (computes a certificate or a shortest witness), Lean-syntax printer, random sampler.
  Nothing here is used in a proof: whatever the explorer prints is re-checked by `checkCertFor`
  (certificate) or `rmatch` (witness) inside the kernel.
-/
namespace Scrapli.Regex
open RE

instance : BEq RE := ⟨RE.beq⟩

/-- the distinct class bitmaps of a regex that its derivative looks at -/
def atomsOf : RE → List Nat → List Nat
  | emp, acc => acc
  | eps, acc => acc
  | cls bm, acc => if acc.contains bm then acc else bm :: acc
  | cat a b, acc => if nullable a then atomsOf b (atomsOf a acc) else atomsOf a acc
  | alt a b, acc => atomsOf b (atomsOf a acc)
  | RE.and a b, acc => atomsOf b (atomsOf a acc)
  | RE.not a, acc => atomsOf a acc
  | star a, acc => atomsOf a acc
  | rep a _ _, acc => atomsOf a acc

/-- the byte classes of a state: bytes with the same membership in every class bitmap of the state.
    Returns (representative, class bitmap) pairs. -/
def classesOf (r : RE) : List (Nat × Nat) := Id.run do
  let A := atomsOf r []
  let mut sigs : Array (List Bool × Nat × Nat) := #[]   -- signature, representative, bitmap
  for b in [0:256] do
    let sig := A.map (fun bm => bm.testBit b)
    match sigs.findIdx? (fun x => x.1 == sig) with
    | some i => sigs := sigs.modify i (fun (s, c, bm) => (s, c, bm ||| (1 <<< b)))
    | none => sigs := sigs.push (sig, b, 1 <<< b)
  return sigs.toList.map (fun (_, c, bm) => (c, bm))

structure Cert where
  states : Array RE
  /-- per state: (representative, class bitmap, target state) -/
  tbl : Array (Array (Nat × Nat × Nat))

inductive Outcome where
  | witness (w : Word)
  | cert (c : Cert)
  | overflow (n : Nat)

/-- breadth-first exploration of the derivative automaton of `r`, per-state alphabet compression.
    Returns a shortest word of `Lang r`, or the closed automaton when the language is empty. -/
partial def explore (r : RE) (limit : Nat := 100000) : Outcome := Id.run do
  if nullable r then return .witness []
  let mut states : Array RE := #[r]
  let mut index : Std.HashMap RE Nat := Std.HashMap.emptyWithCapacity 1024 |>.insert r 0
  let mut parent : Array (Nat × Nat) := #[(0, 0)]
  let mut tbl : Array (Array (Nat × Nat × Nat)) := #[]
  let mut i := 0
  while i < states.size do
    if states.size > limit then return .overflow states.size
    let s := states[i]!
    let mut row : Array (Nat × Nat × Nat) := #[]
    for (c, bm) in classesOf s do
      let d := derivN c s
      match index[d]? with
      | some j => row := row.push (c, bm, j)
      | none =>
        let j := states.size
        states := states.push d
        index := index.insert d j
        parent := parent.push (i, c)
        row := row.push (c, bm, j)
        if nullable d then
          let mut w : Word := []
          let mut k := j
          while k != 0 do
            let (p, b) := parent[k]!
            w := UInt8.ofNat b :: w
            k := p
          return .witness w
    tbl := tbl.push row
    i := i + 1
  return .cert { states := states, tbl := tbl }

/-! ### printing as Lean syntax -/

def hexNat (n : Nat) : String := "0x" ++ String.ofList (Nat.toDigits 16 n)

partial def RE.toLean : RE → String
  | emp => ".emp"
  | eps => ".eps"
  | cls bm => s!"(.cls {hexNat bm})"
  | cat a b => s!"(.cat {a.toLean} {b.toLean})"
  | alt a b => s!"(.alt {a.toLean} {b.toLean})"
  | RE.and a b => s!"(.and {a.toLean} {b.toLean})"
  | RE.not a => s!"(.not {a.toLean})"
  | star a => s!"(.star {a.toLean})"
  | rep a m n => s!"(.rep {a.toLean} {m} {n})"

/-- hash-consed printing: every distinct compound subterm that occurs more than once becomes
    its own `def`, states refer to them by name (keeps the generated file and its elaboration small) -/
inductive Key where
  | emp | eps | cls (bm : Nat) | cat (a b : Nat) | alt (a b : Nat) | and (a b : Nat) | not (a : Nat)
  | star (a : Nat) | rep (a m n : Nat)
  deriving BEq, Hashable, Inhabited

structure Pool where
  ids : Std.HashMap Key Nat := {}
  keys : Array Key := #[]
  uses : Array Nat := #[]
  sizes : Array Nat := #[]

def Pool.node (p : Pool) (k : Key) : Nat × Pool :=
  match p.ids[k]? with
  | some i => (i, { p with uses := p.uses.modify i (· + 1) })
  | none =>
    let i := p.keys.size
    let sz (j : Nat) : Nat := p.sizes[j]!
    let size := match k with
      | .emp | .eps | .cls _ => 1
      | .cat a b | .alt a b | .and a b => 1 + sz a + sz b
      | .not a | .star a | .rep a _ _ => 1 + sz a
    (i, { ids := p.ids.insert k i, keys := p.keys.push k, uses := p.uses.push 1, sizes := p.sizes.push size })

partial def intern (r : RE) (p : Pool) : Nat × Pool :=
  match r with
  | emp => p.node .emp
  | eps => p.node .eps
  | cls bm => p.node (.cls bm)
  | cat a b => let (i, p) := intern a p; let (j, p) := intern b p; p.node (.cat i j)
  | alt a b => let (i, p) := intern a p; let (j, p) := intern b p; p.node (.alt i j)
  | RE.and a b => let (i, p) := intern a p; let (j, p) := intern b p; p.node (.and i j)
  | RE.not a => let (i, p) := intern a p; p.node (.not i)
  | star a => let (i, p) := intern a p; p.node (.star i)
  | rep a m n => let (i, p) := intern a p; p.node (.rep i m n)

/-- compact rendering for the `re_dag%` / `nat_rows%` elaborators of `Regex/CertSyntax.lean` -/
def Cert.toLean (c : Cert) : String := Id.run do
  let mut pool : Pool := {}
  let mut roots : Array Nat := #[]
  for s in c.states do
    let (i, p) := intern s pool
    pool := p
    roots := roots.push i
  let node (k : Key) : String := match k with
    | .emp => "e"
    | .eps => "E"
    | .cls bm => "c" ++ String.ofList (Nat.toDigits 16 bm)
    | .cat a b => s!"C {a} {b}"
    | .alt a b => s!"A {a} {b}"
    | .and a b => s!"N {a} {b}"
    | .not a => s!"n {a}"
    | .star a => s!"s {a}"
    | .rep a m n => s!"r {a} {m} {n}"
  let nodes := ";".intercalate (pool.keys.toList.map node)
  let rts := " ".intercalate (roots.toList.map toString)
  let mut clsIdx : Std.HashMap Nat Nat := {}
  let mut clsList : Array Nat := #[]
  for r in c.tbl do
    for (_, bm, _) in r do
      if !clsIdx.contains bm then
        clsIdx := clsIdx.insert bm clsList.size
        clsList := clsList.push bm
  let rows := " ".intercalate (clsList.toList.map toString) ++ "|" ++ ";".intercalate (c.tbl.toList.map (fun r =>
    " ".intercalate (r.toList.map (fun (c, bm, j) => s!"{c} {clsIdx[bm]!} {j}"))))
  let mut out := ""
  out := out ++ s!"noncomputable def states : List (List RE) := re_dag% \"{nodes}|{rts}\"\n"
  out := out ++ s!"noncomputable def tbl : List (List (List Nat)) := nat_rows% \"{rows}\"\n"
  return out

def Word.toLean (w : Word) : String := s!"[{", ".intercalate (w.map (fun b => toString b.toNat))}]"

/-! ### sampling words of a language (for the correspondence tests) -/

structure Rng where
  s : Nat

def Rng.next (g : Rng) : Nat × Rng :=
  let s := (g.s * 6364136223846793005 + 1442695040888963407) % 18446744073709551616
  (s >>> 33, ⟨s⟩)

def Rng.below (g : Rng) (n : Nat) : Nat × Rng :=
  let (x, g) := g.next
  (if n == 0 then 0 else x % n, g)

def flattenAlt : RE → List RE
  | alt a b => flattenAlt a ++ flattenAlt b
  | r => [r]

def members (bm : Nat) : List Nat := (List.range 256).filter (fun b => bm.testBit b)

/-- a random word of the language (none when it cannot find one: `not` outside the right side of an
    `and`, or an `and` whose filter rejects 20 candidates).  Counts are biased to the bounds. -/
partial def sampleRE (r : RE) (g : Rng) : Option (Word × Rng) :=
  match r with
  | emp => none
  | eps => some ([], g)
  | cls bm =>
    let ms := members bm
    if ms.isEmpty then none else
    -- prefer printable ASCII members when there are any
    let pr := ms.filter (fun b => 33 ≤ b && b < 127)
    let (x, g) := g.below 8
    let pool := if x != 0 && !pr.isEmpty then pr else ms
    let (k, g) := g.below pool.length
    some ([UInt8.ofNat (pool[k]!)], g)
  | cat a b => do
    let (u, g) ← sampleRE a g
    let (v, g) ← sampleRE b g
    pure (u ++ v, g)
  | alt _ _ =>
    let xs := flattenAlt r
    let (k, g) := g.below xs.length
    sampleRE xs[k]! g
  | star a =>
    let (k, g) := g.below 4
    sampleN a k g
  | rep a m n =>
    if n < m then none else
    let (x, g) := g.below 6
    let (k, g) := if x == 0 then (m, g) else if x == 1 then (n, g)
      else if x == 2 then (min n (m + 1), g) else if x == 3 then (max m (n - 1), g)
      else let (y, g) := g.below (min (n - m + 1) 12); (m + y, g)
    sampleN a k g
  | RE.and a b =>
    let rec try_ (i : Nat) (g : Rng) : Option (Word × Rng) :=
      if i == 0 then none else
      match sampleRE a g with
      | none => none
      | some (w, g) => if rmatch b w then some (w, g) else try_ (i - 1) g
    try_ 20 g
  | RE.not _ => none
where
  sampleN (a : RE) (k : Nat) (g : Rng) : Option (Word × Rng) :=
    match k with
    | 0 => some ([], g)
    | k + 1 => do
      let (u, g) ← sampleRE a g
      let (v, g) ← sampleN a k g
      pure (u ++ v, g)

end Scrapli.Regex
