import Lean
import ScrapliModel.Regex.Basic
/-
  Fast elaboration of certificate DATA (untrusted: whatever these elaborators build is only ever
  an argument of `checkCertFor`, which the kernel evaluates).  Writing thousands of `def`s or a
  15 000-numeral list literal costs 10–20 s of elaboration per certificate; building the `Expr`
  directly (with maximal sharing of sub-terms) costs well under a second.

    re_dag% "<nodes>|<roots>"   : List (List RE)    -- roots in chunks of 32
        nodes  := node;node;…   node k may refer to nodes < k
        node   := e | E | c<hex bitmap> | C i j | A i j | N i j | n i | s i | r i m n
                  (emp, eps, cls, cat, alt, and, not, star, rep)
        roots  := i i i …
    nat_rows% "a b c;d e f;…"  : List (List (List Nat))   -- one row per `;` group (decimal), rows in chunks of 32
-/
namespace Scrapli.Regex
open Lean Elab Term Meta

private def hexVal (s : String) : Nat :=
  s.toList.foldl (fun acc c =>
    let d := if '0' ≤ c ∧ c ≤ '9' then c.toNat - 48 else if 'a' ≤ c ∧ c ≤ 'f' then c.toNat - 87 else 0
    acc * 16 + d) 0

private def mkListLit (ty : Expr) (xs : List Expr) : Expr :=
  xs.foldr (fun x acc => mkApp3 (Lean.mkConst ``List.cons [Level.zero]) ty x acc) (mkApp (Lean.mkConst ``List.nil [Level.zero]) ty)

private def chunk32 {α : Type} (l : List α) : List (List α) := Id.run do
  let mut out : Array (List α) := #[]
  let mut cur : Array α := #[]
  for x in l do
    cur := cur.push x
    if cur.size == 32 then
      out := out.push cur.toList
      cur := #[]
  if cur.size > 0 then out := out.push cur.toList
  return out.toList

elab "re_dag% " s:str : term => do
  let txt := s.getString
  let re := Lean.mkConst ``RE
  match txt.splitOn "|" with
  | [nodesTxt, rootsTxt] =>
    let mut nodes : Array Expr := #[]
    for nd in nodesTxt.splitOn ";" do
      let toks := (nd.splitOn " ").filter (· ≠ "")
      let get (t : String) : TermElabM Expr := do
        match nodes[t.toNat!]? with
        | some e => pure e
        | none => throwError "re_dag%: bad node reference {t}"
      let e ← match toks with
        | ["e"] => pure (Lean.mkConst ``RE.emp)
        | ["E"] => pure (Lean.mkConst ``RE.eps)
        | ["C", i, j] => pure (mkApp2 (Lean.mkConst ``RE.cat) (← get i) (← get j))
        | ["A", i, j] => pure (mkApp2 (Lean.mkConst ``RE.alt) (← get i) (← get j))
        | ["N", i, j] => pure (mkApp2 (Lean.mkConst ``RE.and) (← get i) (← get j))
        | ["n", i] => pure (mkApp (Lean.mkConst ``RE.not) (← get i))
        | ["s", i] => pure (mkApp (Lean.mkConst ``RE.star) (← get i))
        | ["r", i, m, n] => pure (mkApp3 (Lean.mkConst ``RE.rep) (← get i) (mkNatLit m.toNat!) (mkNatLit n.toNat!))
        | [c] =>
          if c.startsWith "c" then pure (mkApp (Lean.mkConst ``RE.cls) (mkNatLit (hexVal (c.drop 1).toString)))
          else throwError "re_dag%: bad node {nd}"
        | _ => throwError "re_dag%: bad node {nd}"
      nodes := nodes.push e
    let mut roots : Array Expr := #[]
    for t in (rootsTxt.splitOn " ").filter (· ≠ "") do
      match nodes[t.toNat!]? with
      | some e => roots := roots.push e
      | none => throwError "re_dag%: bad root {t}"
    let listRe := mkApp (Lean.mkConst ``List [Level.zero]) re
    return mkListLit listRe ((chunk32 roots.toList).map (mkListLit re))
  | _ => throwError "re_dag%: expected <nodes>|<roots>"

elab "nat_rows% " s:str : term => do
  let nat := Lean.mkConst ``Nat
  let listNat := mkApp (Lean.mkConst ``List [Level.zero]) nat
  let rows := (s.getString.splitOn ";").filter (· ≠ "") |>.map fun row =>
    mkListLit nat (((row.splitOn " ").filter (· ≠ "")).map (fun t => mkNatLit t.toNat!))
  return mkListLit (mkApp (Lean.mkConst ``List [Level.zero]) listNat) ((chunk32 rows).map (mkListLit listNat))

end Scrapli.Regex
