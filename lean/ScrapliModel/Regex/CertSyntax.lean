import Lean
import ScrapliModel.Regex.Basic
/-
  Fast elaboration of certificate DATA (untrusted: whatever these elaborators build is only ever
  an argument of `checkCertFor`, which the kernel evaluates).  Writing thousands of `def`s or a
  15 000-numeral list literal costs 10–20 s of elaboration per certificate; building the `Expr`
  directly (with maximal sharing of sub-terms) costs well under a second.

    re_dag% "<nodes>|<roots>"   : List (List RE)    -- roots in chunks of 32
        nodes  := node;node;…   node k may refer to nodes < k
        node   := e | E | c<hex bitmap> | C i j | A i j | N i j | n i | s i | r i m n
                  (emp, eps, cls, cat, alt, and, not, star, rep)
        roots  := i i i …
    nat_rows% "<classes>|<rows>" : List (List (List Nat))   -- rows in chunks of 32
        classes := bitmap bitmap …            (decimal)
        rows    := row;row;…   row := c k j c k j …   (representative, class INDEX, target state);
                   the elaborated row holds the class bitmap itself: [c, classes[k], j, …]
-/
namespace Scrapli.Regex
open Lean Elab Term Meta

private def hexVal (s : String) : Nat :=
  s.toList.foldl (fun acc c =>
    let d := if '0' ≤ c ∧ c ≤ '9' then c.toNat - 48 else if 'a' ≤ c ∧ c ≤ 'f' then c.toNat - 87 else 0
    acc * 16 + d) 0

private def mkListLit (ty : Expr) (xs : List Expr) : Expr :=
  xs.foldr (fun x acc => mkApp3 (Lean.mkConst ``List.cons [Level.zero]) ty x acc) (mkApp (Lean.mkConst ``List.nil [Level.zero]) ty)

private def chunk32 {α : Type} (l : List α) : List (List α) := Id.run do
  let mut out : Array (List α) := #[]
  let mut cur : Array α := #[]
  for x in l do
    cur := cur.push x
    if cur.size == 32 then
      out := out.push cur.toList
      cur := #[]
  if cur.size > 0 then out := out.push cur.toList
  return out.toList

elab "re_dag% " s:str : term => do
  let txt := s.getString
  let re := Lean.mkConst ``RE
  match txt.splitOn "|" with
  | [nodesTxt, rootsTxt] =>
    let mut nodes : Array Expr := #[]
    for nd in nodesTxt.splitOn ";" do
      let toks := (nd.splitOn " ").filter (· ≠ "")
      let get (t : String) : TermElabM Expr := do
        match nodes[t.toNat!]? with
        | some e => pure e
        | none => throwError "re_dag%: bad node reference {t}"
      let e ← match toks with
        | ["e"] => pure (Lean.mkConst ``RE.emp)
        | ["E"] => pure (Lean.mkConst ``RE.eps)
        | ["C", i, j] => pure (mkApp2 (Lean.mkConst ``RE.cat) (← get i) (← get j))
        | ["A", i, j] => pure (mkApp2 (Lean.mkConst ``RE.alt) (← get i) (← get j))
        | ["N", i, j] => pure (mkApp2 (Lean.mkConst ``RE.and) (← get i) (← get j))
        | ["n", i] => pure (mkApp (Lean.mkConst ``RE.not) (← get i))
        | ["s", i] => pure (mkApp (Lean.mkConst ``RE.star) (← get i))
        | ["r", i, m, n] => pure (mkApp3 (Lean.mkConst ``RE.rep) (← get i) (mkNatLit m.toNat!) (mkNatLit n.toNat!))
        | [c] =>
          if c.startsWith "c" then pure (mkApp (Lean.mkConst ``RE.cls) (mkNatLit (hexVal (c.drop 1).toString)))
          else throwError "re_dag%: bad node {nd}"
        | _ => throwError "re_dag%: bad node {nd}"
      nodes := nodes.push e
    let mut roots : Array Expr := #[]
    for t in (rootsTxt.splitOn " ").filter (· ≠ "") do
      match nodes[t.toNat!]? with
      | some e => roots := roots.push e
      | none => throwError "re_dag%: bad root {t}"
    let listRe := mkApp (Lean.mkConst ``List [Level.zero]) re
    return mkListLit listRe ((chunk32 roots.toList).map (mkListLit re))
  | _ => throwError "re_dag%: expected <nodes>|<roots>"

elab "nat_rows% " s:str : term => do
  let nat := Lean.mkConst ``Nat
  let listNat := mkApp (Lean.mkConst ``List [Level.zero]) nat
  match s.getString.splitOn "|" with
  | [clsTxt, rowsTxt] =>
    -- class bitmaps are written once and referred to by index; each becomes ONE shared literal
    let classes : Array Expr := ((clsTxt.splitOn " ").filter (· ≠ "")).toArray.map (fun t => mkNatLit t.toNat!)
    let mut small : Std.HashMap String Expr := {}
    let mut rows : Array Expr := #[]
    for row in rowsTxt.splitOn ";" do
      if row == "" then continue
      let toks := ((row.splitOn " ").filter (· ≠ "")).toArray
      if toks.size % 3 != 0 then throwError "nat_rows%: row length not a multiple of 3"
      let mut xs : Array Expr := #[]
      for i in [0:toks.size] do
        let t := toks[i]!
        if i % 3 == 1 then
          match classes[t.toNat!]? with
          | some e => xs := xs.push e
          | none => throwError "nat_rows%: bad class index {t}"
        else
          match small[t]? with
          | some e => xs := xs.push e
          | none =>
            let e := mkNatLit t.toNat!
            small := small.insert t e
            xs := xs.push e
      rows := rows.push (mkListLit nat xs.toList)
    return mkListLit (mkApp (Lean.mkConst ``List [Level.zero]) listNat) ((chunk32 rows.toList).map (mkListLit listNat))
  | _ => throwError "nat_rows%: expected <classes>|<rows>"

end Scrapli.Regex
