import ScrapliModel.SSHConfig
import ScrapliModel.Gen.SSHParseConsts
/-
  Model of the TEXT PARSERS of scrapli/ssh_config.py: `SSHConfig._parse` (165-244) with `_strip_comments` (shlex)
  and `SSHKnownHosts._parse` (450-482).  Input = the file text as the code sees it (`Str`, after `Path.read_text`'s
  universal-newline translation); output = the sequence of `Host` objects of the parse loop / the known_hosts line
  triples — the inputs of the post-parse model (SSHConfig.lean).  Faithful to what the regexes DO (not to OpenSSH):
  `[\s=]+` runs across line ends, an option keyword is searched anywhere in the block, the first hit wins, etc.
  Regex source texts, keywords and value classes are generated (Gen/SSHParseConsts.lean).  Core Lean only; executable.
  ASCII domain: `\w`, `\d` are the generated ASCII classes; `re.I` is ASCII case folding.
-/
namespace Scrapli.SSHConfig
open Scrapli.Gen.SSHConfig

/-! ### lines -/

/-- the text cut AFTER each `\n` (the positions where `^` matches under re.M); the pieces concatenate to the text -/
def linesNl : Str → List Str
  | [] => []
  | c :: cs =>
    if c == '\n' then [c] :: linesNl cs
    else match linesNl cs with
      | l :: ls => (c :: l) :: ls
      | [] => [[c]]

/-- `[ \t]` -/
def isBlank (c : Char) : Bool := c == ' ' || c == '\t'
/-- `[\s=]` -/
def isSepCh (c : Char) : Bool := isSpace c || c == '='
/-- `[ \t=]` -/
def isHdrSep (c : Char) : Bool := isBlank c || c == '='

/-- a literal (lower-case) keyword at the start of `s` under re.I; the rest -/
def dropKw : Str → Str → Option Str
  | [], s => some s
  | _ :: _, [] => none
  | k :: ks, c :: cs => if ceq k c then dropKw ks cs else none

def hostKw : Str := ['h', 'o', 's', 't']
def matchKw : Str := ['m', 'a', 't', 'c', 'h']

/-- `^[ \t]*kw[ \t=]` on one line -/
def isHdr (kw : Str) (l : Str) : Bool :=
  match dropKw kw (l.dropWhile isBlank) with
  | some (c :: _) => isHdrSep c
  | _ => false

/-- ssh_config.py:185-188 `re.findall(host_pattern, text)`: a block starts at a `host` header line and runs (lazily,
    DOTALL) up to the next `host`/`match` header line or the end; lines before the first block and after a `match`
    header belong to no block.  Right-to-left: (lines not yet attached to a header, blocks). -/
def blocksR : List Str → List Str × List (List Str)
  | [] => ([], [])
  | l :: ls =>
    let r := blocksR ls
    if isHdr hostKw l then ([], (l :: r.1) :: r.2)
    else if isHdr matchKw l then ([], r.2)
    else (l :: r.1, r.2)

/-- the `host_entries` strings -/
def hostBlocks (text : Str) : List Str := (blocksR (linesNl text)).2.map List.flatten

/-! ### the option regexes `^\s*kw[\s=]+(value)$`, flags I|M, `re.search` on one block -/

/-- `$` under re.M: at the end or before a newline -/
def endOk : Str → Bool
  | [] => true
  | c :: _ => c == '\n'

/-- `[cls]*$` greedy with backtracking -/
def valK (cls : Char → Bool) : Str → Option Str
  | [] => some []
  | c :: cs =>
    if cls c then
      match valK cls cs with
      | some v => some (c :: v)
      | none => if c == '\n' then some [] else none
    else if c == '\n' then some [] else none

/-- `[cls]+$` -/
def plusK (cls : Char → Bool) : Str → Option Str
  | [] => none
  | c :: cs => if cls c then (valK cls cs).map (c :: ·) else none

/-- `(a|b|…)$` under re.I: the first alternative that fits; the group is the text as written -/
def altK (alts : List Str) (s : Str) : Option Str :=
  alts.findSome? fun a =>
    match dropKw a s with
    | some r => if endOk r then some (s.take a.length) else none
    | none => none

/-- `(.*)$` without DOTALL: the rest of the line -/
def restK (s : Str) : Option Str := some (s.takeWhile (· != '\n'))

def kOf : VKind → Str → Option Str
  | .rest => restK
  | .star cls => valK (cls.contains ·)
  | .plus cls => plusK (cls.contains ·)
  | .alts l => altK l

/-- `[\s=]+` followed by the continuation `k`: greedy (runs across newlines), longest first -/
def sepK {α} (k : Str → Option α) : Str → Option α
  | [] => none
  | c :: cs =>
    if isSepCh c then
      match sepK k cs with
      | some r => some r
      | none => k cs
    else none

/-- one attempt of `^\s*kw[\s=]+(…)$` at a line start (`\s*` also runs across newlines) -/
def optAt {α} (kw : Str) (k : Str → Option α) (s : Str) : Option α :=
  match dropKw kw (s.dropWhile isSpace) with
  | some r => sepK k r
  | none => none

/-- the attempts at the positions after a newline, leftmost first -/
def afterNl {α} (f : Str → Option α) : Str → Option α
  | [] => none
  | c :: cs =>
    if c == '\n' then
      match f cs with
      | some r => some r
      | none => afterNl f cs
    else afterNl f cs

/-- `re.search` of a pattern starting with `^` under re.M: the leftmost line start that matches -/
def searchStarts {α} (f : Str → Option α) (s : Str) : Option α :=
  match f s with
  | some r => some r
  | none => afterNl f s

def kwOf (attr : String) : Str := (optKeywords.lookup attr).getD []
def kindOf (attr : String) : VKind := (optKinds.lookup attr).getD .rest

/-- `re.search(<attr>_pattern, host_entry)` → `groups()[0]` -/
def optOf (attr : String) (block : Str) : Option Str :=
  searchStarts (optAt (kwOf attr) (kOf (kindOf attr))) block

/-! ### `_strip_comments` = `" ".join(shlex.split(line, comments=True))` (posix, whitespace_split, commenters `#`) -/

inductive ShSt where
  | ws      -- state ' '
  | word    -- state 'a'
  | sq      -- inside '…'
  | dq      -- inside "…"
  | escW    -- after a backslash outside quotes
  | escD    -- after a backslash inside "…"
  | cmt     -- after `#`: `instream.readline()` drops the rest of the line, then state ' '
deriving Repr, DecidableEq

/-- shlex's own whitespace -/
def shWs (c : Char) : Bool := c == ' ' || c == '\t' || c == '\r' || c == '\n'

/-- the token loop; `tok` = the token under construction, `acc` = finished tokens (in order) -/
def shlexAux : ShSt → Str → List Str → Str → Except Err (List Str)
  | .ws, _, acc, [] => .ok acc
  | .word, tok, acc, [] => .ok (acc ++ [tok])
  | .sq, _, _, [] => .error .valueError          -- "No closing quotation"
  | .dq, _, _, [] => .error .valueError
  | .escW, _, _, [] => .error .valueError        -- "No escaped character"
  | .escD, _, _, [] => .error .valueError
  | .cmt, _, acc, [] => .ok acc
  | .cmt, tok, acc, c :: cs => if c == '\n' then shlexAux .ws tok acc cs else shlexAux .cmt tok acc cs
  | .ws, tok, acc, c :: cs =>
    if shWs c then shlexAux .ws tok acc cs
    else if c == '#' then shlexAux .cmt tok acc cs
    else if c == '\\' then shlexAux .escW [] acc cs
    else if c == '\'' then shlexAux .sq [] acc cs
    else if c == '"' then shlexAux .dq [] acc cs
    else shlexAux .word [c] acc cs
  | .word, tok, acc, c :: cs =>
    if shWs c then shlexAux .ws [] (acc ++ [tok]) cs
    else if c == '#' then shlexAux .cmt [] (acc ++ [tok]) cs
    else if c == '\'' then shlexAux .sq tok acc cs
    else if c == '"' then shlexAux .dq tok acc cs
    else if c == '\\' then shlexAux .escW tok acc cs
    else shlexAux .word (tok ++ [c]) acc cs
  | .sq, tok, acc, c :: cs =>
    if c == '\'' then shlexAux .word tok acc cs else shlexAux .sq (tok ++ [c]) acc cs
  | .dq, tok, acc, c :: cs =>
    if c == '"' then shlexAux .word tok acc cs
    else if c == '\\' then shlexAux .escD tok acc cs
    else shlexAux .dq (tok ++ [c]) acc cs
  | .escW, tok, acc, c :: cs => shlexAux .word (tok ++ [c]) acc cs
  | .escD, tok, acc, c :: cs =>
    shlexAux .dq (if c != '\\' && c != '"' then tok ++ ['\\', c] else tok ++ [c]) acc cs

def joinSp : List Str → Str
  | [] => []
  | [t] => t
  | t :: ts => t ++ ' ' :: joinSp ts

/-- ssh_config.py:148-163 -/
def stripComments (s : Str) : Except Err Str := (shlexAux .ws [] [] s).map joinSp

/-! ### the parse loop (213-244) -/

def digitsToNat (s : Str) : Nat := s.foldl (fun n c => 10 * n + (c.toNat - 48)) 0

/-- what the loop does with a stripped group: `int(…)` for the port, `os.path.expanduser(…)` (a parameter of the
    model) for the identity file -/
def convVal (expand : Str → Str) (attr : String) (v : Str) : Val :=
  if attr == "port" then .int (digitsToNat v)
  else if attr == "identity_file" then .str (expand v)
  else .str v

def attrOf (expand : Str → Str) (block : Str) (attr : String) (dflt : Val) : Except Err Val :=
  if (optKeywords.lookup attr).isSome then
    match optOf attr block with
    | some v => (stripComments v).map (convVal expand attr)
    | none => .ok dflt
  else .ok dflt

/-- one iteration: `host = Host(); …; discovered_hosts[host.hosts] = host` (the insertion is `insertAll`) -/
def parseBlock (expand : Str → Str) (block : Str) : Except Err Entry := do
  let hosts ← match optOf "hosts" block with
    | some h => stripComments h
    | none => .ok hostsDefault
  let hostname ← attrOf expand block "hostname" hostnameDefault
  let attrs ← (hostAttrs.zip attrDefaults).mapM fun ad => attrOf expand block ad.1 ad.2
  pure { hosts, hostname, attrs }

/-- `SSHConfig._parse` up to the dict insertion: the Host objects in file order (ValueError of shlex = error) -/
def parseCfg (expand : Str → Str) (text : Str) : Except Err (List Entry) :=
  (hostBlocks text).mapM (parseBlock expand)

/-- `SSHConfig(file).lookup(name)` for a file with this text -/
def lookupText (expand : Str → Str) (mc : List Char) (text : Str) (name : Str) : Except Err Entry := do
  let parsed ← parseCfg expand text
  lookupCfg mc parsed name

/-! ### `SSHKnownHosts._parse` (471-482): the line regex, `re.findall` under re.M -/

def notSp (c : Char) : Bool := !isSpace c
def khTy (c : Char) : Bool := khTypeClass.contains c

/-- a greedy `[class]+` whose successor is disjoint from the class: the maximal run, non-empty; (run, rest) -/
def field (p : Char → Bool) (s : Str) : Option (Str × Str) :=
  if (s.takeWhile p).isEmpty then none else some (s.takeWhile p, s.dropWhile p)

/-- `[ \t]+` -/
def blanks1 : Str → Option Str
  | [] => none
  | c :: cs => if isBlank c then some (cs.dropWhile isBlank) else none

/-- `^[ \t]*(?![#@])(\S+)[ \t]+([\w\-@.]+)[ \t]+(\S+)(?:[ \t].*)?$` on one line (without its newline).  Every
    quantified piece is followed by something disjoint from it, so the greedy choice is the only one that can succeed. -/
def khLine (l : Str) : Option KHLine :=
  match l.dropWhile isBlank with
  | [] => none
  | c :: cs =>
    if c == '#' || c == '@' then none else do
      let f1 ← field notSp (c :: cs)
      let r1 ← blanks1 f1.2
      let f2 ← field khTy r1
      let r2 ← blanks1 f2.2
      let f3 ← field notSp r2
      match f3.2 with
      | [] => some { host := f1.1, val := (f2.1, f3.1) }
      | d :: _ => if isBlank d then some { host := f1.1, val := (f2.1, f3.1) } else none

def chomp (l : Str) : Str := l.takeWhile (· != '\n')

/-- the `host_entries` triples in file order -/
def khParse (text : Str) : List KHLine := (linesNl text).filterMap fun l => khLine (chomp l)

/-- `SSHKnownHosts(file).lookup(name)` for a file with this text -/
def khLookupText (hm : Str → Str → Str → Option Bool) (text : Str) (name : Str) : Except Err (Option (Str × Str)) :=
  khLookup hm (khBuild (khParse text)) name

end Scrapli.SSHConfig
