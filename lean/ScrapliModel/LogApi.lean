import ScrapliModel.Log
/-
  Model of the logging API layer of scrapli/logging.py: `enable_basic_logging` (:305-363) called any
  number of times with any arguments, the handler list of the `scrapli` logger it manipulates
  (`logger.addHandler`, nothing is ever removed), records handed to the logger in between
  (`Logger.debug/info/…` = `isEnabledFor(level)` then `callHandlers`), and the end of the program:
  `logging.shutdown()` (closes every live handler, newest first) or `close()` of the attached file
  handlers (oldest first).  Every handler of the list is the `HSt` machine of ScrapliModel/Log.lean
  (`emit` / `baseEmit` / `close`) with its own formatter (own `message_id`).

  File system: a path is a `Nat`, a file its text.  `open(path, "w")` truncates at the moment of the
  call (FileHandler opens its stream in `__init__`, delay=False), every write of a handler is appended
  at the end of the file (exact for "a" = O_APPEND, and for "w" while the path has a single writer —
  a path configured twice with a "w" among the calls is outside the modelled domain).

  Core Lean only.
-/
namespace Scrapli.Log
open Scrapli Scrapli.Gen.Log

/-- the arguments of one `enable_basic_logging(file, level, caller_info, buffer_log, mode)` call -/
structure EnableArgs where
  file : Option Nat := none    -- `file=False` = none; a path (or True = "scrapli.log") = some id
  level : Nat := 20            -- numeric value of `level.upper()` (logging's own name table)
  callerInfo : Bool := false
  bufferLog : Bool := true
  mode : Str := ['w', 'r', 'i', 't', 'e']
deriving Repr, DecidableEq

inductive ApiOp where
  | enable (a : EnableArgs)
  | emit (r : Rec) (levelno : Nat)     -- `logger.log(levelno, r.msg, *r.args)` on a scrapli logger
deriving Repr, DecidableEq

inductive ApiEnd where
  | shutdown     -- logging.shutdown(): reversed(_handlerList): flush + close each
  | closeAll     -- for h in logger.handlers: h.close()
deriving Repr, DecidableEq

/-- one file handler + formatter pair on the logger's handler list -/
structure Hd where
  file : Nat
  buffered : Bool        -- ScrapliFileHandler / logging.FileHandler
  cfg : FmtCfg
  st : HSt := {}
  closed : Bool := false
deriving Repr, DecidableEq

structure Api where
  level : Nat                 -- effective level of the `scrapli` logger
  propagate : Bool := true
  handlers : List Hd := []    -- logger.handlers (file handlers only), in addHandler order
  files : Nat → Str           -- the file system
  raised : Nat := 0           -- ScrapliException raised to the caller of enable_basic_logging

def Api.init (level : Nat) (files : Nat → Str) : Api := { level := level, files := files }

/-- `handler.handle(record)` -/
def hdEmit (v : Variant) (r : Rec) (hd : Hd) : Hd :=
  { hd with st := if hd.buffered then emit v hd.cfg hd.st r else baseEmit v hd.cfg hd.st r }

/-- `handler.close()` (plain FileHandler: nothing pending) -/
def hdClose (v : Variant) (hd : Hd) : Hd :=
  { hd with st := if hd.buffered then close v hd.cfg hd.st else hd.st, closed := true }

/-- the text a handler wrote to its stream while going from state `before` to state `after` -/
def written (before after : HSt) : Str := fileText (after.out.drop before.out.length)

def appendFile (files : Nat → Str) (f : Nat) (t : Str) : Nat → Str :=
  fun g => if g = f then files g ++ t else files g

def truncateFile (files : Nat → Str) (f : Nat) : Nat → Str :=
  fun g => if g = f then [] else files g

/-- what a transition `step` of every handler in `hs` (taken in list order) writes to the files -/
def writeAll (step : Hd → Hd) (hs : List Hd) (files : Nat → Str) : Nat → Str :=
  hs.foldl (fun fs hd => appendFile fs hd.file (written hd.st (step hd).st)) files

def apiStep (v : Variant) (s : Api) : ApiOp → Api
  | .emit r levelno =>
    -- Logger.log: `if self.isEnabledFor(level): self._log(...)` -> handle -> callHandlers: every
    -- handler of the list, in order (file handlers have level NOTSET)
    if s.level ≤ levelno then
      { s with handlers := s.handlers.map (hdEmit v r), files := writeAll (hdEmit v r) s.handlers s.files }
    else s
  | .enable a =>
    -- :333-334 propagate / setLevel happen before the mode check
    let s := { s with propagate := false, level := a.level }
    match basicLoggingMode a.mode with              -- :338-343
    | .error _ => { s with raised := s.raised + 1 }
    | .ok m =>
      match a.file with                             -- :345
      | none => s
      | some f =>                                   -- :350-357: new handler, new formatter, addHandler
        { s with handlers := s.handlers ++ [{ file := f, buffered := a.bufferLog, cfg := ⟨true, a.callerInfo⟩ }],
                 files := if m == ['a'] then s.files else truncateFile s.files f }

def apiEnd (v : Variant) (s : Api) : ApiEnd → Api
  | .shutdown => { s with handlers := s.handlers.map (hdClose v), files := writeAll (hdClose v) s.handlers.reverse s.files }
  | .closeAll => { s with handlers := s.handlers.map (hdClose v), files := writeAll (hdClose v) s.handlers s.files }

/-- a whole program: API calls and records, then the end -/
def runApi (v : Variant) (s : Api) (ops : List ApiOp) (e : ApiEnd) : Api :=
  apiEnd v (ops.foldl (apiStep v) s) e

end Scrapli.Log
