import ScrapliModel.Gen.C05Tables_nxosS
import ScrapliModel.Spec.PromptGrammar
/- C05: the suite(s) of table `nxosS` — which prompt grammar (Spec) is checked against this generated table.
   `…Full`: the modes whose grammar is restricted by the predicate of an open finding, WITHOUT the restriction. -/
namespace Scrapli.C05
open Scrapli.Regex Scrapli.PromptClass Scrapli.Spec
def nxosS : Suite := ⟨"nxosS", Gen.C05.nxosS, PromptGrammar.nxosS Gen.C05.nxosSessions⟩
def nxosSFull : Suite := ⟨"nxosSFull", Gen.C05.nxosS, PromptGrammar.nxosSFull⟩
end Scrapli.C05
