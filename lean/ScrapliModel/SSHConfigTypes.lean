/-
  Types shared by the generated constants (Gen/SSHConfigConsts.lean) and the model
  (SSHConfig.lean) of scrapli/ssh_config.py.  Core Lean only.
-/
namespace Scrapli.SSHConfig

abbrev Str := List Char

/-- a Python attribute value of a `Host` object: `None`, a `str` or an `int` -/
inductive Val where
  | none
  | str (s : Str)
  | int (n : Nat)
deriving Repr, DecidableEq, Inhabited

/-- one element of a translated Host pattern: a literal character, `(.)` or `(.*)` -/
inductive Tok where
  | lit (c : Char)
  | one
  | many
deriving Repr, DecidableEq

/-- the shape of the value part `( … )` of an option regex `^\s*kw[\s=]+( … )$` of `SSHConfig._parse`:
    `.*` | `[class]*` | `[class]+` | `a|b|…` (classes as the list of ASCII characters they accept) -/
inductive VKind where
  | rest
  | star (cls : List Char)
  | plus (cls : List Char)
  | alts (l : List Str)
deriving Repr, DecidableEq

end Scrapli.SSHConfig
