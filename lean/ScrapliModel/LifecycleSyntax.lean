/-
  Syntax shared by the C11 lifecycle model, the generated file (tools/gen/c11.py) and the theorems:
  a tiny statement language in which `Driver.open/close/__enter__/__exit__` (and the asyncio twins)
  are written down, the device-facing acts of the platform hooks, and the transport / telnet-field
  vocabulary.  Core Lean only.
-/
namespace Scrapli.Lifecycle

/-- exception classes that can leave an operation.  All but the last two are subclasses of `Exception`;
    `baseExc` / `cancelled` can only be raised by the BODY of a with-block (`BodyOp.raiseExc`), never inside
    a `try … except Exception` of the four methods -/
inductive Exc
  | connError      -- ScrapliConnectionError
  | notOpened      -- ScrapliConnectionNotOpened
  | timeout        -- ScrapliTimeout
  | authFailed     -- ScrapliAuthenticationFailed
  | valueError     -- ValueError("I/O operation on closed file.") from a closed channel-log sink
  | hookError      -- whatever a user supplied on_open/on_close hook raises
  | bodyError      -- whatever the body of a with-block raises
  | closeError     -- whatever transport.close() itself raises (PtyProcessError "Could not terminate the child.")
  | privError      -- ScrapliPrivilegeError (user code in a with-body)
  | baseExc        -- a BaseException that is not an Exception (KeyboardInterrupt, SystemExit) raised in a with-body
  | cancelled      -- asyncio.CancelledError reaching a with-body (asyncio stack)
deriving Repr, DecidableEq, Inhabited

inductive Outcome
  | returns
  | raises (e : Exc)
deriving Repr, DecidableEq, Inhabited

inductive Stack | sync | async
deriving Repr, DecidableEq, Inhabited

/-- which transport object is plugged in (its open/close/isalive are modelled per kind) -/
inductive TKind | sim | system | telnet | asynctelnet | paramiko | asyncssh
deriving Repr, DecidableEq, Inhabited

/-- `driver.transport_name` (drives the two in-channel authentication branches of `open`) -/
inductive TName | system | telnet | asynctelnet | paramiko | asyncssh | ssh2
deriving Repr, DecidableEq, Inhabited

/-- `channel_log` argument: False | str or True (a file scrapli opens itself) | a user supplied BytesIO -/
inductive Sink | none | path | bytesio
deriving Repr, DecidableEq, Inhabited

inductive Platform | iosxe | iosxr | nxos | eos | junos | generic
deriving Repr, DecidableEq, Inhabited

/-- device-facing calls made by the platform hooks -/
inductive Act
  | acquirePriv     -- conn.acquire_priv(...)            writes and reads
  | sendCommand     -- conn.send_command(...)            writes and reads
  | sendInput       -- conn.channel.send_input(...)      writes and reads
  | getPrompt       -- conn.get_prompt()                 writes and reads
  | channelWrite    -- conn.channel.write(...)           writes only
  | sendReturn      -- conn.channel.send_return()        writes only
deriving Repr, DecidableEq, Inhabited

def Act.reads : Act → Bool
  | .acquirePriv | .sendCommand | .sendInput | .getPrompt => true
  | .channelWrite | .sendReturn => false

/-- on_open / on_close behaviour -/
inductive Hook
  | none                      -- attribute is None
  | userOk                    -- user hook that returns without touching the device
  | userRaises                -- user hook that raises
  | acts (l : List Act)       -- a hook that talks to the device (the platform defaults)
deriving Repr, DecidableEq, Inhabited

/-- guards of the `if` statements in the four methods -/
inductive Guard
  | always
  | systemNoBypass    -- self.transport_name in ("system",) and not self.auth_bypass
  | telnetNoBypass    -- "telnet" in self.transport_name and not self.auth_bypass
  | hasOnOpen         -- if self.on_open:
  | hasOnClose        -- if self.on_close:
deriving Repr, DecidableEq, Inhabited

inductive Stmt
  | logPre (closing : Bool)      -- self._pre_open_closing_log(closing=…)
  | logPost (closing : Bool)     -- self._post_open_closing_log(closing=…)
  | logCritical                  -- self.logger.critical(…)
  | transportOpen                -- self.transport.open()
  | transportClose               -- self.transport.close()
  | channelOpen                  -- self.channel.open()
  | channelClose                 -- self.channel.close()
  | authSystem                   -- self.channel.channel_authenticate_ssh(…)
  | authTelnet                   -- self.channel.channel_authenticate_telnet(…)
  | onOpen                       -- self.on_open(self)
  | onClose                      -- self.on_close(self)
  | callOpen                     -- self.open()
  | callClose                    -- self.close()
deriving Repr, DecidableEq, Inhabited

structure GS where
  g : Guard
  s : Stmt
deriving Repr, DecidableEq, Inhabited

/-- one top-level statement of a method body; `try` bodies are flat statement lists -/
inductive Node
  | simple (x : GS)
  | tryFinally (body fin : List GS)              -- try: body  finally: fin
  | tryExceptRaise (body handler : List GS)      -- try: body  except Exception as exc: handler; raise ScrapliConnectionError(exc) from exc
  | tryFinallyN (body fin1 fin2 : List GS)       -- try: body  finally: (try: fin1  finally: fin2)
  | tryExceptRaiseN (body h0 h1 h2 : List GS)    -- try: body  except Exception as exc: h0; (try: h1  finally: h2); raise ScrapliConnectionError(exc) from exc
deriving Repr, DecidableEq, Inhabited

abbrev Prog := List Node

/-- the class named in an `issubclass(exception_type, <class>)` test of `__exit__` / `__aexit__` -/
inductive ExcSel | timeout | connError | authFailed | scrapli | exception | baseException
deriving Repr, DecidableEq, Inhabited

/-- does the pending exception of kind `e` pass `issubclass(exception_type, sel)` (scrapli/exceptions.py: every scrapli
    class derives from ScrapliException; ScrapliConnectionNotOpened / ScrapliAuthenticationFailed / ScrapliTimeout are
    direct children of it, NOT of ScrapliConnectionError) -/
def ExcSel.selects : ExcSel → Exc → Bool
  | .timeout, e => e == .timeout
  | .connError, e => e == .connError
  | .authFailed, e => e == .authFailed
  | .scrapli, e => e == .connError || e == .notOpened || e == .timeout || e == .authFailed || e == .privError
  | .exception, e => !(e == .baseExc || e == .cancelled)
  | .baseException, _ => true

/-- the four methods of one driver base class.  `exitOn`: the early-return branches of `__exit__`
    (`if exception_type is not None and issubclass(exception_type, C): <statements>; return`), in source order —
    the program `__exit__` runs depends on the exception the with-body ended with; `exitP` is what runs otherwise -/
structure Code where
  openP : Prog
  closeP : Prog
  enterP : Prog
  exitP : Prog
  exitOn : List (ExcSel × Prog)
deriving Repr, DecidableEq, Inhabited

/-- the per-session fields of the two Telnet transports -/
inductive TnField | eof | raw | cooked | ctrl | counter
deriving Repr, DecidableEq, Inhabited

/-- everything the translator reads off the source besides the four programs -/
structure Facts where
  telnetOpenResets : List TnField        -- fields TelnetTransport.open() sets back to their __init__ value
  asynctelnetOpenResets : List TnField   -- same for AsynctelnetTransport.open()
  channelCloseKeepsUserSink : Bool       -- BaseChannel.close() leaves a user supplied BytesIO open
  paramikoCloseClosesSession : Bool      -- ParamikoTransport.close() closes self.session (not only the channel)
deriving Repr, DecidableEq, Inhabited

end Scrapli.Lifecycle
