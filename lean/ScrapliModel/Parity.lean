/-
  C06, part 1 — the parity table.  Data model of "public interface of a class" as extracted from the
  Python AST by tools/gen/c06.py, and the executable comparison `mismatches` / `parityOK`.
  Core Lean only.  The two tables themselves are GENERATED (ScrapliModel/Gen/Parity.lean).

  What one table row is:  a class (or the pseudo-class "module:<pair>" holding the module-level hook
  functions) with its base classes and its public methods; a method is its name and its parameter list
  in declaration order; a parameter is (name, kind, default) where the default is the canonical
  `ast.unparse` rendering of the default expression.  Async names are already mapped onto the names of
  their sync twins by the generator (class names through the pair table, `__aenter__/__aexit__` onto
  `__enter__/__exit__`), so the comparison is plain equality.
-/
namespace Scrapli.Parity

inductive Kind | posOnly | pos | varArgs | kwOnly | varKw
deriving DecidableEq, Repr

structure Param where
  name : String
  kind : Kind
  default : Option String
deriving DecidableEq, Repr

structure Method where
  name : String
  params : List Param
  isAsync : Bool          -- defined with `async def`
deriving DecidableEq, Repr

structure Cls where
  key : String            -- "<pair>:<sync class name>" | "module:<pair>"
  real : String           -- the name in the source (informational)
  bases : List String     -- base classes, async names mapped onto sync names
  methods : List Method
deriving DecidableEq, Repr

abbrev Table := List Cls

/-- a difference: (class key, method, parameter, field); field ∈ class-missing | bases | method-missing |
    arity | name | kind | default -/
abbrev Mismatch := String × String × String × String

def findCls (t : Table) (key : String) : Option Cls := t.find? (fun c => c.key == key)
def findMethod (c : Cls) (name : String) : Option Method := c.methods.find? (fun m => m.name == name)

/-- positional comparison of two parameter lists -/
def paramMismatches (key meth : String) : List Param → List Param → List Mismatch
  | [], [] => []
  | p :: ps, q :: qs =>
    (if p.name != q.name then [(key, meth, p.name, "name")]
     else (if p.kind != q.kind then [(key, meth, p.name, "kind")] else []) ++
          (if p.default != q.default then [(key, meth, p.name, "default")] else [])) ++
    paramMismatches key meth ps qs
  | _, _ => [(key, meth, "", "arity")]

def methodMismatches (key : String) (d : Cls) (m : Method) : List Mismatch :=
  match findMethod d m.name with
  | none => [(key, m.name, "", "method-missing")]
  | some n => paramMismatches key m.name m.params n.params

def clsMismatches (a : Table) (c : Cls) : List Mismatch :=
  match findCls a c.key with
  | none => [(c.key, "", "", "class-missing")]
  | some d =>
    (if c.bases != d.bases then [(c.key, "", "", "bases")] else []) ++
    c.methods.flatMap (methodMismatches c.key d)

/-- every way in which the async table fails to offer what the sync table offers -/
def mismatches (s a : Table) : List Mismatch := s.flatMap (clsMismatches a)

/-- every public method of every sync class exists on the async twin with equal parameter names, kinds,
    defaults and order (methods only the async class has are allowed: the property speaks about
    "every public method of a sync class") -/
def parityOK (s a : Table) : Bool := (mismatches s a).isEmpty

def firstMismatch (s a : Table) : Option Mismatch := (mismatches s a).head?

/-- parity up to an explicit list of known differences -/
def parityOKModulo (known : List Mismatch) (s a : Table) : Bool :=
  (mismatches s a).all (fun x => known.contains x)

/-- methods only the async side has (reported, never failing) -/
def asyncOnly (s a : Table) : List (String × String) :=
  a.flatMap fun d =>
    match findCls s d.key with
    | none => [(d.key, "")]
    | some c => (d.methods.filter (fun n => (findMethod c n.name).isNone)).map (fun n => (d.key, n.name))

/-- coroutine discipline of the two tables: every method of the sync table is a plain `def`; a method of the
    async table is an `async def` exactly when it is not in the audited list `plain` of (class key, method).
    Result: (class key, method, what) for every violation. -/
def coroutineMismatches (plain : List (String × String)) (s a : Table) : List (String × String × String) :=
  (s.flatMap fun c => (c.methods.filter (·.isAsync)).map fun m => (c.key, m.name, "async def in a sync class")) ++
  (a.flatMap fun d => (d.methods.filter (fun n => n.isAsync == plain.contains (d.key, n.name))).map fun n =>
      (d.key, n.name, if n.isAsync then "async def but audited as plain" else "plain def but not audited as plain"))

def renderMismatch (x : Mismatch) : String := s!"{x.1}|{x.2.1}|{x.2.2.1}|{x.2.2.2}"

end Scrapli.Parity
