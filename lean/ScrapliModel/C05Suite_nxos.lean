import ScrapliModel.Gen.C05Tables_nxos
import ScrapliModel.Spec.PromptGrammar
/- C05: the suite(s) of table `nxos` — which prompt grammar (Spec) is checked against this generated table.
   `…Full`: the modes whose grammar is restricted by the predicate of an open finding, WITHOUT the restriction. -/
namespace Scrapli.C05
open Scrapli.Regex Scrapli.PromptClass Scrapli.Spec
def nxos : Suite := ⟨"nxos", Gen.C05.nxos, PromptGrammar.nxos⟩
def nxosFull : Suite := ⟨"nxosFull", Gen.C05.nxos, PromptGrammar.nxosFull⟩
end Scrapli.C05
