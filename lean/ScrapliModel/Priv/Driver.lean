import ScrapliModel.Priv.Device
/-
  Model of the privilege handling of scrapli/driver/network/{sync,async}_driver.py (textual twins)
  and of the five platform drivers' `_abort_config` / `register_configuration_session`,
  running against a device `Dev σ`.  Core Lean only.
-/
namespace Scrapli.Priv

/-- how the nested `send_configs` of an `_abort_config` chooses its privilege_level -/
inductive LevelArg
  | default                          -- no keyword: the default configuration level
  | current                          -- privilege_level=self._current_priv_level.name
  | currentIfPrefix (p : String)     -- the current level if its name starts with p, else the default
deriving Repr, DecidableEq

/-- the shapes of `_abort_config` found in the tree (recovered from the AST by tools/gen/privgen.py) -/
inductive AbortSpec
  | none                                              -- NetworkDriver / IOS-XE: `pass`
  | always (cmd : Line) (lvl : Name)                  -- IOS-XR: send_input(cmd); belief := levels[lvl]
  | ifSession (cmd : Line) (lvl : Name)               -- EOS / NX-OS: only if "config\\-s" in belief.pattern
  | viaConfigs (lines : List Line) (arg : LevelArg) (lvl : Name)  -- Junos: self.send_configs(lines[, privilege_level=arg]); belief := levels[lvl]
deriving Repr, DecidableEq

/-- `_create_configuration_session` (EOS / NX-OS base drivers): the level registered for a name -/
structure SessTemplate where
  prev : Name
  escPrefix : String        -- escalate = escPrefix ++ session name
  desc : Line
  keyPrefix : String        -- share-group key of the session pattern:
  keyTake : Nat             --   keyPrefix ++ (session name).take keyTake   (EOS: 6, NX-OS: 0)
  sess : Bool               -- "config\\-s" in the session pattern
deriving Repr, DecidableEq

def SessTemplate.mk' (s : SessTemplate) (name : Name) : Level :=
  { name := name, prev := s.prev, esc := s.escPrefix ++ name, desc := s.desc, auth := false,
    pat := s.keyPrefix ++ String.ofList (name.toList.take s.keyTake), sess := s.sess }

/-- the statements found in the platforms' `on_open` / `on_close` hooks (recovered from the AST) -/
inductive HookStmt
  | acquireDefault            -- conn.acquire_priv(desired_priv=conn.default_desired_privilege_level)
  | command (line : Line)     -- conn.send_command(command=line)
  | input (line : Line)       -- conn.channel.send_input(channel_input=line)
  | raw (line : Line)         -- conn.channel.write(line); conn.channel.send_return()   (nothing is read)
deriving Repr, DecidableEq

/-- what is fixed for one connection -/
structure Cfg where
  ord : Table → Name → List Name      -- Python's iteration order of the set `_priv_graph[a]` for table t
  default : Name                      -- default_desired_privilege_level
  secondary : Line := ""              -- auth_secondary
  abort : AbortSpec := .none
  sess : Option SessTemplate := none
  onOpen : List HookStmt := []        -- the platform's on_open hook
  onClose : List HookStmt := []       -- the platform's on_close hook

inductive Kind | command | config | interactive
deriving Repr, DecidableEq

/-- ghost record of one user line: the level the calling operation named (`none`: the operation
    named none — generic-driver mode), the device's true mode when it executed the line -/
structure ULine where
  asked : Option Name
  actual : Name
  line : Line
  kind : Kind
deriving Repr, DecidableEq

/-- the channel as the driver sees it: the device behind it, whether a timeout closed the
    transport, and (ghost) the number of get_prompt rounds made so far -/
structure Chan (σ : Type) where
  dev : σ
  closed : Bool := false
  rounds : Nat := 0

/-- the closed system: driver state + channel/device + ghosts -/
structure W (σ : Type) where
  tbl : Table                 -- self.privilege_levels
  belief : Name := DUMMY      -- self._current_priv_level.name
  generic : Bool := false     -- self._generic_driver_mode
  ch : Chan σ
  ulog : List ULine := []     -- ghost
  hazard : Bool := false      -- ghost: see `acquireIter`

variable {σ : Type}

/-- one write + return + read; `none` = the transport is closed -/
def io (d : Dev σ) (t : Table) (ch : Chan σ) (line : Line) : Chan σ × Option Reply :=
  if ch.closed then (ch, none)
  else ({ ch with dev := (d.exec t ch.dev line).1 }, some (d.exec t ch.dev line).2)

/-- a read that never completes: the timeout decorator closes the transport and raises -/
def timedOut (ch : Chan σ) : Chan σ := { ch with closed := true }

/-- `channel.get_prompt()` then `_determine_current_priv` (sync_driver.py:165, base_driver.py:336) -/
def getPrompt (d : Dev σ) (t : Table) (ch : Chan σ) : Chan σ × Except Outcome (List Name) :=
  match io d t ch "" with
  | (ch, none) => ({ ch with rounds := ch.rounds + 1 }, .error .connErr)
  | (ch, some (.prompt keys _)) => ({ ch with rounds := ch.rounds + 1 }, .ok (classify t keys))
  | (ch, some _) => (timedOut { ch with rounds := ch.rounds + 1 }, .error .timeout)

/-- `channel.send_input(line)`: ok with the failed flag, or timeout -/
def sendInput (d : Dev σ) (t : Table) (ch : Chan σ) (line : Line) : Chan σ × Except Outcome Bool :=
  match io d t ch line with
  | (ch, none) => (ch, .error .connErr)
  | (ch, some (.prompt _ failed)) => (ch, .ok failed)
  | (ch, some _) => (timedOut ch, .error .timeout)

/-- does the reply end one event of the escalation dialogue?  Awaited: the event's own response
    (event 1: `escalate_prompt`, i.e. the password prompt; event 2: the new level's pattern) or one
    of `interaction_complete_patterns` = the patterns of the previous and of the new level -/
def eventDone (expectPw : Bool) (p l : Level) : Reply → Bool
  | .password => expectPw
  | .prompt keys _ => keys.contains p.pat || keys.contains l.pat
  | .silent => false

/-- did the read of an interact event end on one of `interaction_complete_patterns` rather than on the event's
    own expected response (`BaseChannel._interaction_complete`; in `_escalate` the complete patterns are the
    previous and the new level's prompt, event 1 expects the password prompt) -/
def endedOnComplete : Reply → Bool
  | .prompt _ _ => true
  | _ => false

/-- the second event of the escalation dialogue: (auth_secondary, new level's pattern, hidden) -/
def escalateSecond (c : Cfg) (d : Dev σ) (t : Table) (ch : Chan σ) (l p : Level) : Chan σ × Outcome :=
  match io d t ch c.secondary with
  | (ch, none) => (ch, .connErr)
  | (ch, some r2) => if eventDone false p l r2 then (ch, .ok) else (timedOut ch, .authFail)

/-- the authenticated branch of `_escalate` (sync_driver.py:112-127): `send_interactive` with the events
    (escalate, escalate_prompt, False), (auth_secondary, pattern, True); a timeout becomes
    ScrapliAuthenticationFailed.  `send_inputs_interact` leaves the event loop when event 1 was answered by one
    of the completion patterns (`Gen.Priv.interactBreaksOnComplete`, from the AST): then no password is typed. -/
def escalateAuth (c : Cfg) (d : Dev σ) (t : Table) (ch : Chan σ) (l p : Level) : Chan σ × Outcome :=
  match io d t ch l.esc with
  | (ch, none) => (ch, .connErr)
  | (ch, some r1) =>
    if eventDone true p l r1 then
      if Gen.Priv.interactBreaksOnComplete && endedOnComplete r1 then (ch, .ok)
      else escalateSecond c d t ch l p
    else (timedOut ch, .authFail)

/-- `_escalate` (sync_driver.py:93-127) -/
def escalate (c : Cfg) (d : Dev σ) (t : Table) (ch : Chan σ) (l : Level) : Chan σ × Outcome :=
  if l.auth = false then
    match sendInput d t ch l.esc with                                  -- :110
    | (ch, .ok _) => (ch, .ok)
    | (ch, .error e) => (ch, e)
  else
    match lookup t l.prev with                                         -- :119 privilege_levels[previous_priv]
    | none => (ch, .keyErr)
    | some p => escalateAuth c d t ch l p

/-- one pass of the body of the `while True` loop of `acquire_priv` (sync_driver.py:165-177):
    `some o` = the call ends with `o`, `none` = a transition was attempted, go round again.
    Ghost `hazard`: set when the prompt is read with an unknown belief in a level that shares its
    prompt with the requested level without being it. -/
def acquireIter (c : Cfg) (d : Dev σ) (dest : Name) (w : W σ) : W σ × Option Outcome :=
  match getPrompt d w.tbl w.ch with                                    -- :165
  | (ch, .error e) => ({ w with ch := ch }, some e)
  | (ch, .ok cls) =>
    let hz := w.hazard || (w.belief == DUMMY && cls.contains dest && d.mode ch.dev != dest)
    match processAcquire w.tbl (c.ord w.tbl) w.belief dest cls with    -- :166-169
    | (b, .error e) => ({ w with ch := ch, hazard := hz, belief := b }, some e)
    | (b, .ok .noAction) => ({ w with ch := ch, hazard := hz, belief := b }, some .ok)   -- :171-173
    | (b, .ok (.deescalate l)) =>
      match sendInput d w.tbl ch l.desc with                           -- :174-175, :143
      | (ch, .error e) => ({ w with ch := ch, hazard := hz, belief := b }, some e)
      | (ch, .ok _) => ({ w with ch := ch, hazard := hz, belief := b }, none)
    | (b, .ok (.escalate l)) =>
      match escalate c d w.tbl ch l with                               -- :176-177
      | (ch, .ok) => ({ w with ch := ch, hazard := hz, belief := b }, none)
      | (ch, e) => ({ w with ch := ch, hazard := hz, belief := b }, some e)

/-- the `while True` loop of `acquire_priv` (sync_driver.py:164-182); `count` is
    `privilege_change_count`.  `fuel` only makes the definition total: C04 `acquire_bounded`
    proves it is never exhausted. -/
def acquireLoop (c : Cfg) (d : Dev σ) (dest : Name) : Nat → Nat → W σ → W σ × Outcome
  | 0, _, w => (w, .outOfFuel)
  | fuel + 1, count, w =>
    match acquireIter c d dest w with
    | (w, some o) => (w, o)
    | (w, none) =>
      if count + 1 > w.tbl.length * Gen.Priv.loopFactor then (w, .privErr)   -- :179-182
      else acquireLoop c d dest fuel (count + 1) w

/-- `acquire_priv(desired_priv)` (sync_driver.py:145-182) -/
def acquirePriv (c : Cfg) (d : Dev σ) (w : W σ) (dest : Name) : W σ × Outcome :=
  if (lookup w.tbl dest).isNone then (w, .privErr)                     -- :160 _validate_privilege_level_name
  else acquireLoop c d dest (Gen.Priv.loopFactor * w.tbl.length + 2) 0 w

/-- `_acquire_appropriate_privilege_level(privilege_level)` (sync_driver.py:184-217) -/
def acquireAppropriate (c : Cfg) (d : Dev σ) (w : W σ) (level : Name) : W σ × Outcome :=
  if level = "" ∧ w.generic = true then (w, .ok)                       -- :207
  else if level ≠ "" ∧ (lookup w.tbl level).isNone then (w, .privErr)  -- :211
  else
    let resolved := if level ≠ "" then level else c.default            -- :212-214
    if w.belief ≠ resolved then acquirePriv c d w resolved             -- :216-217
    else (w, .ok)

/-- ghost: record a user line (`tag = none`: a driver line, not recorded) -/
def tagLog (tag : Option (Option Name × Kind)) (ulog : List ULine) (mode : Name) (line : Line) : List ULine :=
  match tag with
  | some (asked, kind) => ulog ++ [⟨asked, mode, line, kind⟩]
  | none => ulog

/-- GenericDriver.send_commands (generic/sync_driver.py:244-277): send each line, stop after a
    failed one when `stop`; returns whether any response failed.  `tag`: ghost, how to record user
    lines (`none`: these are driver lines). -/
def sendLines (d : Dev σ) (tag : Option (Option Name × Kind)) (stop : Bool) :
    List Line → Bool → W σ → W σ × Except Outcome Bool
  | [], anyFailed, w => (w, .ok anyFailed)
  | line :: rest, anyFailed, w =>
    match sendInput d w.tbl w.ch line with
    | (ch, .error e) => ({ w with ch := ch }, .error e)
    | (ch, .ok failed) =>
      let ulog := tagLog tag w.ulog (d.mode w.ch.dev) line
      if stop && failed then ({ w with ch := ch, ulog := ulog }, .ok true)
      else sendLines d tag stop rest (anyFailed || failed) { w with ch := ch, ulog := ulog }

/-- NetworkDriver.send_command(s) (sync_driver.py:219-323) -/
def sendCommands (c : Cfg) (d : Dev σ) (w : W σ) (lines : List Line) (stop : Bool) : W σ × Outcome :=
  match acquireAppropriate c d w "" with                               -- :250 / :305
  | (w, .ok) =>
    if lines = [] then (w, .indexErr) else                             -- `commands[-1]`
    let asked := if w.generic then none else some c.default
    match sendLines d (some (asked, .command)) stop lines false w with
    | (w, .ok _) => (w, .ok)
    | (w, .error e) => (w, e)
  | (w, e) => (w, e)

/-- `send_configs` without the abort step (sync_driver.py:531-548); `user = false` for the nested
    call made by the Junos `_abort_config` -/
def sendConfigsCore (c : Cfg) (d : Dev σ) (w : W σ) (lines : List Line) (level : Name) (stop user : Bool) :
    W σ × Except Outcome Bool :=
  if w.generic = true then (w, .error .privErr)                        -- base_driver.py:550
  else if level ≠ "" ∧ (lookup w.tbl level).isNone then (w, .error .privErr)  -- :562-563
  else
    let resolved := if level ≠ "" then level else Gen.Priv.configLevel      -- :564-566
    match (if w.belief ≠ resolved then acquirePriv c d w resolved else (w, .ok)) with  -- :537-538
    | (w, .ok) =>
      if lines = [] then (w, .error .indexErr) else
      sendLines d (if user then some (some resolved, .config) else none) stop lines false w
    | (w, e) => (w, .error e)

/-- `self._current_priv_level = self.privilege_levels[lvl]` -/
def setBelief (w : W σ) (lvl : Name) : W σ × Outcome :=
  match lookup w.tbl lvl with
  | some _ => ({ w with belief := lvl }, .ok)
  | none => (w, .keyErr)

/-- `self.channel.send_input(cmd)` then the belief assignment (IOS-XR, EOS, NX-OS abort) -/
def abortLine (d : Dev σ) (w : W σ) (cmd : Line) (lvl : Name) : W σ × Outcome :=
  match sendInput d w.tbl w.ch cmd with
  | (ch, .ok _) => setBelief { w with ch := ch } lvl
  | (ch, .error e) => ({ w with ch := ch }, e)

/-- `"config\\-s" in self._current_priv_level.pattern` -/
def beliefIsSession (w : W σ) : Bool :=
  match lookup w.tbl w.belief with
  | some l => l.sess
  | none => false

/-- the privilege_level argument of the nested `send_configs` of an `_abort_config` -/
def nestedArg (w : W σ) : LevelArg → Name
  | .default => ""
  | .current => w.belief
  | .currentIfPrefix p => if p.isPrefixOf w.belief then w.belief else ""

/-- the platform's `_abort_config` -/
def abortConfig (c : Cfg) (d : Dev σ) (w : W σ) : W σ × Outcome :=
  match c.abort with
  | .none => (w, .ok)
  | .always cmd lvl => abortLine d w cmd lvl
  | .ifSession cmd lvl => if beliefIsSession w then abortLine d w cmd lvl else (w, .ok)
  | .viaConfigs lines arg lvl =>
    match sendConfigsCore c d w lines (nestedArg w arg) false false with
    | (w, .ok _) => setBelief w lvl
    | (w, .error e) => (w, e)

/-- NetworkDriver.send_configs / send_config (sync_driver.py:486-613) -/
def sendConfigs (c : Cfg) (d : Dev σ) (w : W σ) (lines : List Line) (level : Name) (stop : Bool) :
    W σ × Outcome :=
  match sendConfigsCore c d w lines level stop true with
  | (w, .ok anyFailed) =>
    if stop && anyFailed then abortConfig c d w else (w, .ok)           -- :550-551
  | (w, .error e) => (w, e)

/-- NetworkDriver.send_interactive (sync_driver.py:377-469) with events `(line, "")`: every event
    waits for any CLI prompt -/
def sendInteractive (c : Cfg) (d : Dev σ) (w : W σ) (lines : List Line) (level : Name) : W σ × Outcome :=
  match acquireAppropriate c d w level with                            -- :454
  | (w, .ok) =>
    let asked := if level ≠ "" then some level else if w.generic then none else some c.default
    match sendLines d (some (asked, .interactive)) false lines false w with
    | (w, .ok _) => (w, .ok)
    | (w, .error e) => (w, e)
  | (w, e) => (w, e)

/-- EOS / NX-OS `register_configuration_session` = `_create_configuration_session` +
    `update_privilege_levels` (the graph is rebuilt from the new table on the next use) -/
def registerSession (c : Cfg) (w : W σ) (name : Name) : W σ × Outcome :=
  match c.sess with
  | none => (w, .keyErr)
  | some tpl =>
    if (lookup w.tbl name).isSome then (w, .valueErr)
    else ({ w with tbl := w.tbl ++ [tpl.mk' name] }, .ok)

/-- the `_generic_driver_mode` setter (base_driver.py:391-418) -/
def setGeneric (w : W σ) (v : Bool) : W σ :=
  { w with belief := if v then DUMMY else w.belief, generic := v }

/-- the operation alphabet of C03 -/
inductive Op
  | sendCommand (line : Line)
  | sendCommands (lines : List Line) (stop : Bool)
  | sendConfigs (lines : List Line) (level : Name) (stop : Bool)
  | acquire (level : Name)
  | interactive (lines : List Line) (level : Name)
  | register (name : Name)
  | setGeneric (v : Bool)
deriving Repr, DecidableEq

def step (c : Cfg) (d : Dev σ) (w : W σ) : Op → W σ × Outcome
  | .sendCommand line => sendCommands c d w [line] false
  | .sendCommands lines stop => sendCommands c d w lines stop
  | .sendConfigs lines level stop => sendConfigs c d w lines level stop
  | .acquire level => acquirePriv c d w level
  | .interactive lines level => sendInteractive c d w lines level
  | .register name => registerSession c w name
  | .setGeneric v => (setGeneric w v, .ok)

/-- one statement of an on_open / on_close hook.  Hook lines are recorded in the ghost log like
    command lines: they are expected at the default desired level. -/
def hookStmt (c : Cfg) (d : Dev σ) (w : W σ) : HookStmt → W σ × Outcome
  | .acquireDefault => acquirePriv c d w c.default
  | .command line => sendCommands c d w [line] false
  | .input line =>
    match sendLines d (some (some c.default, .command)) false [line] false w with
    | (w, .ok _) => (w, .ok)
    | (w, .error e) => (w, e)
  | .raw line =>
    match io d w.tbl w.ch line with
    | (ch, none) => ({ w with ch := ch }, .connErr)
    | (ch, some _) => ({ w with ch := ch, ulog := tagLog none w.ulog (d.mode w.ch.dev) line }, .ok)

/-- a hook: its statements in order, the first exception ends it -/
def runHook (c : Cfg) (d : Dev σ) : W σ → List HookStmt → W σ × Outcome
  | w, [] => (w, .ok)
  | w, st :: rest =>
    match hookStmt c d w st with
    | (w, .ok) => runHook c d w rest
    | (w, e) => (w, e)

/-- `Driver.close()` (base/sync_driver.py:120-145): the on_close hook, then — always — the transport is closed.
    The belief (`_current_priv_level`) stays on the connection object. -/
def closeConn (c : Cfg) (d : Dev σ) (w : W σ) : W σ × Outcome :=
  match runHook c d w c.onClose with
  | (w, o) => ({ w with ch := { w.ch with closed := true } }, o)

/-- `Driver.open()` on the same object (:86-118): a new session on the device, then the on_open hook -/
def openConn (c : Cfg) (d : Dev σ) (w : W σ) : W σ × Outcome :=
  runHook c d { w with ch := { w.ch with dev := d.reset w.ch.dev, closed := false } } c.onOpen

/-- operations of a connection's whole life: the C03 alphabet plus close / re-open of the same object -/
inductive XOp
  | op (o : Op)
  | openConn
  | closeConn
deriving Repr, DecidableEq

def xstep (c : Cfg) (d : Dev σ) (w : W σ) : XOp → W σ × Outcome
  | .op o => step c d w o
  | .openConn => openConn c d w
  | .closeConn => closeConn c d w

def xrun (c : Cfg) (d : Dev σ) : W σ → List XOp → W σ
  | w, [] => w
  | w, o :: os => xrun c d (xstep c d w o).1 os

/-- a history of operations on one connection (exceptions are caught by the caller, the
    connection object lives on) -/
def run (c : Cfg) (d : Dev σ) : W σ → List Op → W σ
  | w, [] => w
  | w, op :: ops => run c d (step c d w op).1 ops

end Scrapli.Priv
