import ScrapliModel.Gen.PrivConsts
/-
  Model of the privilege table, graph and path search of
  scrapli/driver/network/base_driver.py (`PrivilegeLevel`, `_build_priv_graph`,
  `_build_priv_change_map`, `_determine_current_priv`, `_process_acquire_priv`).
  Core Lean only.  Shared by C04 (base) and C03.
-/
namespace Scrapli.Priv

abbrev Name := String
abbrev Line := String

/-- `PrivilegeLevel` (base_driver.py:21-72).  `pattern` and `not_contains` are not interpreted here:
    `pat` is a key such that two levels have the same key iff their (pattern, not_contains) are
    equal — the levels of one key are a *share group* (they classify exactly the same prompts).
    `sess` is the test `"config\\-s" in pattern` made by the EOS / NX-OS `_abort_config`. -/
structure Level where
  name : Name
  prev : Name          -- previous_priv ("" = none, base_driver.py:185 tests truthiness)
  esc : Line           -- escalate
  desc : Line          -- deescalate
  auth : Bool          -- escalate_auth
  pat : String         -- share-group key of (pattern, not_contains)
  sess : Bool := false
deriving Repr, DecidableEq

/-- `privilege_levels` : a dict keyed by level name, in insertion order -/
abbrev Table := List Level

/-- `DUMMY_PRIV_LEVEL.name` (base_driver.py:75): the belief "unknown" -/
def DUMMY : Name := Scrapli.Gen.Priv.dummyName

def names (t : Table) : List Name := t.map (·.name)

/-- `self.privilege_levels.get(n)` / `self.privilege_levels[n]` -/
def lookup (t : Table) (n : Name) : Option Level := t.find? (fun l => l.name == n)

/-- parent pointer: `previous_priv` when truthy -/
def parent (t : Table) (n : Name) : Option Name :=
  match lookup t n with
  | some l => if l.prev = "" then none else some l.prev
  | none => none

/-- the *set* `_priv_graph[a]` after `_build_priv_graph` (base_driver.py:181-192), listed in one
    canonical order: the previous level, then every level naming `a` as its previous level.
    Python iterates the set in an unspecified order, see `buildMap`'s parameter `nb`. -/
def neighbours (t : Table) (a : Name) : List Name :=
  (match parent t a with | some p => [p] | none => []) ++
  (t.filter (fun l => l.prev == a && l.prev != "")).map (·.name)

/-- first non-empty result (`if updated_priv_change_map: return updated_priv_change_map`) -/
def firstNonEmpty {α β : Type} (f : α → List β) : List α → List β
  | [] => []
  | x :: xs => match f x with
    | [] => firstNonEmpty f xs
    | r => r

/-- `_build_priv_change_map` (base_driver.py:194-235) exactly as coded: a depth-first search whose
    visited set is the path so far.  `nb a` is the order in which Python happens to iterate the set
    `_priv_graph[a]` (a parameter: every order is covered).  `fuel` bounds the recursion depth
    (Python's recursion is bounded by the number of graph nodes because the path never repeats). -/
def buildMap (nb : Name → List Name) : Nat → Name → Name → List Name → List Name
  | 0, _, _, _ => []
  | fuel + 1, start, dest, acc =>
    let acc' := acc ++ [start]                       -- :219
    if start = dest then acc'                        -- :221
    else firstNonEmpty                               -- :224-232
      (fun x => if x ∈ acc' then [] else buildMap nb fuel x dest acc') (nb start)

/-- the top-level call `_build_priv_change_map(starting, destination)` -/
def changeMap (t : Table) (nb : Name → List Name) (a b : Name) : List Name :=
  buildMap nb (t.length + 1) a b []

/-- `_determine_current_priv` on a prompt that is matched by exactly the (pattern, not_contains)
    pairs whose key is in `keys`: the matching level names in table order (base_driver.py:131-147) -/
def classify (t : Table) (keys : List String) : List Name :=
  (t.filter (fun l => keys.contains l.pat)).map (·.name)

inductive Action
  | noAction
  | escalate (l : Level)
  | deescalate (l : Level)
deriving Repr, DecidableEq

/-- the Python exceptions that can leave the modelled code -/
inductive Outcome
  | ok
  | privErr      -- ScrapliPrivilegeError
  | authFail     -- ScrapliAuthenticationFailed
  | timeout      -- ScrapliTimeout
  | valueErr     -- ScrapliValueError (session name already registered)
  | indexErr     -- IndexError: `map_to_destination_priv[1]` on a map shorter than 2 / empty command list
  | keyErr       -- KeyError: `self.privilege_levels[x]` for an unknown x
  | connErr      -- ScrapliConnectionNotOpened: an earlier timeout closed the transport
  | outOfFuel    -- model artefact (proved unreachable: C04 `acquire_bounded`)
deriving Repr, DecidableEq

/-- which level the driver takes the device to be in (base_driver.py:338-347): the believed level
    if the prompt admits it, else the destination if the prompt admits it, else the first match -/
def pickCurrent (belief dest : Name) (cls : List Name) (c0 : Name) : Name :=
  if belief ∈ cls then belief                                         -- :338
  else if dest ∈ cls then dest                                        -- :340
  else c0                                                             -- :347

/-- escalate or deescalate (base_driver.py:356-369): the first hop of the change map decides -/
def nextAction (t : Table) (nb : Name → List Name) (cur : Level) (dest : Name) : Except Outcome Action :=
  match changeMap t nb cur.name dest with                             -- :356
  | _ :: n1 :: _ =>
    match lookup t n1 with                                            -- privilege_levels[map[1]]
    | none => .error .keyErr
    | some next =>
      if next.prev ≠ cur.name then .ok (.deescalate cur)              -- :364-366
      else .ok (.escalate next)                                       -- :369
  | _ => .error .indexErr                                             -- `[1]` on a short list

/-- `_process_acquire_priv` lines 336-369.  Input: belief, destination, the classification of the
    current prompt.  Output: the new belief and the action (or the exception). -/
def processAcquire (t : Table) (nb : Name → List Name) (belief dest : Name) (cls : List Name) :
    Name × Except Outcome Action :=
  match cls with
  | [] => (belief, .error .privErr)                                   -- :148-151
  | c0 :: _ =>
    match lookup t (pickCurrent belief dest cls c0) with
    | none => (belief, .error .keyErr)
    | some cur =>
      if cur.name = dest then (dest, .ok .noAction)                   -- :349-354
      else (DUMMY, nextAction t nb cur dest)                          -- belief := DUMMY (:362)

end Scrapli.Priv
