import ScrapliModel.Priv.Driver
/-
  The memo of `_determine_current_priv` (`functools.lru_cache`, base_driver.py:116) and its
  invalidation by `update_privilege_levels` (:237-264), which runs whenever a configuration session
  is registered.  The driver model in Driver.lean classifies prompts without a memo; C04
  `classification_cache_coherent` is what licenses that: as long as every table change clears the
  memo, memoised classification = classification on the current table.  (Eviction from the bounded
  LRU only drops entries and is not modelled.)
-/
namespace Scrapli.Priv

/-- prompt (identified by the share-group keys that match it) ↦ classification when first seen -/
abbrev Memo := List (List String × List Name)

structure CState where
  tbl : Table
  memo : Memo := []

/-- `_determine_current_priv(prompt)` behind the memo -/
def classifyMemo (memoised : Bool) (s : CState) (keys : List String) : List Name × CState :=
  if memoised then
    match s.memo.find? (fun e => e.1 == keys) with
    | some e => (e.2, s)
    | none => (classify s.tbl keys, { s with memo := (keys, classify s.tbl keys) :: s.memo })
  else (classify s.tbl keys, s)

/-- a level is appended (`_create_configuration_session`) and `update_privilege_levels` runs;
    `clears`: does it reach `cache_clear()` -/
def registerMemo (clears : Bool) (s : CState) (l : Level) : CState :=
  { tbl := s.tbl ++ [l], memo := if clears then [] else s.memo }

inductive COp
  | classify (keys : List String)
  | register (l : Level)

/-- a history of classifications and registrations; returns the classifications made, in order -/
def runMemo (memoised clears : Bool) : CState → List COp → List (List Name)
  | _, [] => []
  | s, .classify keys :: ops => (classifyMemo memoised s keys).1 :: runMemo memoised clears (classifyMemo memoised s keys).2 ops
  | s, .register l :: ops => runMemo memoised clears (registerMemo clears s l) ops

end Scrapli.Priv
