import ScrapliModel.Bytes
import ScrapliModel.Priv.Driver
/-
  Line protocol of the C03 / C04 model drivers (Drv/C03.lean, Drv/C04.lean): one request line is one
  connection (table, configuration, device, history of operations); the reply line gives, per
  operation, outcome / belief / rounds / hazard / device-log length, then the device log and the
  ghost user-line log.  Strings travel hex-encoded ("-" = empty).
  Separators by nesting depth: " "  ";"  ","  ":"  "."
-/
namespace Scrapli.Priv.Proto
open Scrapli Scrapli.Priv

def hx (s : String) : String := Hex.encode (ofString s)

def unhx (s : String) : Option String := do
  let b ← Hex.decode s
  String.fromUTF8? (ByteArray.mk b.toArray)

def splitL (sep : String) (s : String) : List String := if s == "." then [] else s.splitOn sep

def pBool (s : String) : Option Bool := if s == "1" then some true else if s == "0" then some false else none

def pLevel (s : String) : Option Level :=
  match s.splitOn "," with
  | [n, p, e, d, a, k, ss] => do
    pure { name := ← unhx n, prev := ← unhx p, esc := ← unhx e, desc := ← unhx d, auth := ← pBool a,
           pat := ← unhx k, sess := ← pBool ss }
  | _ => none

def pLines (s : String) : Option (List Line) := (splitL ":" s).mapM unhx

def pAbort (s : String) : Option AbortSpec :=
  match s.splitOn "," with
  | ["n"] => some .none
  | ["a", c, l] => do pure (.always (← unhx c) (← unhx l))
  | ["s", c, l] => do pure (.ifSession (← unhx c) (← unhx l))
  | ["v", ls, a, l] => do
    let arg ← match a.splitOn "." with
      | ["d"] => some LevelArg.default
      | ["c"] => some LevelArg.current
      | ["p", p] => (unhx p).map LevelArg.currentIfPrefix
      | _ => none
    pure (.viaConfigs (← pLines ls) arg (← unhx l))
  | _ => none

def pSess (s : String) : Option (Option SessTemplate) :=
  match s.splitOn "," with
  | ["n"] => some none
  | [p, e, d, k, t, ss] => do
    pure (some { prev := ← unhx p, escPrefix := ← unhx e, desc := ← unhx d, keyPrefix := ← unhx k,
                 keyTake := ← t.toNat?, sess := ← pBool ss })
  | _ => none

def pPair (s : String) : Option (Name × Line) :=
  match s.splitOn "," with
  | [a, b] => do pure (← unhx a, ← unhx b)
  | _ => none

def pTriple (s : String) : Option (Name × Line × Name) :=
  match s.splitOn "," with
  | [a, b, c] => do pure (← unhx a, ← unhx b, ← unhx c)
  | _ => none

def pPassword (s : String) : Option (Option Line) :=
  if s == "n" then some none else
  match s.splitOn "," with
  | ["s", p] => (unhx p).map some
  | _ => none

/-- one snapshot of the neighbour orders: `<table length>,<node>.<nb>.<nb>:<node>...` -/
def pSnapshot (s : String) : Option (Nat × List (Name × List Name)) :=
  match s.splitOn "," with
  | [n, nodes] => do
    let ents ← (splitL ":" nodes).mapM (fun e =>
      match e.splitOn "." with
      | a :: nbs => do pure (← unhx a, ← nbs.mapM unhx)
      | [] => none)
    pure (← n.toNat?, ents)
  | _ => none

def mkOrd (snaps : List (Nat × List (Name × List Name))) : Table → Name → List Name :=
  fun t a =>
    match snaps.find? (fun s => s.1 == t.length) with
    | some s => match s.2.find? (fun e => e.1 == a) with
      | some e => e.2
      | none => neighbours t a
    | none => neighbours t a

def pOp (s : String) : Option Op :=
  match s.splitOn "," with
  | ["c", l] => do pure (.sendCommand (← unhx l))
  | ["C", st, ls] => do pure (.sendCommands (← pLines ls) (← pBool st))
  | ["G", st, lv, ls] => do pure (.sendConfigs (← pLines ls) (← unhx lv) (← pBool st))
  | ["A", lv] => do pure (.acquire (← unhx lv))
  | ["I", lv, ls] => do pure (.interactive (← pLines ls) (← unhx lv))
  | ["R", n] => do pure (.register (← unhx n))
  | ["g", v] => do pure (.setGeneric (← pBool v))
  | _ => none

def pXOp (s : String) : Option XOp :=
  if s == "O" then some .openConn else if s == "X" then some .closeConn else (pOp s).map .op

def pHook (s : String) : Option (List HookStmt) :=
  (splitL ";" s).mapM (fun e =>
    match e.splitOn "," with
    | ["a"] => some HookStmt.acquireDefault
    | ["c", l] => (unhx l).map HookStmt.command
    | ["i", l] => (unhx l).map HookStmt.input
    | ["r", l] => (unhx l).map HookStmt.raw
    | _ => none)

def outcomeStr : Outcome → String
  | .ok => "ok" | .privErr => "priv" | .authFail => "auth" | .timeout => "timeout"
  | .valueErr => "value" | .indexErr => "index" | .keyErr => "key" | .connErr => "conn"
  | .outOfFuel => "FUEL"

def kindStr : Kind → String
  | .command => "c" | .config => "g" | .interactive => "i"

structure Req where
  cfg : Cfg
  mcfg : MCfg
  w : W MDev
  ops : List XOp

def pReq (line : String) : Option Req :=
  match line.trimAscii.toString.splitOn " " with
  | [tb, dflt, sec, ab, ss, blocked, pw, pwl, fl, extra, login, belief, ords, hko, hkc, opened, ops] => do
    let t ← (splitL ";" tb).mapM pLevel
    let snaps ← (splitL ";" ords).mapM pSnapshot
    let cfg : Cfg := { ord := mkOrd snaps, default := ← unhx dflt, secondary := ← unhx sec,
                       abort := ← pAbort ab, sess := ← pSess ss,
                       onOpen := ← pHook hko, onClose := ← pHook hkc }
    let mcfg : MCfg := { blocked := ← (splitL ";" blocked).mapM pPair, password := ← pPassword pw,
                         pwLimit := ← pwl.toNat?, failLines := ← pLines fl,
                         extra := ← (splitL ";" extra).mapM pTriple }
    let w : W MDev := { tbl := t, belief := ← unhx belief, ch := { dev := { mode := ← unhx login, login := ← unhx login }, closed := !(← pBool opened) } }
    pure { cfg, mcfg, w, ops := ← (splitL ";" ops).mapM pXOp }
  | _ => none

def runOps (c : Cfg) (d : Dev MDev) : W MDev → List XOp → List String → W MDev × List String
  | w, [], acc => (w, acc.reverse)
  | w, op :: ops, acc =>
    let (w', o) := xstep c d w op
    let rec_ := s!"{outcomeStr o},{hx w'.belief},{w'.ch.rounds},{if w'.hazard then 1 else 0},{w'.ch.dev.log.length},{hx w'.ch.dev.mode}"
    runOps c d w' ops (rec_ :: acc)

def handleLine (line : String) : String :=
  match pReq line with
  | none => "bad-request"
  | some r =>
    let d := modeDev r.mcfg
    let (w, recs) := runOps r.cfg d r.w r.ops []
    let log := w.ch.dev.log.map (fun e => s!"{hx e.1},{hx e.2}")
    let ulog := w.ulog.map (fun u =>
      s!"{match u.asked with | some a => "s" ++ hx a | none => "n"},{hx u.actual},{hx u.line},{kindStr u.kind}")
    let j (l : List String) := if l.isEmpty then "." else ";".intercalate l
    s!"{j recs} {j log} {j ulog}"

/-- `changeMap` alone (C04 correspondence of `_build_priv_change_map` on arbitrary tables):
    `map <table> <orders> <a> <b>` → names joined by "," -/
def handleMap (line : String) : String :=
  match line.trimAscii.toString.splitOn " " with
  | ["map", tb, ords, a, b] =>
    match (do
      let t ← (splitL ";" tb).mapM pLevel
      let snaps ← (splitL ";" ords).mapM pSnapshot
      pure (changeMap t (mkOrd snaps t) (← unhx a) (← unhx b))) with
    | some r => if r.isEmpty then "." else ",".intercalate (r.map hx)
    | none => "bad-request"
  | _ => "bad-request"

def handle (line : String) : String :=
  if line.startsWith "map " then handleMap line else handleLine line

end Scrapli.Priv.Proto
