import ScrapliModel.Priv.Table
/-
  The device side of the closed system of C03 / C04 (DESIGN.md §3.3: the environment assumption).

  * `Dev σ` — an ARBITRARY device: any state type, any reaction to a line (C04 `acquire_bounded`
    quantifies over all of them).
  * `modeDev cfg` — the causal mode machine: a true mode; it moves only on the escalate /
    deescalate commands of the driver's table (and the vendor abort moves), except for a set of
    blocked (refused or ignored) transitions; optional secondary-password check; the prompt it
    shows in mode `m` is matched by exactly the levels in `m`'s share group (that link between
    prompts and share groups is what C05 proves about the regexes; here it is the assumption).
-/
namespace Scrapli.Priv

/-- what the channel sees after a line was sent and return pressed -/
inductive Reply
  /-- a CLI prompt (detected by the combined `comms_prompt_pattern`) matched by exactly the
      (pattern, not_contains) pairs with key in `keys`; `failed`: the output before it contains
      one of `failed_when_contains` -/
  | prompt (keys : List String) (failed : Bool)
  /-- the secondary-password prompt (matches the level's `escalate_prompt`, not a CLI prompt) -/
  | password
  /-- nothing that any awaited pattern matches: the read never completes (⇒ timeout) -/
  | silent
deriving Repr, DecidableEq

/-- an arbitrary device.  `exec t s line`: reaction to one return-terminated line; the driver's
    table `t` is passed because the cooperative device's transitions are *the table's* (a device
    free to ignore it is still arbitrary).  `mode` is a ghost used only by specifications. -/
structure Dev (σ : Type) where
  exec : Table → σ → Line → σ × Reply
  mode : σ → Name
  /-- a new session on the same device (the connection object is re-opened): it starts at its login level -/
  reset : σ → σ := id

/-- fixed behaviour of a mode device -/
structure MCfg where
  blocked : List (Name × Line) := []        -- (mode, command) pairs the device refuses or ignores
  password : Option Line := none            -- the secondary password it demands on `auth` escalations
  pwLimit : Nat := 3                        -- wrong passwords after which it returns to the old prompt
  failLines : List Line := []               -- lines whose output carries a failure marker
  extra : List (Name × Line × Name) := []   -- vendor moves outside the table (abort / exit)
deriving Repr

structure MDev where
  mode : Name
  login : Name := ""                        -- the level a new session starts in
  pending : Option Name := none             -- asked for a password for the move to this level
  tries : Nat := 0
  log : List (Name × Line) := []            -- (mode at execution, line); password answers are not logged
deriving Repr, DecidableEq

/-- the transition the table (or the vendor extras) defines for `line` in mode `m`:
    target and whether the device asks for the secondary password first -/
def tableMove (t : Table) (extra : List (Name × Line × Name)) (m : Name) (line : Line) :
    Option (Name × Bool) :=
  match (match lookup t m with
         | some l => if l.prev ≠ "" ∧ l.desc = line then some (l.prev, false) else none
         | none => none) with
  | some r => some r
  | none =>
    match t.find? (fun l => l.prev == m && l.prev != "" && l.esc == line) with
    | some l => some (l.name, l.auth)
    | none =>
      match extra.find? (fun e => e.1 == m && e.2.1 == line) with
      | some e => some (e.2.2, false)
      | none => none

/-- does classification search the way the device assumption needs?  The per-level patterns are written
    partly with lower-case classes (EOS / NX-OS session patterns, user tables) and anchored per line (`^ … $` on
    multi-line Junos prompts): the prompt of a level is matched by the patterns of its share group, whatever
    the case of host and user names, only if `_determine_current_priv` searches with IGNORECASE and MULTILINE.
    The flags are regenerated from the AST (Gen/PrivConsts.lean `classifyFlags`). -/
def classifiesPrompts : Bool :=
  Gen.Priv.classifyFlags.contains "I" && Gen.Priv.classifyFlags.contains "M"

/-- **domain of the device assumption.**  `promptKey` below says: the prompt shown in level `m` is classified as
    exactly the levels whose key equals `m`'s.  For session levels that is true of the real patterns only if no
    session's (case-folded) key is a proper prefix of — or a case variant of — another's: the EOS session pattern is
    `…\(config\-s\-<re.escape(name[:6])>[a-z0-9_.\-@/:+]{0,64}\)#` searched with re.I, so the prompt of session
    `abcd` is ALSO matched by the patterns of sessions `abc` and `ABCD`, whose keys differ.  Every theorem about
    `modeDev` is claimed for tables satisfying this (decidable) condition only; outside it see finding F24. -/
def SessPrefixFree (t : Table) : Prop :=
  ∀ l ∈ t, ∀ l' ∈ t, l.sess = true → l'.sess = true →
    (l.pat.toList.map Char.toLower).isPrefixOf (l'.pat.toList.map Char.toLower) = true → l.pat = l'.pat

instance (t : Table) : Decidable (SessPrefixFree t) := by unfold SessPrefixFree; infer_instance

/-- share-group key of the prompt shown in mode `m` (none if classification does not search case-insensitively
    and per line: then a prompt is not guaranteed to be matched by its own level) -/
def promptKey (t : Table) (m : Name) : List String :=
  if classifiesPrompts then
    match lookup t m with
    | some l => [l.pat]
    | none => []
  else []

def MDev.exec (cfg : MCfg) (t : Table) (s : MDev) (line : Line) : MDev × Reply :=
  match s.pending with
  | some tgt =>
    if cfg.password = some line then
      ({ s with mode := tgt, pending := none, tries := 0 }, .prompt (promptKey t tgt) false)
    else if s.tries + 1 < cfg.pwLimit then
      ({ s with tries := s.tries + 1 }, .password)
    else
      ({ s with pending := none, tries := 0 }, .prompt (promptKey t s.mode) true)
  | none =>
    let s := { s with log := s.log ++ [(s.mode, line)] }
    if (s.mode, line) ∈ cfg.blocked then (s, .prompt (promptKey t s.mode) true)
    else match tableMove t cfg.extra s.mode line with
      | some (tgt, ask) =>
        if ask ∧ cfg.password.isSome then ({ s with pending := some tgt, tries := 0 }, .password)
        else ({ s with mode := tgt }, .prompt (promptKey t tgt) false)
      | none => (s, .prompt (promptKey t s.mode) (cfg.failLines.contains line))

def modeDev (cfg : MCfg) : Dev MDev :=
  { exec := MDev.exec cfg, mode := (·.mode),
    reset := fun s => { s with mode := s.login, pending := none, tries := 0 } }

end Scrapli.Priv
