import ScrapliModel.Timeout
/-
  C07 — `timeout_modifier` (scrapli/decorators.py:271-340), the decorator on the driver operations that take a per-call
  `timeout_ops=` keyword (GenericDriver / AsyncGenericDriver `_send_command`, `send_and_read`, `send_interactive`; every
  other public operation — send_command(s), send_config(s), …_from_file — hands the keyword down to one of these).
  It decides WHICH limit the channel operation underneath (`@timeout_wrapper`, model: Timeout.lean) runs under.

  The driver state is the driver-level `timeout_ops` (a Nat, ticks; 0 = no limit).  The keyword is `Option Nat`
  (`none` = not given / None).  The wrapped operation is ANY function of the value it finds in the driver state: it
  returns the state it leaves behind and its result (`α`; `ok` tells a normal return from an exception).

  Statement by statement (both variants, l.291-310 async / l.316-335 sync):
      timeout_ops_kwarg = kwargs.get("timeout_ops", None)
      if <keep test>:                                  -- `ModShape.keep`, the `or` operands, GENERATED from the AST
          result = wrapped_func(...)                   -- runs under the driver-level value, nothing to restore
      else:
          base_timeout_ops = driver.timeout_ops
          driver.timeout_ops = kwargs["timeout_ops"]   -- `sets`; (kwarg None here: the setter raises ScrapliTypeError)
          try: result = wrapped_func(...)
          finally: driver.timeout_ops = base_timeout_ops   -- `restores`, `restoreInFinally`
-/
namespace Scrapli.Timeout
open Scrapli.Gen.Timeout

/-- AST shape of one `decorate` variant of timeout_modifier (generated: Gen/TimeoutConsts.lean) -/
structure ModShape where
  keep : List String          -- operands of the keep test: "isNone" | "eqDriver" | "falsy"
  sets : Bool                 -- the other branch assigns the keyword's value to driver.timeout_ops
  restores : Bool             -- the driver-level value is assigned back after the wrapped call …
  restoreInFinally : Bool     -- … in a `finally` (every exit), not only after a normal return
deriving Repr, DecidableEq

def modSync : ModShape :=
  { keep := modKeepSync, sets := modSetsSync, restores := modRestoresSync, restoreInFinally := modRestoreInFinallySync }
def modAsync : ModShape :=
  { keep := modKeepAsync, sets := modSetsAsync, restores := modRestoresAsync, restoreInFinally := modRestoreInFinallyAsync }

/-- one operand of the keep test, on driver-level value `drv` and keyword `kw` -/
def keepHolds (drv : Nat) (kw : Option Nat) (test : String) : Bool :=
  if test = "isNone" then kw.isNone
  else if test = "eqDriver" then kw == some drv
  else if test = "falsy" then kw.isNone || kw == some 0      -- `not kwarg`: None and 0 are both falsy
  else false

/-- the decorated call: `f` = the wrapped operation as a function of the driver-level value it finds -/
def modifier {α : Type} (ok : α → Bool) (sh : ModShape) (kw : Option Nat) (f : Nat → Nat × α) (err : α) (drv : Nat) :
    Nat × α :=
  if sh.keep.any (keepHolds drv kw) then f drv
  else
    match kw with
    | none => (drv, err)        -- kwargs["timeout_ops"] missing / None refused by the setter: nothing ran
    | some k =>
      let r := f (if sh.sets then k else drv)
      (if sh.restores && (sh.restoreInFinally || ok r.2) then drv else r.1, r.2)

/-- THE PROPERTY's reading of the keyword: None keeps the driver-level value, anything else IS the limit for this
    call — 0 included, which means "no limit for this operation" -/
def limitInForce (drv : Nat) : Option Nat → Nat
  | none => drv
  | some k => k

/-- a driver operation = the modifier around one channel operation `name` (a `@timeout_wrapper` call whose timeout is
    read from the driver state at call time, `_get_transport_logger_timeout`) doing `body` underneath, under mechanism
    `m`; the channel operation does not touch the driver-level value -/
def modifiedOp (sh : ModShape) (cfg : Cfg) (m : Mech) (name : String) (body : Prog) (p : Proc) (drv : Nat)
    (kw : Option Nat) : Nat × Res :=
  modifier (fun r => r.out == .ret) sh kw (fun t => (t, run cfg m (.call t name body .ret) p))
    { fin := some p.now, out := .error, closed := p.closed, handler := p.handler, timer := p.timer } drv

end Scrapli.Timeout
