import ScrapliModel.Gen.C05Tables_iosxe
import ScrapliModel.Spec.PromptGrammar
/- C05: the suite(s) of table `iosxe` — which prompt grammar (Spec) is checked against this generated table.
   `…Full`: the modes whose grammar is restricted by the predicate of an open finding, WITHOUT the restriction. -/
namespace Scrapli.C05
open Scrapli.Regex Scrapli.PromptClass Scrapli.Spec
def iosxe : Suite := ⟨"iosxe", Gen.C05.iosxe, PromptGrammar.iosxe⟩
end Scrapli.C05
