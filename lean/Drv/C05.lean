import ScrapliModel.C05Obligations
import ScrapliModel.Regex.Explore
import ScrapliModel.Bytes
open Scrapli Scrapli.Regex Scrapli.PromptClass Scrapli.C05

def sampleMany (r : RE) (seed n : Nat) : List Word := Id.run do
  let mut g : Rng := ⟨seed * 2654435761 + 12345⟩
  let mut out : List Word := []
  for _ in [0:n] do
    let (_, g') := g.next
    match sampleRE r g' with
    | some (w, g'') => out := w :: out; g := g''
    | none => g := g'
  return out.reverse

/-- requests (one per line, one reply line each):
    suites                                   -> suite:level,level:mode=group,group|mode=…;suite:…
    explore <suite> <mode#> <k> <file>       -> `cert <states> <transitions>` (definitions written to <file>) | `witness <hex>` | `overflow <n>`
                                                (k = 0: detection; k + 1: level k of the table)
    classify <suite> <hex>                   -> `<detected 0|1> <level,level|->`
    rm <suite> <level#|detect> <hex>         -> 0|1   (rmatch of the rendered re.search language)
    ob <suite> <mode#> <k>|grammar <hex>     -> 0|1
    sample <suite> <mode#> <seed> <n>        -> hex list of grammar words -/
def handle (line : String) : IO String := do
  match line.trimAscii.toString.splitOn " " with
  | ["suites"] =>
    return ";".intercalate (suites.map fun s =>
      s.name ++ ":" ++ ",".intercalate (s.table.levels.map (·.name)) ++ ":" ++
        "|".intercalate (s.modes.map fun m => m.name ++ "=" ++ ",".intercalate m.group))
  | ["explore", sn, i, k, file] =>
    let r := (suite sn).ob i.toNat! k.toNat!
    match explore r 30000 with
    | .witness w => return s!"witness {Hex.encode w}"
    | .overflow n => return s!"overflow {n}"
    | .cert c =>
      IO.FS.writeFile file c.toLean
      return s!"cert {c.states.size} {c.tbl.foldl (fun n r => n + r.size) 0}"
  | ["classify", sn, hex] =>
    match Hex.decode hex with
    | none => return "bad-op"
    | some w =>
      let t := (suite sn).table
      let ls := classify t w
      return s!"{if detects t w then 1 else 0} {if ls.isEmpty then "-" else ",".intercalate ls}"
  | ["rm", sn, which, hex] =>
    match Hex.decode hex with
    | none => return "bad-op"
    | some w =>
      let t := (suite sn).table
      let r := if which == "detect" then t.detect else ((nth t.levels which.toNat!).map Level.search).getD .emp
      return (if rmatch r w then "1" else "0")
  | ["ob", sn, i, kind, hex] =>
    match Hex.decode hex with
    | none => return "bad-op"
    | some w =>
      let r := if kind == "grammar" then (nthMode (suite sn).modes i.toNat!).grammar else (suite sn).ob i.toNat! kind.toNat!
      return (if rmatch r w then "1" else "0")
  | ["sample", sn, i, seed, n] =>
    let g := (nthMode (suite sn).modes i.toNat!).grammar
    return Hex.encodeList (sampleMany g seed.toNat! n.toNat!)
  | _ => return "bad-op"

partial def loop (h : IO.FS.Stream) : IO Unit := do
  let line ← h.getLine
  if line.isEmpty then return ()
  IO.println (← handle line)
  (← IO.getStdout).flush
  loop h

def main : IO Unit := do loop (← IO.getStdin)
