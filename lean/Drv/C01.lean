import ScrapliModel.Channel.Chan
import ScrapliModel.Channel.Drv
import ScrapliModel.Channel.Rx
import ScrapliProps.C01Platform
import ScrapliProps.C01PlatformXR
import ScrapliProps.C01PlatformEOS
import ScrapliProps.C01PlatformNX
import ScrapliProps.C01PlatformJunos
import ScrapliProps.C02DecorCheck
open Scrapli Scrapli.Chan

/-! Line protocol (fields separated by one blank):
  `scen <promptRx> <depth> <ret hex> <rough 0|1> <cuts n,n,..|.> <init avail hex> <device outputs hexlist> <rxtable> <ops>`
  rxtable: `.` or `hexprompt=rxwire` joined by `|` — the compiled form of explicit `^…$` prompts
  ops joined by `;`:  `gp` | `si:<input hex>:<strip><eager><eagerInput>` |
                      `ii:<in/resp/hidden 0|1 joined by +>:<complete hexlist>` |
                      `sar:<input hex>:<strip 0|1>:<expected outputs hexlist>:<rx of _join_and_compile(outputs) | .>:<pauses 0|1… | .>`
                      (timed read loop; `.` as rx = the empty pattern, found in every buffer; pause bit 1 = that iteration's
                       transport read timed out; the clock never runs out)
  device = scripted: the i-th write call is answered with the i-th entry of the output list
  (what the real device printed after the real i-th write) — trace refinement.
  reply: per op `gp=<hex>` | `si=<raw>,<processed>` | `ii=<raw>,<processed>` | `stall`, joined by `;`,
  then ` W=<writes hexlist> A=<unread hex> H=<held-back hex>` (`sar=<raw>,<processed>` for the timed op;
  `sc:<strip><stop>:<failed_when_contains hexlist>:<commands hexlist>` -> `sc=<result>/<failed 0|1>,…` for the driver-level send_commands).
  `dev <prompt> <trail> <cmd=out|…> <writes hexlist>` -> what `LineDev.onWrite` prints for each write;
  `linep iosxe <hex>` -> the line predicate of ScrapliProps/C01Platform.lean;  `ansi <hex>` -> chanRead of one chunk;  `ansih <held hex> <chunk hex>` -> chanReadH (output, held);  `prb <depth> <hex>` -> processReadBuf;
  `decor <plain hex> <decorated hex>` -> `decorOK` of ScrapliProps/C02DecorCheck.lean (1|0). -/

def mkPat (r : Rx.Rx) : Pat := { search := Rx.searchB r, first := Rx.firstMatch r, sub := Rx.sub r }
def neverPat : Pat := { search := fun _ => false, first := fun _ => none, sub := id }

def scripted (outs : List Bytes) : Nat → Bytes → Nat × Bytes := fun i _ => (i + 1, outs.getD i [])

/-- `n` or `n*k` (k copies of n), comma separated -/
def parseCuts (s : String) : Option (List Nat) :=
  if s == "." then some [] else do
    let parts ← (s.splitOn ",").mapM (fun t =>
      match t.splitOn "*" with
      | [n] => n.toNat?.map (fun x => [x])
      | [n, k] => do pure (List.replicate (← k.toNat?) (← n.toNat?))
      | _ => none)
    pure parts.flatten

def parseRxTable (s : String) : Option (List (Bytes × Rx.Rx)) :=
  if s == "." then some [] else
  (s.splitOn "|").mapM (fun e =>
    match e.splitOn "=" with
    | [h, r] => do pure ((← Hex.decode h), (← Rx.parse r))
    | _ => none)

def bit (s : String) (i : Nat) : Bool := (s.toList.getD i '0') == '1'

def parseEvent (s : String) : Option (Bytes × Bytes × Bool) :=
  match s.splitOn "/" with
  | [a, b, h] => do pure ((← Hex.decode a), (← Hex.decode b), h == "1")
  | _ => none

abbrev St := Wire × Nat

def runOp (cfg : Cfg) (dev : Nat → Bytes → Nat × Bytes) (op : String) (s : St) : Option (String × St) :=
  match op.splitOn ":" with
  | ["gp"] => (getPrompt cfg dev s).map (fun r => (s!"gp={Hex.encode r.1}", r.2))
  | ["si", i, fl] =>
    match Hex.decode i with
    | none => none
    | some input =>
      (sendInput cfg dev input (bit fl 0) (bit fl 1) (bit fl 2) s).map
        (fun r => (s!"si={Hex.encode r.1.1},{Hex.encode r.1.2}", r.2))
  | ["ii", evs, comp] =>
    match (evs.splitOn "+").mapM parseEvent, Hex.decodeList comp with
    | some events, some complete =>
      (sendInputsInteract cfg dev events complete s).map
        (fun r => (s!"ii={Hex.encode r.1.1},{Hex.encode r.1.2}", r.2))
    | _, _ => none
  | ["sc", fl, fwc, cmds] =>
    -- the driver layer: `send_commands(commands, strip_prompt, failed_when_contains, stop_on_failed)`; reply result/failed per response
    match Hex.decodeList fwc, Hex.decodeList cmds with
    | some fwc, some cmds =>
      match cmds.reverse with
      | [] => none
      | last :: ri =>
        (sendCommands cfg dev (bit fl 0) fwc (bit fl 1) ri.reverse last s).map
          (fun r => ("sc=" ++ ",".intercalate (r.1.map (fun x => s!"{Hex.encode x.result}/{if x.failed then "1" else "0"}")), r.2))
    | _, _ => none
  | ["sar", i, fl, outs, orx, pz, ck] =>
    -- the same with a clock: `ck` = number of further iterations after which `time.time() - start > read_duration` is found true
    let outPat? : Option Pat :=
      if orx == "." then some { search := fun _ => true, first := fun _ => none, sub := id }
      else (Rx.parse orx).map mkPat
    match Hex.decode i, Hex.decodeList outs, outPat?, ck.toNat? with
    | some input, some outs, some outPat, some k =>
      let pauses := if pz == "." then [] else pz.toList.map (· == '1')
      (sendInputAndRead cfg dev input (bit fl 0) outs outPat pauses (some k) s).map
        (fun r => (s!"sar={Hex.encode r.1.1},{Hex.encode r.1.2}", r.2))
    | _, _, _, _ => none
  | ["sar", i, fl, outs, orx, pz] =>
    let outPat? : Option Pat :=
      if orx == "." then some { search := fun _ => true, first := fun _ => none, sub := id }
      else (Rx.parse orx).map mkPat
    match Hex.decode i, Hex.decodeList outs, outPat? with
    | some input, some outs, some outPat =>
      let pauses := if pz == "." then [] else pz.toList.map (· == '1')
      (sendInputAndRead cfg dev input (bit fl 0) outs outPat pauses none s).map
        (fun r => (s!"sar={Hex.encode r.1.1},{Hex.encode r.1.2}", r.2))
    | _, _, _ => none
  | _ => none

def runOps (cfg : Cfg) (dev : Nat → Bytes → Nat × Bytes) : List String → St → List String → List String × St
  | [], s, acc => (acc.reverse, s)
  | op :: ops, s, acc =>
    match runOp cfg dev op s with
    | none => (("stall" :: acc).reverse, s)
    | some (o, s') => runOps cfg dev ops s' (o :: acc)

def handleLine (line : String) : String :=
  match line.trimAscii.toString.splitOn " " with
  | ["scen", prx, depth, ret, rough, cuts, init, outs, rxt, ops] =>
    match Rx.parse prx, depth.toNat?, Hex.decode ret, parseCuts cuts, Hex.decode init, Hex.decodeList outs,
          parseRxTable rxt with
    | some r, some d, some ret, some cuts, some init, some outs, some tbl =>
      let cfg : Cfg := { prompt := mkPat r, depth := d, ret := ret, rough := rough == "1",
                         compile := fun p => match tbl.find? (fun e => e.1 == p) with
                                             | some e => mkPat e.2
                                             | none => neverPat }
      let s0 : St := ({ avail := init, cuts := cuts, writes := [] }, 0)
      let (res, s) := runOps cfg (scripted outs) (ops.splitOn ";") s0 []
      s!"{";".intercalate res} W={Hex.encodeList s.1.writes} A={Hex.encode s.1.avail} H={Hex.encode s.1.held}"
    | _, _, _, _, _, _, _ => "bad-op"
  | ["ansi", h] => match Hex.decode h with | some b => Hex.encode (chanRead b) | none => "bad-op"
  | ["ansih", hh, h] =>
    match Hex.decode hh, Hex.decode h with
    | some held, some b => let r := chanReadH held b; s!"{Hex.encode r.1} {Hex.encode r.2}"
    | _, _ => "bad-op"
  | ["dev", ph, th, tbl, ws] =>
    -- the causal line device the theorems are about (`LineDev.onWrite`), folded over a list of writes
    let parseTbl : Option (List (Bytes × Bytes)) :=
      if tbl == "." then some [] else
      (tbl.splitOn "|").mapM (fun e => match e.splitOn "=" with
        | [a, b] => do pure ((← Hex.decode a), (← Hex.decode b))
        | _ => none)
    match Hex.decode ph, Hex.decode th, parseTbl, Hex.decodeList ws with
    | some p, some t, some tb, some writes =>
      let dv : LineDev := { out := fun l => match tb.find? (fun e => e.1 == strip l) with
                                            | some e => e.2
                                            | none => [],
                            prompt := p, trail := t }
      let r := writes.foldl (fun (acc : Bytes × List Bytes) w =>
        let x := dv.onWrite acc.1 w
        (x.1, acc.2 ++ [x.2])) ([], [])
      Hex.encodeList r.2
    | _, _, _, _ => "bad-op"
  | ["decor", ph, dh] =>
    -- is the burst `dh` the plain output `ph` decorated within the hypothesis `Decorates` of the session theorems? (validated check)
    match Hex.decode ph, Hex.decode dh with
    | some p, some d => if decorOK p d then "1" else "0"
    | _, _ => "bad-op"
  | ["linep", "junos", h] => match Hex.decode h with | some b => (if junosP b then "1" else "0") | none => "bad-op"
  | ["linep", "nxos", h] => match Hex.decode h with | some b => (if nxosP b then "1" else "0") | none => "bad-op"
  | ["linep", "eos", h] => match Hex.decode h with | some b => (if eosP b then "1" else "0") | none => "bad-op"
  | ["linep", "iosxr", h] => match Hex.decode h with | some b => (if iosxrP b then "1" else "0") | none => "bad-op"
  | ["linep", "iosxe", h] => match Hex.decode h with | some b => (if iosxeP b then "1" else "0") | none => "bad-op"
  | ["prb", d, h] =>
    match d.toNat?, Hex.decode h with
    | some d, some b => Hex.encode (processReadBuf d b)
    | _, _ => "bad-op"
  | _ => "bad-op"

partial def loop (h : IO.FS.Stream) : IO Unit := do
  let line ← h.getLine
  if line.isEmpty then return ()
  IO.println (handleLine line)
  loop h

def main : IO Unit := do loop (← IO.getStdin)
