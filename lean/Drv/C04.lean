import ScrapliModel.Priv.Proto
open Scrapli.Priv.Proto

/-- line: see ScrapliModel/Priv/Proto.lean (`handle`) -/
partial def loop (h : IO.FS.Stream) : IO Unit := do
  let line ← h.getLine
  if line.isEmpty then return ()
  IO.println (handle line)
  loop h

def main : IO Unit := do loop (← IO.getStdin)
