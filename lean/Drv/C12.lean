import ScrapliModel.Flow
import ScrapliModel.Gen.FlowGraph
import ScrapliModel.Gen.FlowNames
open Scrapli.Flow Scrapli.Gen.Flow Scrapli.Gen.FlowNames

/-
  line protocol (one reply line per request line):
    reach <id,id,…>        -> `<count> <sink ids reached | ->`      sanitiser-avoiding closure from the start nodes
    reachall <id,id,…>     -> same with the sanitisers ignored
    adv <id,id,…>          -> `<count> <advisory sink ids reached | ->`
    name <id>              -> node name
    id <name>              -> node id or `none`
    stats                  -> `<nodes> <sources> <sinks> <sanitisers>`
    write <redacted 0|1> <hex input>                         -> model log record of BaseChannel.write
    interact <hidden 0|1> <hex input> <hex response> <hex hiddenText>   -> the two model records
  records are rendered `msg-hex:arg-hex,arg-hex` joined by `;`
-/

def parseIds (s : String) : List Nat :=
  if s == "-" then [] else (s.splitOn ",").filterMap String.toNat?

def showIds (l : List Nat) : String :=
  if l.isEmpty then "-" else ",".intercalate (l.map toString)

def hexDigit (n : Nat) : Char := if n < 10 then Char.ofNat (48 + n) else Char.ofNat (87 + n)

def hexOf (s : String) : String :=
  if s.isEmpty then "-" else
  String.ofList (s.toUTF8.toList.foldr (fun x acc => hexDigit (x.toNat / 16) :: hexDigit (x.toNat % 16) :: acc) [])

def hexVal (c : Char) : Nat :=
  if '0' ≤ c ∧ c ≤ '9' then c.toNat - 48 else if 'a' ≤ c ∧ c ≤ 'f' then c.toNat - 87 else 0

def unhexBytes : List Char → List UInt8
  | a :: b :: rest => UInt8.ofNat (hexVal a * 16 + hexVal b) :: unhexBytes rest
  | _ => []

def unhex (s : String) : String :=
  if s == "-" then "" else
  match String.fromUTF8? (ByteArray.mk (unhexBytes s.toList).toArray) with
  | some t => t
  | none => "?"

def showRec (r : LogRec) : String :=
  hexOf r.msg ++ ":" ++ (if r.args.isEmpty then "." else ",".intercalate (r.args.map hexOf))

def query (g : Graph) (sinks : List Nat) (starts : List Nat) : String :=
  let r := reachFrom g g.n starts
  s!"{r.length} {showIds (r.filter (fun a => sinks.contains a))}"

def handleLine (line : String) : String :=
  match line.trimAscii.toString.splitOn " " with
  | ["reach", ids] => query graph graph.sinks (parseIds ids)
  | ["reachall", ids] => query graph.unsanitised graph.sinks (parseIds ids)
  | ["adv", ids] => query graph advisorySinks (parseIds ids)
  | ["name", i] => match i.toNat? with
    | some k => names.getD k "none"
    | none => "bad-op"
  | ["id", nm] => match names.toList.idxOf? (unhex nm) with
    | some k => toString k
    | none => "none"
  | ["stats"] => s!"{graph.n} {graph.sources.length} {graph.sinks.length} {graph.sanitisers.length}"
  | ["write", r, inp] => showRec (writeLog writeRedactedMsg writePlainFmt (unhex inp) (r == "1"))
  | ["interact", h, inp, resp, ht] =>
    ";".intercalate ((interactLogs redactedToken interactFmt writeRedactedMsg writePlainFmt
      (unhex inp) (unhex resp) (h == "1") (unhex ht)).map showRec)
  | _ => "bad-op"

partial def loop (h : IO.FS.Stream) : IO Unit := do
  let line ← h.getLine
  if line.isEmpty then return ()
  IO.println (handleLine line)
  loop h

def main : IO Unit := do loop (← IO.getStdin)
