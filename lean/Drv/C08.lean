import ScrapliModel.Loss
open Scrapli.Loss

/-! line protocol of the C08 model (the same definitions the theorems are about):
  map <t> <m> <o>                        -> act of errMap
  alive <t> <lm> <lo>                    -> act of aliveAfter
  seq <t> <opened 0|1> <m:o,m:o,...>     -> acts of the transport machine, comma separated (o = - : not scripted = default)
  runc ... <ctrl 0|1|2>                  same as run, the Telnet control buffer starting in that state
  run <t> <opened 0|1> <prog> <T> <o,o,...|.> <read default> <write default>
                                         -> <out> <ticks> <calls> <isalive act> <out of a following get_prompt>
  total <t>                              -> <mapTotalB> <aliveTotalB> <promptTotalB>
-/

def pT (s : String) : Option Transport := Transport.all.find? (fun t => toString (repr t) == "Scrapli.Loss.Transport." ++ s)
def pM (s : String) : Option Method := Method.all.find? (fun t => toString (repr t) == "Scrapli.Loss.Method." ++ s)
def pO (s : String) : Option Outcome := Outcome.all.find? (fun t => toString (repr t) == "Scrapli.Loss.Outcome." ++ s)

def showCls : Cls → String
  | .connError => "connError" | .notOpened => "notOpened" | .authFailed => "authFailed" | .timeout => "timeout" | .other => "other"
def showRaw : Raw → String
  | .osError => "osError" | .eofError => "eofError" | .attrError => "attrError" | .other => "other"
def showAct : Act → String
  | .retData => "retData" | .retEmpty => "retEmpty" | .retEmptyBusy => "retEmptyBusy" | .retNone => "retNone"
  | .retTrue => "retTrue" | .retFalse => "retFalse" | .raiseS c => "S:" ++ showCls c | .raiseRaw r => "raw:" ++ showRaw r
  | .na => "na"
def showOut : Out → String
  | .done => "done" | .raised c => "S:" ++ showCls c | .raisedRaw r => "raw:" ++ showRaw r | .hang => "hang"

def pProg (s : String) : Option Program :=
  s.toList.mapM fun c => if c == 'W' then some Step.w else if c == 'R' then some .r else if c == 'A' then some .ra else none

def pOutcomes (s : String) : Option (List Outcome) :=
  if s == "." then some [] else (s.splitOn ",").mapM pO

/-- the machine on a scripted sequence; outcome "-" = the library's default in the current state -/
def runSeq (t : Transport) (st : TState) : List (Method × Option Outcome) → List Act
  | [] => []
  | (m, o?) :: rest =>
    let o := match o? with
      | some o => o
      | none => match st.lossBy with
        | some (lm, lo) => if m == .read then (postRead t lm lo).headD lo else .data
        | none => .data
    let a := if m == .isalive && o?.isNone then isaliveNow t st else tAct t st m o
    a :: runSeq t (tNext t st m o) rest

def pSeq (s : String) : Option (List (Method × Option Outcome)) :=
  (s.splitOn ",").mapM fun item =>
    match item.splitOn ":" with
    | [m, o] => do
      let m ← pM m
      if o == "-" then pure (m, none) else do
        let o ← pO o
        pure (m, some o)
    | _ => none

partial def handleLine (line : String) : String :=
  match line.trimAscii.toString.splitOn " " with
  | ["map", t, m, o] =>
    match pT t, pM m, pO o with
    | some t, some m, some o => showAct (errMap t m o) ++ " " ++ toString (domain t m o)
    | _, _, _ => "bad-op"
  | ["alive", t, m, o] =>
    match pT t, pM m, pO o with
    | some t, some m, some o => showAct (aliveAfter t .c0 m o)
    | _, _, _ => "bad-op"
  | ["total", t] =>
    match pT t with
    | some t => toString (mapTotalB t) ++ " " ++ toString (aliveTotalB t) ++ " " ++ toString (promptTotalB t)
    | none => "bad-op"
  | ["seq", t, op, s] =>
    match pT t, pSeq s with
    | some t, some l => ",".intercalate ((runSeq t ⟨op == "1", none, .c0⟩ l).map showAct)
    | _, _ => "bad-op"
  | ["run", t, op, prog, tt, outs, dr, dw] => handleLine s!"runc {t} {op} {prog} {tt} {outs} {dr} {dw} 0"
  | ["runc", t, op, prog, tt, outs, dr, dw, c] =>
    match pT t, pProg prog, tt.toNat?, pOutcomes outs, pO dr, pO dw with
    | some t, some p, some T, some l, some dr, some dw =>
      let env : Env := fun i m => if i < l.length then l.getD i dr else if m == .write then dw else dr
      let cst : Ctrl := if c == "1" then .cIac else if c == "2" then .cIacVerb else .c0
      let r := run t env T p ⟨op == "1", none, cst⟩
      let dr2 := match r.st.lossBy with
        | some (lm, lo) => (postRead t lm lo).headD lo
        | none => dr
      let nxt := run t (fun _ m => if m == .write then dw else dr2) T [.w, .r] r.st
      s!"{showOut r.out} {r.ticks} {r.calls} {showAct (isaliveNow t r.st)} {showOut nxt.out}"
    | _, _, _, _, _, _ => "bad-op"
  | _ => "bad-op"

partial def loop (h : IO.FS.Stream) : IO Unit := do
  let line ← h.getLine
  if line.isEmpty then return ()
  IO.println (handleLine line)
  loop h

def main : IO Unit := do loop (← IO.getStdin)
