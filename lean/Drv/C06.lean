import ScrapliModel.ParityRun
import ScrapliModel.Gen.Parity
open Scrapli Scrapli.Parity Scrapli.ParityRun

/-- event syntax: `e` | `d:<hex>:<now>` -/
def parseEv (s : String) : Option Ev :=
  match s.splitOn ":" with
  | ["e"] => some .eof
  | ["d", h, n] => do
    let b ← Hex.decode h
    let now ← n.toNat?
    pure (.data b now)
  | _ => none

def outcomeName : Outcome → String
  | .pending => "pending" | .done => "done" | .authFailed => "authFailed" | .connError => "connError"

/-- lines:
    `parity`                                    -> all mismatches of the generated tables (`;`-separated, `-` if none)
    `asynconly`                                 -> methods only the async side has
    `auth sync|async <interval> <user> <pass> <ret> <ev,ev,…|.>` -> `<outcome> <writes>`
    `pat login|password|prompt <hex>`           -> 0 | 1 -/
def handleLine (line : String) : String :=
  match line.trimAscii.toString.splitOn " " with
  | ["parity"] =>
    let m := mismatches Gen.Parity.syncTable Gen.Parity.asyncTable
    if m.isEmpty then "-" else ";".intercalate (m.map renderMismatch)
  | ["asynconly"] =>
    let m := asyncOnly Gen.Parity.syncTable Gen.Parity.asyncTable
    if m.isEmpty then "-" else ";".intercalate (m.map fun x => s!"{x.1}|{x.2}")
  | ["auth", kind, interval, user, pass, ret, evs] =>
    match interval.toNat?, Hex.decode user, Hex.decode pass, Hex.decode ret,
          (if evs == "." then some [] else (evs.splitOn ",").mapM parseEv) with
    | some iv, some u, some p, some r, some tape =>
      let c : Cfg := ⟨defaultPats, u, p, r, iv⟩
      let (w, o) := if kind == "sync" then authTelnetSync c tape else authTelnetAsync c tape
      s!"{outcomeName o} {Hex.encodeList w}"
    | _, _, _, _, _ => "bad-op"
  | ["pat", which, h] =>
    match Hex.decode h with
    | none => "bad-op"
    | some b =>
      let r := if which == "login" then loginPat b else if which == "password" then passwordPat b else promptPat b
      if r then "1" else "0"
  | _ => "bad-op"

partial def loop (h : IO.FS.Stream) : IO Unit := do
  let line ← h.getLine
  if line.isEmpty then return ()
  IO.println (handleLine line)
  loop h

def main : IO Unit := do loop (← IO.getStdin)
