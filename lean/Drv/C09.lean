import ScrapliModel.Auth
import ScrapliModel.Channel.Ansi
import ScrapliProps.C09Decor
open Scrapli Scrapli.Auth

def parseLoop : String → Option Loop
  | "syncTelnet" => some .syncTelnet
  | "asyncTelnet" => some .asyncTelnet
  | "syncSsh" => some .syncSsh
  | "asyncSsh" => some .asyncSsh
  | _ => none

/-- c: BaseChannelArgs() directly (field defaults); d: channel built by a driver (fallback patterns) with the
    BaseChannelArgs prompt pattern; g: GenericDriver with all its defaults -/
def parseCfg : String → Option (Loop → Nat → Cfg)
  | "c" => some fun l ivl => defaultCfgC l Gen.Auth.chanPrompt ivl Scrapli.Chan.chanReadH
  | "d" => some fun l ivl => driverCfgC l Gen.Auth.chanPrompt ivl Scrapli.Chan.chanReadH
  | "g" => some fun l ivl => driverCfgC l Gen.Auth.genericPrompt ivl Scrapli.Chan.chanReadH
  | _ => none

/-- `E` = read raised ScrapliConnectionError; `<hex>@<t>` = read returned the bytes at elapsed time t -/
def parseRead (s : String) : Option Read :=
  if s == "E" then some .connErr else
  match s.splitOn "@" with
  | [h, t] => do
    let b ← Hex.decode h
    let n ← t.toNat?
    pure (.chunk b n)
  | _ => none

def parseTape (s : String) : Option (List Read) :=
  if s == "." then some [] else (s.splitOn ",").mapM parseRead

def hexOrDot (s : String) : Option Bytes := if s == "." then some [] else Hex.decode s

/-- `r<n>@<t>` = a read of at most n bytes at time t; `i@<t>` = an empty read at time t -/
def parseEv (s : String) : Option Ev :=
  match s.splitOn "@" with
  | [h, t] => do
    let t ← t.toNat?
    if h == "i" then pure (.idle t) else
    if h.startsWith "r" then do
      let n ← (h.drop 1).toNat?
      pure (.read n t)
    else none
  | _ => none

def parseSched (s : String) : Option (List Ev) :=
  if s == "." then some [] else (s.splitOn ",").mapM parseEv

def parseSegs (s : String) : Option (List Bytes) :=
  if s == "-" then some [] else (s.splitOn ";").mapM hexOrDot

def kindStr : Kind → String
  | .username => "U" | .password => "P" | .passphrase => "H" | .ret => "R"

def statusStr : Status → String
  | .running => "running" | .done => "done" | .authFailed k => "authfailed-" ++ kindStr k
  | .fatal => "fatal" | .connError => "connerror"

def entryStr (e : Entry) : String :=
  s!"{kindStr e.kind}:{if e.ok then 1 else 0}:{e.rd}:{Hex.encode e.seen}"

def bit (b : Bool) : String := if b then "1" else "0"

/-- `run <loop> <c|g> <ivl> <tape>` -> `<status> <nread> <log>` ;
    `pred <hex>` -> nine bits: username password passphrase chanPrompt genericPrompt fatal, then the three driver-built patterns -/
def handleLine (line : String) : String :=
  match line.trimAscii.toString.splitOn " " with
  | ["run", l, p, ivl, tape] =>
    match parseLoop l, parseCfg p, ivl.toNat?, parseTape tape with
    | some l, some mk, some ivl, some tape =>
      let s := run (mk l ivl) tape
      let lg := if s.log.isEmpty then "." else ";".intercalate (s.log.map entryStr)
      s!"{statusStr s.status} {s.nread} {lg}"
    | _, _, _, _ => "bad-op"
  | ["sys", l, p, ivl, g0, segs, onret, sched] =>
    -- the CLOSED system of the theorems: loop + causal device (`Dev`) + schedule with empty reads, real cleaner
    match parseLoop l, parseCfg p, ivl.toNat?, hexOrDot g0, parseSegs segs, hexOrDot onret, parseSched sched with
    | some l, some mk, some ivl, some g0, some segs, some onret, some sched =>
      let y := sysRunI (mk l ivl) g0 ⟨segs, onret⟩ sched
      let lg := if y.s.log.isEmpty then "." else ";".intercalate (y.s.log.map entryStr)
      s!"{statusStr y.s.status} {y.s.nread} {lg} {y.avail.length}"
    | _, _, _, _, _, _, _ => "bad-op"
  | ["pred", h] =>
    match Hex.decode h with
    | some b =>
      bit (defaultP .username b) ++ bit (defaultP .password b) ++ bit (defaultP .passphrase b)
        ++ bit (Gen.Auth.chanPrompt.search b) ++ bit (Gen.Auth.genericPrompt.search b) ++ bit (fatalMsg b)
        ++ bit (driverP .username b) ++ bit (driverP .password b) ++ bit (driverP .passphrase b)
    | none => "bad-op"
  | ["predb", flags, needle, h] =>
    -- a synthetic credential branch: flags = three bits bol dotstar tail
    match flags.toList, Hex.decode needle, Hex.decode h with
    | [b, d, t], some n, some buf => bit ((⟨b == '1', d == '1', n, t == '1'⟩ : Branch).search buf)
    | _, _, _ => "bad-op"
  | ["predp", head, lo, hi, last, trail, h] =>
    match Hex.decode head, lo.toNat?, hi.toNat?, Hex.decode last, trail.toNat?, Hex.decode h with
    | some hd, some lo, some hi, some la, some tr, some buf => bit ((⟨hd, lo, hi, la, tr⟩ : PromptPat).search buf)
    | _, _, _, _, _, _ => "bad-op"
  | _ => "bad-op"

partial def loop (h : IO.FS.Stream) : IO Unit := do
  let line ← h.getLine
  if line.isEmpty then return ()
  IO.println (handleLine line)
  loop h

def main : IO Unit := do loop (← IO.getStdin)
