import ScrapliModel.Auth
open Scrapli Scrapli.Auth

def parseLoop : String → Option Loop
  | "syncTelnet" => some .syncTelnet
  | "asyncTelnet" => some .asyncTelnet
  | "syncSsh" => some .syncSsh
  | "asyncSsh" => some .asyncSsh
  | _ => none

def parsePrompt : String → Option PromptPat
  | "c" => some Gen.Auth.chanPrompt
  | "g" => some Gen.Auth.genericPrompt
  | _ => none

/-- `E` = read raised ScrapliConnectionError; `<hex>@<t>` = read returned the bytes at elapsed time t -/
def parseRead (s : String) : Option Read :=
  if s == "E" then some .connErr else
  match s.splitOn "@" with
  | [h, t] => do
    let b ← Hex.decode h
    let n ← t.toNat?
    pure (.chunk b n)
  | _ => none

def parseTape (s : String) : Option (List Read) :=
  if s == "." then some [] else (s.splitOn ",").mapM parseRead

def kindStr : Kind → String
  | .username => "U" | .password => "P" | .passphrase => "H" | .ret => "R"

def statusStr : Status → String
  | .running => "running" | .done => "done" | .authFailed k => "authfailed-" ++ kindStr k
  | .fatal => "fatal" | .connError => "connerror"

def entryStr (e : Entry) : String :=
  s!"{kindStr e.kind}:{if e.ok then 1 else 0}:{e.rd}:{Hex.encode e.seen}"

def bit (b : Bool) : String := if b then "1" else "0"

/-- `run <loop> <c|g> <ivl> <tape>` -> `<status> <nread> <log>` ;
    `pred <hex>` -> six bits: username password passphrase chanPrompt genericPrompt fatal -/
def handleLine (line : String) : String :=
  match line.trimAscii.toString.splitOn " " with
  | ["run", l, p, ivl, tape] =>
    match parseLoop l, parsePrompt p, ivl.toNat?, parseTape tape with
    | some l, some p, some ivl, some tape =>
      let s := run (defaultCfg l p ivl) tape
      let lg := if s.log.isEmpty then "." else ";".intercalate (s.log.map entryStr)
      s!"{statusStr s.status} {s.nread} {lg}"
    | _, _, _, _ => "bad-op"
  | ["pred", h] =>
    match Hex.decode h with
    | some b =>
      bit (defaultP .username b) ++ bit (defaultP .password b) ++ bit (defaultP .passphrase b)
        ++ bit (Gen.Auth.chanPrompt.search b) ++ bit (Gen.Auth.genericPrompt.search b) ++ bit (fatalMsg b)
    | none => "bad-op"
  | _ => "bad-op"

partial def loop (h : IO.FS.Stream) : IO Unit := do
  let line ← h.getLine
  if line.isEmpty then return ()
  IO.println (handleLine line)
  loop h

def main : IO Unit := do loop (← IO.getStdin)
