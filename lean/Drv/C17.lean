import ScrapliModel.Bytes
import ScrapliModel.Resolve
open Scrapli Scrapli.Resolve

/-!
  line protocol (blank separated fields; strings are hex of their UTF-8 bytes, "-" = empty):

  `resolve <fx> <transport> <host> <port|-> <user> <password> <key> <passphrase> <strict> <cfgArg> <khArg>
           <tSocket> <tTransport> <extra> <home> <files> <cfgs> <sshDefault>`
      fx = 5 characters 0/1 (stripDialedHost cfgPortDialed explicitPortWins rejectDashHost rejectDestSyntax);
      cfgArg/khArg = N | A | P<hex>; extra/files = hex lists (`,` separated, "." = empty);
      cfgs = `;` separated `<path>:<port|->:<user>:<identity>` ("." = none); sshDefault = `<port|->:<user>:<identity>`
    -> `ok R=<host>,<port>,<user>,<password>,<key>,<passphrase>,<strict>,<cfg>,<kh> B=<host>,<port> PL=<field>=<v>;… AV=<hex list> PR=<parse> EF=<eff>`
     | `err <name>`
  `hist <case>|<case>|…` with <case> = the 18 fields of `resolve` joined by `+` (constructions in ONE process,
      cache of parsed ssh configs shared, starting empty) -> the `ok R=… B=… PL=… AV=…` / `err …` replies joined by ` || `
  `parse <argv hex list>` -> `<parse>`
      <parse> = `ok:<dest>:<opts>:<command hex list>` with opts = `;` separated `<letter><hex or ~>` ("." = none) | `err:<name>`
-/

def decStr (s : String) : Option Str := do
  let b ← Hex.decode s
  let t ← String.fromUTF8? (ByteArray.mk b.toArray)
  pure t.toList

def encStr (s : Str) : String := Hex.encode (String.ofList s).toUTF8.toList

def decList (s : String) : Option (List Str) :=
  if s == "." then some [] else (s.splitOn ",").mapM decStr

def encList (l : List Str) : String :=
  if l.isEmpty then "." else ",".intercalate (l.map encStr)

def decTransport (s : String) : Option Transport := Transport.all.find? (fun t => String.ofList t.name == s)

def decFileArg (s : String) : Option FileArg :=
  if s == "N" then some .no else if s == "A" then some .auto
  else if s.startsWith "P" then (decStr (s.drop 1).toString).map .path else none

def decPort (s : String) : Option (Option Nat) :=
  if s == "-" then some none else s.toNat?.map some

def decHostCfg : List String → Option HostCfg
  | [p, u, i] => do
    let p ← decPort p
    let u ← decStr u
    let i ← decStr i
    pure { port := p, user := u, identityFile := i }
  | _ => none

def decCfgs (s : String) : Option (List (Str × HostCfg)) :=
  if s == "." then some [] else
  (s.splitOn ";").mapM fun e =>
    match e.splitOn ":" with
    | path :: rest => do
      let p ← decStr path
      let h ← decHostCfg rest
      pure (p, h)
    | _ => none

def decFixes (s : String) : Option Fixes :=
  match s.toList with
  | [a, b, c, d, e] => some ⟨a == '1', b == '1', c == '1', d == '1', e == '1'⟩
  | _ => none

def errName : Err → String
  | .noHost => "noHost" | .dashHost => "dashHost" | .destSyntaxHost => "destSyntaxHost" | .keyUnresolvable => "keyUnresolvable"

def perrName : ParseErr → String
  | .unknownOption => "unknownOption" | .missingArgument => "missingArgument" | .noDestination => "noDestination"

def encOpts (os : List Opt) : String :=
  if os.isEmpty then "." else
  ";".intercalate (os.map fun (c, a) => String.singleton c ++ (match a with | some x => encStr x | none => "~"))

def encParse : Except ParseErr SshParse → String
  | .ok p => s!"ok:{encStr p.dest}:{encOpts p.opts}:{encList p.command}"
  | .error e => s!"err:{perrName e}"

def encVal : Val → String
  | .s v => "s" ++ encStr v
  | .b v => if v then "b1" else "b0"

def encPlugin (p : Plugin) : String :=
  if p.isEmpty then "." else ";".intercalate (p.map fun (f, v) => String.ofList f.name ++ "=" ++ encVal v)

def encEff : Except ParseErr Eff → String
  | .ok e => s!"ok:{encStr e.host}:{encStr e.port}:{encStr e.user}:{encStr e.key}"
  | .error e => s!"err:{perrName e}"

def b01 (b : Bool) : String := if b then "1" else "0"

def decCase : List String → Option (Fixes × Args × SshConfigView)
  | [fx, tr, host, port, user, pw, key, pp, strict, cfgA, khA, ts, tt, extra, home, files, cfgs, sd] => do
    let fx ← decFixes fx
    let t ← decTransport tr
    let host ← decStr host
    let port ← decPort port
    let user ← decStr user
    let pw ← decStr pw
    let key ← decStr key
    let pp ← decStr pp
    let cfgA ← decFileArg cfgA
    let khA ← decFileArg khA
    let ts ← ts.toNat?
    let tt ← tt.toNat?
    let extra ← decList extra
    let home ← decStr home
    let files ← decList files
    let cfgs ← decCfgs cfgs
    let sd ← decHostCfg (sd.splitOn ":")
    let a : Args := { transport := t, host := host, port := port, user := user, password := pw, key := key,
                      passphrase := pp, strict := strict == "1", cfgArg := cfgA, khArg := khA,
                      tSocket := ts, tTransport := tt, extra := extra }
    let v : SshConfigView := { home := home, isFile := fun p => files.contains p,
                               lookup := fun p => match cfgs.find? (·.1 == p) with | some (_, h) => h | none => {},
                               sshDefault := sd }
    pure (fx, a, v)
  | _ => none

def encResolved (full : Bool) (a : Args) (v : SshConfigView) : Except Err Resolved → String
  | .error e => s!"err {errName e}"
  | .ok r =>
    let t := a.transport
    let d := r.reported
    let rep := ",".intercalate [encStr d.host, toString d.port, encStr d.user, encStr d.password, encStr d.key,
                                encStr d.passphrase, b01 d.strict, encStr d.cfgFile, encStr d.khFile]
    let head := s!"ok R={rep} B={encStr r.bta.host},{r.bta.port} PL={encPlugin r.plugin} AV={encList r.argv}"
    if full then
      let pr := if isSystem t then encParse (parseSshArgv r.argv) else "-"
      s!"{head} PR={pr} EF={encEff (effective t r v)}"
    else head

def handleResolve (fs : List String) : Option String := do
  let (fx, a, v) ← decCase fs
  pure (encResolved true a v (resolve fx a v))

/-- `hist <case>|<case>|…`, each <case> = the 18 fields of `resolve` joined by `+` -/
def handleHist (steps : List String) : Option String := do
  let cases ← steps.mapM fun st => decCase (st.splitOn "+")
  match cases with
  | [] => pure "."
  | (fx, _, _) :: _ =>
    let hist := cases.map fun (_, a, v) => (a, v)
    let rs := runHistory fx [] hist
    pure (" || ".intercalate ((hist.zip rs).map fun ((a, v), r) => encResolved false a v r))

def handleLine (line : String) : String :=
  match line.trimAscii.toString.splitOn " " with
  | "resolve" :: rest => (handleResolve rest).getD "bad-op"
  | ["hist", steps] => (handleHist (steps.splitOn "|")).getD "bad-op"
  | ["parse", argv] =>
    match decList argv with
    | some ws => encParse (parseSshArgv ws)
    | none => "bad-op"
  | _ => "bad-op"

partial def loop (h : IO.FS.Stream) : IO Unit := do
  let line ← h.getLine
  if line.isEmpty then return ()
  IO.println (handleLine line)
  loop h

def main : IO Unit := do loop (← IO.getStdin)
