import ScrapliModel.Bytes
import ScrapliModel.SSHConfig
import ScrapliModel.SSHConfigParse
import ScrapliModel.Spec.SSHLookup
open Scrapli Scrapli.SSHConfig Scrapli.Gen.SSHConfig

/-
  line protocol (all strings UTF-8 hex, "-" = empty string):
    L <name> <entries>        entries: "." | e;e;...   e = hosts/hostname/attr,attr,...   (Val: n | s<hex> | i<dec>)
      -> ok <hosts> <hostname> <attr,attr,...>   |  err <kind>
    D <name> <entries>        -> anchored=<0|1> nocross=<0|1> crossnaming=<0|1> (hypotheses of lookup_only_matching_partial[_wide])
    S <name> <entries>        the hand-written SPECIFICATION (Spec.lookup) on the same input -> same reply format
    HL <n1,n2,..> <entries>   a HISTORY of lookups on one SSHConfig object (cfgHistory) -> replies joined by " | "
    HK <n1,n2,..> <lines> <hm4>  history on one SSHKnownHosts object (khHistory); hm4: salt/hash/name/(t|f|x);...
    K <name> <lines> <hm>     lines: "." | l;l;...  l = host/keytype/pubkey ;  hm: "." | salt/hash/(t|f|x);...
      -> ok none | ok <keytype> <pubkey> | err <kind>
    PC <home> <text>          the TEXT PARSER parseCfg + insertAll -> ok <entries of the dict, in order> | err <kind>
    PL <home> <name> <text>   lookupText (parse + build + lookup) -> same reply as L
    PK <text>                 khBuild (khParse text) -> ok <key/keytype/pubkey;...>
    PKL <name> <text> <hm>    khLookupText -> same reply as K
  `home` = os.path.expanduser("~") (the model's `expand` parameter: `~` and `~/…` only)
  The `mc` parameter of the model is the generated `regexMeta` (the tree's current state).
-/

def decStr (s : String) : Option Str := do
  let b ← Hex.decode s
  let t ← String.fromUTF8? ⟨b.toArray⟩
  pure t.toList

def encStr (s : Str) : String := Hex.encode (String.ofList s).toUTF8.toList

def decVal (s : String) : Option Val :=
  match s.toList with
  | ['n'] => some .none
  | 's' :: r => (decStr (String.ofList r)).map .str
  | 'i' :: r => (String.ofList r).toNat?.map .int
  | _ => none

def encVal : Val → String
  | .none => "n"
  | .str s => "s" ++ encStr s
  | .int n => s!"i{n}"

def decEntry (s : String) : Option Entry :=
  match s.splitOn "/" with
  | [h, hn, atl] => do
    let hosts ← decStr h
    let hostname ← decVal hn
    let attrs ← (atl.splitOn ",").mapM decVal
    pure { hosts, hostname, attrs }
  | _ => none

def decList {α} (f : String → Option α) (s : String) : Option (List α) :=
  if s == "." then some [] else (s.splitOn ";").mapM f

def errName : Err → String
  | .keyError => "keyError"
  | .badRegex => "badRegex"
  | .valueError => "valueError"
  | .noFuel => "noFuel"

def decKH (s : String) : Option KHLine :=
  match s.splitOn "/" with
  | [h, kt, pk] => do pure { host := ← decStr h, val := (← decStr kt, ← decStr pk) }
  | _ => none

def decHM (s : String) : Option ((Str × Str) × Option Bool) :=
  match s.splitOn "/" with
  | [a, b, r] => do
    let a ← decStr a
    let b ← decStr b
    let r ← (if r == "t" then some (some true) else if r == "f" then some (some false)
             else if r == "x" then some none else none)
    pure ((a, b), r)
  | _ => none

def decHM4 (s : String) : Option ((Str × Str × Str) × Option Bool) :=
  match s.splitOn "/" with
  | [a, b, n, r] => do
    let a ← decStr a
    let b ← decStr b
    let n ← decStr n
    let r ← (if r == "t" then some (some true) else if r == "f" then some (some false)
             else if r == "x" then some none else none)
    pure ((a, b, n), r)
  | _ => none

def showCfg : Except Err Entry → String
  | .ok e => s!"ok {encStr e.hosts} {encVal e.hostname} {",".intercalate (e.attrs.map encVal)}"
  | .error k => s!"err {errName k}"

def showKH : Except Err (Option (Str × Str)) → String
  | .ok none => "ok none"
  | .ok (some (kt, pk)) => s!"ok {encStr kt} {encStr pk}"
  | .error k => s!"err {errName k}"

/-- os.path.expanduser for `~` and `~/…` with the given home directory -/
def expandHome (home : Str) : Str → Str
  | '~' :: r => if r.isEmpty || r.head? == some '/' then home ++ r else '~' :: r
  | s => s

def encEntry (e : Entry) : String := s!"{encStr e.hosts}/{encVal e.hostname}/{",".intercalate (e.attrs.map encVal)}"

def handleLine (line : String) : String :=
  match line.trimAscii.toString.splitOn " " with
  | ["PC", home, text] =>
    match decStr home, decStr text with
    | some home, some text =>
      match parseCfg (expandHome home) text with
      | .ok parsed =>
        let d := insertAll parsed
        if d.isEmpty then "ok ." else "ok " ++ ";".intercalate (d.map fun ke => encEntry ke.2)
      | .error k => s!"err {errName k}"
    | _, _ => "bad-op"
  | ["PL", home, name, text] =>
    match decStr home, decStr name, decStr text with
    | some home, some name, some text => showCfg (lookupText (expandHome home) regexMeta text name)
    | _, _, _ => "bad-op"
  | ["PK", text] =>
    match decStr text with
    | some text =>
      let d := khBuild (khParse text)
      if d.isEmpty then "ok ." else "ok " ++ ";".intercalate (d.map fun kv => s!"{encStr kv.1}/{encStr kv.2.1}/{encStr kv.2.2}")
    | none => "bad-op"
  | ["PKL", name, text, hm] =>
    match decStr name, decStr text, decList decHM hm with
    | some name, some text, some tbl =>
      let hmf : Str → Str → Str → Option Bool := fun salt hash _ =>
        match tbl.lookup (salt, hash) with
        | some r => r
        | none => some false
      showKH (khLookupText hmf text name)
    | _, _, _ => "bad-op"
  | ["L", name, entries] =>
    match decStr name, decList decEntry entries with
    | some name, some parsed =>
      match lookupCfg regexMeta parsed name with
      | .ok e => s!"ok {encStr e.hosts} {encVal e.hostname} {",".intercalate (e.attrs.map encVal)}"
      | .error k => s!"err {errName k}"
    | _, _ => "bad-op"
  | ["HL", names, entries] =>
    match (names.splitOn ",").mapM decStr, decList decEntry entries with
    | some names, some parsed =>
      match build regexMeta parsed with
      | .ok d => " | ".intercalate ((cfgHistory regexMeta d names).2.map showCfg)
      | .error k => " | ".intercalate (names.map fun _ => s!"err {errName k}")
    | _, _ => "bad-op"
  | ["HK", names, lines, hm] =>
    match (names.splitOn ",").mapM decStr, decList decKH lines, decList decHM4 hm with
    | some names, some lines, some tbl =>
      let hmf : Str → Str → Str → Option Bool := fun salt hash name =>
        match tbl.lookup (salt, hash, name) with
        | some r => r
        | none => some false
      " | ".intercalate ((khHistory hmf (khBuild lines) names).2.map showKH)
    | _, _, _ => "bad-op"
  | ["D", name, entries] =>
    -- is the case inside the domain of lookup_only_matching_partial?  (anchoredB / noCrossB are proved ⇔ the predicates)
    match decStr name, decList decEntry entries with
    | some name, some parsed =>
      let ks := starKey :: parsed.map (·.hosts)
      s!"anchored={if Spec.anchoredB ks name then 1 else 0} nocross={if Spec.noCrossB ks then 1 else 0} crossnaming={if Spec.crossNamingB ks name then 1 else 0}"
    | _, _ => "bad-op"
  | ["S", name, entries] =>
    match decStr name, decList decEntry entries with
    | some name, some parsed =>
      match Spec.lookup (withStar (insertAll parsed)) name with
      | some e => s!"ok {encStr e.hosts} {encVal e.hostname} {",".intercalate (e.attrs.map encVal)}"
      | none => "err spec-none"
    | _, _ => "bad-op"
  | ["K", name, lines, hm] =>
    match decStr name, decList decKH lines, decList decHM hm with
    | some name, some lines, some tbl =>
      let hmf : Str → Str → Str → Option Bool := fun salt hash _ =>
        match tbl.lookup (salt, hash) with
        | some r => r
        | none => some false
      match khLookup hmf (khBuild lines) name with
      | .ok none => "ok none"
      | .ok (some (kt, pk)) => s!"ok {encStr kt} {encStr pk}"
      | .error k => s!"err {errName k}"
    | _, _, _ => "bad-op"
  | _ => "bad-op"

partial def loop (h : IO.FS.Stream) : IO Unit := do
  let line ← h.getLine
  if line.isEmpty then return ()
  IO.println (handleLine line)
  loop h

def main : IO Unit := do loop (← IO.getStdin)
