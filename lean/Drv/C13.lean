import ScrapliModel.Send
import ScrapliModel.SendFault
open Scrapli Scrapli.Send

/-!
line protocol (fields separated by one blank; strings are hex of their UTF-8 bytes, "-" = empty, lists are
comma separated with "." = empty list):

  <op> <platform> <stack> <ret> <markers> <defaultPriv> <levels> <generic> <belief> <mode> <fwc> <stop> <priv>
       <eager> <arg> <outs> <moves> <navs>

  op        gcmds | gfile | cmd | cmds | cmdsfile | cfgs | cfg | cfgsfile      (arg: list of lines | text)
            split | fsplit | failed | dev                                      (pure functions on <arg>)
  platform  iosxe|iosxr|nxos|eos|junos|none   stack sync|async    -> abort plan from the GENERATED table
  levels    name,pattern,name,pattern,…       fwc  N | S<hex> | L<list>
  outs      mode,line,out triples             moves mode,line,newmode triples
  navs      records joined by "|": target;belief;mode;ok;lines

  F <point> <kind> <k> <op> … (the 18 fields above)      the same operation over the FAILING channel (SendFault.lean):
            point bw|al|ar|rl   kind timeout|conn   k = user/abort send_input calls that succeed first
            reply: <timeout|conn|ok|index|priv|nav> <log> <wire> <belief> <mode> <usable 0|1>

reply:  <err> <log> <wire> <resps> <belief> <mode> <merged>
  log    origin:mode:line entries   resps/merged  failed:result
-/

def toStr (b : Bytes) : Option Str := (String.fromUTF8? (ByteArray.mk b.toArray)).map (·.toList)
def hexStr (s : String) : Option Str := (Hex.decode s) >>= toStr
def hexStrs (s : String) : Option (List Str) := (Hex.decodeList s) >>= (·.mapM toStr)
def strHex (s : Str) : String := Hex.encode (encode s)

def triples : List α → Option (List (α × α × α))
  | [] => some []
  | a :: b :: c :: rest => (triples rest).map ((a, b, c) :: ·)
  | _ => none

def pairs : List α → Option (List (α × α))
  | [] => some []
  | a :: b :: rest => (pairs rest).map ((a, b) :: ·)
  | _ => none

def parseFwc (s : String) : Option Fwc :=
  match s.toList with
  | ['N'] => some .none
  | 'S' :: r => (hexStr (String.ofList r)).map .str
  | 'L' :: r => (hexStrs (String.ofList r)).map .list
  | _ => none

def parseBool (s : String) : Option Bool := if s == "1" then some true else if s == "0" then some false else none

structure NavRec where
  target : Str
  belief : Str
  mode : Str
  ok : Bool
  lines : List Str

def parseNav (s : String) : Option NavRec :=
  match s.splitOn ";" with
  | [t, b, m, ok, ls] => do
    pure ⟨← hexStr t, ← hexStr b, ← hexStr m, ← parseBool ok, ← hexStrs ls⟩
  | _ => none

def parseNavs (s : String) : Option (List NavRec) :=
  if s == "." then some [] else (s.splitOn "|").mapM parseNav

/-- the device / channel as tables; a line changes the mode only when the table says so (simdevice strips
    the line before looking it up; the harness puts the stripped text into the table and we strip here) -/
def strip (s : Str) : Str :=
  let ws := fun (c : Char) => c == ' ' || c == '\t' || c == '\n' || c == '\r' || c == Char.ofNat 11 || c == Char.ofNat 12
  ((s.dropWhile ws).reverse.dropWhile ws).reverse

def mkEnv (outs : List (Str × Str × Bytes)) (moves : List (Str × Str × Str)) (navs : List NavRec) : Env Str where
  out := fun m l => match outs.find? (fun t => t.1 == m && t.2.1 == l) with
    | some t => t.2.2
    | none => []
  next := fun m l => match moves.find? (fun t => t.1 == m && t.2.1 == strip l) with
    | some t => t.2.2
    | none => m
  nav := fun tgt belief m => match navs.find? (fun r => r.target == tgt && r.belief == belief && r.mode == m) with
    | some r => (r.lines, r.ok)
    | none => ([], true)

def parsePlatform (p : String) : Option (Option Platform) :=
  match p with
  | "iosxe" => some (some .iosxe) | "iosxr" => some (some .iosxr) | "nxos" => some (some .nxos)
  | "eos" => some (some .eos) | "junos" => some (some .junos) | "none" => some none
  | _ => none

def showOrigin : Origin → String
  | .user => "u" | .nav => "n" | .abort => "a"

def showLog (l : List (Entry Str)) : String :=
  if l.isEmpty then "." else ",".intercalate (l.map fun e => s!"{showOrigin e.origin}:{strHex e.mode}:{strHex e.line}")

def showResp (r : Resp) : String := s!"{if r.failed then "1" else "0"}:{strHex r.result}"

def showResps (l : List Resp) : String := if l.isEmpty then "." else ",".intercalate (l.map showResp)

def showErr : Option Err → String
  | none => "ok" | some .index => "index" | some .priv => "priv" | some .nav => "nav"

def showRes (r : Res Str) (merged : Option Resp) : String :=
  s!"{showErr r.err} {showLog r.st.log} {Hex.encode r.st.writes.flatten} {showResps r.resps} {strHex r.st.belief} {strHex r.st.mode} {match merged with | some m => showResp m | none => "-"}"

def showStrs (l : List Str) : String := if l.isEmpty then "." else ",".intercalate (l.map strHex)

def handleOp (f : List String) : Option String :=
  match f with
  | [op, plat, stack, ret, markers, dpriv, levels, generic, belief, mode, fwc, stop, priv, eager, arg, outs, moves, navs] => do
    let plat ← parsePlatform plat
    let isAsync := stack == "async"
    let lv ← (← hexStrs levels) |> pairs
    let cfg : Cfg := { ret := ← hexStr ret, defaultMarkers := ← hexStrs markers, defaultPriv := ← hexStr dpriv,
                       levels := lv, genericMode := ← parseBool generic,
                       abort := match plat with | some p => platformAbort p isAsync | none => .nothing }
    let outsL ← (← Hex.decodeList outs) |> triples
    let outsT ← outsL.mapM fun (m, l, o) => do pure ((← toStr m), (← toStr l), o)
    let movesT ← (← hexStrs moves) |> triples
    let env := mkEnv outsT movesT (← parseNavs navs)
    let st : St Str := { belief := ← hexStr belief, mode := ← hexStr mode }
    let fwc ← parseFwc fwc
    let stop ← parseBool stop
    let eager ← parseBool eager
    let priv ← hexStr priv
    match op with
    | "gcmds" => pure (showRes (genericSendCommands env cfg.ret .user fwc stop eager (← hexStrs arg) st) none)
    | "gfile" => pure (showRes (genericSendCommandsFromFile env cfg.ret fwc stop eager (← hexStr arg) st) none)
    | "cmd" => pure (showRes (sendCommand env cfg fwc (← hexStr arg) st) none)
    | "cmds" => pure (showRes (sendCommands env cfg fwc stop eager (← hexStrs arg) st) none)
    | "cmdsfile" => pure (showRes (sendCommandsFromFile env cfg fwc stop eager (← hexStr arg) st) none)
    | "cfgs" => pure (showRes (sendConfigs env cfg fwc stop priv eager (← hexStrs arg) st) none)
    | "cfg" =>
      let r := sendConfig env cfg fwc stop priv eager (← hexStr arg) st
      pure (showRes r.1 r.2)
    | "cfgsfile" => pure (showRes (sendConfigsFromFile env cfg fwc stop priv eager (← hexStr arg) st) none)
    | _ => none
  | "F" :: pt :: kind :: k :: [op, plat, stack, ret, markers, dpriv, levels, generic, belief, mode, fwc, stop, priv, eager, arg, outs, moves, navs] => do
    let point ← match pt with
      | "bw" => some Point.beforeWrite | "al" => some Point.afterLine | "ar" => some Point.afterReturn
      | "rl" => some Point.returnLost | _ => none
    let kind ← match kind with | "timeout" => some FKind.timeout | "conn" => some FKind.conn | _ => none
    let flt : Fault := ⟨point, kind⟩
    let k ← k.toNat?
    let plat ← parsePlatform plat
    let isAsync := stack == "async"
    let lv ← (← hexStrs levels) |> pairs
    let cfg : Cfg := { ret := ← hexStr ret, defaultMarkers := ← hexStrs markers, defaultPriv := ← hexStr dpriv,
                       levels := lv, genericMode := ← parseBool generic,
                       abort := match plat with | some p => platformAbort p isAsync | none => .nothing }
    let outsL ← (← Hex.decodeList outs) |> triples
    let outsT ← outsL.mapM fun (m, l, o) => do pure ((← toStr m), (← toStr l), o)
    let movesT ← (← hexStrs moves) |> triples
    let env := mkEnv outsT movesT (← parseNavs navs)
    let fs : FSt Str := ⟨{ belief := ← hexStr belief, mode := ← hexStr mode }, k⟩
    let fwc ← parseFwc fwc
    let stop ← parseBool stop
    let eager ← parseBool eager
    let priv ← hexStr priv
    let r ← match op with
      | "gcmds" => pure (genericSendCommandsF env cfg.ret flt .user fwc stop eager (← hexStrs arg) fs)
      | "gfile" => pure (genericSendCommandsFromFileF env cfg.ret flt fwc stop eager (← hexStr arg) fs)
      | "cmd" => pure (sendCommandF env cfg flt fwc (← hexStr arg) fs)
      | "cmds" => pure (sendCommandsF env cfg flt fwc stop eager (← hexStrs arg) fs)
      | "cmdsfile" => pure (sendCommandsFromFileF env cfg flt fwc stop eager (← hexStr arg) fs)
      | "cfgs" => pure (sendConfigsF env cfg flt fwc stop priv eager (← hexStrs arg) fs)
      | "cfg" => pure (sendConfigF env cfg flt fwc stop priv eager (← hexStr arg) fs)
      | "cfgsfile" => pure (sendConfigsFromFileF env cfg flt fwc stop priv eager (← hexStr arg) fs)
      | _ => none
    match r with
    | .fault fk f =>
      pure s!"{match fk with | .timeout => "timeout" | .conn => "conn"} {showLog f.st.log} {Hex.encode f.st.writes.flatten} {strHex f.st.belief} {strHex f.st.mode} {if usableAfter flt then "1" else "0"}"
    | .ok v f =>
      pure s!"{showErr v.2} {showLog f.st.log} {Hex.encode f.st.writes.flatten} {strHex f.st.belief} {strHex f.st.mode} 1"
  | [op, arg] =>
    match op with
    | "split" => (hexStr arg).map fun s => showStrs (splitlines s)
    | "fsplit" => (hexStr arg).map fun s => showStrs (fileLines s)
    | "dev" => (Hex.decode arg).map fun b => Hex.encodeList (devLines b)
    | _ => none
  | [op, fwc, arg] =>
    match op with
    | "failed" => do
      let fwc ← parseFwc fwc
      let b ← Hex.decode arg
      let res := decode b
      pure s!"{if recordFailed (respMarkers fwc) res then "1" else "0"} {strHex res}"
    | _ => none
  | _ => none

def handleLine (line : String) : String :=
  match handleOp (line.trimAscii.toString.splitOn " ") with
  | some s => s
  | none => "bad-op"

partial def loop (h : IO.FS.Stream) : IO Unit := do
  let line ← h.getLine
  if line.isEmpty then return ()
  IO.println (handleLine line)
  loop h

def main : IO Unit := do loop (← IO.getStdin)
