import ScrapliModel.Log
import ScrapliModel.LogApi
open Scrapli Scrapli.Log

/-!
  Line protocol driver for the C20 model (run by the interpreter).  Fields are blank separated.
  str        = hex of its UTF-8 bytes ("-" = empty);  optional str: "~" = absent
  args       = "." (none) or r/s+r/s…       (repr / str renderings of each argument)
  record     = msg,levelname,asctime,module,funcName,lineno,host,port,uid,args
  records    = "." or record;record;…
  variant    = four 0/1 digits: lazyAware flushOnClose portDefault asciiStream

  handler <variant> <buffered> <callerInfo> <logHeader> <append> <old content> <records>  -> <file> <errors>
        file = `fileAfter append old (fileText events)`: the whole file after the handler's life
        errors = "." or kind@offset,… (offset = UTF-8 length of the text written before the error)
  fmt <variant> <callerInfo> <logHeader> <id> <record>              -> ok <text> | err <kind>
  chan <off|w|a|bio> <old content hex> <host> <port> <uid> <ops>    -> <dest hex> <handle 0/1> <emitted records>
        ops = "." or o | c | r<hex chunk> | w<input str>/<repr str> | x   joined by ","
        emitted records = "." or msg|args|host|port|uid;…
  repr <hex bytes>                                                  -> <str>
  pyfmt <template> <args>                                           -> ok <str> | err <kind>
  mode <str>                                                        -> ok <str> | err <kind>
  extras <host> <port> <uid>                                        -> <host?> <port?> <uid?>
  api <variant> <level0> <s|c> <old files> <ops>                    -> <files> <raised> <handlers> <errors>
        a whole history of the logging API (ScrapliModel/LogApi.lean `runApi`): s = logging.shutdown(), c = close()
        old files = "." or id:content,…      ops = "." or op|op|…
        op = E<file id or ~>,<level number>,<callerInfo>,<bufferLog>,<mode str>  |  R<levelno>:<record>
        files = "." or id:content,… for every path named in the request (ascending); errors = logging errors of all handlers
-/

def decStr (s : String) : Option Str := do
  let b ← Hex.decode s
  let t ← String.fromUTF8? (ByteArray.mk b.toArray)
  pure t.toList

def encStr (s : Str) : String := Hex.encode (encode s)

def decOpt (s : String) : Option (Option Str) :=
  if s == "~" then some none else (decStr s).map some

def encOpt : Option Str → String
  | none => "~"
  | some s => encStr s

def decBool (s : String) : Option Bool :=
  if s == "1" then some true else if s == "0" then some false else none

def decArgs (s : String) : Option (List Arg) :=
  if s == "." then some [] else
  (s.splitOn "+").mapM fun a =>
    match a.splitOn "/" with
    | [r, t] => do pure ⟨← decStr r, ← decStr t⟩
    | _ => none

def encArgs (as : List Arg) : String :=
  if as.isEmpty then "." else "+".intercalate (as.map fun a => s!"{encStr a.r}/{encStr a.s}")

def decRec (s : String) : Option Rec :=
  match s.splitOn "," with
  | [msg, lvl, asc, mod, fn, ln, host, port, uid, args] => do
    pure { msg := ← decStr msg, levelname := ← decStr lvl, asctime := ← decStr asc, module := ← decStr mod,
           funcName := ← decStr fn, lineno := ← ln.toNat?, host := ← decOpt host, port := ← decOpt port,
           uid := ← decOpt uid, args := ← decArgs args }
  | _ => none

def decRecs (s : String) : Option (List Rec) :=
  if s == "." then some [] else (s.splitOn ";").mapM decRec

def decVariant (s : String) : Option Variant :=
  match s.toList with
  | [a, b, c, d] => do
    pure ⟨← decBool (String.singleton a), ← decBool (String.singleton b), ← decBool (String.singleton c),
      ← decBool (String.singleton d)⟩
  | _ => none

def errKind : PyErr → String
  | .attributeError => "AttributeError"
  | .typeError => "TypeError"
  | .valueError => "ValueError"
  | .scrapliException => "ScrapliException"
  | .unicodeEncodeError => "UnicodeEncodeError"

/-- errors with the number of bytes written to the file before each -/
def errOffsets (evs : List Ev) : List String :=
  (evs.foldl (fun (acc : Nat × List String) ev =>
    match ev with
    | .line s => (acc.1 + (encode s).length + 1, acc.2)
    | .error e => (acc.1, acc.2 ++ [s!"{errKind e}@{acc.1}"])) (0, [])).2

def encEvents (append : Bool) (old : Str) (evs : List Ev) : String :=
  let errs := errOffsets evs
  s!"{encStr (fileAfter append old (fileText evs))} {if errs.isEmpty then "." else ",".intercalate errs}"

def decOp (s : String) : Option ChanOp :=
  match s.toList with
  | ['o'] => some .open
  | ['c'] => some .close
  | ['x'] => some (.write [] [] true)
  | 'r' :: rest => (Hex.decode (String.ofList rest)).map .read
  | 'w' :: rest =>
    match (String.ofList rest).splitOn "/" with
    | [i, r] => do pure (.write (← decStr i) (← decStr r) false)
    | _ => none
  | _ => none

def decOps (s : String) : Option (List ChanOp) :=
  if s == "." then some [] else (s.splitOn ",").mapM decOp

def encEmitted (rs : List Rec) : String :=
  if rs.isEmpty then "." else
  ";".intercalate (rs.map fun r =>
    s!"{encStr r.msg}|{encArgs r.args}|{encOpt r.host}|{encOpt r.port}|{encOpt r.uid}")

def exceptStr (e : Except PyErr Str) : String :=
  match e with
  | .ok s => s!"ok {encStr s}"
  | .error k => s!"err {errKind k}"

def decApiOp (s : String) : Option ApiOp :=
  match s.toList with
  | 'E' :: rest =>
    match (String.ofList rest).splitOn "," with
    | [f, lvl, c, b, m] => do
      let file ← if f == "~" then some none else f.toNat?.map some
      pure (.enable { file := file, level := ← lvl.toNat?, callerInfo := ← decBool c, bufferLog := ← decBool b, mode := ← decStr m })
    | _ => none
  | 'R' :: rest =>
    match (String.ofList rest).splitOn ":" with
    | [n, r] => do pure (.emit (← decRec r) (← n.toNat?))
    | _ => none
  | _ => none

def decOld (s : String) : Option (List (Nat × Str)) :=
  if s == "." then some [] else
  (s.splitOn ",").mapM fun x =>
    match x.splitOn ":" with
    | [i, c] => do pure (← i.toNat?, ← decStr c)
    | _ => none

def insertSorted (n : Nat) : List Nat → List Nat
  | [] => [n]
  | a :: t => if n < a then n :: a :: t else if n == a then a :: t else a :: insertSorted n t

def apiFiles (old : List (Nat × Str)) (ops : List ApiOp) : List Nat :=
  let ids := old.map (·.1) ++ ops.filterMap fun
    | .enable a => a.file
    | .emit _ _ => none
  ids.foldl (fun acc n => insertSorted n acc) []

def handleLine (line : String) : String :=
  match line.trimAscii.toString.splitOn " " with
  | ["handler", v, buffered, caller, header, append, old, recs] =>
    match decVariant v, decBool buffered, decBool caller, decBool header, decBool append, decStr old, decRecs recs with
    | some v, some b, some c, some h, some a, some o, some rs => encEvents a o (runHandler v ⟨h, c⟩ b rs)
    | _, _, _, _, _, _, _ => "bad-op"
  | ["fmt", v, caller, header, id, rec] =>
    match decVariant v, decBool caller, decBool header, id.toNat?, decRec rec with
    | some v, some c, some h, some id, some r => exceptStr (format v ⟨h, c⟩ id r)
    | _, _, _, _, _ => "bad-op"
  | ["chan", sink, old, host, port, uid, ops] =>
    let sk : Option Sink := if sink == "off" then some .off else if sink == "w" then some (.path false)
      else if sink == "a" then some (.path true) else if sink == "bio" then some .bytesio else none
    match sk, Hex.decode old, decStr host, port.toNat?, decStr uid, decOps ops with
    | some sk, some old, some host, some port, some uid, some ops =>
      let (h, p, u) := instanceExtras host port uid
      let s := chanRun sk { msg := [], host := h, port := p, uid := u } { dest := old } ops
      s!"{Hex.encode s.dest} {if s.handle then "1" else "0"} {encEmitted s.recs}"
    | _, _, _, _, _, _ => "bad-op"
  | ["api", v, lvl, e, old, ops] =>
    let en : Option ApiEnd := if e == "s" then some .shutdown else if e == "c" then some .closeAll else none
    let opl : Option (List ApiOp) := if ops == "." then some [] else (ops.splitOn "|").mapM decApiOp
    match decVariant v, lvl.toNat?, en, decOld old, opl with
    | some v, some lvl, some en, some old, some opl =>
      let files0 : Nat → Str := fun f => (old.lookup f).getD []
      let s := runApi v (Api.init lvl files0) opl en
      let ids := apiFiles old opl
      let fs := if ids.isEmpty then "." else ",".intercalate (ids.map fun i => s!"{i}:{encStr (s.files i)}")
      let errs := (s.handlers.map fun hd => errorCount hd.st.out).foldl (· + ·) 0
      s!"{fs} {s.raised} {s.handlers.length} {errs}"
    | _, _, _, _, _ => "bad-op"
  | ["repr", b] =>
    match Hex.decode b with
    | some b => encStr (reprBytes b)
    | none => "bad-op"
  | ["pyfmt", t, args] =>
    match decStr t, decArgs args with
    | some t, some as => exceptStr (pyFormat t as)
    | _, _ => "bad-op"
  | ["mode", m] =>
    match decStr m with
    | some m => exceptStr (basicLoggingMode m)
    | none => "bad-op"
  | ["extras", host, port, uid] =>
    match decStr host, port.toNat?, decStr uid with
    | some host, some port, some uid =>
      let (h, p, u) := instanceExtras host port uid
      s!"{encOpt h} {encOpt p} {encOpt u}"
    | _, _, _ => "bad-op"
  | _ => "bad-op"

partial def loop (h : IO.FS.Stream) : IO Unit := do
  let line ← h.getLine
  if line.isEmpty then return ()
  IO.println (handleLine line)
  loop h

def main : IO Unit := do loop (← IO.getStdin)
