import ScrapliModel.TimeoutRestore
open Scrapli.TimeoutRestore

/-
  line: `<stack s|a> <shape t|mcbw|mcbwga bits> <ops> <tr> <sess|x> <op;op;...> <ev,ev,...|.>`
  reply: `<res,...> <ops/tr/sess,...> <site/region/ops/tr/sess,...|.>`   (thousandths of a second)
    op   sc:<net>:<ov> | scs:<net>:<file>:<ov>:<n>:<stop> | sar:<ov>:<rd> | si:<net>:<ov>
         | cfg:<ov>:<n>:<stop>:<acq> | rcb:<init>:<rt>:<complete>/<next>+...|.
    ov   n (None) | b (not a number) | <int>        rd  n | <int>
    ev   <exc>/<flag>   exc: - | t | c | p | y | o<n>
  shape `t` = the shape the translator read from the tree (Shape.sync / Shape.async).
-/

def pBool (s : String) : Option Bool := if s == "1" then some true else if s == "0" then some false else none

def pOv (s : String) : Option (Ov Int) :=
  if s == "n" then some .none else if s == "b" then some .bad else (s.toInt?).map .num

def pExc (s : String) : Option (Option Exc) :=
  if s == "-" then some none
  else if s == "t" then some (some .timeout)
  else if s == "c" then some (some .conn)
  else if s == "p" then some (some .priv)
  else if s == "y" then some (some .typeErr)
  else if s.startsWith "o" then ((s.drop 1).toString.toNat?).map (fun n => some (.other n))
  else none

def pEv (s : String) : Option Ev :=
  match s.splitOn "/" with
  | [e, f] => do
    let e ← pExc e
    let f ← pBool f
    pure ⟨e, f⟩
  | _ => none

def pCb (s : String) : Option (Cb Int) :=
  match s.splitOn "/" with
  | [c, n] => do
    let c ← pBool c
    let n ← n.toInt?
    pure ⟨c, n⟩
  | _ => none

def pOp (s : String) : Option (Op Int) :=
  match s.splitOn ":" with
  | ["sc", net, ov] => do pure (.sendCommand (← pBool net) (← pOv ov))
  | ["scs", net, file, ov, n, stop] => do
    pure (.sendCommands (← pBool net) (← pBool file) (← pOv ov) (← n.toNat?) (← pBool stop))
  | ["sar", ov, rd] => do
    let rd ← if rd == "n" then some none else (rd.toInt?).map some
    pure (.sendAndRead (← pOv ov) rd)
  | ["si", net, ov] => do pure (.sendInteractive (← pBool net) (← pOv ov))
  | ["cfg", ov, n, stop, acq] => do pure (.sendConfigs (← pOv ov) (← n.toNat?) (← pBool stop) (← pBool acq))
  | ["rcb", init, rt, cbs] => do
    let cbs ← if cbs == "." then some [] else (cbs.splitOn "+").mapM pCb
    pure (.readCallback (← pBool init) (← rt.toInt?) cbs)
  | _ => none

def pShape (stack : Bool) (s : String) : Option Shape :=
  if s == "t" then some (if stack then Shape.async else Shape.sync)
  else match s.toList with
    | [m, c, b, w] => do pure ⟨← pBool m.toString, ← pBool c.toString, ← pBool b.toString, ← pBool w.toString, false, false⟩
    | [m, c, b, w, g, a] => do
      pure ⟨← pBool m.toString, ← pBool c.toString, ← pBool b.toString, ← pBool w.toString, ← pBool g.toString, ← pBool a.toString⟩
    | _ => none

def sExc : Option Exc → String
  | none => "-"
  | some .timeout => "t"
  | some .conn => "c"
  | some .priv => "p"
  | some .typeErr => "y"
  | some (.other n) => s!"o{n}"

def sSite : Site → String
  | .pre => "pre" | .sendInput => "send_input" | .write => "write" | .readUntilInput => "read_until_input"
  | .sendReturn => "send_return" | .read => "read" | .interact => "interact" | .acquire => "acquire"
  | .abort => "abort" | .check => "check" | .run => "run" | .push => "push" | .gap => "gap"

def sRegion : Region → String
  | .none => "n" | .chan => "chan" | .cb => "cb" | .swap => "swap" | .gap => "gap"

def sSt (s : St Int) : String :=
  s!"{s.ops}/{s.tr}/" ++ (match s.sess with | none => "x" | some v => s!"{v}")

def sList (l : List String) : String := if l.isEmpty then "." else ",".intercalate l

def handleLine (line : String) : String :=
  match line.trimAscii.toString.splitOn " " with
  | [stack, shape, o, t, ss, ops, tape] =>
    let r : Option String := do
      let stack ← if stack == "a" then some true else if stack == "s" then some false else none
      let sh ← pShape stack shape
      let o ← o.toInt?
      let t ← t.toInt?
      let ss ← if ss == "x" then some none else (ss.toInt?).map some
      let ops ← (ops.splitOn ";").mapM pOp
      let tape ← if tape == "." then some [] else (tape.splitOn ",").mapM pEv
      let (steps, c) := run sh (milli stack) ops tape ⟨o, t, ss⟩
      pure (sList (steps.map (fun s => sExc s.res)) ++ " " ++ sList (steps.map (fun s => sSt s.st)) ++ " " ++
        sList (c.log.map (fun e => s!"{sSite e.site}/{sRegion e.region}/{sSt e.st}")))
    r.getD "bad-op"
  | _ => "bad-op"

partial def loop (h : IO.FS.Stream) : IO Unit := do
  let line ← h.getLine
  if line.isEmpty then return ()
  IO.println (handleLine line)
  loop h

def main : IO Unit := do loop (← IO.getStdin)
