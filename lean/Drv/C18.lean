import ScrapliModel.Bytes
import ScrapliModel.Factory
import ScrapliModel.FactoryHeap
open Scrapli Scrapli.Factory Scrapli.Factory.Heap Scrapli.Gen.Factory

/-!
  Line protocol of the C18 model driver (every str travels as hex of its UTF-8 bytes, "-" = empty).

  fac <0|1> <call> <env>      ->  ok <cls> <kwargs> <1|0|?>  |  err <ExceptionClass>
        runs `factoryNew (genTables async) async env call`; the last field is `driverRejectsTransport` for the
        generated signature of <cls> (? = class without generated signature)
  drv <0|1> <cls> <kwargs>    ->  1 | 0     `driverRejectsTransport` with the generated signature of <cls>
  heap <extra-defs> <ops>     ->  <defs> <conns>    runs `run` from `mkInit (coreDefs ++ extra)` and prints `view`
  tab                         ->  the generated tables (round-trip self check of the translator)

  value    N | B0 | B1 | I<int> | F<hex repr> | S<hex> | L<hex>,… | L. | D<hex>:<hex>,… | D. | C<hex> | O<hex>
  kwargs   <hexkey>=<value>;…   or "."
  env      <0|1>|<hexmodule>~E|<hexmodule>~P!<dt>!<defaults>!<variants>|…
           dt = n<hex> | c<hexsync>+<hexasync> ; variants = - (no key) | . | <hexname>^<dt or ->^<kwargs>&…
  level    <key>:<pattern>:<name>:<previous_priv>:<deescalate>:<escalate>:<0|1>:<escalate_prompt>:<nc>  nc = <hex>/… | .
  tables   <hexname>~<level>,… or .~<nc>
  ops      c:<i>:<hexcls> | r:<i>:<hexname> | e:<i>:<hexlvl>:<hexpattern|!>:<hex not_contains item to append|!>
           | fa:<i>:<hex item to append> | fc:<i> | d:<i>:<hexlvl> | n:<i>:<level>      joined by ";" or "."  (e / fa are compiled against the
           model's current state into editLevel / editFailedWhen)
-/

def hexStr (s : String) : String := Hex.encode s.toUTF8.toList

def unhexStr (s : String) : Option String := do
  let b ← Hex.decode s
  String.fromUTF8? (ByteArray.mk b.toArray)

def splitOrEmpty (s : String) (sep : String) : List String := if s == "." then [] else s.splitOn sep

-- ---------- values / kwargs
def encVal : PyVal → String
  | none => "N"
  | some (.bool b) => if b then "B1" else "B0"
  | some (.int i) => s!"I{i}"
  | some (.flt r) => "F" ++ hexStr r
  | some (.str s) => "S" ++ hexStr s
  | some (.list l) => if l.isEmpty then "L." else "L" ++ ",".intercalate (l.map hexStr)
  | some (.dict l) => if l.isEmpty then "D." else "D" ++ ",".intercalate (l.map fun e => hexStr e.1 ++ ":" ++ hexStr e.2)
  | some (.fn n) => "C" ++ hexStr n
  | some (.obj n) => "O" ++ hexStr n

def decVal (s : String) : Option PyVal :=
  let body := String.ofList (s.toList.drop 1)
  match s.toList.head? with
  | some 'N' => some none
  | some 'B' => some (some (.bool (body == "1")))
  | some 'I' => body.toInt?.map (fun i => some (.int i))
  | some 'F' => (unhexStr body).map (fun r => some (.flt r))
  | some 'S' => (unhexStr body).map (fun r => some (.str r))
  | some 'L' => ((splitOrEmpty body ",").mapM unhexStr).map (fun l => some (.list l))
  | some 'D' => ((splitOrEmpty body ",").mapM (fun (e : String) => match e.splitOn ":" with
      | [k, v] => do let k ← unhexStr k; let v ← unhexStr v; pure (k, v)
      | _ => none)).map (fun l => some (.dict l))
  | some 'C' => (unhexStr body).map (fun r => some (.fn r))
  | some 'O' => (unhexStr body).map (fun r => some (.obj r))
  | _ => none

def encKw (d : Kw) : String :=
  if d.isEmpty then "." else ";".intercalate (d.map fun e => hexStr e.1 ++ "=" ++ encVal e.2)

def decKw (s : String) : Option Kw :=
  (splitOrEmpty s ";").mapM fun (e : String) => match e.splitOn "=" with
    | [k, v] => do let k ← unhexStr k; let v ← decVal v; pure (k, v)
    | _ => none

-- ---------- community environment
def decDT (s : String) : Option DriverType :=
  let body := String.ofList (s.toList.drop 1)
  match s.toList.head? with
  | some 'n' => (unhexStr body).map .named
  | some 'c' => match body.splitOn "+" with
    | [a, b] => do let a ← unhexStr a; let b ← unhexStr b; pure (.custom a b)
    | _ => none
  | _ => none

def decVariants (s : String) : Option (Option (List (String × Variant))) :=
  if s == "-" then some none else
  ((splitOrEmpty s "&").mapM fun (e : String) => match e.splitOn "^" with
    | [n, dt, kw] => do
      let n ← unhexStr n
      let dt ← if dt == "-" then some none else (decDT dt).map some
      let kw ← decKw kw
      pure (n, ({ driverType := dt, kwargs := kw } : Variant))
    | _ => none).map some

def decModule (s : String) : Option (String × Module) :=
  match s.splitOn "~" with
  | [n, m] => do
    let n ← unhexStr n
    if m == "E" then pure (n, .noPlatform) else
    match m.splitOn "!" with
    | ["P", dt, dflt, vs] => do
      let dt ← decDT dt
      let dflt ← decKw dflt
      let vs ← decVariants vs
      pure (n, .platform { driverType := dt, defaults := dflt, variants := vs })
    | _ => none
  | _ => none

def decEnv (s : String) : Option Env :=
  match s.splitOn "|" with
  | inst :: mods => do
    let ms ← mods.mapM decModule
    pure { communityInstalled := inst == "1", modules := fun n => (ms.lookup n).getD .missing }
  | [] => none

-- ---------- heap side
def encNc (l : List String) : String := if l.isEmpty then "." else "/".intercalate (l.map hexStr)
def decNc (s : String) : Option (List String) := (splitOrEmpty s "/").mapM unhexStr

def encLevel (key : String) (d : Level) : String :=
  ":".intercalate [hexStr key, hexStr d.pattern, hexStr d.name, hexStr d.previousPriv, hexStr d.deescalate,
    hexStr d.escalate, (if d.escalateAuth then "1" else "0"), hexStr d.escalatePrompt, encNc d.notContains]

def decLevel (s : String) : Option (String × Level) :=
  match s.splitOn ":" with
  | [k, p, n, pp, de, es, ea, ep, nc] => do
    let k ← unhexStr k; let p ← unhexStr p; let n ← unhexStr n; let pp ← unhexStr pp
    let de ← unhexStr de; let es ← unhexStr es; let ep ← unhexStr ep; let nc ← decNc nc
    pure (k, { pattern := p, name := n, previousPriv := pp, deescalate := de, escalate := es,
               escalateAuth := ea == "1", escalatePrompt := ep, notContains := nc })
  | _ => none

def encTablesV (v : TablesV) : String :=
  (if v.privs.isEmpty then "." else ",".intercalate (v.privs.map fun e => encLevel e.1 e.2)) ++ "~" ++ encNc v.fwc

def decDef (s : String) : Option (String × TablesV) :=
  match s.splitOn "~" with
  | [n, ps, f] => do
    let n ← unhexStr n
    let ps ← (splitOrEmpty ps ",").mapM decLevel
    let f ← decNc f
    pure (n, ⟨ps, f⟩)
  | _ => none

/-- driver-level operations: `e` and `fa` are relative edits, compiled against the model's own current
    state into the model's absolute `editLevel` / `editFailedWhen` -/
inductive DOp
  | c (i : Nat) (cls : String)
  | r (i : Nat) (name : String)
  | e (i : Nat) (lvl : String) (pattern : Option String) (ncAdd : Option String)
  | fa (i : Nat) (s : String)
  | fc (i : Nat)
  | d (i : Nat) (lvl : String)
  | n (i : Nat) (lvl : String) (lv : Level)

def optHex (s : String) : Option (Option String) := if s == "!" then some none else (unhexStr s).map some

def decOp (s : String) : Option DOp :=
  match s.splitOn ":" with
  | ["c", i, c] => do let i ← i.toNat?; let c ← unhexStr c; pure (.c i c)
  | ["r", i, n] => do let i ← i.toNat?; let n ← unhexStr n; pure (.r i n)
  | ["e", i, l, p, n] => do
    let i ← i.toNat?; let l ← unhexStr l; let p ← optHex p; let n ← optHex n
    pure (.e i l p n)
  | ["fa", i, x] => do let i ← i.toNat?; let x ← unhexStr x; pure (.fa i x)
  | ["fc", i] => do let i ← i.toNat?; pure (.fc i)
  | ["d", i, l] => do let i ← i.toNat?; let l ← unhexStr l; pure (.d i l)
  | "n" :: i :: rest => do
    let i ← i.toNat?
    let (k, lv) ← decLevel (":".intercalate rest)
    pure (.n i k lv)
  | _ => none

def compileOp (s : St) : DOp → Option Op
  | .c i cls => some (.construct i cls)
  | .r i n => some (.registerSession i n)
  | .e i lvl p n =>
    match ((view s).conns.lookup i).bind (fun c => c.v.privs.lookup lvl) with
    | some d => some (.editLevel i lvl { d with pattern := p.getD d.pattern, notContains := d.notContains ++ n.toList })
    | none => none
  | .fa i x => ((view s).conns.lookup i).map (fun c => .editFailedWhen i (c.v.fwc ++ [x]))
  | .fc i => some (.editFailedWhen i [])
  | .d i l => some (.delLevel i l)
  | .n i l lv => some (.addLevel i l lv)

def runD (classes : List ClassInfo) (s : St) (ops : List DOp) : St :=
  ops.foldl (fun s o => match compileOp s o with | some op => step classes s op | none => s) s

def dedupKeys : List Nat → List Nat
  | [] => []
  | x :: r => x :: (dedupKeys r).filter (· != x)

def encView (v : StV) : String :=
  let defs := if v.defs.isEmpty then "." else "&".intercalate (v.defs.map fun e => hexStr e.1 ++ "~" ++ encTablesV e.2)
  let keys := dedupKeys (v.conns.map (·.1))
  let conns := if keys.isEmpty then "." else "&".intercalate (keys.filterMap fun k =>
    (v.conns.lookup k).map fun c => s!"{k}~{hexStr c.cls}~{encTablesV c.v}")
  defs ++ " " ++ conns

-- ---------- tables digest
def encSig (s : Sig) : String :=
  ",".intercalate (s.params.map fun p => hexStr p.name ++ "=" ++ (match p.dflt with | none => "!" | some v => encVal v))
    ++ (if s.varKw then ",**" else "")

def encPairs (l : List (String × String)) : String := ",".intercalate (l.map fun e => hexStr e.1 ++ "=" ++ hexStr e.2)

def modeName : CopyMode → String
  | .deep => "deep" | .shallow => "shallow" | .alias => "alias"

def tablesDigest : List String :=
  [ "core " ++ ",".intercalate (CORE_TRANSPORTS.map hexStr),
    "asyncio " ++ ",".intercalate (ASYNCIO_TRANSPORTS.map hexStr),
    "newsync " ++ encSig newSigSync, "newasync " ++ encSig newSigAsync, "bpk " ++ encSig bpkSig,
    "callsync " ++ encPairs callSync, "callasync " ++ encPairs callAsync, "bpkdict " ++ encPairs bpkDict,
    "mapsync " ++ encPairs coreMapSync, "mapasync " ++ encPairs coreMapAsync,
    "drvsync " ++ encPairs driverMapSync, "drvasync " ++ encPairs driverMapAsync ] ++
  ctors.map (fun c => s!"ctor {hexStr c.cls} {hexStr c.platform} {modeName c.privsCopy} {modeName c.fwcCopy} {encSig c.sig}") ++
  [ "sig " ++ hexStr "NetworkDriver" ++ " " ++ encSig sigNetworkDriver,
    "sig " ++ hexStr "AsyncNetworkDriver" ++ " " ++ encSig sigAsyncNetworkDriver,
    "sig " ++ hexStr "GenericDriver" ++ " " ++ encSig sigGenericDriver,
    "sig " ++ hexStr "AsyncGenericDriver" ++ " " ++ encSig sigAsyncGenericDriver ] ++
  coreDefs.map (fun e => "def " ++ hexStr e.1 ++ "~" ++ encTablesV e.2)

def plainSig (cls : String) : Option Sig :=
  match (ctors.find? (·.cls == cls)).map (·.sig) with
  | some s => some s
  | none =>
    if cls == "NetworkDriver" then some sigNetworkDriver else if cls == "AsyncNetworkDriver" then some sigAsyncNetworkDriver
    else if cls == "GenericDriver" then some sigGenericDriver else if cls == "AsyncGenericDriver" then some sigAsyncGenericDriver
    else none

def handleLine (line : String) : String :=
  match line.trimAscii.toString.splitOn " " with
  | ["fac", a, call, env] =>
    match decKw call, decEnv env with
    | some call, some env =>
      let async := a == "1"
      match factoryNew (genTables async) async env call with
      | .ok (cls, kw) =>
        -- also: would the constructor of that class reject the effective transport (Driver / AsyncDriver __init__)
        let t := match plainSig cls with
          | some sig => if driverRejectsTransport (genTables async) async sig kw then "1" else "0"
          | none => "?"
        s!"ok {hexStr cls} {encKw (norm kw)} {t}"
      | .error e => s!"err {e.name}"
    | _, _ => "bad-op"
  | ["drv", a, cls, kw] =>
    match unhexStr cls, decKw kw with
    | some cls, some kw =>
      let async := a == "1"
      match plainSig cls with
      | some sig => if driverRejectsTransport (genTables async) async sig kw then "1" else "0"
      | none => "?"
    | _, _ => "bad-op"
  | ["heap", extra, ops] =>
    match (splitOrEmpty extra "&").mapM decDef, (splitOrEmpty ops ";").mapM decOp with
    | some extra, some ops =>
      let classes := coreClasses ++ (extra.map (·.1)).map communityClass
      encView (view (runD classes (mkInit (coreDefs ++ extra)) ops))
    | _, _ => "bad-op"
  | ["tab"] => "|".intercalate tablesDigest
  | _ => "bad-op"

partial def loop (h : IO.FS.Stream) : IO Unit := do
  let line ← h.getLine
  if line.isEmpty then return ()
  IO.println (handleLine line)
  loop h

def main : IO Unit := do loop (← IO.getStdin)
