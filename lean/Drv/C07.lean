import ScrapliModel.Bytes
import ScrapliModel.Timeout
import ScrapliModel.TimeoutModifier
open Scrapli Scrapli.Timeout

/-
  line protocol (fields separated by single blanks):
    sel <coroutine 0|1> <transport class name> <windows 0|1> <main thread 0|1> <timeout ticks>  -> mechanism
    msg <function name>                                                                          -> hex(message)
    run <mech> <noTerminate 0|1> <closeWakes 0|1> <handler u<n>|s<name>> <timer -|n> <closed 0|1> <now> <prog…>
        -> fin=<n|inf> out=<ret|error|cancelled|timeout:hex> closed=<0|1> handler=<u<n>|s:hex> timer=<-|n> acts=<name:start:stop;…|.>
    mod <sync|async> <driver-level timeout_ops ticks> <keyword ticks|->   (timeout_modifier, Scrapli.Timeout.modifier)
        -> inforce=<n> after=<n>     the value the wrapped operation finds / the driver-level value afterwards
    modop <sync|async> <drv ticks> <kw ticks|-> <mech> <noTerminate 0|1> <closeWakes 0|1> <channel op name> <body prog…>
        -> after=<n> + the fields of `run`   (Scrapli.Timeout.modifiedOp: the modifier over the decorated channel operation)
  prog in prefix form:  ret | raise | hang | work <d> P | call <t> <name> P P | spawn P P
-/

partial def parseProg : List String → Option (Prog × List String)
  | "ret" :: r => some (.ret, r)
  | "raise" :: r => some (.raise, r)
  | "hang" :: r => some (.hang, r)
  | "work" :: d :: r => do
    let d ← d.toNat?
    let (k, r) ← parseProg r
    pure (.work d k, r)
  | "call" :: t :: name :: r => do
    let t ← t.toNat?
    let (b, r) ← parseProg r
    let (k, r) ← parseProg r
    pure (.call t name b k, r)
  | "spawn" :: r => do
    let (b, r) ← parseProg r
    let (k, r) ← parseProg r
    pure (.spawn b k, r)
  | _ => none

def bit (s : String) : Option Bool := if s == "1" then some true else if s == "0" then some false else none

def mechOf (s : String) : Option Mech :=
  if s == "direct" then some .direct else if s == "asyncio" then some .asyncio
  else if s == "thread" then some .thread else if s == "signal" then some .signal else none

def mechStr : Mech → String
  | .direct => "direct" | .asyncio => "asyncio" | .thread => "thread" | .signal => "signal"

def optStr : Option Nat → String → String
  | some n, _ => toString n
  | none, d => d

def outStr : Out → String
  | .ret => "ret" | .error => "error" | .cancelled => "cancelled"
  | .timeout m => "timeout:" ++ Hex.encode (ofString m)

def handlerStr : Handler → String
  | .user n => s!"u{n}"
  | .scrapli m => "s:" ++ Hex.encode (ofString m)

def parseHandler (s : String) : Option Handler :=
  match s.toList with
  | 'u' :: r => (String.ofList r).toNat?.map .user
  | 's' :: r => some (.scrapli (message (String.ofList r)))
  | _ => none

def actsStr (l : List Act) : String :=
  if l.isEmpty then "." else ";".intercalate (l.map fun a => s!"{a.name}:{a.start}:{optStr a.stop "inf"}")

def handleLine (line : String) : String :=
  match line.trimAscii.toString.splitOn " " with
  | ["sel", co, cls, win, main, t] =>
    match bit co, bit win, bit main, t.toNat? with
    | some co, some win, some main, some t => mechStr (selectMechanism co cls win main t)
    | _, _, _, _ => "bad-op"
  | ["msg", name] => Hex.encode (ofString (message name))
  | "run" :: m :: nt :: cw :: h :: timer :: closed :: now :: prog =>
    match mechOf m, bit nt, bit cw, parseHandler h, bit closed, now.toNat?, parseProg prog with
    | some m, some nt, some cw, some h, some closed, some now, some (prog, []) =>
      let timer : Option (Option Nat) := if timer == "-" then some none else timer.toNat?.map some
      match timer with
      | none => "bad-op"
      | some timer =>
        let r := run { noTerminate := nt, closeWakes := cw } m prog { now := now, handler := h, timer := timer, closed := closed }
        s!"fin={optStr r.fin "inf"} out={outStr r.out} closed={if r.closed then 1 else 0} handler={handlerStr r.handler} timer={optStr r.timer "-"} acts={actsStr r.acts}"
    | _, _, _, _, _, _, _ => "bad-op"
  | "race" :: nt :: h :: timer :: now :: t :: name :: prog =>
    -- the wrapper around `prog` with the alarm delivered inside its finally (Scrapli.Timeout.wrapSRaced)
    match bit nt, parseHandler h, now.toNat?, t.toNat?, parseProg prog with
    | some nt, some h, some now, some t, some (prog, []) =>
      let timer : Option (Option Nat) := if timer == "-" then some none else timer.toNat?.map some
      match timer with
      | none => "bad-op"
      | some timer =>
        let cfg : Cfg := { noTerminate := nt }
        match wrapSRaced cfg Scrapli.Gen.Timeout.epilogueGuarded t name (runS cfg prog) { now := now, handler := h, timer := timer } with
        | some (q, o) => s!"fin={q.now} out={outStr o} closed={if q.closed then 1 else 0} handler={handlerStr q.handler} timer={optStr q.timer "-"} acts=."
        | none => "fin=inf out=error closed=0 handler=- timer=- acts=."
    | _, _, _, _, _ => "bad-op"
  | "modop" :: v :: drv :: kw :: m :: nt :: cw :: name :: prog =>
    let sh : Option ModShape := if v == "sync" then some modSync else if v == "async" then some modAsync else none
    let kw : Option (Option Nat) := if kw == "-" then some none else kw.toNat?.map some
    match sh, drv.toNat?, kw, mechOf m, bit nt, bit cw, parseProg prog with
    | some sh, some drv, some kw, some m, some nt, some cw, some (body, []) =>
      let (after, r) := modifiedOp sh { noTerminate := nt, closeWakes := cw } m name body {} drv kw
      s!"after={after} fin={optStr r.fin "inf"} out={outStr r.out} closed={if r.closed then 1 else 0} handler={handlerStr r.handler} timer={optStr r.timer "-"} acts={actsStr r.acts}"
    | _, _, _, _, _, _, _ => "bad-op"
  | ["mod", v, drv, kw] =>
    let sh : Option ModShape := if v == "sync" then some modSync else if v == "async" then some modAsync else none
    let kw : Option (Option Nat) := if kw == "-" then some none else kw.toNat?.map some
    match sh, drv.toNat?, kw with
    | some sh, some drv, some kw =>
      -- the wrapped operation reports the value it finds and leaves it alone; it returns normally
      let r := modifier (fun (_ : Nat) => true) sh kw (fun t => (t, t)) 0 drv
      s!"inforce={r.2} after={r.1}"
    | _, _, _ => "bad-op"
  | _ => "bad-op"

partial def loop (h : IO.FS.Stream) : IO Unit := do
  let line ← h.getLine
  if line.isEmpty then return ()
  IO.println (handleLine line)
  loop h

def main : IO Unit := do loop (← IO.getStdin)
