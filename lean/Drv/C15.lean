import ScrapliModel.Telnet
open Scrapli Scrapli.Telnet

/-- line: `sync|async <chunks>` -> `<data hex> <writes list> R=<results of the successive read() calls>` -/
def handleLine (line : String) : String :=
  match line.trimAscii.toString.splitOn " " with
  | [kind, chunks] =>
    match Hex.decodeList chunks with
    | none => "bad-op"
    | some tape =>
      let (d, w) := if kind == "sync" then runSync tape else runAsync tape
      let rs := if kind == "sync" then reads Scrapli.Gen.Telnet.syncCounts Scrapli.Gen.Telnet.syncLimit {} tape
                else reads Scrapli.Gen.Telnet.asyncCounts Scrapli.Gen.Telnet.asyncLimit {} tape
      s!"{Hex.encode d} {Hex.encodeList w} R={Hex.encodeList rs}"
  | _ => "bad-op"

partial def loop (h : IO.FS.Stream) : IO Unit := do
  let line ← h.getLine
  if line.isEmpty then return ()
  IO.println (handleLine line)
  loop h

def main : IO Unit := do loop (← IO.getStdin)
