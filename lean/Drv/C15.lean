import ScrapliModel.Telnet
open Scrapli Scrapli.Telnet

/-- line: `sync|async <chunks>` -> `<data hex> <writes list>` -/
def handleLine (line : String) : String :=
  match line.trimAscii.toString.splitOn " " with
  | [kind, chunks] =>
    match Hex.decodeList chunks with
    | none => "bad-op"
    | some tape =>
      let (d, w) := if kind == "sync" then runSync tape else runAsync tape
      s!"{Hex.encode d} {Hex.encodeList w}"
  | _ => "bad-op"

partial def loop (h : IO.FS.Stream) : IO Unit := do
  let line ← h.getLine
  if line.isEmpty then return ()
  IO.println (handleLine line)
  loop h

def main : IO Unit := do loop (← IO.getStdin)
