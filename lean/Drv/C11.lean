import ScrapliModel.Lifecycle
import ScrapliModel.Gen.LifecycleSrc
open Scrapli Scrapli.Lifecycle

/-
  line protocol (one request per line, one reply per line)
    info
      -> close=<fixed|orig|other> open=<ok|other> enter=<ok|other> exit=<ok|other> telnet=<..> asynctelnet=<..> bio=<0|1> pmk=<0|1>
    run <stack> <kind>[+tcr] <tname> <bypass 0|1> <sink> <on_open> <on_close> <code src|fixed|orig> <history>
      hooks: none | ok | raise | d:<platform>      (d: = the generated default hook of that platform and stack)
      history: ops joined by ';' ; op = <letter>[.<body letters>]/<events> ; letters O C X W ; body letters x c o r and
               T E N A P V K Z (the body raises ScrapliTimeout / ConnectionError / NotOpened / AuthenticationFailed / PrivilegeError /
               ValueError / a non-Exception BaseException / CancelledError)
      events: '-' or comma separated  <k>[:eof:raw:cooked:ctrl:counter]  with k in o d s r a k (k = timeout that leaves the transport open)
      -> per op  <out>|<sess chan os alive file att bio need orphan as 0/1>|<eof,raw,cooked,ctrl,counter>|<trace joined by '>'>|<events left unconsumed>   joined by ';'
-/

def b01 (b : Bool) : String := if b then "1" else "0"

def excName : Exc → String
  | .connError => "ScrapliConnectionError"
  | .notOpened => "ScrapliConnectionNotOpened"
  | .timeout => "ScrapliTimeout"
  | .authFailed => "ScrapliAuthenticationFailed"
  | .valueError => "ValueError"
  | .hookError => "HookError"
  | .bodyError => "BodyError"
  | .closeError => "TransportCloseError"
  | .privError => "ScrapliPrivilegeError"
  | .baseExc => "BodyBaseException"
  | .cancelled => "CancelledError"

def outName : Outcome → String
  | .returns => "ret"
  | .raises e => "raise:" ++ excName e

def parseStack : String → Option Stack
  | "sync" => some .sync | "async" => some .async | _ => none

def parseKind : String → Option TKind
  | "sim" => some .sim | "system" => some .system | "telnet" => some .telnet
  | "asynctelnet" => some .asynctelnet | "paramiko" => some .paramiko | "asyncssh" => some .asyncssh | _ => none

def parseTName : String → Option TName
  | "system" => some .system | "telnet" => some .telnet | "asynctelnet" => some .asynctelnet
  | "paramiko" => some .paramiko | "asyncssh" => some .asyncssh | "ssh2" => some .ssh2 | _ => none

def parseSink : String → Option Sink
  | "none" => some .none | "path" => some .path | "bytesio" => some .bytesio | _ => none

def parsePlatform : String → Option Platform
  | "iosxe" => some .iosxe | "iosxr" => some .iosxr | "nxos" => some .nxos | "eos" => some .eos
  | "junos" => some .junos | "generic" => some .generic | _ => none

def parseHook (st : Stack) (isOpen : Bool) (s : String) : Option Hook :=
  match s with
  | "none" => some .none
  | "ok" => some .userOk
  | "raise" => some .userRaises
  | _ =>
    match s.splitOn ":" with
    | ["d", p] => (parsePlatform p).map fun pl =>
        if pl == .generic && !isOpen then .none      -- GenericDriver(on_close=None)
        else .acts (if isOpen then Gen.Lifecycle.onOpenActs pl st else Gen.Lifecycle.onCloseActs pl st)
    | _ => none

def parseEvK : String → Option EvK
  | "o" => some .ok | "d" => some .drop | "s" => some .stall | "r" => some .refuse | "a" => some .authFail | "k" => some .stallKeep
  | _ => none

def parseEv (s : String) : Option Ev :=
  match s.splitOn ":" with
  | [k] => (parseEvK k).map fun k => { k := k }
  | [k, e, r, c, ct, n] => do
    let k ← parseEvK k
    pure { k := k, tn := some { eof := e == "1", raw := r.toNat!, cooked := c.toNat!, ctrl := ct.toNat!, counter := n.toNat! } }
  | _ => none

def parseEvs (s : String) : Option (List Ev) :=
  if s == "-" then some [] else (s.splitOn ",").mapM parseEv

def parseBodyOp : Char → Option BodyOp
  | 'x' => some .operate | 'c' => some .close | 'o' => some .open | 'r' => some .raise
  -- user code in the body raising one specific class
  | 'T' => some (.raiseExc .timeout) | 'E' => some (.raiseExc .connError) | 'N' => some (.raiseExc .notOpened)
  | 'A' => some (.raiseExc .authFailed) | 'P' => some (.raiseExc .privError) | 'V' => some (.raiseExc .valueError)
  | 'K' => some (.raiseExc .baseExc) | 'Z' => some (.raiseExc .cancelled) | _ => none

def parseOp (s : String) : Option (Op × List Ev) :=
  match s.splitOn "/" with
  | [h, evs] => do
    let evs ← parseEvs evs
    match h.splitOn "." with
    | ["O"] => pure (.open, evs)
    | ["C"] => pure (.close, evs)
    | ["X"] => pure (.operate, evs)
    | ["W"] => pure (.withBlock [], evs)
    | ["W", body] => do
      let b ← body.toList.mapM parseBodyOp
      pure (.withBlock b, evs)
    | _ => none
  | _ => none

def showR (r : R) : String :=
  let s := r.st
  let fl := String.join [b01 s.sess, b01 s.chan, b01 s.os, b01 s.alive, b01 s.fileOpen, b01 s.logAttached, b01 s.bioClosed, b01 s.needClose, b01 s.orphan]
  let tn := s!"{b01 s.tn.eof},{s.tn.raw},{s.tn.cooked},{s.tn.ctrl},{s.tn.counter}"
  s!"{outName r.out}|{fl}|{tn}|{">".intercalate r.tr}|{r.tape.length}"

def fieldsName (l : List TnField) : String :=
  if l == allFields then "all" else if l == [] then "none" else "some"

def info : String :=
  let cl (st : Stack) : String :=
    let c := (Gen.Lifecycle.codeOf st).closeP
    if c == closeFixed st then "fixed" else if c == closeFixed2 st then "fixed2" else if c == closeOrig st then "orig" else "other"
  let both (f : Stack → String) : String := if f .sync == f .async then f .sync else "mixed"
  let okp (f : Stack → Bool) : String := if f .sync && f .async then "ok" else "other"
  let fx := Gen.Lifecycle.facts
  s!"close={both cl} open={okp fun st => (Gen.Lifecycle.codeOf st).openP == openOf st} enter={okp fun st => (Gen.Lifecycle.codeOf st).enterP == enterP || (Gen.Lifecycle.codeOf st).enterP == enterP2} exit={okp fun st => (Gen.Lifecycle.codeOf st).exitP == exitP && (Gen.Lifecycle.codeOf st).exitOn == []} telnet={fieldsName fx.telnetOpenResets} asynctelnet={fieldsName fx.asynctelnetOpenResets} bio={b01 fx.channelCloseKeepsUserSink} pmk={b01 fx.paramikoCloseClosesSession}"

def handleRun (ws : List String) : Option String :=
  match ws with
  | [stack, kind, tname, bypass, sink, oo, oc, src, hist] => do
    let st ← parseStack stack
    let tcr := kind.endsWith "+tcr"
    let kind ← parseKind ((kind.splitOn "+").headD "")
    let tname ← parseTName tname
    let sink ← parseSink sink
    let oo ← parseHook st true oo
    let oc ← parseHook st false oc
    let (code, facts) ← match src with
      | "src" => some (Gen.Lifecycle.codeOf st, Gen.Lifecycle.facts)
      | "fixed" => some (codeFixed st, factsFixed)
      | "orig" => some (codeOrig st, factsOrig)
      | _ => none
    let ops ← (hist.splitOn ";").mapM parseOp
    let cfg : Cfg := { stack := st, kind := kind, tname := tname, bypass := bypass == "1", sink := sink,
                       onOpen := oo, onClose := oc, tcloseRaises := tcr, code := code, facts := facts }
    pure (";".intercalate ((runHistory cfg ops {}).map showR))
  | _ => none

def handleLine (line : String) : String :=
  match line.trimAscii.toString.splitOn " " with
  | ["info"] => info
  | "run" :: ws => (handleRun ws).getD "bad-op"
  | _ => "bad-op"

partial def loop (h : IO.FS.Stream) : IO Unit := do
  let line ← h.getLine
  if line.isEmpty then return ()
  IO.println (handleLine line)
  loop h

def main : IO Unit := do loop (← IO.getStdin)
