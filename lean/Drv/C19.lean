import ScrapliModel.Lock
open Scrapli Scrapli.Lock

/-
  line: `<s|a> <0|1> <prompt hex> <progs> <sched>`
    s = thread granularity (`run`), a = asyncio granularity (`runAsync`); 0|1 = channel_lock off|on
    progs: callers separated by `/`, operations by `;`, transport calls by `,`; a call is `r` or `w<hex>`,
           followed by `!` when it raises; `.` = no operation
    sched: caller ids as digits (run), letters a.. = cancel caller 0.. while it waits for the lock, `.` = empty
  reply: `<wire> <results> <lock> <done>`
    wire: events separated by `,`: `<caller>:<op>:<W|R>[!]:<written hex>:<data hex>`, `.` = empty
    results: per caller `/`, per finished operation `;`: `<op index>=<ok|fail>:<concatenated reads hex>`, `.` = none
    lock: `L-` free | `L<i>`;  done: `D1` every caller finished its program | `D0`
-/

def parseStep (t : String) : Option Step :=
  let fails := t.endsWith "!"
  let body := if fails then (t.dropEnd 1).toString else t
  if body == "r" then some ⟨.read, fails⟩
  else if body.startsWith "w" then (Hex.decode (body.drop 1).toString).map (fun b => ⟨.write b, fails⟩)
  else none

def parseOp (t : String) : Option Op := (t.splitOn ",").mapM parseStep

def parseProg (t : String) : Option Prog := if t == "." then some [] else (t.splitOn ";").mapM parseOp

/-- digits = run that caller; letters a, b, c, d = task.cancel() of caller 0, 1, 2, 3 if it is waiting for the lock;
    A, B, C, D = its timeout expires there (cancel + transport.close()); X = the transport is closed -/
def parseSched (t : String) : Option (List SEv) :=
  if t == "." then some [] else t.toList.mapM (fun c =>
    if c.isDigit then some (.run (c.toNat - 48))
    else if 'a' ≤ c ∧ c ≤ 'j' then some (.cancel (c.toNat - 97))
    else if 'A' ≤ c ∧ c ≤ 'J' then some (.timeout (c.toNat - 65))
    else if c == 'X' then some .close else none)

def showEv (e : Ev) : String :=
  let k := match e.act with | .write _ => "W" | .read => "R"
  let w := match e.act with | .write b => Hex.encode b | .read => "-"
  s!"{e.caller}:{e.op}:{k}{if e.failed then "!" else ""}:{w}:{Hex.encode e.data}"

def showResults (n : Nat) (fin : List ((Nat × Nat) × Outcome)) : String :=
  "/".intercalate ((List.range n).map fun i =>
    let mine := fin.filter (fun e => e.1.1 == i)
    if mine.isEmpty then "." else
      ";".intercalate (mine.map fun e => s!"{e.1.2}={if e.2.ok then "ok" else "fail"}:{Hex.encode e.2.reads.flatten}"))

def allDone (progs : List Prog) (s : St Bytes) : Bool :=
  (List.range s.callers.length).all fun i =>
    match s.callers[i]? with
    | some c => c.cur.isNone && (opAt progs i c.pc).isNone
    | none => true

def handleLine (line : String) : String :=
  match line.trimAscii.toString.splitOn " " with
  | [mode, lock, prompt, progs, sched] =>
    match Hex.decode prompt, (progs.splitOn "/").mapM parseProg, parseSched sched with
    | some p, some ps, some sc =>
      let locking := lock == "1"
      let D := cliDev p
      let s := if mode == "a" then runEAsync false locking D ps sc else runE false locking D ps sc
      let wire := if s.world.wire.isEmpty then "." else ",".intercalate (s.world.wire.map showEv)
      let lk := match s.lock with | none => "L-" | some i => s!"L{i}"
      s!"{wire} {showResults ps.length s.finished} {lk} {if allDone ps s then "D1" else "D0"}{if s.world.closed then " C1" else ""}"
    | _, _, _ => "bad-op"
  | ["T", cbj, cw, sched] =>
    -- thread-pool timeout protocol: `T <closeBeforeJoin 0|1> <closeWakes 0|1> <sched: c|w letters>` -> `<pc> <lock 0|1> <closed 0|1>`
    let o : PoolTimeout.TOpts := ⟨cbj == "1", cw == "1"⟩
    let s := PoolTimeout.trun o (sched.toList.map (· == 'c'))
    let pc := match s.pc with | .waiting => "waiting" | .first => "first" | .second => "second" | .raised => "raised"
    s!"{pc} {if s.lock then 1 else 0} {if s.closed then 1 else 0}"
  | ["T2", cbj, cw, jn, late, sched] =>
    -- the same with `joins` (the pool joins its worker) and `late` (the device answers after the timeout)
    let o : PoolTimeout.TOpts := ⟨cbj == "1", cw == "1"⟩
    let s := PoolTimeout.trun2 o (jn == "1") (late == "1") (sched.toList.map (· == 'c'))
    let pc := match s.pc with | .waiting => "waiting" | .first => "first" | .second => "second" | .raised => "raised"
    s!"{pc} {if s.lock then 1 else 0} {if s.closed then 1 else 0}"
  | _ => "bad-op"

partial def loop (h : IO.FS.Stream) : IO Unit := do
  let line ← h.getLine
  if line.isEmpty then return ()
  IO.println (handleLine line)
  loop h

def main : IO Unit := do loop (← IO.getStdin)
