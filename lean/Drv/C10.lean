import ScrapliModel.Bytes
import ScrapliModel.HostKey
open Scrapli Scrapli.HostKey

/-!
line protocol (fields blank separated; strings as hex of their UTF-8, "-" = empty):
  open <paramiko|ssh2|asyncssh> <12 bits: strict found equal importable hasKey keyLoads hasPw hasUser kexOK accKey accPw userUnpins>
        -> <trace> <protected 0/1>
  openkh <lib> <9 bits: strict hasKey keyLoads hasPw hasUser kexOK accKey accPw userUnpins> <host> <serverKey> <hmac table> <unimportable keys> <entries>
        -> <trace> <protected 0/1>
  lookup <host> <hmac table> <entries>   -> none | <keyType> <key>
  sys <host> <port> <tSocket> <tTransport> <keyFile> <username> <strictOff 0/1> <knownHosts> <configFile> <userArgs list>
        -> <argv list> <effective StrictHostKeyChecking | none> <effective UserKnownHostsFile | none>
  hist <lib> <close 0/1>:<12 bits>;…   (attempts on ONE transport object, each on the first generated path)
        -> <trace>/<protected>/<sessionLeft after> joined by "|"
  order  -> the generated call lists and pinOf
unimportable keys: `keyType:key` pairs asyncssh cannot load, joined by "," or "." (the `imp` parameter)
hmac table: `salt:digest` pairs (for the host of the line) joined by "," or "."
entries: `<id>+<id>…/<keyType>/<key>` joined by ";" or "." ; id = `p:<name>` | `h:<salt>:<hash>`
-/

def str (h : String) : String :=
  match Hex.decode h with
  | some b => (String.fromUTF8? (ByteArray.mk b.toArray)).getD ""
  | none => ""

def hx (s : String) : String := Hex.encode (ofString s)

def evStr : Ev → String
  | .kex => "kex"
  | .lookup f e => s!"lookup:{if f then 1 else 0}:{if e then 1 else 0}"
  | .verifyOK => "verifyOK"
  | .verifyFail => "verifyFail"
  | .offerKey => "offerKey"
  | .offerPassword => "offerPassword"
  | .openSession => "openSession"
  | .raise .authenticationFailed => "raise:AuthenticationFailed"
  | .raise .connectionNotOpened => "raise:ConnectionNotOpened"
  | .raise .library => "raise:Library"

def traceStr (t : List Ev) : String :=
  (if t.isEmpty then "." else ",".intercalate (t.map evStr)) ++ " " ++ (if protectedTrace t then "1" else "0")

def bits (s : String) : List Bool := s.toList.map (· == '1')

def libOf (s : String) : Option Lib :=
  if s == "paramiko" then some .paramiko else if s == "ssh2" then some .ssh2
  else if s == "asyncssh" then some .asyncssh else none

def openOf : Lib → Cfg → List Ev
  | .paramiko => paramikoOpen
  | .ssh2 => ssh2Open
  | .asyncssh => asyncsshOpen

def parseId (s : String) : Option HostId :=
  match s.splitOn ":" with
  | ["p", n] => some (.plain (str n))
  | ["h", a, b] => some (.hashed (str a) (str b))
  | _ => none

def parseEntry (s : String) : Option Entry :=
  match s.splitOn "/" with
  | [ids, kt, k] => do
    let l ← (ids.splitOn "+").mapM parseId
    pure { ids := l, keyType := str kt, key := str k }
  | _ => none

def parseEntries (s : String) : Option (List Entry) :=
  if s == "." then some [] else (s.splitOn ";").mapM parseEntry

def parseTable (s : String) : List (String × String) :=
  if s == "." then [] else (s.splitOn ",").filterMap (fun x =>
    match x.splitOn ":" with
    | [a, b] => some (str a, str b)
    | _ => none)

/-- HMAC as a parameter: the harness computes the real HMAC-SHA1 of the looked-up host under every
    salt of the file and hands the table over -/
def hmacOf (host : String) (tbl : List (String × String)) : String → String → String :=
  fun salt h => if h == host then ((tbl.find? (·.1 == salt)).map (·.2)).getD "" else ""

def callStr (p : Scrapli.HostKey.Call × Bool) : String :=
  let n := match p.1 with
    | .handshake => "handshake" | .verifyKey => "verifyKey" | .verifyPresent => "verifyPresent"
    | .verifyValue => "verifyValue"
    | .connect pin fb ov =>
      (if pin then (if fb then "connect+pin-or-none" else "connect+pin") else "connect") ++ (if ov then "+user-options-after-pin" else "")
    | .authenticate => "authenticate" | .openChannel => "openChannel"
  if p.2 then n ++ "?" else n

def optStr : Option String → String
  | none => "none"
  | some v => hx v

def handleLine (line : String) : String :=
  match line.trimAscii.toString.splitOn " " with
  | ["open", lib, b] =>
    match libOf lib, bits b with
    | some l, [a1, a2, a3, ai, a4, a5, a6, a7, a8, a9, a10, au] =>
      traceStr (openOf l { strict := a1, found := a2, equal := a3, importable := ai, hasKey := a4, keyLoads := a5,
                           hasPw := a6, hasUser := a7, kexOK := a8, accKey := a9, accPw := a10, userUnpins := au })
    | _, _ => "bad-op"
  | ["openkh", lib, b, host, skey, tbl, unimp, ents] =>
    match libOf lib, bits b, parseEntries ents with
    | some l, [a1, a4, a5, a6, a7, a8, a9, a10, au], some es =>
      let h := str host
      let bad := parseTable unimp
      traceStr (openOf l (cfgOf (hmacOf h (parseTable tbl)) (fun kt k => !(bad.contains (kt, k))) es h (str skey)
        { strict := a1, hasKey := a4, keyLoads := a5, hasPw := a6, hasUser := a7, kexOK := a8, accKey := a9, accPw := a10,
          userUnpins := au }))
    | _, _, _ => "bad-op"
  | ["lookup", host, tbl, ents] =>
    match parseEntries ents with
    | some es =>
      let h := str host
      match lookup (hmacOf h (parseTable tbl)) (parse es) h with
      | none => "none"
      | some (kt, k) => s!"{hx kt} {hx k}"
    | none => "bad-op"
  | ["sys", host, port, ts, tt, pk, user, off, kh, cfg, uargs] =>
    match Hex.decodeList uargs with
    | some ul =>
      let a : SysArgs := { host := str host, port := port.toNat!, timeoutSocket := ts.toNat!, timeoutTransport := tt.toNat!,
                           keyFile := str pk, username := str user, strictOff := off == "1", knownHosts := str kh,
                           configFile := str cfg,
                           userArgs := ul.map (fun b => (String.fromUTF8? (ByteArray.mk b.toArray)).getD "") }
      let cmd := buildOpenCmd a
      s!"{Hex.encodeList ((renderCmd cmd).map ofString)} {optStr (optValue "StrictHostKeyChecking" cmd)} {optStr (optValue "UserKnownHostsFile" cmd)}"
    | none => "bad-op"
  | ["hist", lib, atts] =>
    match libOf lib with
    | some l =>
      let calls := match l with
        | .paramiko => Scrapli.Gen.HostKey.paramikoOpenCalls
        | .ssh2 => Scrapli.Gen.HostKey.ssh2OpenCalls
        | .asyncssh => Scrapli.Gen.HostKey.asyncsshOpenCalls
      let parsed : List (Option Attempt) := (atts.splitOn ";").map (fun a =>
        match a.splitOn ":" with
        | [c, b] =>
          match bits b with
          | [a1, a2, a3, ai, a4, a5, a6, a7, a8, a9, a10, au] =>
            some { closeBefore := c == "1", path := calls,
                   cfg := { strict := a1, found := a2, equal := a3, importable := ai, hasKey := a4, keyLoads := a5,
                            hasPw := a6, hasUser := a7, kexOK := a8, accKey := a9, accPw := a10, userUnpins := au } }
          | _ => none
        | _ => none)
      if parsed.any Option.isNone then "bad-op" else
      let hist := parsed.filterMap id
      let rec go (st : TState) : List Attempt → List String
        | [] => []
        | a :: rest =>
          let r := attemptStep l st a
          s!"{(traceStr r.2).replace " " "/"}/{if r.1.sessionLeft then 1 else 0}" :: go r.1 rest
      "|".intercalate (go {} hist)
    | none => "bad-op"
  | ["order"] =>
    let f := fun (l : List (Scrapli.HostKey.Call × Bool)) => ",".intercalate (l.map callStr)
    s!"{f Scrapli.Gen.HostKey.paramikoOpenCalls} {f Scrapli.Gen.HostKey.ssh2OpenCalls} {f Scrapli.Gen.HostKey.asyncsshOpenCalls} overridable={if (connectFlags Scrapli.Gen.HostKey.asyncsshOpenCalls).2.2 then 1 else 0} paths={Scrapli.Gen.HostKey.paramikoOpenPaths.length},{Scrapli.Gen.HostKey.ssh2OpenPaths.length},{Scrapli.Gen.HostKey.asyncsshOpenPaths.length}"
  | _ => "bad-op"

partial def loop (h : IO.FS.Stream) : IO Unit := do
  let line ← h.getLine
  if line.isEmpty then return ()
  IO.println (handleLine line)
  loop h

def main : IO Unit := do loop (← IO.getStdin)
