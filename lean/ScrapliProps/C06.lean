import ScrapliProps.C06Lemmas
import ScrapliModel.Gen.Parity
/-
  C06 — sync and asyncio drivers behave identically.  Property theorems only (lemmas: C06Lemmas.lean).

  Part 1 (proof, finite, complete): the parity table generated from BOTH ASTs on every run.
  Part 2 (model of the one genuinely different code path + the refinement lemma); the behavioural tie to the
  real stacks is the paired execution in tools/props/c06.py (translation validation).
-/
namespace Scrapli.Parity
open Scrapli.Gen.Parity

/-- **C06 parity table**: every public method of every sync class (channel, base/generic/network driver,
    five platform drivers, Telnet transport, module-level hooks) exists on the async twin with the same
    parameter names, kinds, defaults and order — up to exactly the entries listed as OPEN findings
    (`knownDiffs`, generated from findings/C06.json + known_findings.json; `[]` once they are fixed). -/
theorem parity_table : parityOKModulo knownDiffs syncTable asyncTable = true := by decide +kernel

/-- the computed list of differences is contained in the list of known ones (Prop form) -/
theorem parity_mismatches_known : ∀ x ∈ mismatches syncTable asyncTable, x ∈ knownDiffs :=
  fun _ hx => parityOKModulo_mem parity_table hx

/-- lift through `parityOKModulo_sound`: for every class of the sync table and every public method of it,
    the async twin class has a same-named method with an equal signature, or a known difference names it -/
theorem parity_table_lifted : ∀ c ∈ syncTable, ∀ m ∈ c.methods,
    (∃ d ∈ asyncTable, d.key = c.key ∧ MethodHasTwin d m) ∨
    (∃ x ∈ knownDiffs, x.1 = c.key ∧ (x.2.1 = m.name ∨ x.2.1 = "")) :=
  parityOKModulo_sound knownDiffs syncTable asyncTable parity_table

/-- with no open finding the statement is the full one -/
theorem parity_full_if_no_known (h : knownDiffs = []) : ∀ c ∈ syncTable, ClsHasTwin asyncTable c := by
  apply parityOK_sound
  rw [← parityOKModulo_nil, ← h]
  exact parity_table

/-- **structural tie**: every twin function pair whose normalised bodies differ (async/await stripped, class
    names mapped, docstrings / annotations / logger calls dropped) is in the audited set with exactly the
    audited hash of its differing hunks — an edit to only one twin is a new, un-audited entry -/
theorem twin_diffs_audited : twinDiffs.all (fun x => auditedTwinDiffs.contains x) = true := by decide +kernel

theorem twin_diffs_audited_mem : ∀ x ∈ twinDiffs, x ∈ auditedTwinDiffs := by
  intro x hx
  have := List.all_eq_true.mp twin_diffs_audited x hx
  simpa using this

/-- the tables are not trivially small: all eleven module pairs and at least 40 public sync methods -/
theorem parity_table_nonvacuous :
    (syncTable.map (fun c => c.methods.length)).sum ≥ 40 ∧ syncTable.length ≥ 22 ∧
    (syncTable.filter (fun c => c.methods.any (fun m => m.name == "__init__"))).length ≥ 10 := by decide +kernel

end Scrapli.Parity

namespace Scrapli.ParityRun
open Scrapli Scrapli.Gen.Parity

/-- two implementations that refine the same (deterministic) model agree with each other -/
theorem refine_both_agree {Op Fault : Type} (D : List Op → List Bytes → Fault → Prop)
    (s a m : Stack Op Fault) (hs : Refines D s m) (ha : Refines D a m) :
    ∀ ops tape f, D ops tape f → s ops tape f = a ops tape f :=
  fun ops tape f h => (hs ops tape f h).trans (ha ops tape f h).symm

/-- **login variants agree**: for all patterns that do not match the empty buffer, every sync dialogue tape
    without connection error and every asyncio tape that delivers the same non-empty reads in the same
    order (any number of timed-out polls / empty reads inserted anywhere, in either tape), as long as no
    return interval elapses: same writes, same outcome. -/
theorem auth_variants_agree (c : Cfg) (hp : PatsQuietOnEmpty c.pats) (tS tA : List Ev)
    (hne : NoEof tS) (hkS : NoKick c tS) (hkA : NoKick c tA) (hst : strip tS = strip tA) :
    authTelnetAsync c tA = authTelnetSync c tS := by
  unfold authTelnetAsync authTelnetSync
  rw [runAsync_strip c hp tA {} (quiet_init c hp) hkA, runSync_strip c hp tS {} (quiet_init c hp) hkS,
      ← hst, run_sync_eq_async c (strip tS) {} (noEof_strip hne)]

/-- the same, with the asyncio tape given as "the sync tape with extra polls inserted" -/
theorem auth_variants_agree_polled (c : Cfg) (hp : PatsQuietOnEmpty c.pats) (tS tA : List Ev)
    (hne : NoEof tS) (hpoll : Polled tS tA) (hkA : NoKick c tA) (hkS : NoKick c tS) :
    authTelnetAsync c tA = authTelnetSync c tS :=
  auth_variants_agree c hp tS tA hne hkS hkA (polled_strip hpoll)

/-! `refine_both_agree` applied: the two login loops, packaged as stacks (operation list = the event tape),
    both refine the specification "the sync machine run on the tape without its empty reads" on the domain
    of tapes without connection error and without an elapsed return interval; hence they agree. -/
def outcomeName : Outcome → String
  | .pending => "pending" | .done => "done" | .authFailed => "authFailed" | .connError => "connError"

def authStack (run : Cfg → List Ev → List Bytes × Outcome) (c : Cfg) : Stack Ev Unit :=
  fun evs _ _ => ⟨(run c evs).1, [], [outcomeName (run c evs).2]⟩

def authSpec (c : Cfg) : Stack Ev Unit := authStack (fun c evs => authTelnetSync c (strip evs)) c

def AuthDom (c : Cfg) : List Ev → List Bytes → Unit → Prop := fun evs _ _ => NoEof evs ∧ NoKick c evs

theorem auth_sync_refines_spec (c : Cfg) (hp : PatsQuietOnEmpty c.pats) :
    Refines (AuthDom c) (authStack authTelnetSync c) (authSpec c) := by
  intro evs _ _ ⟨_, hk⟩
  have : authTelnetSync c evs = authTelnetSync c (strip evs) := by
    unfold authTelnetSync; rw [runSync_strip c hp evs {} (quiet_init c hp) hk]
  simp [authStack, authSpec, this]

theorem auth_async_refines_spec (c : Cfg) (hp : PatsQuietOnEmpty c.pats) :
    Refines (AuthDom c) (authStack authTelnetAsync c) (authSpec c) := by
  intro evs _ _ ⟨hne, hk⟩
  have h1 : authTelnetAsync c evs = authTelnetSync c evs := auth_variants_agree c hp evs evs hne hk hk rfl
  have h2 : authTelnetSync c evs = authTelnetSync c (strip evs) := by
    unfold authTelnetSync; rw [runSync_strip c hp evs {} (quiet_init c hp) hk]
  simp [authStack, authSpec, h1, h2]

theorem auth_stacks_agree (c : Cfg) (hp : PatsQuietOnEmpty c.pats) :
    ∀ evs tape f, AuthDom c evs tape f → authStack authTelnetSync c evs tape f = authStack authTelnetAsync c evs tape f :=
  refine_both_agree (AuthDom c) _ _ (authSpec c) (auth_sync_refines_spec c hp) (auth_async_refines_spec c hp)

/-- the hypotheses hold for the default patterns the model's concrete predicates implement … -/
theorem default_pats_quiet : PatsQuietOnEmpty defaultPats := ⟨by decide, by decide, by decide⟩

/-- … and these are the patterns the source has today (regenerated; a change breaks this theorem) -/
theorem patterns_pinned :
    telnetLoginPattern = "^(.*username:)|(.*login:)\\s?$" ∧ passwordPattern = "(.*@.*)?password:\\s?$" ∧
    channelPromptPattern = "^[a-z0-9.\\-@()/:]{1,32}[#>$]$" := by decide

def exCfg : Cfg := ⟨defaultPats, [97, 100, 109, 105, 110], [112, 119], [10], 100⟩

/-- **full statement refuted (1)**: with a connection error on the tape the variants differ — sync writes a
    return and keeps going, asyncio lets the error out -/
theorem auth_variants_full_refuted_eof : ¬ ∀ (c : Cfg) (t : List Ev), authTelnetAsync c t = authTelnetSync c t := by
  intro h
  exact absurd (h exCfg [Ev.eof]) (by decide)

/-- exact shape of that difference, for every configuration and every tape prefix -/
theorem auth_eof_divergence (c : Cfg) (pre : List Ev) (hpend : (runFrom stepSync c {} pre).out = .pending)
    (hne : NoEof pre) :
    authTelnetSync c (pre ++ [Ev.eof]) = ((authTelnetSync c pre).1 ++ [c.ret], .pending) ∧
    authTelnetAsync c (pre ++ [Ev.eof]) = ((authTelnetSync c pre).1, .connError) := by
  have hpa : (runFrom stepAsync c {} pre).out = .pending := by rw [← run_sync_eq_async c pre {} hne]; exact hpend
  constructor
  · simp [authTelnetSync, obs, runFrom_append, runFrom_cons, runFrom_nil, hpend, stepSync]
  · simp [authTelnetAsync, authTelnetSync, obs, runFrom_append, runFrom_cons, runFrom_nil, hpa, stepAsync,
      run_sync_eq_async c pre {} hne]

/-- **full statement refuted (2)**: the hypothesis "no return interval elapses" is needed — a poll after the
    interval makes asyncio write a return the blocked sync read never writes -/
theorem auth_variants_full_refuted_kick :
    ¬ ∀ (c : Cfg) (tS tA : List Ev), NoEof tS → Polled tS tA → authTelnetAsync c tA = authTelnetSync c tS := by
  intro h
  exact absurd (h exCfg [] [Ev.data [] 101] (by simp [NoEof]) (Polled.poll 101 Polled.nil)) (by decide)

/-! Non-vacuity: a complete login dialogue inside the quantifier ("login: " / "admin\nPassword: " /
    "\nr1#"), the asyncio tape with polls inserted; both machines write user, return, password, return and
    finish. -/
def exTapeS : List Ev :=
  [.data [10, 108, 111, 103, 105, 110, 58, 32] 0,
   .data [97, 100, 109, 105, 110, 10, 80, 97, 115, 115, 119, 111, 114, 100, 58, 32] 3,
   .data [10, 114, 49, 35] 7]
def exTapeA : List Ev :=
  [.data [] 1, .data [10, 108, 111, 103, 105, 110, 58, 32] 0, .data [] 2, .data [] 50,
   .data [97, 100, 109, 105, 110, 10, 80, 97, 115, 115, 119, 111, 114, 100, 58, 32] 3,
   .data [10, 114, 49, 35] 7, .data [] 100]

example : NoEof exTapeS ∧ strip exTapeS = strip exTapeA ∧
    authTelnetSync exCfg exTapeS = ([[97, 100, 109, 105, 110], [10], [112, 119], [10]], .done) ∧
    authTelnetAsync exCfg exTapeA = authTelnetSync exCfg exTapeS :=
  ⟨by simp [NoEof, exTapeS], by decide, by decide, by decide⟩

example : NoKick exCfg exTapeA := by
  intro b now h
  simp [exTapeA] at h
  rcases h with ⟨_, rfl⟩ | ⟨_, rfl⟩ | ⟨_, rfl⟩ | ⟨_, rfl⟩ | ⟨_, rfl⟩ | ⟨_, rfl⟩ | ⟨_, rfl⟩ <;> decide

end Scrapli.ParityRun
