import ScrapliProps.C06Lemmas
import ScrapliModel.Gen.Parity
/-
  C06 — sync and asyncio drivers behave identically.  Property theorems only (lemmas: C06Lemmas.lean).

  Part 1 (proof, finite, complete): the parity table generated from BOTH ASTs on every run.
          + coroutine table, await discipline, twin-diff pin (all decided on regenerated data).
  Part 2: model of the ONE code path that is written differently (in-channel Telnet login) with a theorem for all
  tapes.  For every other operation there is NO theorem: behavioural equality of the two stacks is OBSERVED by the
  paired execution in tools/props/c06.py (translation validation), not proved.
-/
namespace Scrapli.Parity
open Scrapli.Gen.Parity

/-- **C06 parity table**: every public method of every sync class (channel, base/generic/network driver,
    five platform drivers, Telnet transport, module-level hooks) exists on the async twin with the same
    parameter names, kinds, defaults and order — up to exactly the entries listed as OPEN findings
    (`knownDiffs`, generated from findings/C06.json + known_findings.json; it is `[]` on the current tree — the
    Junos `genie_platform` entry it once held is fixed — and the statement is then plain `parityOK`, see
    `parity_full_if_no_known`). -/
theorem parity_table : parityOKModulo knownDiffs syncTable asyncTable = true := by decide +kernel

/-- the computed list of differences is contained in the list of known ones (Prop form) -/
theorem parity_mismatches_known : ∀ x ∈ mismatches syncTable asyncTable, x ∈ knownDiffs :=
  fun _ hx => parityOKModulo_mem parity_table hx

/-- lift through `parityOKModulo_sound`: for every class of the sync table and every public method of it,
    the async twin class has a same-named method with an equal signature, or a known difference names it -/
theorem parity_table_lifted : ∀ c ∈ syncTable, ∀ m ∈ c.methods,
    (∃ d ∈ asyncTable, d.key = c.key ∧ MethodHasTwin d m) ∨
    (∃ x ∈ knownDiffs, x.1 = c.key ∧ (x.2.1 = m.name ∨ x.2.2.2 = "class-missing")) :=
  parityOKModulo_sound knownDiffs syncTable asyncTable parity_table

/-- with no open finding the statement is the full one -/
theorem parity_full_if_no_known (h : knownDiffs = []) : ∀ c ∈ syncTable, ClsHasTwin asyncTable c := by
  apply parityOK_sound
  rw [← parityOKModulo_nil, ← h]
  exact parity_table

/-- **structural tie (pin)**: every twin function pair — and, per file pair, everything outside function bodies —
    whose NORMALISED texts differ is in the audited set with exactly the audited hash of its differing hunks.  The
    normal form strips `async`/`await`/`async with`, docstrings, annotations and logger calls and maps Async class
    names, so: an edit to only one twin is a new, un-audited entry UNLESS it only adds/removes `await`/`async` —
    that class of edit is what `await_discipline` and `coroutine_table` below are for.  The audited set holds the
    texts of the current tree only (entries recording a defect are dropped when its finding is fixed). -/
theorem twin_diffs_audited : twinDiffs.all (fun x => auditedTwinDiffs.contains x) = true := by decide +kernel

theorem twin_diffs_audited_mem : ∀ x ∈ twinDiffs, x ∈ auditedTwinDiffs := by
  intro x hx
  have := List.all_eq_true.mp twin_diffs_audited x hx
  simpa using this

/-- the pin compared something: number of twin function pairs present on both sides (+ one shell per file pair) -/
theorem twin_pairs_nonvacuous : twinPairsCompared ≥ 70 := by decide

/-- **await discipline** (regenerated from the async twin files): every call to a coroutine function — an `async def`
    of the same class family reached through `self` / `super()` / `conn` / `.channel` / `.transport`, the user hooks,
    `asyncio.sleep` / `wait_for`, `StreamReader.read` — is the operand of an `await` (or the first argument of an
    awaited `asyncio.wait_for`); nothing else is awaited; `async with` is used on the channel lock and on nothing else;
    no async construct in a sync file.  A one-sided dropped or added `await` is an entry of `awaitMismatches`. -/
theorem await_discipline : awaitMismatches = [] := by decide

theorem await_discipline_nonvacuous : awaitsSeen ≥ 60 := by decide

/-- **coroutine table**: no public sync method is `async def`; a public method of an async class is `async def`
    exactly when it is not in the audited plain list (constructors, `register_configuration_session`, the Telnet
    transport's `close` / `isalive` / `write`) — so `def` ↔ `async def` of one twin is caught -/
theorem coroutine_table : coroutineMismatches plainAsyncMethods syncTable asyncTable = [] := by decide +kernel

theorem coroutine_table_lifted :
    (∀ c ∈ syncTable, ∀ m ∈ c.methods, m.isAsync = false) ∧
    (∀ d ∈ asyncTable, ∀ n ∈ d.methods, n.isAsync = !plainAsyncMethods.contains (d.key, n.name)) :=
  coroutineMismatches_sound plainAsyncMethods syncTable asyncTable coroutine_table

/-- the tables are not trivially small: all eleven module pairs and at least 40 public sync methods -/
theorem parity_table_nonvacuous :
    (syncTable.map (fun c => c.methods.length)).sum ≥ 40 ∧ syncTable.length ≥ 22 ∧
    (syncTable.filter (fun c => c.methods.any (fun m => m.name == "__init__"))).length ≥ 10 := by decide +kernel

end Scrapli.Parity

namespace Scrapli.ParityRun
open Scrapli Scrapli.Gen.Parity

/-- (documentation only — this is transitivity of `=`.)  The shape of argument the paired runs rely on informally: two
    implementations that each agree with one function on a domain agree with each other there.  No operation other
    than the login loop below has a Lean model both stacks are compared with, so nothing instantiates this; it is
    not evidence for C06. -/
theorem refine_both_agree_trivial {Op Fault : Type} (D : List Op → List Bytes → Fault → Prop)
    (s a m : Stack Op Fault) (hs : Refines D s m) (ha : Refines D a m) :
    ∀ ops tape f, D ops tape f → s ops tape f = a ops tape f :=
  fun ops tape f h => (hs ops tape f h).trans (ha ops tape f h).symm

/-- **login variants agree**: for all patterns that do not match the empty buffer, every sync dialogue tape
    without connection error and every asyncio tape that delivers the same non-empty reads in the same
    order (any number of timed-out polls / empty reads inserted anywhere, in either tape), as long as the clock has
    not passed the first return interval at any EMPTY read (`NoKick`; reads that deliver bytes are unconstrained):
    same writes, same outcome.  Model idealisations: see ScrapliModel/ParityRun.lean (a timed-out poll loses no
    bytes; on `eof` the sync loop's `send_return()` succeeds). -/
theorem auth_variants_agree (c : Cfg) (hp : PatsQuietOnEmpty c.pats) (tS tA : List Ev)
    (hne : NoEof tS) (hkS : NoKick c tS) (hkA : NoKick c tA) (hst : strip tS = strip tA) :
    authTelnetAsync c tA = authTelnetSync c tS := by
  unfold authTelnetAsync authTelnetSync
  rw [runAsync_strip c hp tA {} (quiet_init c hp) hkA, runSync_strip c hp tS {} (quiet_init c hp) hkS,
      ← hst, run_sync_eq_async c (strip tS) {} (noEof_strip hne)]

/-- the same, with the asyncio tape given as "the sync tape with extra polls inserted" -/
theorem auth_variants_agree_polled (c : Cfg) (hp : PatsQuietOnEmpty c.pats) (tS tA : List Ev)
    (hne : NoEof tS) (hpoll : Polled tS tA) (hkA : NoKick c tA) (hkS : NoKick c tS) :
    authTelnetAsync c tA = authTelnetSync c tS :=
  auth_variants_agree c hp tS tA hne hkS hkA (polled_strip hpoll)

/-- corollary: when every sync read delivers bytes (what the blocking sync `read()` does) NO clock hypothesis is needed on
    the sync side; the only timing condition left is on the asyncio tape's empty reads / timed-out polls — i.e. exactly
    the asyncio-only kick (finding C06-F4, `auth_variants_full_refuted_kick`) -/
theorem auth_variants_agree_blocking_sync (c : Cfg) (hp : PatsQuietOnEmpty c.pats) (tS tA : List Ev)
    (hne : NoEof tS) (hfull : ∀ now, Ev.data [] now ∉ tS) (hkA : NoKick c tA) (hst : strip tS = strip tA) :
    authTelnetAsync c tA = authTelnetSync c tS :=
  auth_variants_agree c hp tS tA hne (noKick_of_no_empty_read c tS hfull) hkA hst

/-- the hypotheses hold for the default patterns the model's concrete predicates implement … -/
theorem default_pats_quiet : PatsQuietOnEmpty defaultPats := ⟨by decide, by decide, by decide⟩

/-- … and these are the patterns the source has today (regenerated; a change breaks this theorem) -/
theorem patterns_pinned :
    telnetLoginPattern = "^(.*username:)|(.*login:)\\s?$" ∧ passwordPattern = "(.*@.*)?password:\\s?$" ∧
    channelPromptPattern = "^[a-z0-9.\\-@()/:]{1,32}[#>$]$" := by decide

def exCfg : Cfg := ⟨defaultPats, [97, 100, 109, 105, 110], [112, 119], [10], 100⟩

/-- **full statement refuted (1)**: with a connection error on the tape the variants differ — sync writes a
    return and keeps going, asyncio lets the error out -/
theorem auth_variants_full_refuted_eof : ¬ ∀ (c : Cfg) (t : List Ev), authTelnetAsync c t = authTelnetSync c t := by
  intro h
  exact absurd (h exCfg [Ev.eof]) (by decide)

/-- exact shape of that difference, for every configuration and every tape prefix -/
theorem auth_eof_divergence (c : Cfg) (pre : List Ev) (hpend : (runFrom stepSync c {} pre).out = .pending)
    (hne : NoEof pre) :
    authTelnetSync c (pre ++ [Ev.eof]) = ((authTelnetSync c pre).1 ++ [c.ret], .pending) ∧
    authTelnetAsync c (pre ++ [Ev.eof]) = ((authTelnetSync c pre).1, .connError) := by
  have hpa : (runFrom stepAsync c {} pre).out = .pending := by rw [← run_sync_eq_async c pre {} hne]; exact hpend
  constructor
  · simp [authTelnetSync, obs, runFrom_append, runFrom_cons, runFrom_nil, hpend, stepSync]
  · simp [authTelnetAsync, authTelnetSync, obs, runFrom_append, runFrom_cons, runFrom_nil, hpa, stepAsync,
      run_sync_eq_async c pre {} hne]

/-- **full statement refuted (2)**: the hypothesis "no return interval elapses" is needed — a poll after the
    interval makes asyncio write a return the blocked sync read never writes -/
theorem auth_variants_full_refuted_kick :
    ¬ ∀ (c : Cfg) (tS tA : List Ev), NoEof tS → Polled tS tA → authTelnetAsync c tA = authTelnetSync c tS := by
  intro h
  exact absurd (h exCfg [] [Ev.data [] 101] (by simp [NoEof]) (Polled.poll 101 Polled.nil)) (by decide)

/-! Non-vacuity: a complete login dialogue inside the quantifier ("login: " / "admin\nPassword: " /
    "\nr1#"), the asyncio tape with polls inserted; both machines write user, return, password, return and
    finish. -/
def exTapeS : List Ev :=
  [.data [10, 108, 111, 103, 105, 110, 58, 32] 0,
   .data [97, 100, 109, 105, 110, 10, 80, 97, 115, 115, 119, 111, 114, 100, 58, 32] 3,
   .data [10, 114, 49, 35] 7]
def exTapeA : List Ev :=
  [.data [] 1, .data [10, 108, 111, 103, 105, 110, 58, 32] 0, .data [] 2, .data [] 50,
   .data [97, 100, 109, 105, 110, 10, 80, 97, 115, 115, 119, 111, 114, 100, 58, 32] 3,
   .data [10, 114, 49, 35] 7, .data [] 100]

example : NoEof exTapeS ∧ strip exTapeS = strip exTapeA ∧
    authTelnetSync exCfg exTapeS = ([[97, 100, 109, 105, 110], [10], [112, 119], [10]], .done) ∧
    authTelnetAsync exCfg exTapeA = authTelnetSync exCfg exTapeS :=
  ⟨by simp [NoEof, exTapeS], by decide, by decide, by decide⟩

example : NoKick exCfg exTapeA := by
  intro now h
  simp [exTapeA] at h
  rcases h with rfl | rfl | rfl | rfl <;> decide

end Scrapli.ParityRun
