import ScrapliProps.C01Lemmas
import ScrapliModel.Channel.Drv
/-
  C01 at the driver layer: `send_commands` over the channel model against the causal line device.
  (lemmas; the property theorem `send_commands_exact` is in C01.lean)
-/
namespace Scrapli.Chan
open Scrapli

/-- which commands of the loop part are sent, and whether the loop broke: up to and including the first
    command whose result carries a failure marker when `stop_on_failed` is on -/
def sentOf (stop : Bool) (fails : Bytes → Bool) : List Bytes → List Bytes × Bool
  | [] => ([], false)
  | c :: cs => if stop && fails c then ([c], true) else ((c :: (sentOf stop fails cs).1), (sentOf stop fails cs).2)

/-- the commands `send_commands(init ++ [last])` sends -/
def sentAll (stop : Bool) (fails : Bytes → Bool) (init : List Bytes) (last : Bytes) : List Bytes :=
  if (sentOf stop fails init).2 then (sentOf stop fails init).1 else (sentOf stop fails init).1 ++ [last]

theorem sentOf_cons_true {stop : Bool} {fails : Bytes → Bool} {c : Bytes} (cs : List Bytes)
    (h : (stop && fails c) = true) : sentOf stop fails (c :: cs) = ([c], true) := by
  rw [sentOf]; simp only [h, if_true]

theorem sentOf_cons_false {stop : Bool} {fails : Bytes → Bool} {c : Bytes} (cs : List Bytes)
    (h : (stop && fails c) = false) :
    sentOf stop fails (c :: cs) = (c :: (sentOf stop fails cs).1, (sentOf stop fails cs).2) := by
  rw [sentOf]; simp only [h, Bool.false_eq_true, if_false]

theorem sentOf_prefix (stop : Bool) (fails : Bytes → Bool) : ∀ (cs : List Bytes), (sentOf stop fails cs).1 <+: cs := by
  intro cs
  induction cs with
  | nil => exact List.prefix_refl _
  | cons c cs ih =>
    unfold sentOf
    split
    · exact ⟨cs, rfl⟩
    · obtain ⟨t, ht⟩ := ih
      exact ⟨t, by simp [ht]⟩

theorem sendCommand_exact {P : Bytes → Bool} {cfg : Cfg} {dv : LineDev} (hf : Fits P cfg dv)
    (strip : Bool) (fwc : List Bytes) (c : Bytes) (hg : GoodCmd P dv c)
    (w : Wire) (hres : ∀ x ∈ w.avail, isHws x = true) (hheld : w.held = []) :
    ∃ r w', sendCommand cfg dv.onWrite strip fwc c (w, []) = some (r, (w', [])) ∧
      r.result = expected cfg dv strip c ∧ r.failed = failedOf fwc (expected cfg dv strip c) ∧
      w'.writes = w.writes ++ [c, cfg.ret] ∧ (∀ x ∈ w'.avail, isHws x = true) ∧ w'.held = [] := by
  obtain ⟨L, t', t'', cuts', hLws, hLnl, htt, hsend⟩ := sendInput_frames hf c hg strip w hres hheld
  obtain ⟨ht', ht''⟩ := suffix_hws htt hf.trail_hws
  have hp := processOutput_indep cfg dv c L t' strip hLws hLnl ht' hf.prompt_ne hf.prompt_nl
  refine ⟨{ raw := L ++ dv.rbody c ++ NL :: dv.prompt ++ t',
             result := processOutput cfg (L ++ dv.rbody c ++ NL :: dv.prompt ++ t') strip,
             failed := failedOf fwc (processOutput cfg (L ++ dv.rbody c ++ NL :: dv.prompt ++ t') strip) },
    { avail := t'', cuts := cuts', writes := w.writes ++ [c, cfg.ret] }, ?_, ?_, ?_, rfl, ht'', rfl⟩
  · unfold sendCommand; rw [hsend]; rfl
  · exact hp
  · simp only [hp]; rfl

theorem sendCommandsLoop_exact {P : Bytes → Bool} {cfg : Cfg} {dv : LineDev} (hf : Fits P cfg dv)
    (strip : Bool) (fwc : List Bytes) (stop : Bool) :
    ∀ (init : List Bytes), (∀ i ∈ init, GoodCmd P dv i) →
    ∀ (w : Wire), (∀ x ∈ w.avail, isHws x = true) → w.held = [] →
      ∃ rs w', sendCommandsLoop cfg dv.onWrite strip fwc stop init (w, []) =
          some (rs, (w', []), (sentOf stop (fun c => failedOf fwc (expected cfg dv strip c)) init).2) ∧
        rs.map (fun r => (r.result, r.failed)) =
          (sentOf stop (fun c => failedOf fwc (expected cfg dv strip c)) init).1.map
            (fun c => (expected cfg dv strip c, failedOf fwc (expected cfg dv strip c))) ∧
        w'.writes = w.writes ++
          ((sentOf stop (fun c => failedOf fwc (expected cfg dv strip c)) init).1.map (fun i => [i, cfg.ret])).flatten ∧
        (∀ x ∈ w'.avail, isHws x = true) ∧ w'.held = [] := by
  intro init
  induction init with
  | nil => intro _ w hw hh; exact ⟨[], w, rfl, rfl, by simp [sentOf], hw, hh⟩
  | cons c cs ih =>
    intro hg w hw hh
    obtain ⟨r, w1, h1, hr, hfl, hw1, ha1, hh1⟩ := sendCommand_exact hf strip fwc c (hg c (by simp)) w hw hh
    by_cases hb : (stop && failedOf fwc (expected cfg dv strip c)) = true
    · have hs := sentOf_cons_true (fails := fun c => failedOf fwc (expected cfg dv strip c)) cs hb
      rw [hs]
      refine ⟨[r], w1, ?_, ?_, ?_, ha1, hh1⟩
      · unfold sendCommandsLoop; rw [h1]; simp only [hfl, hb, if_true]
      · simp only [List.map_cons, List.map_nil, hr, hfl]
      · simp [hw1]
    · have hb' : (stop && failedOf fwc (expected cfg dv strip c)) = false := by simpa using hb
      have hs := sentOf_cons_false (fails := fun c => failedOf fwc (expected cfg dv strip c)) cs hb'
      rw [hs]
      obtain ⟨rs, w', h2, hres, hwr, ha, hh'⟩ := ih (fun j hj => hg j (by simp [hj])) w1 ha1 hh1
      refine ⟨r :: rs, w', ?_, ?_, ?_, ha, hh'⟩
      · unfold sendCommandsLoop; rw [h1]; simp only [hfl, hb', Bool.false_eq_true, if_false]
        rw [h2]; rfl
      · simp only [List.map_cons, hr, hfl, hres]
      · simp only [List.map_cons, List.flatten_cons]
        rw [hwr, hw1]; simp [List.append_assoc]

end Scrapli.Chan
