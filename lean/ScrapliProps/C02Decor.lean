import ScrapliProps.C02
/-
  Whole sessions over a DECORATING device: the device of C01 (`LineDev`) whose every burst of output is
  decorated with carriage returns and complete tame escape sequences, read under any segmentation
  (read boundaries inside sequences included).  Lemmas; the property theorems are at the end.
-/
namespace Scrapli.Chan
open Scrapli

/-- `w` is a wire whose unread bytes (what is held back of them included), CRs removed, are text and tame
    sequences with text `plain` -/
def Dec (w : Wire) (plain : Bytes) : Prop :=
  ∃ segs : List Seg, (∀ g ∈ segs, g.Tame) ∧ HeldShape w.held segs ∧
    w.held ++ stripCR w.avail = segBytes segs ∧ segPlain segs = plain

theorem cleanPieces_take : ∀ (ps : List Bytes) (h : Bytes) (k : Nat),
    (cleanPieces h (ps.take k)).1 = (cleanPieces h ps).1.take k := by
  intro ps
  induction ps with
  | nil => intro h k; simp [cleanPieces]
  | cons c cs ih =>
    intro h k
    cases k with
    | zero => simp [cleanPieces]
    | succ k => simp only [List.take_succ_cons, cleanPieces, ih]

/-- a PREFIX of the reads of a decorated stream: what they return is text of the stream, and what is left
    (held back ++ the bytes not yet read) is again a decorated stream with the rest of the text -/
theorem cleanPieces_segs_split : ∀ (a : List Bytes) (b h : Bytes) (segs : List Seg), (∀ g ∈ segs, g.Tame) →
    CR ∉ a.flatten → h ++ a.flatten ++ b = segBytes segs → HeldShape h segs →
    ∃ segs', (∀ g ∈ segs', g.Tame) ∧ HeldShape (cleanPieces h a).2 segs' ∧
      (cleanPieces h a).2 ++ b = segBytes segs' ∧
      (cleanPieces h a).1.flatten ++ segPlain segs' = segPlain segs := by
  intro a
  induction a with
  | nil =>
    intro b h segs ht _ hb hs
    exact ⟨segs, ht, by simpa [cleanPieces] using hs, by simpa [cleanPieces] using hb, by simp [cleanPieces]⟩
  | cons c cs ih =>
    intro b h segs ht hcr hb _
    have hc : CR ∉ c := fun x => hcr (by simp [x])
    have hcs : CR ∉ cs.flatten := fun x => hcr (by simp [x])
    have hsc : stripCR c = c := by
      unfold stripCR
      rw [List.filter_eq_self]
      intro x hx
      have : x ≠ CR := fun e => hc (e ▸ hx)
      simpa using this
    obtain ⟨segs1, h1, h2, h3, h4⟩ := cleanBuf_segs segs ht (h ++ c) (cs.flatten ++ b)
      (by simpa [List.append_assoc] using hb)
    obtain ⟨segs', g1, g2, g3, g4⟩ := ih b (cleanBuf (h ++ c)).2 segs1 h1 hcs
      (by simpa [List.append_assoc] using h2) h4
    refine ⟨segs', g1, ?_, ?_, ?_⟩
    · simpa [cleanPieces, chanReadH, hsc] using g2
    · simpa [cleanPieces, chanReadH, hsc] using g3
    · simp only [cleanPieces, chanReadH, hsc, List.flatten_cons, List.append_assoc]
      rw [g4, h3]

theorem stripCR_self_of_not_mem {b : Bytes} (h : CR ∉ b) : stripCR b = b := by
  unfold stripCR
  rw [List.filter_eq_self]
  intro x hx
  have : x ≠ CR := fun e => h (e ▸ hx)
  simpa using this

/-- **reading from a decorated wire**: the cleaned pieces concatenate to the text; a read loop that stops
    after `k` pieces leaves a decorated wire whose text is the rest -/
theorem readUntil_dec (stop : Bytes → Bool) (w : Wire) (plain : Bytes) (hd : Dec w plain) :
    (cleanPieces w.held (piecesOf w.avail w.cuts)).1.flatten = plain ∧
    ∀ buf k, readLoop stop [] (cleanPieces w.held (piecesOf w.avail w.cuts)).1 = some (buf, k) →
      ∃ w', Wire.readUntil stop w = some (buf, w') ∧ w'.writes = w.writes ∧
        Dec w' (((cleanPieces w.held (piecesOf w.avail w.cuts)).1.drop k).flatten) := by
  obtain ⟨segs, ht, hshape, hbytes, hplain⟩ := hd
  have hflat : (cleanPieces w.held (piecesOf w.avail w.cuts)).1.flatten = plain := by
    rw [cleanPieces_stripCR]
    have := cleanPieces_segs ((piecesOf w.avail w.cuts).map stripCR) w.held segs ht
      (by rw [map_stripCR_flatten]; exact not_mem_stripCR _)
      (by rw [map_stripCR_flatten, piecesOf_flatten]; exact hbytes) hshape
    rw [this.1, hplain]
  refine ⟨hflat, ?_⟩
  intro buf k hrl
  refine ⟨{ w with avail := ((piecesOf w.avail w.cuts).drop k).flatten, cuts := w.cuts.drop k,
                   held := (cleanPieces w.held ((piecesOf w.avail w.cuts).take k)).2 }, ?_, rfl, ?_⟩
  · unfold Wire.readUntil; simp only [hrl]
  · -- the rest is decorated
    have hsplit : w.held ++ (((piecesOf w.avail w.cuts).take k).map stripCR).flatten ++
        stripCR ((piecesOf w.avail w.cuts).drop k).flatten = segBytes segs := by
      rw [map_stripCR_flatten, List.append_assoc, ← stripCR_append, ← List.flatten_append,
        List.take_append_drop, piecesOf_flatten]
      exact hbytes
    obtain ⟨segs', g1, g2, g3, g4⟩ := cleanPieces_segs_split (((piecesOf w.avail w.cuts).take k).map stripCR)
      (stripCR ((piecesOf w.avail w.cuts).drop k).flatten) w.held segs ht
      (by rw [map_stripCR_flatten]; exact not_mem_stripCR _) hsplit hshape
    rw [← cleanPieces_stripCR] at g2 g3 g4
    refine ⟨segs', g1, g2, g3, ?_⟩
    -- text of the rest = the cleaned pieces not consumed
    rw [cleanPieces_take, hplain] at g4
    have h2 : ((cleanPieces w.held (piecesOf w.avail w.cuts)).1.take k).flatten ++
        ((cleanPieces w.held (piecesOf w.avail w.cuts)).1.drop k).flatten = plain := by
      rw [← List.flatten_append, List.take_append_drop, hflat]
    exact List.append_cancel_left (g4.trans h2.symm)

/-- the echo read on a decorated wire -/
theorem readUntil_echo_dec (input : Bytes) (w : Wire) (plain : Bytes) (hd : Dec w plain)
    (hI : squish input ≠ []) (hF : squishBuf plain = squish input) :
    ∃ b1 L w', Wire.readUntil (inputSeen false input) w = some (b1, w') ∧ b1 ++ L = plain ∧
      squishBuf L = [] ∧ Dec w' L ∧ w'.writes = w.writes := by
  obtain ⟨hflat, hrest⟩ := readUntil_dec (inputSeen false input) w plain hd
  have hne : squishBuf ([] : Bytes) ≠ squish input := by
    intro h; exact hI (by rw [← h]; rfl)
  obtain ⟨k, hrl, _, hL, _⟩ := readLoop_echo input plain hF _ [] (by simpa using hflat) hne
  obtain ⟨w', h1, h2, h3⟩ := hrest _ k hrl
  refine ⟨_, _, w', h1, ?_, hL, h3, h2⟩
  rw [List.nil_append, ← List.flatten_append, List.take_append_drop, hflat]

/-- the prompt read on a decorated wire -/
theorem readUntil_prompt_dec {P : Bytes → Bool} (pat : Pat) (d : Nat) (body p t : Bytes) (w : Wire)
    (hd : Dec w (body ++ NL :: p ++ t))
    (hS : ∀ x, pat.search x = (splitNL x).any P)
    (hb : Quiet P body) (he : NoEarly P p) (hok : PromptOK P p t)
    (hnlp : NL ∉ p) (hnlt : NL ∉ t) (hp0 : p ≠ []) (hdp : (p ++ t).length < d) :
    ∃ t' t'' w', t' ++ t'' = t ∧
      Wire.readUntil (promptSeen pat d) w = some (body ++ NL :: p ++ t', w') ∧ Dec w' t'' ∧
      w'.writes = w.writes := by
  obtain ⟨hflat, hrest⟩ := readUntil_dec (promptSeen pat d) w _ hd
  obtain ⟨k, t', ht', hk, hrl, _⟩ :=
    readLoop_prompt pat d body p t hS hb he hok hnlp hnlt hp0 hdp _ [] (by simpa using hflat) (by simp; omega)
  obtain ⟨w', h1, h2, h3⟩ := hrest _ k hrl
  obtain ⟨t'', ht''⟩ := ht'
  refine ⟨t', t'', w', ht'', h1, ?_, h2⟩
  -- the text not consumed is t''
  have hsplit : ((cleanPieces w.held (piecesOf w.avail w.cuts)).1.take k).flatten ++
      ((cleanPieces w.held (piecesOf w.avail w.cuts)).1.drop k).flatten = body ++ NL :: p ++ t := by
    rw [← List.flatten_append, List.take_append_drop, hflat]
  simp only [List.nil_append] at hk
  rw [hk, ← ht''] at hsplit
  have : ((cleanPieces w.held (piecesOf w.avail w.cuts)).1.drop k).flatten = t'' := by
    have e : (body ++ NL :: p ++ t') ++ ((cleanPieces w.held (piecesOf w.avail w.cuts)).1.drop k).flatten =
        (body ++ NL :: p ++ t') ++ t'' := by rw [hsplit]; simp [List.append_assoc]
    exact List.append_cancel_left e
  rw [this] at h3
  exact h3

/-! ### the decorating device -/

/-- a decoration of device output: whatever `D` inserts into the `n`-th burst of (plain) output, with the CRs removed
    the result is text and complete tame sequences whose text is the output itself -/
def Decorates (D : Nat → Bytes → Bytes) : Prop :=
  ∀ n o, Plain o → ∃ segs : List Seg, (∀ g ∈ segs, g.Tame) ∧ stripCR (D n o) = segBytes segs ∧ segPlain segs = o

/-- the line device of C01 with its `n`-th burst of output decorated by `D n` (state: line typed so far,
    number of bursts so far) -/
def decOnWrite (dv : LineDev) (D : Nat → Bytes → Bytes) : (Bytes × Nat) → Bytes → (Bytes × Nat) × Bytes :=
  fun st b => (((dv.onWrite st.1 b).1, st.2 + 1), D st.2 (dv.onWrite st.1 b).2)

theorem segBytes_append (a b : List Seg) : segBytes (a ++ b) = segBytes a ++ segBytes b := by
  simp [segBytes]

theorem segPlain_append (a b : List Seg) : segPlain (a ++ b) = segPlain a ++ segPlain b := by
  simp [segPlain]

/-- a decorated burst appended to a decorated wire gives a decorated wire -/
theorem dec_append (w : Wire) (plain : Bytes) (hd : Dec w plain) (o' o : Bytes) (ws : List Bytes)
    (ho : ∃ segs : List Seg, (∀ g ∈ segs, g.Tame) ∧ stripCR o' = segBytes segs ∧ segPlain segs = o) :
    Dec { w with avail := w.avail ++ o', writes := ws } (plain ++ o) := by
  obtain ⟨segs, ht, hs, hb, hp⟩ := hd
  obtain ⟨osegs, ot, ob, op⟩ := ho
  refine ⟨segs ++ osegs, ?_, ?_, ?_, ?_⟩
  · intro g hg
    rcases List.mem_append.mp hg with h | h
    · exact ht g h
    · exact ot g h
  · rcases hs with e | ⟨s, tl, x, h1, h2, h3, h4⟩
    · exact Or.inl e
    · exact Or.inr ⟨s, tl ++ osegs, x, by simp [h1], h2, h3, h4⟩
  · simp only [stripCR_append, segBytes_append, ← List.append_assoc, hb, ob]
  · rw [segPlain_append, hp, op]

theorem dec_of_hws (w : Wire) (hh : w.held = []) (hres : ∀ x ∈ w.avail, isHws x = true) : Dec w w.avail := by
  have hcr : CR ∉ w.avail := (hws_plain hres).1
  refine ⟨[Seg.text w.avail (by
      intro x hx
      have := hres x hx
      revert this
      simp only [isHws, isAnsiStart]
      intro h
      rcases Bool.or_eq_true_iff.mp h with e | e <;> (have := eq_of_beq e; subst this; decide))], ?_, Or.inl hh, ?_, ?_⟩
  · intro g hg; simp at hg; subst hg; trivial
  · simp [hh, segBytes, Seg.bytes, stripCR_self_of_not_mem hcr]
  · simp [segPlain, Seg.plain]

/-- **one command against the decorating device, framed exactly** (mirror of `sendInput_frames`): for every
    segmentation of the reads (cuts inside sequences included) and every decoration -/
theorem sendInput_frames_dec {P : Bytes → Bool} {cfg : Cfg} {dv : LineDev} (hf : Fits P cfg dv)
    (D : Nat → Bytes → Bytes) (hD : Decorates D)
    (input : Bytes) (hg : GoodCmd P dv input) (stripPrompt : Bool)
    (w : Wire) (res : Bytes) (hd : Dec w res) (hres : ∀ x ∈ res, isHws x = true) (n : Nat) :
    ∃ L t' t'' w', (∀ x ∈ L, isWs x = true) ∧ NL ∉ L ∧ t' ++ t'' = dv.trail ∧
      sendInput cfg (decOnWrite dv D) input stripPrompt false false (w, ([], n)) =
        some ((L ++ dv.rbody input ++ NL :: dv.prompt ++ t',
               processOutput cfg (L ++ dv.rbody input ++ NL :: dv.prompt ++ t') stripPrompt),
              (w', ([], n + 2))) ∧
      Dec w' t'' ∧ w'.writes = w.writes ++ [input, cfg.ret] := by
  have hne : input ≠ [] := by intro e; exact hg.visible (by rw [e]; rfl)
  -- phase 1: write the input, read the echo
  have hw1 : Wire.write (decOnWrite dv D) (w, ([], n)) input =
      ({ w with avail := w.avail ++ D n input, writes := w.writes ++ [input] }, (input, n + 1)) := by
    simp [Wire.write, decOnWrite, dv.onWrite_text input [] hg.no_nl hg.plain.1]
  have hd1 : Dec { w with avail := w.avail ++ D n input, writes := w.writes ++ [input] } (res ++ input) :=
    dec_append w res hd (D n input) input _ (hD n input hg.plain)
  have hF1 : squishBuf (res ++ input) = squish input := by
    rw [squishBuf_append, hws_squishBuf hres, squishBuf_text hg.no_bs]; rfl
  obtain ⟨b1, L, w1, hru1, hsplit1, hL, hdL, hwr1⟩ :=
    readUntil_echo_dec input _ (res ++ input) hd1 hg.visible hF1
  have hLnl : NL ∉ L := by
    intro hm
    have : NL ∈ res ++ input := by
      have hh : NL ∈ b1 ++ L := List.mem_append_right _ hm
      rw [hsplit1] at hh; exact hh
    rcases List.mem_append.mp this with h | h
    · exact hws_noNL hres h
    · exact hg.no_nl h
  have hLbs : BS ∉ L := by
    intro hm
    have : BS ∈ res ++ input := by
      have hh : BS ∈ b1 ++ L := List.mem_append_right _ hm
      rw [hsplit1] at hh; exact hh
    rcases List.mem_append.mp this with h | h
    · have := hres _ h; revert this; decide
    · exact hg.no_bs h
  have hLws : ∀ x ∈ L, isWs x = true := ws_of_squish_nil (by rw [← squishBuf_text hLbs]; exact hL)
  -- phase 2: write the return, read up to the prompt
  have hw2 : Wire.write (decOnWrite dv D) (w1, (input, n + 1)) cfg.ret =
      ({ w1 with avail := w1.avail ++ D (n + 1) (dv.respond input), writes := w1.writes ++ [cfg.ret] }, ([], n + 2)) := by
    simp [Wire.write, decOnWrite, dv.onWrite_ret input hf.ret]
  have hav2 : L ++ dv.respond input = (L ++ dv.rbody input) ++ NL :: dv.prompt ++ dv.trail := by
    simp [LineDev.respond, List.append_assoc]
  have hd2 : Dec { w1 with avail := w1.avail ++ D (n + 1) (dv.respond input), writes := w1.writes ++ [cfg.ret] }
      ((L ++ dv.rbody input) ++ NL :: dv.prompt ++ dv.trail) := by
    rw [← hav2]
    have hpr : Plain (dv.respond input) := by
      unfold LineDev.respond
      exact ((rbody_plain hg.out_plain).append (nl_cons_plain hf.prompt_plain)).append (hws_plain hf.trail_hws)
    exact dec_append w1 L hdL _ _ _ (hD (n + 1) (dv.respond input) hpr)
  obtain ⟨t', t'', w2, htt, hru2, hdt, hwr2⟩ :=
    readUntil_prompt_dec cfg.prompt cfg.depth (L ++ dv.rbody input) dv.prompt dv.trail _ hd2
      hf.search_lines (quiet_body hf hg hL hLnl) hf.noEarly hf.promptOK hf.prompt_nl
      (hws_noNL hf.trail_hws) hf.prompt_ne hf.fits_window
  refine ⟨L, t', t'', w2, hLws, hLnl, htt, ?_, hdt, ?_⟩
  · unfold sendInput
    have hie : input.isEmpty = false := by simpa using hne
    simp only [hw1, Bool.false_or, hf.strict, hie, Bool.false_eq_true, ↓reduceIte, hru1, Option.map_some, hw2, hru2]
  · rw [hwr2]; simp only; rw [hwr1]; simp [List.append_assoc]

/-- **the session stays in step over the decorating device** (mirror of `session_in_step`) -/
theorem session_in_step_dec {P : Bytes → Bool} {cfg : Cfg} {dv : LineDev} (hf : Fits P cfg dv)
    (D : Nat → Bytes → Bytes) (hD : Decorates D) (stripPrompt : Bool) :
    ∀ (inputs : List Bytes), (∀ i ∈ inputs, GoodCmd P dv i) →
    ∀ (w : Wire) (res : Bytes) (n : Nat), Dec w res → (∀ x ∈ res, isHws x = true) →
      ∃ rs w' res', runCmds cfg (decOnWrite dv D) stripPrompt inputs (w, ([], n)) =
          some (rs, (w', ([], n + 2 * inputs.length))) ∧
        rs.map (·.2) = inputs.map (expected cfg dv stripPrompt) ∧
        w'.writes = w.writes ++ (inputs.map (fun i => [i, cfg.ret])).flatten ∧
        Dec w' res' ∧ (∀ x ∈ res', isHws x = true) := by
  intro inputs
  induction inputs with
  | nil => intro _ w res n hd hr; exact ⟨[], w, res, rfl, rfl, by simp, hd, hr⟩
  | cons i is ih =>
    intro hg w res n hd hr
    obtain ⟨L, t', t'', w1, hLws, hLnl, htt, hsend, hd1, hw1⟩ :=
      sendInput_frames_dec hf D hD i (hg i (by simp)) stripPrompt w res hd hr n
    obtain ⟨ht', ht''⟩ := suffix_hws htt hf.trail_hws
    obtain ⟨rs, w', res', hrun, hres, hwr, hd', hr'⟩ :=
      ih (fun j hj => hg j (by simp [hj])) w1 t'' (n + 2) hd1 ht''
    refine ⟨(L ++ dv.rbody i ++ NL :: dv.prompt ++ t',
              processOutput cfg (L ++ dv.rbody i ++ NL :: dv.prompt ++ t') stripPrompt) :: rs, w', res', ?_, ?_, ?_, hd', hr'⟩
    · unfold runCmds; rw [hsend]; simp only; rw [hrun]
      simp only [Option.map_some, List.length_cons]
      have : n + 2 + 2 * is.length = n + 2 * (is.length + 1) := by omega
      rw [this]
    · simp only [List.map_cons, hres]
      congr 1
      exact processOutput_indep cfg dv i L t' stripPrompt hLws hLnl ht' hf.prompt_ne hf.prompt_nl
    · rw [hwr, hw1]; simp [List.append_assoc]

/-- `get_prompt` over the decorating device (mirror of `getPrompt_exact`) -/
theorem getPrompt_exact_dec {P : Bytes → Bool} {cfg : Cfg} {dv : LineDev} (hf : Fits P cfg dv)
    (D : Nat → Bytes → Bytes) (hD : Decorates D)
    (hfirst : ∀ x L, (splitNL x).find? P = some L →
      ∃ m, cfg.prompt.first x = some m ∧ strip m = strip L)
    (hout : dv.out [] = [])
    (w : Wire) (res : Bytes) (hd : Dec w res) (hres : ∀ x ∈ res, isHws x = true) (n : Nat) :
    ∃ w' res', getPrompt cfg (decOnWrite dv D) (w, ([], n)) = some (strip dv.prompt, (w', ([], n + 1))) ∧
      w'.writes = w.writes ++ [cfg.ret] ∧ Dec w' res' ∧ (∀ x ∈ res', isHws x = true) := by
  have hrb : dv.rbody [] = [] := by simp [LineDev.rbody, hout]
  have hw1 : Wire.write (decOnWrite dv D) (w, ([], n)) cfg.ret =
      ({ w with avail := w.avail ++ D n (dv.respond []), writes := w.writes ++ [cfg.ret] }, ([], n + 1)) := by
    simp [Wire.write, decOnWrite, dv.onWrite_ret [] hf.ret]
  have hav : res ++ dv.respond [] = res ++ NL :: dv.prompt ++ dv.trail := by
    simp [LineDev.respond, hrb]
  have hpr : Plain (dv.respond []) := by
    unfold LineDev.respond
    rw [hrb]
    exact (nl_cons_plain hf.prompt_plain).append (hws_plain hf.trail_hws)
  have hd1 : Dec { w with avail := w.avail ++ D n (dv.respond []), writes := w.writes ++ [cfg.ret] }
      (res ++ NL :: dv.prompt ++ dv.trail) := by
    rw [← hav]
    exact dec_append w res hd _ _ _ (hD n (dv.respond []) hpr)
  have hq : Quiet P res := by
    intro l hl s hs
    rw [splitNL_noNL _ (hws_noNL hres)] at hl
    have : l = res := by simpa using hl
    subst this
    exact hf.blank s (squishBuf_infix_nil hs (hws_squishBuf hres))
  obtain ⟨hflat, hrest⟩ := readUntil_dec cfg.prompt.search _ _ hd1
  obtain ⟨k, t', htt, hrl⟩ :=
    readLoop_search cfg.prompt res dv.prompt dv.trail hf.search_lines hq hf.noEarly hf.promptOK
      hf.prompt_nl (hws_noNL hf.trail_hws) _ [] (by simpa using hflat) (by simp; omega)
  obtain ⟨w', h1, h2, h3⟩ := hrest _ k hrl
  obtain ⟨t'', ht''⟩ := htt
  have ht'hws := (suffix_hws ht'' hf.trail_hws).1
  have hfind : (splitNL (res ++ NL :: dv.prompt ++ t')).find? P = some (dv.prompt ++ t') := by
    have hznl : NL ∉ dv.prompt ++ t' := by
      intro hm
      rcases List.mem_append.mp hm with h1 | h1
      · exact hf.prompt_nl h1
      · exact hws_noNL ht'hws h1
    have e : res ++ NL :: dv.prompt ++ t' = res ++ NL :: (dv.prompt ++ t') := by simp
    rw [e, splitNL_append_NL, splitNL_noNL _ (hws_noNL hres), splitNL_noNL _ hznl]
    have h1 : P res = false := hf.blank _ (hws_squishBuf hres)
    have h2 : P (dv.prompt ++ t') = true := hf.promptOK t' ⟨t'', ht''⟩
    simp [List.find?, h1, h2]
  obtain ⟨m, hm1, hm2⟩ := hfirst _ _ hfind
  -- the text not consumed is t''
  have hk := readLoop_result_eq cfg.prompt.search _ [] _ k hrl
  simp only [List.nil_append] at hk
  have hsplit : ((cleanPieces w.held (piecesOf (w.avail ++ D n (dv.respond [])) w.cuts)).1.take k).flatten ++
      ((cleanPieces w.held (piecesOf (w.avail ++ D n (dv.respond [])) w.cuts)).1.drop k).flatten =
      res ++ NL :: dv.prompt ++ dv.trail := by
    rw [← List.flatten_append, List.take_append_drop]; exact hflat
  rw [← hk, ← ht''] at hsplit
  have hrest' : ((cleanPieces w.held (piecesOf (w.avail ++ D n (dv.respond [])) w.cuts)).1.drop k).flatten = t'' := by
    have e : (res ++ NL :: dv.prompt ++ t') ++
        ((cleanPieces w.held (piecesOf (w.avail ++ D n (dv.respond [])) w.cuts)).1.drop k).flatten =
        (res ++ NL :: dv.prompt ++ t') ++ t'' := by rw [hsplit]; simp [List.append_assoc]
    exact List.append_cancel_left e
  refine ⟨w', t'', ?_, by rw [h2], by rw [← hrest']; exact h3, (suffix_hws ht'' hf.trail_hws).2⟩
  unfold getPrompt
  simp only [hw1, h1, hm1]
  rw [hm2, strip_append_hws _ _ ht'hws]

/-- sessions mixing `get_prompt` and commands over the decorating device (mirror of `mixed_session_in_step`) -/
theorem mixed_session_in_step_dec {P : Bytes → Bool} {cfg : Cfg} {dv : LineDev} (hf : Fits P cfg dv)
    (D : Nat → Bytes → Bytes) (hD : Decorates D)
    (hfirst : ∀ x L, (splitNL x).find? P = some L →
      ∃ m, cfg.prompt.first x = some m ∧ strip m = strip L)
    (hout : dv.out [] = []) (stripPrompt : Bool) :
    ∀ (ops : List COp), (∀ i, COp.cmd i ∈ ops → GoodCmd P dv i) →
    ∀ (w : Wire) (res : Bytes) (n : Nat), Dec w res → (∀ x ∈ res, isHws x = true) →
      ∃ rs w' res' n', runOps cfg (decOnWrite dv D) stripPrompt ops (w, ([], n)) = some (rs, (w', ([], n'))) ∧
        rs = ops.map (expectedOp cfg dv stripPrompt) ∧
        w'.writes = w.writes ++ (ops.map (opWrites cfg.ret)).flatten ∧
        Dec w' res' ∧ (∀ x ∈ res', isHws x = true) := by
  intro ops
  induction ops with
  | nil => intro _ w res n hd hr; exact ⟨[], w, res, n, rfl, rfl, by simp, hd, hr⟩
  | cons o ops ih =>
    intro hg w res n hd hr
    have hg' : ∀ i, COp.cmd i ∈ ops → GoodCmd P dv i := fun i hi => hg i (by simp [hi])
    cases o with
    | cmd i =>
      obtain ⟨L, t', t'', w1, hLws, hLnl, htt, hsend, hd1, hw1⟩ :=
        sendInput_frames_dec hf D hD i (hg i (by simp)) stripPrompt w res hd hr n
      obtain ⟨ht', ht''⟩ := suffix_hws htt hf.trail_hws
      obtain ⟨rs, w', res', n', hrun, hres, hwr, hd', hr'⟩ := ih hg' w1 t'' (n + 2) hd1 ht''
      refine ⟨processOutput cfg (L ++ dv.rbody i ++ NL :: dv.prompt ++ t') stripPrompt :: rs, w', res', n', ?_, ?_, ?_, hd', hr'⟩
      · unfold runOps; rw [hsend]; simp only; rw [hrun]; rfl
      · rw [hres]
        simp only [List.map_cons, expectedOp, expected]
        congr 1
        exact processOutput_indep cfg dv i L t' stripPrompt hLws hLnl ht' hf.prompt_ne hf.prompt_nl
      · rw [hwr, hw1]; simp [opWrites, List.append_assoc]
    | prompt =>
      obtain ⟨w1, res1, hgp, hw1, hd1, hr1⟩ := getPrompt_exact_dec hf D hD hfirst hout w res hd hr n
      obtain ⟨rs, w', res', n', hrun, hres, hwr, hd', hr'⟩ := ih hg' w1 res1 (n + 1) hd1 hr1
      refine ⟨strip dv.prompt :: rs, w', res', n', ?_, ?_, ?_, hd', hr'⟩
      · unfold runOps; rw [hgp]; simp only; rw [hrun]; rfl
      · rw [hres]; simp [expectedOp]
      · rw [hwr, hw1]; simp [opWrites, List.append_assoc]

/-! ### the driver layer (`send_commands`) over the decorating device -/

theorem sendCommand_exact_dec {P : Bytes → Bool} {cfg : Cfg} {dv : LineDev} (hf : Fits P cfg dv)
    (D : Nat → Bytes → Bytes) (hD : Decorates D) (strip : Bool) (fwc : List Bytes) (c : Bytes) (hg : GoodCmd P dv c)
    (w : Wire) (res : Bytes) (hd : Dec w res) (hres : ∀ x ∈ res, isHws x = true) (n : Nat) :
    ∃ r w' res', sendCommand cfg (decOnWrite dv D) strip fwc c (w, ([], n)) = some (r, (w', ([], n + 2))) ∧
      r.result = expected cfg dv strip c ∧ r.failed = failedOf fwc (expected cfg dv strip c) ∧
      w'.writes = w.writes ++ [c, cfg.ret] ∧ Dec w' res' ∧ (∀ x ∈ res', isHws x = true) := by
  obtain ⟨L, t', t'', w', hLws, hLnl, htt, hsend, hd', hw'⟩ := sendInput_frames_dec hf D hD c hg strip w res hd hres n
  obtain ⟨ht', ht''⟩ := suffix_hws htt hf.trail_hws
  have hp := processOutput_indep cfg dv c L t' strip hLws hLnl ht' hf.prompt_ne hf.prompt_nl
  refine ⟨{ raw := L ++ dv.rbody c ++ NL :: dv.prompt ++ t',
             result := processOutput cfg (L ++ dv.rbody c ++ NL :: dv.prompt ++ t') strip,
             failed := failedOf fwc (processOutput cfg (L ++ dv.rbody c ++ NL :: dv.prompt ++ t') strip) },
    w', t'', ?_, ?_, ?_, hw', hd', ht''⟩
  · unfold sendCommand; rw [hsend]; rfl
  · exact hp
  · simp only [hp]; rfl

theorem sendCommandsLoop_exact_dec {P : Bytes → Bool} {cfg : Cfg} {dv : LineDev} (hf : Fits P cfg dv)
    (D : Nat → Bytes → Bytes) (hD : Decorates D) (strip : Bool) (fwc : List Bytes) (stop : Bool) :
    ∀ (init : List Bytes), (∀ i ∈ init, GoodCmd P dv i) →
    ∀ (w : Wire) (res : Bytes) (n : Nat), Dec w res → (∀ x ∈ res, isHws x = true) →
      ∃ rs w' res' n', sendCommandsLoop cfg (decOnWrite dv D) strip fwc stop init (w, ([], n)) =
          some (rs, (w', ([], n')), (sentOf stop (fun c => failedOf fwc (expected cfg dv strip c)) init).2) ∧
        rs.map (fun r => (r.result, r.failed)) =
          (sentOf stop (fun c => failedOf fwc (expected cfg dv strip c)) init).1.map
            (fun c => (expected cfg dv strip c, failedOf fwc (expected cfg dv strip c))) ∧
        w'.writes = w.writes ++
          ((sentOf stop (fun c => failedOf fwc (expected cfg dv strip c)) init).1.map (fun i => [i, cfg.ret])).flatten ∧
        Dec w' res' ∧ (∀ x ∈ res', isHws x = true) := by
  intro init
  induction init with
  | nil => intro _ w res n hd hr; exact ⟨[], w, res, n, rfl, rfl, by simp [sentOf], hd, hr⟩
  | cons c cs ih =>
    intro hg w res n hd hr
    obtain ⟨r, w1, res1, h1, hrr, hfl, hw1, hd1, hr1⟩ := sendCommand_exact_dec hf D hD strip fwc c (hg c (by simp)) w res hd hr n
    by_cases hb : (stop && failedOf fwc (expected cfg dv strip c)) = true
    · have hs := sentOf_cons_true (fails := fun c => failedOf fwc (expected cfg dv strip c)) cs hb
      rw [hs]
      refine ⟨[r], w1, res1, n + 2, ?_, ?_, ?_, hd1, hr1⟩
      · unfold sendCommandsLoop; rw [h1]; simp only [hfl, hb, if_true]
      · simp only [List.map_cons, List.map_nil, hrr, hfl]
      · simp [hw1]
    · have hb' : (stop && failedOf fwc (expected cfg dv strip c)) = false := by simpa using hb
      have hs := sentOf_cons_false (fails := fun c => failedOf fwc (expected cfg dv strip c)) cs hb'
      rw [hs]
      obtain ⟨rs, w', res', n', h2, hres, hwr, hd', hr'⟩ := ih (fun j hj => hg j (by simp [hj])) w1 res1 (n + 2) hd1 hr1
      refine ⟨r :: rs, w', res', n', ?_, ?_, ?_, hd', hr'⟩
      · unfold sendCommandsLoop; rw [h1]; simp only [hfl, hb', Bool.false_eq_true, if_false]
        rw [h2]; rfl
      · simp only [List.map_cons, hrr, hfl, hres]
      · simp only [List.map_cons, List.flatten_cons]
        rw [hwr, hw1]; simp [List.append_assoc]

end Scrapli.Chan
