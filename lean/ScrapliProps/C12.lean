import ScrapliProps.C12Lemmas
import ScrapliModel.Gen.FlowGraph
import ScrapliModel.Gen.FlowCert
/-
  C12 — secrets never appear in logs, repr or error messages.
  Property theorems only (helper lemmas and the generic soundness / completeness of `reachFrom`:
  C12Lemmas.lean).  `graph` is GENERATED from the AST of all of scrapli (tools/gen/c12.py):
  sources = parameters / attributes named auth_password, auth_private_key_passphrase, auth_secondary
  and member 0 of the elements of every `interact_events` parameter; sinks = the arguments of every
  logger call, of every raised exception, and the value returned by __repr__/__str__ of the driver
  classes; sanitisers = flows that exist only when the secret-marking flag (`redacted`, the third
  member of an interact event) is false.
  Claim: proof over the extracted graph.  PARTIAL: that the graph over-approximates the data flow
  of the Python code rests on the name-based extraction, validated dynamically by tools/props/c12.py.
-/
namespace Scrapli.Flow
open Scrapli.Gen.Flow Scrapli.Gen.FlowCert

set_option maxRecDepth 100000

/-- the generated graph is well-formed (every edge ends at a node) -/
theorem graph_wf : graph.wf = true := wf_of_wfN graph nNodes (by decide +kernel)

/-- the generated certificate set contains every source, is closed under the non-sanitiser edges of
    the generated graph and contains no sink (checked by the kernel) -/
theorem cert_checks : certOk graph graph.sources closedSet = true := by decide +kernel

/-- hence the reachability query from all sources at once reports no sink -/
theorem no_sink_reached : sinksReachedFrom graph graph.sources = [] :=
  sinksReachedFrom_nil_of_cert graph graph.sources closedSet cert_checks

/-- **C12, instance**: for every secret source the reachability query reports no sink -/
theorem no_secret_reaches_sink : ∀ src ∈ graph.sources, sinksReached graph src = [] :=
  sinksReached_nil_of_all graph graph_wf no_sink_reached

/-- **C12, lifted by `reach_sound`**: in the extracted graph there is NO path from a secret source
    to a log call, an exception message or a driver repr/str that avoids the sanitisers -/
theorem no_secret_path : ∀ s ∈ graph.sources, ∀ t ∈ graph.sinks, ¬ Path graph s t :=
  no_path_of_sinksReachedFrom_nil graph graph_wf graph.sources no_sink_reached

/-- the sanitisers are what makes this true: with the flag-guarded flows treated as ordinary flows
    the secrets do reach sinks (so the statement above is not vacuous, and every reported sink has a
    real path by `reach_complete`) -/
theorem sanitisers_are_needed :
    ∃ t ∈ graph.sinks, ∃ s ∈ graph.sources, Path graph.unsanitised s t := by
  have hw : walkEnd graph.unsanitised witnessStart witnessWalk = some witnessEnd := by decide +kernel
  have hs : witnessStart ∈ graph.sources := by decide +kernel
  have ht : witnessEnd ∈ graph.sinks := by decide +kernel
  exact ⟨witnessEnd, ht, witnessStart, hs, walkEnd_path _ _ _ _ _ (Path.refl _) hw⟩

/-- … and the query itself reports it when the sanitisers are ignored -/
theorem unsanitised_query_reports : witnessEnd ∈ sinksReachedFrom graph.unsanitised graph.sources :=
  mem_sinksReachedFrom_of_walk graph.unsanitised graph_wf graph.sources witnessStart witnessEnd
    witnessWalk (by decide +kernel) (by decide +kernel) (by decide +kernel)

/-- advisory (not part of the property): no secret reaches the repr/str of a non-driver object
    (Response, SSHConfig, Host, …) either -/
theorem no_secret_path_advisory : ∀ s ∈ graph.sources, ∀ t ∈ advisorySinks, ¬ Path graph s t := by
  have hc : certOk advisoryGraph advisoryGraph.sources closedSet = true := by decide +kernel
  have h := sinksReachedFrom_nil_of_cert advisoryGraph advisoryGraph.sources closedSet hc
  have hwf : advisoryGraph.wf = true := graph_wf
  intro s hs t ht hp
  have hp' : Path advisoryGraph s t := by
    clear ht
    induction hp with
    | refl => exact Path.refl _
    | step _ hc hsan ih => exact Path.step ih hc hsan
  exact no_path_of_sinksReachedFrom_nil advisoryGraph hwf advisoryGraph.sources h s hs t ht hp'

/-- **C12, the two flag-guarded logging sites** (hand model of `BaseChannel.write` and
    `send_inputs_interact`, instantiated with the constants generated from the source): when the
    input is marked secret, what is handed to `logging` does not depend on the input at all, and it
    is the constant REDACTED text -/
theorem redacted_logs_constant (a b resp hiddenText : String) :
    writeLog writeRedactedMsg writePlainFmt a true = writeLog writeRedactedMsg writePlainFmt b true ∧
    interactLogs redactedToken interactFmt writeRedactedMsg writePlainFmt a resp true hiddenText =
      interactLogs redactedToken interactFmt writeRedactedMsg writePlainFmt b resp true hiddenText ∧
    interactLogs redactedToken interactFmt writeRedactedMsg writePlainFmt a resp true hiddenText =
      [⟨interactFmt, [redactedToken, resp, hiddenText]⟩, ⟨writeRedactedMsg, []⟩] := by
  simp [writeLog, interactLogs]

/-- … and the constants themselves carry no format directive that could pull the input back in, and
    are the REDACTED marker the property's observers look for -/
theorem redacted_constants : redactedToken = "REDACTED" ∧ writeRedactedMsg = "write: REDACTED" := by
  decide

/-- without the mark the input IS logged (the model is not the constant function) -/
theorem unredacted_logs_input (a resp hiddenText : String) :
    a ∈ (writeLog writeRedactedMsg writePlainFmt a false).args ∧
    ∃ r ∈ interactLogs redactedToken interactFmt writeRedactedMsg writePlainFmt a resp false hiddenText,
      a ∈ r.args := by
  refine ⟨by simp [writeLog], ⟨_, List.mem_cons_self, by simp⟩⟩

/-! Non-vacuity of the generic theorems on a concrete small graph:
    0 → 1 → 2(sink) and 0 → 3(sanitiser) → 4(sink): the query reports 2 and not 4. -/
def exGraph : Graph := { adj := [[1, 3], [2], [], [4], []], sources := [0], sinks := [2, 4], sanitisers := [3] }

example : exGraph.wf = true ∧ sinksReached exGraph 0 = [2] ∧ sinksReached exGraph.unsanitised 0 = [2, 4] := by
  decide

example : Path exGraph 0 2 :=
  Path.step (b := 1) (Path.step (b := 0) (Path.refl 0) (by decide) (by decide)) (by decide) (by decide)

example : ¬ Path exGraph 0 4 := by
  intro h
  have := reach_sound exGraph (by decide) exGraph.n (Nat.le_refl _) [0] (List.mem_singleton.mpr rfl) h
  revert this; decide

example : graph.sources ≠ [] ∧ graph.sinks ≠ [] ∧ graph.sanitisers ≠ [] := by decide

end Scrapli.Flow
