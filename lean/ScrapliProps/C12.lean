import ScrapliProps.C12Lemmas
import ScrapliModel.Gen.FlowGraph
import ScrapliModel.Gen.FlowCert
import ScrapliProps.C12Interact
/-
  C12 — secrets never appear in logs, repr or error messages.
  Property theorems only (helper lemmas and the generic soundness / completeness of `reachFrom`:
  C12Lemmas.lean).  `graph` is GENERATED from the AST of all of scrapli (tools/gen/c12.py):
  sources = parameters / attributes named auth_password, auth_private_key_passphrase, auth_secondary
  and member 0 of the elements of every `interact_events` parameter; sinks = the arguments of every
  logger call, of every raised exception, and the value returned by __repr__/__str__ of the driver
  classes; sanitisers = flows that exist only when the secret-marking flag (`redacted`, the third
  member of an interact event) is false.
  Claim: proof over the extracted graph.  PARTIAL: that the graph over-approximates the data flow
  of the Python code rests on the name-based extraction, validated dynamically by tools/props/c12.py.

  SCOPE, stated once and meant for every theorem below: the graph contains EXPLICIT data flows INSIDE
  the package only.  Not in the graph, by construction of the extractor (design/C12.md "Handles"):
    (P1) flows through the device — a secret that scrapli types and the device sends back (echo) re-enters
         through `transport.read()` as device output and is then logged by `Channel.read` (`read: %r`),
         stored in the channel log and in `Response.result`.  `no_secret_path` therefore does NOT exclude
         that leak; it held on the tree that had it (finding C12-F2, fixed by c887324).  What excludes it is
         (a) `hidden_input_typed_only_at_its_prompt` below (model of `send_inputs_interact`: nothing is
         typed after the interactive session ended, so a hidden input is typed only after its own expected
         prompt) together with (b) the ENVIRONMENT ASSUMPTION that the device does not echo at that
         (password) prompt, and the scenario runs of the check (devices that echo everywhere else);
    (P2) flows through third-party objects (asyncssh / paramiko / pty handles) and the text of third-party
         exceptions caught by handlers naming specific classes (list: tools/gen/c12_expected.json);
    (P3) implicit flows (which branch was taken).
  There is no semantics of Python underneath: "no path in the graph" is tied to "no secret in a record"
  only by the dynamic validation (oracle + tie + interior check) of tools/props/c12.py.
-/
namespace Scrapli.Flow
open Scrapli.Gen.Flow Scrapli.Gen.FlowCert

set_option maxRecDepth 100000

/-- the generated graph is well-formed (every edge ends at a node) -/
theorem graph_wf : graph.wf = true := wf_of_wfN graph nNodes (by decide +kernel)

/-- the generated certificate set contains every source, is closed under the non-sanitiser edges of
    the generated graph and contains no sink (checked by the kernel) -/
theorem cert_checks : certOk graph graph.sources closedSet = true := by decide +kernel

/-- hence the reachability query from all sources at once reports no sink -/
theorem no_sink_reached : sinksReachedFrom graph graph.sources = [] :=
  sinksReachedFrom_nil_of_cert graph graph.sources closedSet cert_checks

/-- **C12, instance**: for every secret source the reachability query reports no sink -/
theorem no_secret_reaches_sink : ∀ src ∈ graph.sources, sinksReached graph src = [] :=
  sinksReached_nil_of_all graph graph_wf no_sink_reached

/-- **C12, lifted by `reach_sound`** — a statement about the EXTRACTED GRAPH (explicit, intra-package
    data flow; premises P1–P3 of the header: NOT about flows through the device, third-party objects
    or implicit flows): there is no path from a secret source to a log call, an exception message or
    a driver repr/str that avoids the sanitisers -/
theorem no_secret_path : ∀ s ∈ graph.sources, ∀ t ∈ graph.sinks, ¬ Path graph s t :=
  no_path_of_sinksReachedFrom_nil graph graph_wf graph.sources no_sink_reached

/-- the sanitisers are what makes this true: with the flag-guarded flows treated as ordinary flows
    the secrets do reach sinks (so the statement above is not vacuous, and every reported sink has a
    real path by `reach_complete`) -/
theorem sanitisers_are_needed :
    ∃ t ∈ graph.sinks, ∃ s ∈ graph.sources, Path graph.unsanitised s t := by
  have hw : walkEnd graph.unsanitised witnessStart witnessWalk = some witnessEnd := by decide +kernel
  have hs : witnessStart ∈ graph.sources := by decide +kernel
  have ht : witnessEnd ∈ graph.sinks := by decide +kernel
  exact ⟨witnessEnd, ht, witnessStart, hs, walkEnd_path _ _ _ _ _ (Path.refl _) hw⟩

/-- … and the query itself reports it when the sanitisers are ignored -/
theorem unsanitised_query_reports : witnessEnd ∈ sinksReachedFrom graph.unsanitised graph.sources :=
  mem_sinksReachedFrom_of_walk graph.unsanitised graph_wf graph.sources witnessStart witnessEnd
    witnessWalk (by decide +kernel) (by decide +kernel) (by decide +kernel)

/-- advisory (not part of the property): no secret reaches the repr/str of a non-driver object
    (Response, SSHConfig, Host, …) either -/
theorem no_secret_path_advisory : ∀ s ∈ graph.sources, ∀ t ∈ advisorySinks, ¬ Path graph s t := by
  have hc : certOk advisoryGraph advisoryGraph.sources closedSet = true := by decide +kernel
  have h := sinksReachedFrom_nil_of_cert advisoryGraph advisoryGraph.sources closedSet hc
  have hwf : advisoryGraph.wf = true := graph_wf
  intro s hs t ht hp
  have hp' : Path advisoryGraph s t := by
    clear ht
    induction hp with
    | refl => exact Path.refl _
    | step _ hc hsan ih => exact Path.step ih hc hsan
  exact no_path_of_sinksReachedFrom_nil advisoryGraph hwf advisoryGraph.sources h s hs t ht hp'

/-- **C12, the two flag-guarded logging sites** — DEFINITIONAL over a HAND MODEL (`writeLog`,
    `interactLogs` in ScrapliModel/Flow.lean return the constant record when the flag is true; this is
    not non-interference of the Python code).  Its content is (i) the AST shape check of the translator
    (the modelled statements exist in exactly this form, constants generated from the source) and
    (ii) check 4 of props/c12.py (real `(record.msg, record.args)` = the model's, every run).  The
    model's `hidden : Bool` is the truth value of the flag; the code's other guard
    `hidden_input is not True` (a truthy non-`True` flag hands the input to `_read_until_input`) is not
    in this model — the flow graph keeps that flow (a guard that is not exactly the flag cuts nothing).
    Statement: with the mark set, what is handed to `logging` is the same for any two inputs and is the
    constant REDACTED record -/
theorem redacted_logs_constant (a b resp hiddenText : String) :
    writeLog writeRedactedMsg writePlainFmt a true = writeLog writeRedactedMsg writePlainFmt b true ∧
    interactLogs redactedToken interactFmt writeRedactedMsg writePlainFmt a resp true hiddenText =
      interactLogs redactedToken interactFmt writeRedactedMsg writePlainFmt b resp true hiddenText ∧
    interactLogs redactedToken interactFmt writeRedactedMsg writePlainFmt a resp true hiddenText =
      [⟨interactFmt, [redactedToken, resp, hiddenText]⟩, ⟨writeRedactedMsg, []⟩] := by
  simp [writeLog, interactLogs]

/-- … and the constants themselves carry no format directive that could pull the input back in, and
    are the REDACTED marker the property's observers look for -/
theorem redacted_constants : redactedToken = "REDACTED" ∧ writeRedactedMsg = "write: REDACTED" := by
  decide

/-- without the mark the input IS logged (the model is not the constant function) -/
theorem unredacted_logs_input (a resp hiddenText : String) :
    a ∈ (writeLog writeRedactedMsg writePlainFmt a false).args ∧
    ∃ r ∈ interactLogs redactedToken interactFmt writeRedactedMsg writePlainFmt a resp false hiddenText,
      a ∈ r.args := by
  refine ⟨by simp [writeLog], ⟨_, List.mem_cons_self, by simp⟩⟩

/-- the node numbers mean something: the sources are exactly the variables / attributes of the four
    secret roles (each present), the sinks are exactly log-call, raise and driver-repr sinks (each kind
    present; the translator additionally refuses to run unless `BaseDriver.__repr__` and `__str__` are
    among the repr sinks) -/
theorem sources_and_sinks_by_role :
    sourcesPW ≠ [] ∧ sourcesPP ≠ [] ∧ sourcesSEC ≠ [] ∧ sourcesHID ≠ [] ∧
    sinksLog ≠ [] ∧ sinksRaise ≠ [] ∧ sinksRepr ≠ [] ∧
    (∀ s, s ∈ graph.sources ↔ s ∈ sourcesPW ++ sourcesPP ++ sourcesSEC ++ sourcesHID) ∧
    (∀ t, t ∈ graph.sinks ↔ t ∈ sinksLog ++ sinksRaise ++ sinksRepr) := by
  have h1 : (graph.sources.all (fun s => (sourcesPW ++ sourcesPP ++ sourcesSEC ++ sourcesHID).contains s) &&
      (sourcesPW ++ sourcesPP ++ sourcesSEC ++ sourcesHID).all (fun s => graph.sources.contains s)) = true := by
    decide +kernel
  have h2 : (graph.sinks.all (fun s => (sinksLog ++ sinksRaise ++ sinksRepr).contains s) &&
      (sinksLog ++ sinksRaise ++ sinksRepr).all (fun s => graph.sinks.contains s)) = true := by
    decide +kernel
  simp only [Bool.and_eq_true, List.all_eq_true, List.contains_iff_mem] at h1 h2
  refine ⟨by decide +kernel, by decide +kernel, by decide +kernel, by decide +kernel,
    by decide +kernel, by decide +kernel, by decide +kernel,
    fun s => ⟨h1.1 s, h1.2 s⟩, fun t => ⟨h2.1 t, h2.2 t⟩⟩

/-- per role: e.g. nothing named `auth_secondary` reaches a sink in the graph -/
theorem no_secret_path_per_role :
    (∀ s ∈ sourcesPW, ∀ t ∈ graph.sinks, ¬ Path graph s t) ∧ (∀ s ∈ sourcesPP, ∀ t ∈ graph.sinks, ¬ Path graph s t) ∧
    (∀ s ∈ sourcesSEC, ∀ t ∈ graph.sinks, ¬ Path graph s t) ∧ (∀ s ∈ sourcesHID, ∀ t ∈ graph.sinks, ¬ Path graph s t) := by
  obtain ⟨_, _, _, _, _, _, _, hs, _⟩ := sources_and_sinks_by_role
  refine ⟨?_, ?_, ?_, ?_⟩ <;> intro s h <;> apply no_secret_path s <;> rw [hs] <;> simp [h]

/-- **premise P1, the part that is provable** (corollary of C01's `interact_exact`, model of
    `send_inputs_interact` after fix c887324, every segmentation): if an exchange before event `ev`
    ended on an interaction-complete pattern rather than on its own expected response, the inputs
    written during the whole call are those of a prefix of the earlier events — `ev`'s (hidden) input is
    not typed.  So a hidden input is typed only directly after every earlier event got its expected
    (password) prompt.  REMAINING ENVIRONMENT ASSUMPTION: the device does not echo at that prompt. -/
theorem hidden_input_typed_only_at_its_prompt {cfg : Chan.Cfg} {complete : List Bytes}
    (hstrict : cfg.rough = false) (hret : Chan.IsRet cfg.ret) (hc : complete ≠ [])
    (pre : List (Chan.Ev × Chan.Step)) (ev : Chan.Ev) (st : Chan.Step)
    (post : List (Chan.Ev × Chan.Step)) (extra : List Chan.Step)
    (hg : ∀ p ∈ pre ++ (ev, st) :: post, ∃ Pr Pc, Chan.GoodStep cfg complete Pr Pc p.1 p.2)
    (w : Chan.Wire) (hres : ∀ x ∈ w.avail, Chan.isHws x = true) (hheld : w.held = [])
    (hearly : ∃ e ∈ pre, e.2.isResp = false) :
    ∃ res w' rest, Chan.sendInputsInteract cfg Chan.scriptDev ((pre ++ (ev, st) :: post).map (·.1)) complete
        (w, (pre ++ (ev, st) :: post).map (·.2) ++ extra) = some (res, (w', rest)) ∧
      ∃ done, done <+: pre ∧ w'.writes = w.writes ++ (done.map (fun p => [p.1.1, cfg.ret])).flatten :=
  Chan.input_not_typed_after_session_end hstrict hret hc pre ev st post extra hg w hres hheld hearly

/-! Non-vacuity of the generic theorems on a concrete small graph:
    0 → 1 → 2(sink) and 0 → 3(sanitiser) → 4(sink): the query reports 2 and not 4. -/
def exGraph : Graph := { adj := [[1, 3], [2], [], [4], []], sources := [0], sinks := [2, 4], sanitisers := [3] }

example : exGraph.wf = true ∧ sinksReached exGraph 0 = [2] ∧ sinksReached exGraph.unsanitised 0 = [2, 4] := by
  decide

example : Path exGraph 0 2 :=
  Path.step (b := 1) (Path.step (b := 0) (Path.refl 0) (by decide) (by decide)) (by decide) (by decide)

example : ¬ Path exGraph 0 4 := by
  intro h
  have := reach_sound exGraph (by decide) exGraph.n (Nat.le_refl _) [0] (List.mem_singleton.mpr rfl) h
  revert this; decide

example : graph.sources ≠ [] ∧ graph.sinks ≠ [] ∧ graph.sanitisers ≠ [] := by decide

end Scrapli.Flow
