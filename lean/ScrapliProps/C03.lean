import ScrapliProps.C03Lemmas
/-
  C03 — commands and configs are only ever sent at the right privilege level.
  Property theorems only (helper lemmas: C03Lemmas.lean; the table / path / loop theory is C04's).
  Closed system: the driver model against the mode device with ANY set of refused / ignored
  transitions and any password configuration.  Quantifiers: every well-formed table (any size, with
  registered sessions), every neighbour order, every login level, EVERY finite history of operations
  whose user lines do not themselves move the device (the property's assumption), including
  operations that end in an exception.

  Ghost `hazard` (Driver.lean, `acquireIter`): raised exactly when a prompt is read with
  belief unknown ∧ device in a level sharing its prompt with the requested level ∧ device level ≠ requested level.
  * tables whose share groups are singletons (IOS-XE, NX-OS with at most one session, EOS incl. sessions whose
    names are NOT prefix- or case-related in their first six characters — `SessPrefixFree`, part of `EnvOK`;
    outside that domain the real EOS prompts overlap although the keys differ: `eos_prefix_sessions_outside`,
    finding F24): the flag never rises — full statements, every history;
  * all tables (IOS-XR, Junos, two NX-OS sessions …): `…_partial` — every history in which the flag
    stays down; the unrestricted statement is REFUTED by a concrete history (`…_full_refuted`).
-/
namespace Scrapli.Priv
open Scrapli.Gen.Priv

/-! ### belief soundness -/

/-- **belief_sound (all tables)**: after every admissible history from a state satisfying the
    invariant, if the hazard flag is down: belief is unknown or names the device's true level.
    (Every operation is covered, also those ending in PrivilegeError / AuthenticationFailed /
    Timeout / ConnectionNotOpened, for every login level: `Inv` constrains the start state only by
    sanity of table, environment and channel.) -/
theorem belief_sound_partial (c : Cfg) (cfg : MCfg) (w : W MDev) (ops : List Op) (hi : Inv c cfg w)
    (hh : HistOK c cfg w ops) (hz : (run c (modeDev cfg) w ops).hazard = false) :
    (run c (modeDev cfg) w ops).belief = DUMMY ∨
    (run c (modeDev cfg) w ops).belief = (run c (modeDev cfg) w ops).ch.dev.mode :=
  (run_inv c ops hi hh).1.sound hz

/-- **belief_sound** on tables whose share groups are singletons, every history: unconditional -/
theorem belief_sound (c : Cfg) (cfg : MCfg) (w : W MDev) (ops : List Op) (hi : Inv c cfg w) (h0 : w.hazard = false)
    (hh : HistOK c cfg w ops) (hs : HistSingleton c cfg w ops) :
    (run c (modeDev cfg) w ops).belief = DUMMY ∨
    (run c (modeDev cfg) w ops).belief = (run c (modeDev cfg) w ops).ch.dev.mode :=
  belief_sound_partial c cfg w ops hi hh ((run_hz c ops hi hh hs).trans h0)

/-- the initial state of a fresh connection: belief unknown, nothing logged; it satisfies the
    invariant for every login level -/
theorem init_inv (c : Cfg) (cfg : MCfg) (t : Table) (login : Name) (hw : WF t) (he : EnvOK cfg t) (hd : c.default ∈ names t)
    (ha : AbortOK cfg t c.abort) (hl : login ∈ names t) :
    Inv c cfg ({ tbl := t, ch := { dev := { mode := login } } } : W MDev) :=
  ⟨hw, he, hd, ha, ⟨⟨hl, by intro tgt h; cases h⟩, fun _ => rfl⟩, fun _ => Or.inl rfl, by intro _ u hu; cases hu⟩

/-! ### user lines run in the level their operation named -/

/-- all three statements at once, on all tables: while the hazard flag is down, every user line in
    the ghost log was executed by the device in the level the calling operation asked for -/
theorem user_lines_partial (c : Cfg) (cfg : MCfg) (w : W MDev) (ops : List Op) (hi : Inv c cfg w)
    (hh : HistOK c cfg w ops) (hz : (run c (modeDev cfg) w ops).hazard = false) :
    ∀ u ∈ (run c (modeDev cfg) w ops).ulog, ∀ a, u.asked = some a → u.actual = a :=
  (run_inv c ops hi hh).1.ulog hz

/-- **commands_at_default** (singleton share groups, EVERY history): every line passed to
    send_command(s) outside generic-driver mode (`asked = some default`) reached the device in that level -/
theorem commands_at_default (c : Cfg) (cfg : MCfg) (w : W MDev) (ops : List Op) (hi : Inv c cfg w) (h0 : w.hazard = false)
    (hh : HistOK c cfg w ops) (hs : HistSingleton c cfg w ops) :
    ∀ u ∈ (run c (modeDev cfg) w ops).ulog, u.kind = .command → ∀ a, u.asked = some a → u.actual = a :=
  fun u hu _ => user_lines_partial c cfg w ops hi hh ((run_hz c ops hi hh hs).trans h0) u hu

/-- **configs_at_requested** (singleton share groups, every history): every line passed to
    send_config(s) reached the device in exactly the resolved configuration level -/
theorem configs_at_requested (c : Cfg) (cfg : MCfg) (w : W MDev) (ops : List Op) (hi : Inv c cfg w) (h0 : w.hazard = false)
    (hh : HistOK c cfg w ops) (hs : HistSingleton c cfg w ops) :
    ∀ u ∈ (run c (modeDev cfg) w ops).ulog, u.kind = .config → ∀ a, u.asked = some a → u.actual = a :=
  fun u hu _ => user_lines_partial c cfg w ops hi hh ((run_hz c ops hi hh hs).trans h0) u hu

/-- **interactive_at_requested** (singleton share groups, every history) -/
theorem interactive_at_requested (c : Cfg) (cfg : MCfg) (w : W MDev) (ops : List Op) (hi : Inv c cfg w) (h0 : w.hazard = false)
    (hh : HistOK c cfg w ops) (hs : HistSingleton c cfg w ops) :
    ∀ u ∈ (run c (modeDev cfg) w ops).ulog, u.kind = .interactive → ∀ a, u.asked = some a → u.actual = a :=
  fun u hu _ => user_lines_partial c cfg w ops hi hh ((run_hz c ops hi hh hs).trans h0) u hu

/-- the same three on ALL tables (IOS-XR, Junos, …) for histories that keep the hazard flag down -/
theorem commands_at_default_partial (c : Cfg) (cfg : MCfg) (w : W MDev) (ops : List Op) (hi : Inv c cfg w)
    (hh : HistOK c cfg w ops) (hz : (run c (modeDev cfg) w ops).hazard = false) :
    ∀ u ∈ (run c (modeDev cfg) w ops).ulog, u.kind = .command → ∀ a, u.asked = some a → u.actual = a :=
  fun u hu _ => user_lines_partial c cfg w ops hi hh hz u hu

theorem configs_at_requested_partial (c : Cfg) (cfg : MCfg) (w : W MDev) (ops : List Op) (hi : Inv c cfg w)
    (hh : HistOK c cfg w ops) (hz : (run c (modeDev cfg) w ops).hazard = false) :
    ∀ u ∈ (run c (modeDev cfg) w ops).ulog, u.kind = .config → ∀ a, u.asked = some a → u.actual = a :=
  fun u hu _ => user_lines_partial c cfg w ops hi hh hz u hu

theorem interactive_at_requested_partial (c : Cfg) (cfg : MCfg) (w : W MDev) (ops : List Op) (hi : Inv c cfg w)
    (hh : HistOK c cfg w ops) (hz : (run c (modeDev cfg) w ops).hazard = false) :
    ∀ u ∈ (run c (modeDev cfg) w ops).ulog, u.kind = .interactive → ∀ a, u.asked = some a → u.actual = a :=
  fun u hu _ => user_lines_partial c cfg w ops hi hh hz u hu

/-- **commands_at_default_static** — a checkable (static) fragment on ALL tables, IOS-XR and Junos included, for ANY
    mode device (refusals, passwords): if the history consists of send_command(s), acquire_priv / send_interactive
    at levels that are admitted only by their own prompt (`Own`, decidable), and generic-mode toggles — i.e. it never
    names a level that shares its prompt — then the hazard flag stays down, so the belief is sound and every
    command / interactive line ran in the level named.  (Configs on IOS-XR / Junos necessarily name a shared level:
    there only the `…_partial` statements and the refutations apply.) -/
theorem commands_at_default_static (c : Cfg) (cfg : MCfg) (w : W MDev) (ops : List Op) (hi : Inv c cfg w) (h0 : w.hazard = false)
    (hh : HistOK c cfg w ops) (hs : HistStatic c w.tbl ops) :
    ((run c (modeDev cfg) w ops).belief = DUMMY ∨ (run c (modeDev cfg) w ops).belief = (run c (modeDev cfg) w ops).ch.dev.mode) ∧
    ∀ u ∈ (run c (modeDev cfg) w ops).ulog, ∀ a, u.asked = some a → u.actual = a :=
  have hz := (run_static c ops hi hh hs).trans h0
  ⟨belief_sound_partial c cfg w ops hi hh hz, user_lines_partial c cfg w ops hi hh hz⟩

/-- which levels of IOS-XR and Junos are admitted only by their own prompt (generated tables, `decide`): everything
    except the configuration modes -/
theorem platform_own :
    Own iosxr "privilege_exec" ∧ ¬ Own iosxr "configuration" ∧ ¬ Own iosxr "configuration_exclusive" ∧
    Own junos "exec" ∧ Own junos "shell" ∧ Own junos "root_shell" ∧ ¬ Own junos "configuration" ∧
    ¬ Own junos "configuration_exclusive" ∧ ¬ Own junos "configuration_private" := by
  refine ⟨?_, ?_, ?_, ?_, ?_, ?_, ?_, ?_, ?_⟩ <;> decide +kernel

/-- non-vacuity on IOS-XR: a history with a generic-mode toggle (which resets the belief) between commands is static -/
example : HistStatic ({ ord := neighbours, default := iosxrDefault } : Cfg) iosxr [.sendCommand "show a", .setGeneric true, .setGeneric false, .sendCommands ["show b"] false,
    .acquire "privilege_exec", .interactive ["clear x"] ""] := by
  intro op hop
  simp only [List.mem_cons, List.not_mem_nil, or_false] at hop
  rcases hop with rfl | rfl | rfl | rfl | rfl | rfl <;> simp only [OpStatic] <;> first | trivial | decide +kernel

/-- an acquisition that returns normally with the flag down has put the device in exactly the
    requested level (any refusing / ignoring device) — the "or fails" half of C04 -/
theorem acquire_ok_exact (c : Cfg) (cfg : MCfg) (w : W MDev) (dest : Name) (hi : Inv c cfg w)
    (hok : (acquirePriv c (modeDev cfg) w dest).2 = .ok) (hz : (acquirePriv c (modeDev cfg) w dest).1.hazard = false) :
    (acquirePriv c (modeDev cfg) w dest).1.belief = dest ∧ (acquirePriv c (modeDev cfg) w dest).1.ch.dev.mode = dest :=
  (acquirePriv_inv c dest hi).arrive hok hz

/-- per-platform abort step (`_abort_config` of IOS-XR / EOS / NX-OS / Junos / none): it keeps the
    belief sound — after `abort` (resp. `rollback 0`, `exit`) the belief is the level the device is in -/
theorem abortConfig_updates_belief (c : Cfg) (cfg : MCfg) (w : W MDev) (hi : Inv c cfg w)
    (hz : (abortConfig c (modeDev cfg) w).1.hazard = false) :
    (abortConfig c (modeDev cfg) w).1.belief = DUMMY ∨
    (abortConfig c (modeDev cfg) w).1.belief = (abortConfig c (modeDev cfg) w).1.ch.dev.mode :=
  (abortConfig_inv hi).1.sound hz

/-! ### the generated platform data -/

/-- generated obligation: which platform tables have singleton share groups -/
theorem platform_singletons : Singleton iosxe ∧ Singleton nxos ∧ Singleton eos ∧ ¬ Singleton iosxr ∧ ¬ Singleton junos := by
  refine ⟨?_, ?_, ?_, ?_, ?_⟩ <;> decide

/-- **outside the domain** (finding F24): EOS with the sessions `abc`, `abcd`, `ABCD` has pairwise different
    share-group keys (`Singleton`), yet it is NOT `SessPrefixFree` — the real prompt `(config-s-abcd)#` is classified
    as all three sessions, so neither the full theorems nor the `…_partial` ones (which need `EnvOK`, hence
    `SessPrefixFree`, for every table of the history) speak about it; while sessions with unrelated names are inside. -/
theorem eos_prefix_sessions_outside :
    Singleton (eos ++ [sessLevel eosSess "abc", sessLevel eosSess "abcd", sessLevel eosSess "ABCD"]) ∧
    ¬ SessPrefixFree (eos ++ [sessLevel eosSess "abc", sessLevel eosSess "abcd"]) ∧
    ¬ SessPrefixFree (eos ++ [sessLevel eosSess "sess", sessLevel eosSess "SESS"]) ∧
    SessPrefixFree (eos ++ [sessLevel eosSess "sessA", sessLevel eosSess "other-b"]) ∧
    SessPrefixFree (nxos ++ [sessLevel nxosSess "sessA", sessLevel nxosSess "sessB"]) := by
  refine ⟨?_, ?_, ?_, ?_, ?_⟩ <;> decide +kernel

/-- a line that is no command of the table and no vendor move never moves the device -/
theorem inert_of_not_cmd {cfg : MCfg} {t : Table} {line : Line}
    (h1 : ∀ l ∈ t, l.desc ≠ line ∧ l.esc ≠ line) (h2 : ∀ e ∈ cfg.extra, e.2.1 ≠ line) : Inert cfg t line := by
  intro m
  have : tableMove t cfg.extra m line = none := by
    have b : t.find? (fun l => l.prev == m && l.prev != "" && l.esc == line) = none := by
      apply List.find?_eq_none.mpr; intro l hl; simp [(h1 l hl).2]
    have c' : cfg.extra.find? (fun e => e.1 == m && e.2.1 == line) = none := by
      apply List.find?_eq_none.mpr; intro e he; simp [h2 e he]
    unfold tableMove
    cases hl : lookup t m with
    | none => simp [b, c']
    | some l => simp [(h1 l (lookup_some hl).1).1, b, c']
  unfold devStep
  split
  · rfl
  · rw [this]

theorem envOK_of {cfg : MCfg} {t : Table} (h1 : ∀ l ∈ t, l.desc ≠ "" ∧ l.esc ≠ "" ∨ l.prev = "")
    (h2 : ∀ e ∈ cfg.extra, e.2.1 ≠ "" ∧ e.2.2 ∈ names t) (h3 : SessPrefixFree t) : EnvOK cfg t := by
  refine ⟨?_, fun e he => (h2 e he).2, h3⟩
  intro m
  have b : t.find? (fun l => l.prev == m && l.prev != "" && l.esc == "") = none := by
    apply List.find?_eq_none.mpr; intro l hl
    rcases h1 l hl with h | h
    · simp [h.2]
    · simp [h]
  have c' : cfg.extra.find? (fun e => e.1 == m && e.2.1 == "") = none := by
    apply List.find?_eq_none.mpr; intro e he; simp [(h2 e he).1]
  unfold tableMove
  cases hl : lookup t m with
  | none => simp [b, c']
  | some l =>
    rcases h1 l (lookup_some hl).1 with h | h
    · simp [h.1, b, c']
    · simp [h, b, c']

/-! ### the witness: IOS-XR, shared vs exclusive configuration -/

def xrCfg : Cfg := { ord := neighbours, default := iosxrDefault, abort := iosxrAbort, sess := iosxrSess }
/-- the vendor device: nothing refused, no password; `abort` leaves either configuration mode -/
def xrDev : MCfg := { extra := [("configuration", "abort", "privilege_exec"), ("configuration_exclusive", "abort", "privilege_exec")] }
def xrInit : W MDev := { tbl := iosxr, ch := { dev := { mode := "privilege_exec" } } }
/-- send_configs(["x"]) in the shared session; generic-driver mode on, off;
    send_configs(["y"], privilege_level="configuration_exclusive") -/
def xrWitness : List Op :=
  [.sendConfigs ["x"] "" false, .setGeneric true, .setGeneric false, .sendConfigs ["y"] "configuration_exclusive" false]

theorem xr_abortOK : AbortOK xrDev iosxr iosxrAbort := by
  show ∀ m ∈ names iosxr, devStep xrDev iosxr m "abort" = "privilege_exec"
  decide

theorem xr_init_inv : Inv xrCfg xrDev xrInit :=
  init_inv xrCfg xrDev iosxr "privilege_exec" platform_tables_WF.2.1 (envOK_of (by decide) (by decide) (by decide)) (by decide)
    xr_abortOK (by decide)

theorem xr_inert_x : Inert xrDev iosxr "x" := inert_of_not_cmd (by decide) (by decide)
theorem xr_inert_y : Inert xrDev iosxr "y" := inert_of_not_cmd (by decide) (by decide)

/-- what the witness history does (evaluated by the kernel): `y`, asked to run in
    configuration_exclusive, is executed by the device in the SHARED configuration level while the
    driver believes it is in configuration_exclusive -/
theorem xr_witness_run :
    (run xrCfg (modeDev xrDev) xrInit xrWitness).ulog =
      [⟨some "configuration", "configuration", "x", .config⟩,
       ⟨some "configuration_exclusive", "configuration", "y", .config⟩] ∧
    (run xrCfg (modeDev xrDev) xrInit xrWitness).belief = "configuration_exclusive" ∧
    (run xrCfg (modeDev xrDev) xrInit xrWitness).ch.dev.mode = "configuration" ∧
    (run xrCfg (modeDev xrDev) xrInit xrWitness).hazard = true := by
  decide +kernel

theorem xr_witness_ok : HistOK xrCfg xrDev xrInit xrWitness := by
  simp only [HistOK, xrWitness, OpOK, and_true, true_and]
  refine ⟨?_, ?_⟩
  · intro x hx; simp only [List.mem_singleton] at hx; subst hx; exact xr_inert_x
  · intro x hx; simp only [List.mem_singleton] at hx; subst hx
    have : (step xrCfg (modeDev xrDev) (step xrCfg (modeDev xrDev) (step xrCfg (modeDev xrDev) xrInit
        (.sendConfigs ["x"] "" false)).1 (.setGeneric true)).1 (.setGeneric false)).1.tbl = iosxr := by decide +kernel
    rw [this]; exact xr_inert_y

/-- **configs_at_requested, unrestricted, is REFUTED** on IOS-XR (shared prompt of configuration /
    configuration_exclusive): the statement "for every table, device and admissible history every
    config line runs in the requested level" is false -/
theorem configs_at_requested_full_refuted :
    ¬ (∀ (c : Cfg) (cfg : MCfg) (w : W MDev) (ops : List Op), Inv c cfg w → w.hazard = false → HistOK c cfg w ops →
        ∀ u ∈ (run c (modeDev cfg) w ops).ulog, u.kind = .config → ∀ a, u.asked = some a → u.actual = a) := by
  intro h
  have h' := h xrCfg xrDev xrInit xrWitness xr_init_inv rfl xr_witness_ok
  rw [xr_witness_run.1] at h'
  have := h' ⟨some "configuration_exclusive", "configuration", "y", .config⟩ (by simp) rfl "configuration_exclusive" rfl
  exact absurd this (by decide)

/-- **belief_sound, unrestricted, is REFUTED** by the same history: the driver ends believing
    configuration_exclusive while the device is in configuration -/
theorem belief_sound_full_refuted :
    ¬ (∀ (c : Cfg) (cfg : MCfg) (w : W MDev) (ops : List Op), Inv c cfg w → w.hazard = false → HistOK c cfg w ops →
        (run c (modeDev cfg) w ops).belief = DUMMY ∨
        (run c (modeDev cfg) w ops).belief = (run c (modeDev cfg) w ops).ch.dev.mode) := by
  intro h
  have h' := h xrCfg xrDev xrInit xrWitness xr_init_inv rfl xr_witness_ok
  rw [xr_witness_run.2.1, xr_witness_run.2.2.1] at h'
  revert h'; decide

/-! ### the same on Junos (configuration / configuration_exclusive / configuration_private) -/

def jnCfg : Cfg := { ord := neighbours, default := junosDefault, abort := junosAbort, sess := junosSess }
def jnDev : MCfg := { extra := [("configuration", "exit", "exec"), ("configuration_exclusive", "exit", "exec"),
                                ("configuration_private", "exit", "exec")] }
def jnInit : W MDev := { tbl := junos, ch := { dev := { mode := "exec" } } }
def jnWitness : List Op :=
  [.sendConfigs ["x"] "" false, .setGeneric true, .setGeneric false, .sendConfigs ["y"] "configuration_private" false]

theorem jn_witness_run :
    (run jnCfg (modeDev jnDev) jnInit jnWitness).ulog =
      [⟨some "configuration", "configuration", "x", .config⟩,
       ⟨some "configuration_private", "configuration", "y", .config⟩] ∧
    (run jnCfg (modeDev jnDev) jnInit jnWitness).belief = "configuration_private" ∧
    (run jnCfg (modeDev jnDev) jnInit jnWitness).ch.dev.mode = "configuration" := by
  decide +kernel

/-- the Junos abort (`rollback 0`, `exit` through a nested send_configs) satisfies the device
    assumption of `abortConfig_updates_belief` on the vendor device -/
theorem jn_abortOK : AbortOK jnDev junos junosAbort := by
  refine ⟨["rollback 0"], "exit", rfl, ?_, ?_⟩
  · intro x hx; simp only [List.mem_singleton] at hx; subst hx; exact inert_of_not_cmd (by decide) (by decide)
  · -- in whichever level the nested send_configs runs (`privilege_level` argument of the abort), `exit` ends in exec
    intro m hm _
    exact (by decide : ∀ m ∈ names junos, devStep jnDev junos m "exit" = "exec") m hm

/-! ### non-vacuity: the hypotheses of the full theorems are met by IOS-XE with a refusing device -/

def xeCfg : Cfg := { ord := neighbours, default := iosxeDefault, secondary := "pw", abort := iosxeAbort, sess := iosxeSess }
def xeDev : MCfg := { blocked := [("privilege_exec", "configure terminal")], password := some "pw", extra := [("configuration", "exit", "privilege_exec")] }
def xeInit : W MDev := { tbl := iosxe, ch := { dev := { mode := "exec" } } }
def xeHist : List Op := [.sendCommand "show version", .sendConfigs ["hostname r2"] "" true]

example : Inv xeCfg xeDev xeInit :=
  init_inv xeCfg xeDev iosxe "exec" platform_tables_WF.1 (envOK_of (by decide) (by decide) (by decide)) (by decide) trivial (by decide)

example : HistOK xeCfg xeDev xeInit xeHist ∧ HistSingleton xeCfg xeDev xeInit xeHist := by
  have t1 : (step xeCfg (modeDev xeDev) xeInit (.sendCommand "show version")).1.tbl = iosxe := by decide +kernel
  have t2 : (step xeCfg (modeDev xeDev) (step xeCfg (modeDev xeDev) xeInit (.sendCommand "show version")).1
      (.sendConfigs ["hostname r2"] "" true)).1.tbl = iosxe := by decide +kernel
  simp only [HistOK, HistSingleton, xeHist, OpOK, and_true, t1, t2]
  refine ⟨⟨inert_of_not_cmd (by decide) (by decide), ?_⟩, platform_singletons.1, platform_singletons.1, platform_singletons.1⟩
  intro x hx; simp only [List.mem_singleton] at hx; subst hx; exact inert_of_not_cmd (by decide) (by decide)

/-- and what that history does: the command runs in privilege_exec after a password-protected
    escalation; the config acquisition fails (the device refuses `configure terminal`) with a
    PrivilegeError, belief unknown, nothing sent as configuration -/
example : (run xeCfg (modeDev xeDev) xeInit xeHist).ulog = [⟨some "privilege_exec", "privilege_exec", "show version", .command⟩] ∧
    (run xeCfg (modeDev xeDev) xeInit xeHist).belief = DUMMY ∧
    (run xeCfg (modeDev xeDev) xeInit xeHist).ch.dev.mode = "privilege_exec" := by
  decide +kernel

/-! ### the desired level is a parameter: drivers constructed with a non-default `default_desired_privilege_level`

Every theorem above is stated for an arbitrary `c : Cfg`; `c.default` (the constructor argument
`default_desired_privilege_level`) is constrained only by `c.default ∈ names t` (`Inv.dflt`), so each holds for EVERY legal value.
Below: the hypotheses are met for every level of the EOS table as the desired level, and what a history with a registered
session, an aborted send_configs and following commands does when the desired level is `exec` (kernel-evaluated). -/

/-- the EOS vendor device with one configuration session: `abort` leaves the session for privilege_exec -/
def eosDesDev : MCfg := { failLines := ["badline"], extra := [("sessA", "abort", "privilege_exec")] }
/-- EOS with an ARBITRARY desired level `d` (abort shape and session template regenerated from the live source) -/
def eosDesCfg (d : Name) : Cfg := { ord := neighbours, default := d, abort := eosAbort, sess := eosSess }

theorem eos_init_inv_every_desired : ∀ d ∈ names eos, ∀ login ∈ names eos,
    Inv (eosDesCfg d) eosDesDev ({ tbl := eos, ch := { dev := { mode := login } } } : W MDev) := by
  intro d hd login hl
  exact init_inv (eosDesCfg d) eosDesDev eos login platform_tables_WF.2.2.2.1 (envOK_of (by decide) (by decide) (by decide)) hd
    (by show ∀ m ∈ names eos, sessOf eos m = true → devStep eosDesDev eos m "abort" = "privilege_exec"; decide) hl

def eosDesHist : List Op :=
  [.register "sessA", .sendCommand "show a", .sendConfigs ["cfg a", "badline", "cfg b"] "sessA" true, .sendCommands ["show b", "show c"] false]

theorem eos_desired_exec_run :
    (run (eosDesCfg "exec") (modeDev eosDesDev) { tbl := eos, ch := { dev := { mode := "privilege_exec" } } } eosDesHist).ulog =
      [⟨some "exec", "exec", "show a", .command⟩, ⟨some "sessA", "sessA", "cfg a", .config⟩, ⟨some "sessA", "sessA", "badline", .config⟩,
       ⟨some "exec", "exec", "show b", .command⟩, ⟨some "exec", "exec", "show c", .command⟩] ∧
    (run (eosDesCfg "exec") (modeDev eosDesDev) { tbl := eos, ch := { dev := { mode := "privilege_exec" } } } eosDesHist).belief = "exec" := by
  decide +kernel

end Scrapli.Priv
