import ScrapliProps.C16Lemmas
import ScrapliModel.SSHConfigParse
/- Helper lemmas and source-level vocabulary for the TEXT PARSER theorems of C16 (ScrapliModel/SSHConfigParse.lean). -/
namespace Scrapli.SSHConfig
open Scrapli.Gen.SSHConfig

/-! ### generic list facts -/

theorem span_append {p : Char → Bool} (a b : Str) (ha : ∀ x ∈ a, p x = true)
    (hb : ∀ c, b.head? = some c → p c = false) :
    (a ++ b).takeWhile p = a ∧ (a ++ b).dropWhile p = b := by
  induction a with
  | nil =>
    cases b with
    | nil => simp
    | cons c cs => simp [List.takeWhile, List.dropWhile, hb c rfl]
  | cons x xs ih =>
    have hx := ha x (by simp)
    have := ih (fun y hy => ha y (by simp [hy]))
    simp [List.takeWhile, List.dropWhile, hx, this.1, this.2]

theorem noNl_of_all {p : Char → Bool} (hp : p '\n' = false) (a : Str) (ha : ∀ x ∈ a, p x = true) : '\n' ∉ a := by
  intro h; have := ha _ h; rw [hp] at this; cases this

/-! ### lines -/

theorem linesNl_line (l rest : Str) (hl : '\n' ∉ l) :
    linesNl (l ++ '\n' :: rest) = (l ++ ['\n']) :: linesNl rest := by
  induction l with
  | nil => simp [linesNl]
  | cons c cs ih =>
    have hc : c ≠ '\n' := by intro h; exact hl (by simp [h])
    have := ih (by intro h; exact hl (by simp [h]))
    simp [linesNl, hc, this]

theorem chomp_line (l : Str) (hl : '\n' ∉ l) : chomp (l ++ ['\n']) = l := by
  have := (span_append (p := (· != '\n')) l ['\n'] (by intro x hx; simp; intro h; exact hl (h ▸ hx)) (by simp)).1
  simpa [chomp] using this

/-! ### known_hosts: source lines, rendering, well-formedness -/

/-- a known_hosts line as WRITTEN: a key line with its spelling (indentation, separators, trailing comment), or a
    line that records nothing (blank, `#` comment, `@marker` line) -/
inductive KSrc where
  | entry (ind host s1 kt s2 key trail : Str)
  | skip (s : Str)

def KSrc.text : KSrc → Str
  | .entry ind host s1 kt s2 key trail => ind ++ (host ++ (s1 ++ (kt ++ (s2 ++ (key ++ trail)))))
  | .skip s => s

/-- decidable well-formedness: blanks are `[ \t]`, host and key are non-empty runs of non-whitespace, the host does not
    start with `#` / `@`, the key type is a non-empty run of the generated key-type class, a trailer starts with a blank;
    a skipped line is blank or starts (after blanks) with `#` or `@` -/
def KSrc.wf : KSrc → Bool
  | .entry ind host s1 kt s2 key trail =>
    ind.all isBlank && !host.isEmpty && host.all notSp && (host.head? != some '#') && (host.head? != some '@') &&
    !s1.isEmpty && s1.all isBlank && !kt.isEmpty && kt.all khTy && !s2.isEmpty && s2.all isBlank &&
    !key.isEmpty && key.all notSp && (match trail with | [] => true | c :: _ => isBlank c) && !trail.contains '\n'
  | .skip s => !s.contains '\n' && (match s.dropWhile isBlank with | [] => true | c :: _ => c == '#' || c == '@')

/-- what the line records -/
def KSrc.meaning : KSrc → Option KHLine
  | .entry _ host _ kt _ key _ => some { host := host, val := (kt, key) }
  | .skip _ => none

/-- the file: every line terminated by a newline -/
def khRender (ls : List KSrc) : Str := ls.flatMap fun l => l.text ++ ['\n']

theorem field_append {p : Char → Bool} (a b : Str) (hne : a ≠ []) (ha : ∀ x ∈ a, p x = true)
    (hb : ∀ c, b.head? = some c → p c = false) : field p (a ++ b) = some (a, b) := by
  obtain ⟨h1, h2⟩ := span_append a b ha hb
  cases a with
  | nil => exact absurd rfl hne
  | cons x xs =>
    simp only [List.cons_append] at h1 h2
    simp [field, h1, h2]

theorem blanks1_append (a b : Str) (hne : a ≠ []) (ha : ∀ x ∈ a, isBlank x = true)
    (hb : ∀ c, b.head? = some c → isBlank c = false) : blanks1 (a ++ b) = some b := by
  cases a with
  | nil => exact absurd rfl hne
  | cons x xs =>
    have := (span_append xs b (fun y hy => ha y (by simp [hy])) hb).2
    simp [blanks1, ha x (by simp), this]

theorem blank_isSpace {c : Char} (h : isBlank c = true) : notSp c = false := by
  simp only [isBlank, Bool.or_eq_true, beq_iff_eq] at h
  rcases h with h | h <;> subst h <;> decide

theorem khTy_not_blank {c : Char} (h : khTy c = true) : isBlank c = false := by
  cases hb : isBlank c with
  | false => rfl
  | true =>
    simp only [isBlank, Bool.or_eq_true, beq_iff_eq] at hb
    rcases hb with hb | hb <;> subst hb <;> revert h <;> decide

theorem notSp_not_blank {c : Char} (h : notSp c = true) : isBlank c = false := by
  cases hb : isBlank c with
  | false => rfl
  | true => rw [blank_isSpace hb] at h; cases h

theorem head_of_all {p q : Char → Bool} (a b : Str) (hne : a ≠ []) (ha : ∀ x ∈ a, p x = true)
    (hpq : ∀ c, p c = true → q c = false) : ∀ c, (a ++ b).head? = some c → q c = false := by
  cases a with
  | nil => exact absurd rfl hne
  | cons x xs => intro c hc; simp at hc; subst hc; exact hpq _ (ha _ (by simp))

theorem khLine_skip (s : Str) (h : (match s.dropWhile isBlank with | [] => true | c :: _ => c == '#' || c == '@') = true) :
    khLine s = none := by
  unfold khLine
  split
  · rfl
  · rename_i c cs heq
    rw [heq] at h
    simp only at h
    simp [h]

theorem khLine_rec (ind host s1 kt s2 key trail : Str) (h : (KSrc.entry ind host s1 kt s2 key trail).wf = true) :
    khLine (KSrc.entry ind host s1 kt s2 key trail).text = some { host := host, val := (kt, key) } := by
  simp only [KSrc.wf, Bool.and_eq_true, List.all_eq_true, Bool.not_eq_true', List.isEmpty_eq_false_iff, bne_iff_ne, ne_eq] at h
  obtain ⟨⟨⟨⟨⟨⟨⟨⟨⟨⟨⟨⟨⟨⟨hind, hhne⟩, hh⟩, hh1⟩, hh2⟩, hs1ne⟩, hs1⟩, hktne⟩, hkt⟩, hs2ne⟩, hs2⟩, hkne⟩, hk⟩, htr⟩, _⟩ := h
  have e0 : (ind ++ (host ++ (s1 ++ (kt ++ (s2 ++ (key ++ trail)))))).dropWhile isBlank = host ++ (s1 ++ (kt ++ (s2 ++ (key ++ trail)))) :=
    (span_append ind _ hind (head_of_all host _ hhne hh (fun c => notSp_not_blank))).2
  have e1 := field_append (p := notSp) host (s1 ++ (kt ++ (s2 ++ (key ++ trail)))) hhne hh
    (head_of_all s1 _ hs1ne hs1 (fun c => blank_isSpace))
  have e2 := blanks1_append s1 (kt ++ (s2 ++ (key ++ trail))) hs1ne hs1 (head_of_all kt _ hktne hkt (fun c => khTy_not_blank))
  have e3 := field_append (p := khTy) kt (s2 ++ (key ++ trail)) hktne hkt
    (head_of_all s2 _ hs2ne hs2 (fun c hc => by
      cases hk : khTy c with
      | false => rfl
      | true => rw [khTy_not_blank hk] at hc; cases hc))
  have e4 := blanks1_append s2 (key ++ trail) hs2ne hs2 (head_of_all key _ hkne hk (fun c => notSp_not_blank))
  have e5 := field_append (p := notSp) key trail hkne hk (by
    intro c hc
    cases trail with
    | nil => simp at hc
    | cons d ds => simp at hc; subst hc; exact blank_isSpace (by simpa using htr))
  unfold khLine KSrc.text
  rw [e0]
  cases host with
  | nil => exact absurd rfl hhne
  | cons x xs =>
    have hx1 : (x == '#') = false := by simpa using hh1
    have hx2 : (x == '@') = false := by simpa using hh2
    simp only [List.cons_append] at e1 ⊢
    simp only [hx1, hx2, Bool.or_self, Bool.false_eq_true, if_false, e1, e2, e3, e4, e5, Option.bind_eq_bind, Option.bind_some]
    cases trail with
    | nil => rfl
    | cons d ds => simp only at htr; simp [htr]

theorem KSrc.text_noNl (l : KSrc) (h : l.wf = true) : '\n' ∉ l.text := by
  cases l with
  | skip s =>
    simp only [KSrc.wf, Bool.and_eq_true, Bool.not_eq_true'] at h
    intro hm; have := h.1; simp [KSrc.text] at hm; simp [hm] at this
  | entry ind host s1 kt s2 key trail =>
    simp only [KSrc.wf, Bool.and_eq_true, List.all_eq_true, Bool.not_eq_true'] at h
    obtain ⟨⟨⟨⟨⟨⟨⟨⟨⟨⟨⟨⟨⟨⟨hind, _⟩, hh⟩, _⟩, _⟩, _⟩, hs1⟩, _⟩, hkt⟩, _⟩, hs2⟩, _⟩, hk⟩, _⟩, htr⟩ := h
    simp only [KSrc.text, List.mem_append, not_or]
    refine ⟨noNl_of_all (by decide) _ hind, noNl_of_all (by decide) _ hh, noNl_of_all (by decide) _ hs1,
      noNl_of_all (by decide) _ hkt, noNl_of_all (by decide) _ hs2, noNl_of_all (by decide) _ hk, ?_⟩
    intro hm; simp [hm] at htr

theorem khLine_src (l : KSrc) (h : l.wf = true) : khLine l.text = l.meaning := by
  cases l with
  | skip s =>
    simp only [KSrc.wf, Bool.and_eq_true] at h
    exact khLine_skip s h.2
  | entry ind host s1 kt s2 key trail => exact khLine_rec _ _ _ _ _ _ _ h

theorem khParse_render (ls : List KSrc) (h : ∀ l ∈ ls, l.wf = true) :
    khParse (khRender ls) = ls.filterMap KSrc.meaning := by
  induction ls with
  | nil => rfl
  | cons l ls ih =>
    have hl := h l (by simp)
    have ih' := ih (fun x hx => h x (by simp [hx]))
    have e : khRender (l :: ls) = l.text ++ '\n' :: khRender ls := by simp [khRender]
    unfold khParse at ih' ⊢
    rw [e, linesNl_line _ _ (KSrc.text_noNl l hl), List.filterMap_cons, chomp_line _ (KSrc.text_noNl l hl), khLine_src l hl, ih']
    cases hm : l.meaning <;> simp [List.filterMap_cons, hm]

end Scrapli.SSHConfig
