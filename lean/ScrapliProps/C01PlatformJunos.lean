import ScrapliProps.C01PlatformNX
/-
  The Juniper Junos class pattern inside the quantifier of C01 (re.M | re.I):
    (^({\w+(:(\w+){0,1}\d){0,1}}\n){0,1}[\w\-@()/:\.]{1,63}>\s?$)|
    (^({\w+(:(\w+){0,1}\d){0,1}}\[edit\]\n){0,1}[\w\-@()/:\.]{1,63}#\s?$)|(the same twice more)|
    (^.*[%\$]\s?$)|(^.*root@(?:\S*:?\S*\s?)?[%\#]\s?$)
  The optional banner line (`{master:0}`, `[edit]`) is a line of its own in front of the prompt line: line by line
  the pattern accepts `host>`, `host#`, every line ending in `%` or `$` (shell) and the root-shell lines.
  `junosP` is the line predicate; `blank`, `NoEarly`, `PromptOK` are PROVED for every operational / configuration
  prompt line the pattern admits, with or without one trailing blank.  Terminators: `> # % $`.
-/
namespace Scrapli.Chan
open Scrapli

/-- `[\w\-@()/:\.]` -/
def jCls (c : UInt8) : Bool :=
  isWordB c || c == 45 || c == 64 || c == 40 || c == 41 || c == 47 || c == 58 || c == 46
def jHostOK (h : Bytes) : Bool := decide (0 < h.length) && decide (h.length ≤ 63) && h.all jCls

def jTerm (c : UInt8) : Bool := c == 62 || c == 35 || c == 37 || c == 36
def rootAtLit : Bytes := [114, 111, 111, 116, 64]                          -- root@

/-- `(?:\S*:?\S*\s?)?` up to the end of the text: non-blanks, then at most one blank -/
def nsThenWs (r : Bytes) : Bool :=
  let rest := r.dropWhile (fun c => !isSpaceB c)
  rest.isEmpty || (rest.length == 1 && rest.all isSpaceB)

/-- `.*root@(?:\S*:?\S*\s?)?` is the whole text: some occurrence of `root@` is followed by non-blanks and at most one blank -/
def rootAlt : Bytes → Bool
  | [] => false
  | c :: t => ((((c :: t).take 5).map lowerByte == rootAtLit) && nsThenWs ((c :: t).drop 5)) || rootAlt t

/-- the text `body` in front of the terminator `c` -/
def jCore (c : UInt8) (body : Bytes) : Bool :=
  (c == 62 && jHostOK body) || (c == 35 && (jHostOK body || rootAlt body)) || c == 37 || c == 36

/-- one line matches the Junos class pattern -/
def junosP (s : Bytes) : Bool :=
  match s.reverse with
  | c :: t =>
    if jTerm c then jCore c t.reverse
    else match t with
      | c2 :: t2 => isSpaceB c && jTerm c2 && jCore c2 t2.reverse
      | [] => false
  | [] => false

theorem junosP_term {s : Bytes} (h : junosP s = true) : ∃ c ∈ s, jTerm c = true := by
  unfold junosP at h
  have hr : ∀ c, c ∈ s.reverse → c ∈ s := fun c hc => List.mem_reverse.mp hc
  split at h
  · rename_i c t e
    split at h
    · rename_i hc; exact ⟨c, hr c (by rw [e]; simp), hc⟩
    · split at h
      · rename_i c2 t2
        simp only [Bool.and_eq_true] at h
        exact ⟨c2, hr c2 (by rw [e]; simp), h.1.2⟩
      · exact absurd h (by simp)
  · exact absurd h (by simp)

/-- **no early match**, for any set of terminators `T` -/
theorem noEarly_of_term_mem' {P : Bytes → Bool} (T : UInt8 → Bool) (hP : ∀ s, P s = true → ∃ c ∈ s, T c = true)
    (p : Bytes) (hp : ∀ c ∈ p.dropLast, T c = false) : NoEarly P p := by
  intro q hq hne s hs
  rw [Bool.eq_false_iff]; intro h
  have hqd : q <+: p.dropLast := by
    obtain ⟨r, hr⟩ := hq
    cases hr' : r with
    | nil => subst hr'; simp at hr; exact absurd hr hne
    | cons a r2 =>
      subst hr'
      rw [← hr]
      have : (q ++ a :: r2).dropLast = q ++ (a :: r2).dropLast := by
        rw [List.dropLast_append_of_ne_nil (by simp)]
      rw [this]
      exact List.prefix_append _ _
  obtain ⟨c, hc, ht⟩ := hP s h
  have := hp c (hqd.subset (hs.subset hc))
  rw [this] at ht; exact absurd ht (by simp)

theorem blank_not_jterm {s : Bytes} (h : squishBuf s = []) : ∀ c ∈ s, jTerm c = false := by
  intro c hc
  cases ht : jTerm c with
  | false => rfl
  | true =>
    exfalso
    have hc' : c = 62 ∨ c = 35 ∨ c = 37 ∨ c = 36 := by
      unfold jTerm at ht
      have : ((c = 62 ∨ c = 35) ∨ c = 37) ∨ c = 36 := by simpa [Bool.or_eq_true] using ht
      rcases this with ((e | e) | e) | e
      · exact Or.inl e
      · exact Or.inr (Or.inl e)
      · exact Or.inr (Or.inr (Or.inl e))
      · exact Or.inr (Or.inr (Or.inr e))
    have hin : lowerByte c ∈ squishBuf s := by
      unfold squishBuf
      rw [List.mem_filter, List.mem_filter]
      refine ⟨⟨List.mem_map.mpr ⟨c, hc, rfl⟩, ?_⟩, ?_⟩ <;> rcases hc' with e | e | e | e <;> subst e <;> decide
    rw [h] at hin
    simp at hin

theorem junosP_blank (s : Bytes) (h : squishBuf s = []) : junosP s = false := by
  rw [Bool.eq_false_iff]; intro hp
  obtain ⟨c, hc, ht⟩ := junosP_term hp
  rw [blank_not_jterm h c hc] at ht; exact absurd ht (by simp)

/-- the prompt LINES of the Junos levels: operational mode and every configuration mode -/
inductive JunosPrompt : Bytes → Prop
  | oper (h : Bytes) (hh : jHostOK h = true) : JunosPrompt (h ++ [62])
  | conf (h : Bytes) (hh : jHostOK h = true) : JunosPrompt (h ++ [35])

theorem jHostOK_cls {h : Bytes} (hh : jHostOK h = true) : ∀ c ∈ h, jCls c = true := by
  unfold jHostOK at hh
  simp only [Bool.and_eq_true, List.all_eq_true] at hh
  exact hh.2

theorem jCls_not_term {c : UInt8} (h : jCls c = true) : jTerm c = false := by
  cases ht : jTerm c with
  | false => rfl
  | true =>
    exfalso
    have : ((c = 62 ∨ c = 35) ∨ c = 37) ∨ c = 36 := by unfold jTerm at ht; simpa [Bool.or_eq_true] using ht
    rcases this with ((e | e) | e) | e <;> subst e <;> revert h <;> decide

theorem junosPrompt_core {p : Bytes} (hp : JunosPrompt p) :
    ∃ c body, p = body ++ [c] ∧ jTerm c = true ∧ jCore c body = true := by
  cases hp with
  | oper h hh => exact ⟨62, h, rfl, by decide, by simp [jCore, hh]⟩
  | conf h hh => exact ⟨35, h, rfl, by decide, by simp [jCore, hh]⟩

theorem junosPrompt_accepted {p : Bytes} (hp : JunosPrompt p) : junosP p = true ∧ junosP (p ++ [32]) = true := by
  obtain ⟨c, body, hpb, hterm, hc⟩ := junosPrompt_core hp
  subst hpb
  constructor
  · unfold junosP
    have : (body ++ [c]).reverse = c :: body.reverse := by simp
    rw [this]; simp [hterm, hc]
  · unfold junosP
    have : (body ++ [c] ++ [32]).reverse = 32 :: c :: body.reverse := by simp
    rw [this]
    have h32 : jTerm 32 = false := by decide
    simp [h32, isSpaceB, hterm, hc]

theorem junosPrompt_inner {p : Bytes} (hp : JunosPrompt p) : ∀ c ∈ p.dropLast, jTerm c = false := by
  cases hp with
  | oper h hh => intro c hc; rw [List.dropLast_concat] at hc; exact jCls_not_term (jHostOK_cls hh c hc)
  | conf h hh => intro c hc; rw [List.dropLast_concat] at hc; exact jCls_not_term (jHostOK_cls hh c hc)

theorem junosPrompt_ne {p : Bytes} (hp : JunosPrompt p) : p ≠ [] := by
  cases hp <;> simp

theorem j_plain_byte {c : UInt8} (h : jCls c = true ∨ c = 62 ∨ c = 35) : c ≠ NL ∧ c ≠ CR ∧ c ≠ ESC := by
  refine ⟨?_, ?_, ?_⟩ <;> intro e <;> subst e <;> revert h <;> decide

theorem junosPrompt_bytes {p : Bytes} (hp : JunosPrompt p) : ∀ c ∈ p, jCls c = true ∨ c = 62 ∨ c = 35 := by
  cases hp with
  | oper h hh =>
    intro c hc
    rcases List.mem_append.mp hc with h1 | h1
    · exact Or.inl (jHostOK_cls hh c h1)
    · simp at h1; subst h1; simp
  | conf h hh =>
    intro c hc
    rcases List.mem_append.mp hc with h1 | h1
    · exact Or.inl (jHostOK_cls hh c h1)
    · simp at h1; subst h1; simp

/-- **every Junos operational / configuration prompt line is inside the quantifier of C01**, printed with or
    without one trailing blank (the banner line in front of it is part of the command's output as far as the
    channel is concerned: it must itself be quiet, which `GoodCmd.out_quiet` asks of every output) -/
theorem junos_fits (cfg : Cfg) (out : Bytes → Bytes) {p t : Bytes} (hp : JunosPrompt p) (ht : t = [] ∨ t = [32])
    (hS : ∀ x, cfg.prompt.search x = (splitNL x).any junosP)
    (hstrict : cfg.rough = false) (hret : IsRet cfg.ret) (hwin : (p ++ t).length < cfg.depth) :
    Fits junosP cfg { out := out, prompt := p, trail := t } where
  search_lines := hS
  strict := hstrict
  ret := hret
  blank := junosP_blank
  noEarly := noEarly_of_term_mem' jTerm (fun _ h => junosP_term h) p (junosPrompt_inner hp)
  promptOK := by
    intro t' ht'
    have hacc := junosPrompt_accepted hp
    have hcase : t' = [] ∨ (t = [32] ∧ t' = [32]) := by
      obtain ⟨r, hr⟩ := ht'
      cases t' with
      | nil => exact Or.inl rfl
      | cons a as =>
        rcases ht with e | e
        · subst e; simp at hr
        · subst e
          simp only [List.cons_append, List.cons.injEq] at hr
          have : as = [] := by
            have := hr.2
            cases as with
            | nil => rfl
            | cons b bs => simp at this
          exact Or.inr ⟨rfl, by rw [hr.1, this]⟩
    rcases hcase with e' | ⟨_, e'⟩
    · subst e'; simpa using hacc.1
    · subst e'; exact hacc.2
  prompt_ne := junosPrompt_ne hp
  prompt_nl := fun hm => (j_plain_byte (junosPrompt_bytes hp NL hm)).1 rfl
  prompt_plain :=
    ⟨fun hm => (j_plain_byte (junosPrompt_bytes hp CR hm)).2.1 rfl,
     fun hm => (j_plain_byte (junosPrompt_bytes hp ESC hm)).2.2 rfl⟩
  trail_hws := by
    rcases ht with e | e <;> subst e <;> simp [isHws]
  fits_window := hwin

/-- non-vacuity: "admin@vmx-1.lab>" is such a prompt line -/
example : JunosPrompt ([97, 100, 109, 105, 110, 64, 118, 109, 120, 45, 49, 46, 108, 97, 98] ++ [62]) :=
  JunosPrompt.oper _ (by decide)

end Scrapli.Chan
