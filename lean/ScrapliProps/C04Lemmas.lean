import ScrapliModel.Priv.Driver
/-
  Helper lemmas for C04 (and C03): well-formed tables are forests, simple paths in them exist and
  are unique, and the depth-first search of `_build_priv_change_map` finds them whatever the
  neighbour order.  Property theorems are in C04.lean.
-/
namespace Scrapli.Priv

/-! ### well-formed tables -/

/-- a user-visible privilege table "forming a tree": distinct names (none of them empty or the
    DUMMY name), every `previous_priv` names an existing level, a rank decreases along
    `previous_priv` (no cycles), and there is at most one level without a previous one. -/
structure WF (t : Table) : Prop where
  nodup : (names t).Nodup
  noEmpty : "" ∉ names t
  noDummy : DUMMY ∉ names t
  prevIn : ∀ l ∈ t, l.prev ≠ "" → l.prev ∈ names t
  rank : ∃ r : Name → Nat, ∀ l ∈ t, l.prev ≠ "" → r l.prev < r l.name
  oneRoot : ∀ l ∈ t, ∀ l' ∈ t, l.prev = "" → l'.prev = "" → l = l'

theorem lookup_some {t : Table} {n : Name} {l : Level} (h : lookup t n = some l) : l ∈ t ∧ l.name = n := by
  unfold lookup at h
  exact ⟨List.mem_of_find?_eq_some h, by simpa using List.find?_some h⟩

theorem lookup_of_mem {t : Table} (hn : (names t).Nodup) {l : Level} (h : l ∈ t) : lookup t l.name = some l := by
  induction t with
  | nil => cases h
  | cons x xs ih =>
    simp only [names, List.map_cons, List.nodup_cons] at hn
    unfold lookup
    rw [List.find?_cons]
    by_cases hx : x.name = l.name
    · simp only [hx, beq_self_eq_true]
      rcases List.mem_cons.mp h with rfl | h'
      · rfl
      · exact absurd (hx ▸ List.mem_map_of_mem (f := (·.name)) h') hn.1
    · have : (x.name == l.name) = false := by simpa using hx
      simp only [this]
      rcases List.mem_cons.mp h with rfl | h'
      · exact absurd rfl hx
      · exact ih hn.2 h'

theorem lookup_isSome_iff {t : Table} {n : Name} : (lookup t n).isSome ↔ n ∈ names t := by
  constructor
  · intro h
    obtain ⟨l, hl⟩ := Option.isSome_iff_exists.mp h
    obtain ⟨h1, h2⟩ := lookup_some hl
    exact h2 ▸ List.mem_map_of_mem (f := (·.name)) h1
  · intro h
    obtain ⟨l, hl, rfl⟩ := List.mem_map.mp h
    unfold lookup
    rw [List.find?_isSome]
    exact ⟨l, hl, by simp⟩

theorem lookup_none_iff {t : Table} {n : Name} : lookup t n = none ↔ n ∉ names t := by
  rw [← lookup_isSome_iff]; cases lookup t n <;> simp

theorem parent_some {t : Table} {a p : Name} (h : parent t a = some p) :
    ∃ l, lookup t a = some l ∧ l.prev = p ∧ p ≠ "" := by
  unfold parent at h
  split at h
  · rename_i l hl
    split at h
    · cases h
    · rename_i hne
      cases h
      exact ⟨l, hl, rfl, hne⟩
  · cases h

theorem parent_of_lookup {t : Table} {a : Name} {l : Level} (h : lookup t a = some l) (hp : l.prev ≠ "") :
    parent t a = some l.prev := by
  unfold parent; rw [h]; simp [hp]

theorem parent_mem {t : Table} (h : WF t) {a p : Name} (hp : parent t a = some p) : a ∈ names t ∧ p ∈ names t := by
  obtain ⟨l, hl, rfl, hne⟩ := parent_some hp
  obtain ⟨h1, h2⟩ := lookup_some hl
  exact ⟨h2 ▸ List.mem_map_of_mem (f := (·.name)) h1, h.prevIn l h1 hne⟩

/-- adjacency in the privilege graph -/
def Adj (t : Table) (a b : Name) : Prop := parent t a = some b ∨ parent t b = some a

theorem Adj.symm {t : Table} {a b : Name} (h : Adj t a b) : Adj t b a := Or.symm h

theorem Adj.mem {t : Table} (hw : WF t) {a b : Name} (h : Adj t a b) : a ∈ names t ∧ b ∈ names t := by
  rcases h with h | h
  · exact parent_mem hw h
  · exact (parent_mem hw h).symm

/-- the canonical neighbour list is the adjacency relation -/
theorem mem_neighbours {t : Table} (hw : WF t) {a x : Name} : x ∈ neighbours t a ↔ Adj t a x := by
  unfold neighbours Adj
  rw [List.mem_append]
  constructor
  · rintro (h | h)
    · left
      cases hp : parent t a with
      | none => simp [hp] at h
      | some p => simp [hp] at h; rw [h]
    · right
      obtain ⟨l, hl, rfl⟩ := List.mem_map.mp h
      obtain ⟨hl1, hl2⟩ := List.mem_filter.mp hl
      simp only [Bool.and_eq_true, beq_iff_eq, bne_iff_ne] at hl2
      have := parent_of_lookup (lookup_of_mem hw.nodup hl1) hl2.2
      rw [this, hl2.1]
  · rintro (h | h)
    · left; rw [h]; simp
    · right
      obtain ⟨l, hl, rfl, hne⟩ := parent_some h
      obtain ⟨h1, h2⟩ := lookup_some hl
      exact List.mem_map.mpr ⟨l, List.mem_filter.mpr ⟨h1, by simp [hne]⟩, h2⟩

/-! ### paths -/

/-- `Path t a b p`: `p` is a walk from `a` to `b` (consecutive elements adjacent) -/
inductive Path (t : Table) : Name → Name → List Name → Prop
  | single (a : Name) : a ∈ names t → Path t a a [a]
  | cons {a x b : Name} {p : List Name} : Adj t a x → Path t x b p → Path t a b (a :: p)

theorem Path.head {t a b p} (h : Path t a b p) : ∃ r, p = a :: r := by
  cases h <;> exact ⟨_, rfl⟩

theorem Path.ne_nil {t a b p} (h : Path t a b p) : p ≠ [] := by
  obtain ⟨r, rfl⟩ := h.head; simp

theorem Path.last_mem {t a b p} (h : Path t a b p) : b ∈ p := by
  induction h with
  | single a _ => simp
  | cons _ _ ih => exact List.mem_cons_of_mem _ ih

theorem Path.getLast {t a b p} (h : Path t a b p) : p.getLast? = some b := by
  induction h with
  | single a _ => rfl
  | @cons a x b p _ hp ih =>
    obtain ⟨r, rfl⟩ := hp.head
    rw [List.getLast?_cons_cons]; exact ih

theorem Path.head_mem {t a b p} (h : Path t a b p) : a ∈ p := by
  obtain ⟨r, rfl⟩ := h.head; simp

theorem Path.mem_names {t a b p} (hw : WF t) (h : Path t a b p) : ∀ v ∈ p, v ∈ names t := by
  induction h with
  | single a ha => intro v hv; simp at hv; exact hv ▸ ha
  | cons hadj _ ih =>
    intro v hv
    rcases List.mem_cons.mp hv with rfl | hv
    · exact (hadj.mem hw).1
    · exact ih v hv

theorem Path.snoc {t a b c p} (h : Path t a b p) (hadj : Adj t b c) (hc : c ∈ names t) : Path t a c (p ++ [c]) := by
  induction h with
  | single a _ => exact .cons hadj (.single c hc)
  | cons h1 _ ih => exact .cons h1 (ih hadj)

theorem Path.reverse {t a b p} (hw : WF t) (h : Path t a b p) : Path t b a p.reverse := by
  induction h with
  | single a ha => exact .single a ha
  | @cons a x b p hadj _ ih =>
    rw [List.reverse_cons]
    exact ih.snoc hadj.symm (hadj.mem hw).1

theorem Path.trans {t a b c p q} (h1 : Path t a c p) (h2 : Path t c b q) : Path t a b (p ++ q.tail) := by
  induction h1 with
  | single a _ => obtain ⟨r, rfl⟩ := h2.head; simpa using h2
  | cons hadj _ ih => exact .cons hadj (ih h2)

/-- the part of a path from the first occurrence of one of its vertices -/
theorem Path.suffix_from {t x b q} (h : Path t x b q) {a : Name} (ha : a ∈ q) :
    ∃ q', Path t a b q' ∧ q' <:+ q := by
  induction h with
  | single x hx => simp at ha; subst ha; exact ⟨[a], .single a hx, List.suffix_refl _⟩
  | @cons x y b q0 hadj hq ih =>
    by_cases hax : a = x
    · subst hax; exact ⟨a :: q0, .cons hadj hq, List.suffix_refl _⟩
    · have : a ∈ q0 := by
        rcases List.mem_cons.mp ha with h | h
        · exact absurd h hax
        · exact h
      obtain ⟨q', h1, h2⟩ := ih this
      exact ⟨q', h1, h2.trans (List.suffix_cons _ _)⟩

/-- loop erasure: a walk contains a simple path with the same end points -/
theorem Path.simple {t a b p} (h : Path t a b p) : ∃ q, Path t a b q ∧ q.Nodup := by
  induction h with
  | single a ha => exact ⟨[a], .single a ha, by simp⟩
  | @cons a x b p hadj _ ih =>
    obtain ⟨q, hq, hn⟩ := ih
    by_cases ha : a ∈ q
    · obtain ⟨q', h1, h2⟩ := hq.suffix_from ha
      exact ⟨q', h1, hn.sublist h2.sublist⟩
    · exact ⟨a :: q, .cons hadj hq, List.nodup_cons.mpr ⟨ha, hn⟩⟩

/-- every level is connected to a level without a previous one -/
theorem path_to_root {t : Table} (hw : WF t) : ∀ a ∈ names t, ∃ r p, Path t a r p ∧ parent t r = none := by
  obtain ⟨rk, hrk⟩ := hw.rank
  intro a
  induction hn : rk a using Nat.strongRecOn generalizing a with
  | ind n ih =>
    intro ha
    cases hp : parent t a with
    | none => exact ⟨a, [a], .single a ha, hp⟩
    | some p =>
      obtain ⟨l, hl, rfl, hne⟩ := parent_some hp
      obtain ⟨h1, h2⟩ := lookup_some hl
      have hlt : rk l.prev < rk a := h2 ▸ hrk l h1 hne
      obtain ⟨r, q, hq, hr⟩ := ih (rk l.prev) (hn ▸ hlt) l.prev rfl (hw.prevIn l h1 hne)
      exact ⟨r, a :: q, .cons (Or.inl hp) hq, hr⟩

theorem root_unique {t : Table} (hw : WF t) {r r' : Name} (hr : r ∈ names t) (hr' : r' ∈ names t)
    (h : parent t r = none) (h' : parent t r' = none) : r = r' := by
  obtain ⟨l, hl, rfl⟩ := List.mem_map.mp hr
  obtain ⟨l', hl', rfl⟩ := List.mem_map.mp hr'
  have e : ∀ m ∈ t, parent t m.name = none → m.prev = "" := by
    intro m hm hpm
    unfold parent at hpm
    rw [lookup_of_mem hw.nodup hm] at hpm
    by_cases hx : m.prev = ""
    · exact hx
    · simp [hx] at hpm
  rw [hw.oneRoot l hl l' hl' (e l hl h) (e l' hl' h')]

/-- in a well-formed table any two levels are joined by a simple path -/
theorem simple_path_exists {t : Table} (hw : WF t) {a b : Name} (ha : a ∈ names t) (hb : b ∈ names t) :
    ∃ q, Path t a b q ∧ q.Nodup := by
  obtain ⟨r, p, hp, hr⟩ := path_to_root hw a ha
  obtain ⟨r', p', hp', hr'⟩ := path_to_root hw b hb
  have : r = r' := root_unique hw (hp.mem_names hw r hp.last_mem) (hp'.mem_names hw r' hp'.last_mem) hr hr'
  subst this
  exact (hp.trans (hp'.reverse hw)).simple

/-! ### uniqueness of simple paths (the forest property) -/

/-- `IsAnc t u v`: `u` is `v` or an ancestor of `v` -/
inductive IsAnc (t : Table) (u : Name) : Name → Prop
  | refl : IsAnc t u u
  | step {v w : Name} : parent t v = some w → IsAnc t u w → IsAnc t u v

theorem IsAnc.rank_le {t : Table} {rk : Name → Nat} (hrk : ∀ l ∈ t, l.prev ≠ "" → rk l.prev < rk l.name)
    {u v : Name} (h : IsAnc t u v) : rk u ≤ rk v := by
  induction h with
  | refl => exact Nat.le_refl _
  | step hp _ ih =>
    obtain ⟨l, hl, rfl, hne⟩ := parent_some hp
    obtain ⟨h1, h2⟩ := lookup_some hl
    have := hrk l h1 hne
    rw [h2] at this
    omega

theorem parent_rank_lt {t : Table} {rk : Name → Nat} (hrk : ∀ l ∈ t, l.prev ≠ "" → rk l.prev < rk l.name)
    {a p : Name} (hp : parent t a = some p) : rk p < rk a := by
  obtain ⟨l, hl, rfl, hne⟩ := parent_some hp
  obtain ⟨h1, h2⟩ := lookup_some hl
  exact h2 ▸ hrk l h1 hne

theorem IsAnc.of_child {t : Table} {y a b : Name} (hy : parent t y = some a) (h : IsAnc t y b) : IsAnc t a b := by
  induction h with
  | refl => exact .step hy .refl
  | step hpp _ ih => exact .step hpp ih

/-- a node is not below its own parent -/
theorem not_anc_parent {t : Table} (hw : WF t) {a p : Name} (hp : parent t a = some p) : ¬ IsAnc t a p := by
  obtain ⟨rk, hrk⟩ := hw.rank
  intro h
  have := h.rank_le hrk
  have := parent_rank_lt hrk hp
  omega

/-- an edge that enters the subtree of `a` from outside enters it at `a`, from `a`'s parent -/
theorem crossing {t : Table} {a u v : Name} (hadj : Adj t u v) (hu : ¬ IsAnc t a u) (hv : IsAnc t a v) :
    v = a ∧ parent t a = some u := by
  rcases hadj with h | h
  · exact absurd (IsAnc.step h hv) hu
  · cases hv with
    | refl => exact ⟨rfl, h⟩
    | step hp hw' =>
      rw [h] at hp
      cases hp
      exact absurd hw' hu

/-- a walk from outside the subtree of `a` to inside passes through `a` -/
theorem enters_through {t : Table} {a u b : Name} {p : List Name} (h : Path t u b p)
    (hu : ¬ IsAnc t a u) (hb : IsAnc t a b) : a ∈ p := by
  induction h with
  | single u _ => exact absurd hb hu
  | @cons u x b p hadj _ ih =>
    by_cases hx : IsAnc t a x
    · obtain ⟨rfl, _⟩ := crossing hadj hu hx
      exact List.mem_cons_of_mem _ (Path.head_mem ‹_›)
    · exact List.mem_cons_of_mem _ (ih hx hb)

/-- a walk that starts inside the subtree of `x` and avoids `x`'s parent stays inside -/
theorem trapped {t : Table} {x a u b : Name} {p : List Name} (h : Path t u b p) (hx : parent t x = some a)
    (hu : IsAnc t x u) (ha : a ∉ p) : IsAnc t x b := by
  induction h with
  | single u _ => exact hu
  | @cons u v b p hadj _ ih =>
    have hv : IsAnc t x v := by
      by_cases hv : IsAnc t x v
      · exact hv
      · obtain ⟨rfl, hpar⟩ := crossing hadj.symm hv hu
        rw [hx] at hpar
        cases hpar
        exact absurd (List.mem_cons_of_mem _ (Path.head_mem ‹_›)) ha
    exact ih hv (fun h => ha (List.mem_cons_of_mem _ h))

/-- the ancestors of a node are linearly ordered -/
theorem anc_comparable {t : Table} {x y b : Name} (hx : IsAnc t x b) (hy : IsAnc t y b) :
    IsAnc t x y ∨ IsAnc t y x := by
  induction hx with
  | refl => exact Or.inr hy
  | @step v w hp _ ih =>
    cases hy with
    | refl => exact Or.inl (.step hp ‹_›)
    | step hp' hy' =>
      rw [hp] at hp'
      cases hp'
      exact ih hy'

/-- two children of one node above the same node are equal -/
theorem child_unique {t : Table} (hw : WF t) {x y a b : Name} (hx : parent t x = some a) (hy : parent t y = some a)
    (hxb : IsAnc t x b) (hyb : IsAnc t y b) : x = y := by
  obtain ⟨rk, hrk⟩ := hw.rank
  have key : ∀ {x y : Name}, parent t x = some a → parent t y = some a → IsAnc t x y → x = y := by
    intro x y hx hy h
    cases h with
    | refl => rfl
    | step hp h' =>
      rw [hy] at hp
      cases hp
      have := h'.rank_le hrk
      have := parent_rank_lt hrk hx
      omega
  rcases anc_comparable hxb hyb with h | h
  · exact key hx hy h
  · exact (key hy hx h).symm

/-- **uniqueness of simple paths** in a well-formed table -/
theorem simple_path_unique {t : Table} (hw : WF t) {a b : Name} {p q : List Name}
    (hp : Path t a b p) (hpn : p.Nodup) (hq : Path t a b q) (hqn : q.Nodup) : p = q := by
  induction hp generalizing q with
  | single a _ =>
    cases hq with
    | single => rfl
    | cons _ hq' => exact absurd hq'.last_mem (List.nodup_cons.mp hqn).1
  | @cons a x b p hadj hp' ih =>
    have hap : a ∉ p := (List.nodup_cons.mp hpn).1
    cases hq with
    | single => exact absurd hp'.last_mem hap
    | @cons _ y _ q hadj' hq' =>
      have haq : a ∉ q := (List.nodup_cons.mp hqn).1
      have hxy : x = y := by
        rcases hadj with h1 | h1 <;> rcases hadj' with h2 | h2
        · rw [h1] at h2; exact Option.some.inj h2
        · -- x is a's parent, y a child of a: b is below y hence below a; the walk from x must re-enter at a
          have hb : IsAnc t y b := trapped hq' h2 .refl haq
          have hb' : IsAnc t a b := hb.of_child h2
          exact absurd (enters_through hp' (not_anc_parent hw h1) hb') hap
        · have hb : IsAnc t x b := trapped hp' h1 .refl hap
          have hb' : IsAnc t a b := hb.of_child h1
          exact absurd (enters_through hq' (not_anc_parent hw h2) hb') haq
        · exact child_unique hw h1 h2 (trapped hp' h1 .refl hap) (trapped hq' h2 .refl haq)
      subst hxy
      rw [ih (List.nodup_cons.mp hpn).2 hq' (List.nodup_cons.mp hqn).2]

end Scrapli.Priv

namespace Scrapli.Priv

/-! ### the depth-first search finds the path, for every neighbour order -/

theorem firstNonEmpty_ne_nil {α β : Type} {f : α → List β} {l : List α} (h : firstNonEmpty f l ≠ []) :
    ∃ x ∈ l, f x ≠ [] ∧ firstNonEmpty f l = f x := by
  induction l with
  | nil => exact absurd rfl h
  | cons y ys ih =>
    unfold firstNonEmpty at h ⊢
    cases hy : f y with
    | nil =>
      simp only [hy] at h ⊢
      obtain ⟨x, hx, h1, h2⟩ := ih h
      exact ⟨x, List.mem_cons_of_mem _ hx, h1, h2⟩
    | cons z zs => exact ⟨y, by simp, by simp [hy], by simp [hy]⟩

theorem firstNonEmpty_of_mem {α β : Type} {f : α → List β} {l : List α} {x : α} (hx : x ∈ l) (hf : f x ≠ []) :
    firstNonEmpty f l ≠ [] := by
  induction l with
  | nil => cases hx
  | cons y ys ih =>
    unfold firstNonEmpty
    cases hy : f y with
    | nil =>
      simp only
      rcases List.mem_cons.mp hx with rfl | hx'
      · exact absurd hy hf
      · exact ih hx'
    | cons z zs => simp

/-- soundness: a non-empty result extends the path so far by a simple path to the destination -/
theorem buildMap_sound {t : Table} (hw : WF t) {nb : Name → List Name} (hnb : ∀ a x, x ∈ nb a → Adj t a x) :
    ∀ (fuel : Nat) (s d : Name) (acc : List Name), s ∈ names t → s ∉ acc → buildMap nb fuel s d acc ≠ [] →
      ∃ q, buildMap nb fuel s d acc = acc ++ q ∧ Path t s d q ∧ (∀ v ∈ q, v ∉ acc) ∧ q.Nodup := by
  intro fuel
  induction fuel with
  | zero => intro s d acc _ _ h; exact absurd rfl h
  | succ fuel ih =>
    intro s d acc hs hsa h
    unfold buildMap at h ⊢
    simp only at h ⊢
    by_cases hsd : s = d
    · subst hsd
      simp only [if_true]
      exact ⟨[s], rfl, .single s hs, by simpa using hsa, by simp⟩
    · simp only [hsd, if_false] at h ⊢
      obtain ⟨x, hx, h1, h2⟩ := firstNonEmpty_ne_nil h
      by_cases hxa : x ∈ acc ++ [s]
      · simp [hxa] at h1
      · simp only [hxa, if_false] at h1 h2
        have hadj := hnb s x hx
        obtain ⟨q, e, hp, hdis, hn⟩ := ih x d (acc ++ [s]) (hadj.mem hw).2 hxa h1
        refine ⟨s :: q, ?_, .cons hadj hp, ?_, ?_⟩
        · rw [h2, e, List.append_assoc]; rfl
        · intro v hv
          rcases List.mem_cons.mp hv with rfl | hv
          · exact hsa
          · exact fun hva => hdis v hv (List.mem_append_left _ hva)
        · exact List.nodup_cons.mpr ⟨fun hsq => hdis s hsq (by simp), hn⟩

/-- completeness: if a simple path avoiding the path so far exists, the search succeeds -/
theorem buildMap_complete {t : Table} {nb : Name → List Name} (hnb : ∀ a x, Adj t a x → x ∈ nb a)
    {s d : Name} {q : List Name} (hp : Path t s d q) (hn : q.Nodup) :
    ∀ (acc : List Name) (fuel : Nat), (∀ v ∈ q, v ∉ acc) → q.length ≤ fuel → buildMap nb fuel s d acc ≠ [] := by
  induction hp with
  | single a _ =>
    intro acc fuel _ hf
    cases fuel with
    | zero => simp at hf
    | succ f => unfold buildMap; simp
  | @cons s x d q hadj hq ih =>
    intro acc fuel hdis hf
    cases fuel with
    | zero => simp at hf
    | succ f =>
      unfold buildMap
      simp only
      by_cases hsd : s = d
      · simp [hsd]
      · simp only [hsd, if_false]
        have hsq : s ∉ q := (List.nodup_cons.mp hn).1
        have hxs : x ≠ s := fun e => hsq (e ▸ hq.head_mem)
        have hxa : x ∉ acc ++ [s] := by
          simp only [List.mem_append, List.mem_singleton, not_or]
          exact ⟨hdis x (List.mem_cons_of_mem _ hq.head_mem), hxs⟩
        apply firstNonEmpty_of_mem (hnb s x hadj)
        simp only [hxa, if_false]
        apply ih (List.nodup_cons.mp hn).2
        · intro v hv
          simp only [List.mem_append, List.mem_singleton, not_or]
          exact ⟨hdis v (List.mem_cons_of_mem _ hv), fun e => hsq (e ▸ hv)⟩
        · simp at hf; omega

/-- the neighbour order is some listing of the graph's neighbour sets -/
def NbOK (t : Table) (nb : Name → List Name) : Prop := ∀ a x, x ∈ nb a ↔ x ∈ neighbours t a

theorem Path.length_le {t a b p} (hw : WF t) (h : Path t a b p) (hn : p.Nodup) : p.length ≤ t.length := by
  have := hn.length_le_of_subset (fun v hv => h.mem_names hw v hv)
  simpa [names] using this

/-- the search returns exactly the simple path -/
theorem changeMap_eq {t : Table} (hw : WF t) {nb : Name → List Name} (hnb : NbOK t nb) {a b : Name} {p : List Name}
    (hp : Path t a b p) (hn : p.Nodup) : changeMap t nb a b = p := by
  unfold changeMap
  have ha : a ∈ names t := hp.mem_names hw a hp.head_mem
  have h1 : ∀ a x, x ∈ nb a → Adj t a x := fun a x h => (mem_neighbours hw).mp ((hnb a x).mp h)
  have h2 : ∀ a x, Adj t a x → x ∈ nb a := fun a x h => (hnb a x).mpr ((mem_neighbours hw).mpr h)
  have hne := buildMap_complete h2 hp hn [] (t.length + 1) (by simp) (by have := hp.length_le hw hn; omega)
  obtain ⟨q, e, hq, _, hqn⟩ := buildMap_sound hw h1 (t.length + 1) a b [] ha (by simp) hne
  rw [e, List.nil_append]
  exact simple_path_unique hw hq hqn hp hn

end Scrapli.Priv
