import ScrapliModel.Lock
/- Helper lemmas and the invariant for C19 (channel lock).  Property theorems are in C19.lean. -/
namespace Scrapli.Lock
open Scrapli

variable {σ : Type}

/-! ### what a step can be -/

/-- the six shapes of `step` (skip / enter-and-leave / enter / call fails / last call / call) -/
inductive StepCase (locking : Bool) (D : Dev σ) (progs : List Prog) (s : St σ) (i : Nat) : St σ → Prop where
  | skip : StepCase locking D progs s i s
  | empty (c : Caller) (hc : s.callers[i]? = some c) (hcur : c.cur = none) (hop : opAt progs i c.pc = some [])
      (hfree : locking = true → s.lock = none) :
      StepCase locking D progs s i (finishOp s s.world i c ⟨true, []⟩)
  | enter (c : Caller) (st : Step) (rest : List Step) (hc : s.callers[i]? = some c) (hcur : c.cur = none)
      (hop : opAt progs i c.pc = some (st :: rest)) (hfree : locking = true → s.lock = none) :
      StepCase locking D progs s i (acqSt locking s i c (st :: rest))
  | fail (c : Caller) (st : Step) (rest : List Step) (hc : s.callers[i]? = some c) (hcur : c.cur = some (st :: rest))
      (hf : raises s.world st = true) :
      StepCase locking D progs s i (finishOp s (perform D s.world i c.pc st).1 i c ⟨false, c.reads⟩)
  | last (c : Caller) (st : Step) (hc : s.callers[i]? = some c) (hcur : c.cur = some [st])
      (hf : raises s.world st = false) :
      StepCase locking D progs s i
        (finishOp s (perform D s.world i c.pc st).1 i c ⟨true, c.reads ++ (perform D s.world i c.pc st).2⟩)
  | cont (c : Caller) (st : Step) (rest : List Step) (hc : s.callers[i]? = some c) (hcur : c.cur = some (st :: rest))
      (hf : raises s.world st = false) (hne : rest ≠ []) :
      StepCase locking D progs s i
        (contSt s (perform D s.world i c.pc st).1 i c rest (c.reads ++ (perform D s.world i c.pc st).2))

theorem step_cases (locking : Bool) (D : Dev σ) (progs : List Prog) (s : St σ) (i : Nat) :
    StepCase locking D progs s i (step locking D progs s i) := by
  unfold step
  split
  · exact .skip
  · rename_i c hc
    split
    · rename_i hcur
      split
      · exact .skip
      · rename_i op hop
        split
        · exact .skip
        · rename_i hfree
          have hfree' : locking = true → s.lock = none := by
            intro hl; cases hs : s.lock <;> simp_all
          split
          · exact .empty c hc hcur hop hfree'
          · rename_i st rest
            exact .enter c st rest hc hcur hop hfree'
    · exact .skip
    · rename_i st rest hcur
      by_cases hf : raises s.world st = true
      · simp only [hf, if_true]
        exact .fail c st rest hc hcur hf
      · have hf' : raises s.world st = false := by simpa using hf
        simp only [hf', Bool.false_eq_true, if_false]
        by_cases hr : rest = []
        · subst hr
          simp only [List.isEmpty_nil, if_true]
          exact .last c st hc hcur hf'
        · have : rest.isEmpty = false := by simpa using hr
          simp only [this, Bool.false_eq_true, if_false]
          exact .cont c st rest hc hcur hf' hr

/-- `perform` appends exactly one event, tagged with the caller and its operation index -/
theorem perform_wire (D : Dev σ) (w : World σ) (i k : Nat) (st : Step) :
    ∃ e : Ev, e.key = (i, k) ∧ (perform D w i k st).1.wire = w.wire ++ [e] := by
  unfold perform
  split
  · exact ⟨_, rfl, rfl⟩
  · split
    · exact ⟨_, rfl, rfl⟩
    · exact ⟨_, rfl, rfl⟩

end Scrapli.Lock

namespace Scrapli.Lock
variable {σ : Type}

/-! ### list plumbing -/

theorem lookup_set {cs : List Caller} {i : Nat} {c : Caller} (hc : cs[i]? = some c) (c' : Caller) (j : Nat) :
    (cs.set i c')[j]? = if j = i then some c' else cs[j]? := by
  have hi : i < cs.length := by
    rcases Nat.lt_or_ge i cs.length with h | h
    · exact h
    · rw [List.getElem?_eq_none h] at hc; cases hc
  rw [List.getElem?_set]
  by_cases h : i = j
  · subst h; simp [hi]
  · have h' : ¬ j = i := fun e => h e.symm
    simp [h, h']

/-- between two events of the same operation there is no event of another operation -/
def NoGap (w : List Ev) : Prop :=
  ∀ (a b c : Nat) (ea eb ec : Ev), a < b → b < c → w[a]? = some ea → w[b]? = some eb → w[c]? = some ec →
    ea.key = ec.key → eb.key = ea.key

theorem nogap_snoc (w : List Ev) (e0 : Ev) (n : Nat)
    (hs : ∀ j e, w[j]? = some e → (n ≤ j ↔ e.key = e0.key)) (hg : NoGap w) : NoGap (w ++ [e0]) := by
  intro a b c ea eb ec hab hbc ha hb hc hk
  have hclt : c < w.length + 1 := by
    have := (List.getElem?_eq_some_iff.mp hc).1
    simpa using this
  have ha' : w[a]? = some ea := by rw [List.getElem?_append_left (by omega)] at ha; exact ha
  have hb' : w[b]? = some eb := by rw [List.getElem?_append_left (by omega)] at hb; exact hb
  by_cases hcl : c < w.length
  · have hc' : w[c]? = some ec := by rw [List.getElem?_append_left hcl] at hc; exact hc
    exact hg a b c ea eb ec hab hbc ha' hb' hc' hk
  · have hce : c = w.length := by omega
    subst hce
    have hec : ec = e0 := by
      rw [List.getElem?_append_right (Nat.le_refl _)] at hc
      simpa using hc.symm
    subst hec
    have hna : n ≤ a := (hs a ea ha').mpr hk
    have : eb.key = ec.key := (hs b eb hb').mp (by omega)
    rw [this, hk]

/-! ### the invariant (channel lock on) -/

structure Inv (s : St σ) : Prop where
  held : ∀ (i : Nat) (c : Caller), s.callers[i]? = some c → c.cur.isSome = true → s.lock = some i
  holder : ∀ (i : Nat), s.lock = some i → ∃ c : Caller, s.callers[i]? = some c ∧ c.cur.isSome = true
  curne : ∀ (i : Nat) (c : Caller), s.callers[i]? = some c → c.cur ≠ some []
  fresh : ∀ e ∈ s.world.wire, ∃ c : Caller, s.callers[e.caller]? = some c ∧
    (e.op < c.pc ∨ (e.op = c.pc ∧ c.cur.isSome = true))
  suffix : ∀ (i : Nat) (c : Caller), s.callers[i]? = some c → c.cur.isSome = true →
    ∃ n : Nat, n ≤ s.world.wire.length ∧ ∀ (j : Nat) (e : Ev), s.world.wire[j]? = some e → (n ≤ j ↔ e.key = (i, c.pc))
  nogap : NoGap s.world.wire

theorem inv_init (D : Dev σ) (progs : List Prog) : Inv (init D progs) := by
  refine ⟨?_, ?_, ?_, ?_, ?_, ?_⟩
  · intro i c hc h
    simp [init, List.getElem?_map] at hc
    rcases hc with ⟨_, _, rfl⟩
    simp at h
  · intro i h; simp [init] at h
  · intro i c hc
    simp [init, List.getElem?_map] at hc
    rcases hc with ⟨_, _, rfl⟩
    simp
  · intro e he; simp [init] at he
  · intro i c hc h
    simp [init, List.getElem?_map] at hc
    rcases hc with ⟨_, _, rfl⟩
    simp at h
  · intro a b c ea eb ec _ _ ha; simp [init] at ha

/-- enter-and-leave of an operation without transport calls -/
theorem inv_empty {s : St σ} (h : Inv s) {i : Nat} {c : Caller} (hc : s.callers[i]? = some c)
    (hcur : c.cur = none) (hfree : s.lock = none) : Inv (finishOp s s.world i c ⟨true, []⟩) := by
  refine ⟨?_, ?_, ?_, ?_, ?_, ?_⟩
  · intro j cj hj hs
    simp only [finishOp, lookup_set hc] at hj
    split at hj
    · cases hj; simp at hs
    · have := h.held j cj hj hs; rw [hfree] at this; cases this
  · intro j hj; simp [finishOp] at hj
  · intro j cj hj
    simp only [finishOp, lookup_set hc] at hj
    split at hj
    · cases hj; simp
    · exact h.curne j cj hj
  · intro e he
    obtain ⟨c0, hc0, hlt⟩ := h.fresh e he
    simp only [finishOp, lookup_set hc]
    by_cases hei : e.caller = i
    · rw [hei] at hc0; rw [hc] at hc0; cases hc0
      refine ⟨{ pc := c.pc + 1, cur := none, reads := [] }, by simp [hei], ?_⟩
      rcases hlt with hlt | ⟨_, hs⟩
      · left; simp; omega
      · rw [hcur] at hs; simp at hs
    · exact ⟨c0, by simp [hei, hc0], hlt⟩
  · intro j cj hj hs
    simp only [finishOp, lookup_set hc] at hj
    split at hj
    · cases hj; simp at hs
    · exact h.suffix j cj hj hs
  · exact h.nogap

theorem inv_enter {s : St σ} (h : Inv s) {i : Nat} {c : Caller} {st : Step} {rest : List Step}
    (hc : s.callers[i]? = some c) (hcur : c.cur = none) (hfree : s.lock = none) :
    Inv (acqSt true s i c (st :: rest)) := by
  refine ⟨?_, ?_, ?_, ?_, ?_, ?_⟩
  · intro j cj hj hs
    simp only [acqSt, lookup_set hc] at hj
    split at hj
    · rename_i hji; simp [acqSt, hji]
    · have := h.held j cj hj hs; rw [hfree] at this; cases this
  · intro j hj
    simp only [acqSt, if_true] at hj
    cases hj
    exact ⟨{ c with cur := some (st :: rest), reads := [] }, by simp [acqSt, lookup_set hc], by simp⟩
  · intro j cj hj
    simp only [acqSt, lookup_set hc] at hj
    split at hj
    · cases hj; simp
    · exact h.curne j cj hj
  · intro e he
    obtain ⟨c0, hc0, hlt⟩ := h.fresh e he
    simp only [acqSt, lookup_set hc]
    by_cases hei : e.caller = i
    · rw [hei] at hc0; rw [hc] at hc0; cases hc0
      refine ⟨{ c with cur := some (st :: rest), reads := [] }, by simp [hei], ?_⟩
      rcases hlt with hlt | ⟨_, hs⟩
      · left; exact hlt
      · rw [hcur] at hs; simp at hs
    · exact ⟨c0, by simp [hei, hc0], hlt⟩
  · intro j cj hj hs
    simp only [acqSt, lookup_set hc] at hj
    split at hj
    · cases hj
      rename_i hji
      subst hji
      refine ⟨s.world.wire.length, Nat.le_refl _, ?_⟩
      intro idx e he
      have hidx : idx < s.world.wire.length := (List.getElem?_eq_some_iff.mp he).1
      constructor
      · intro hle; omega
      · intro hk
        exfalso
        have hmem : e ∈ s.world.wire := List.mem_of_getElem? he
        obtain ⟨c0, hc0, hlt⟩ := h.fresh e hmem
        have h1 : e.caller = j := by have := congrArg Prod.fst hk; simpa [Ev.key] using this
        have h2 : e.op = c.pc := by have := congrArg Prod.snd hk; simpa [Ev.key] using this
        rw [h1, hc] at hc0; cases hc0
        rcases hlt with hlt | ⟨_, hs'⟩
        · omega
        · rw [hcur] at hs'; simp at hs'
    · have := h.held j cj hj hs; rw [hfree] at this; cases this
  · exact h.nogap

end Scrapli.Lock

namespace Scrapli.Lock
variable {σ : Type}

theorem nogap_step {s : St σ} (h : Inv s) {i : Nat} {c : Caller} (hc : s.callers[i]? = some c)
    (hs : c.cur.isSome = true) {e0 : Ev} (hk : e0.key = (i, c.pc)) : NoGap (s.world.wire ++ [e0]) := by
  obtain ⟨n, _, hn⟩ := h.suffix i c hc hs
  exact nogap_snoc _ e0 n (by intro j e he; rw [hk]; exact hn j e he) h.nogap

theorem ev_key_eq {e : Ev} {i k : Nat} (hk : e.key = (i, k)) : e.caller = i ∧ e.op = k := by
  have h1 := congrArg Prod.fst hk
  have h2 := congrArg Prod.snd hk
  exact ⟨by simpa [Ev.key] using h1, by simpa [Ev.key] using h2⟩

/-- the holder's operation ends (last call done, or a call raised) -/
theorem inv_finish {s : St σ} (h : Inv s) {i : Nat} {c : Caller} (hc : s.callers[i]? = some c)
    (hs : c.cur.isSome = true) {w' : World σ} {e0 : Ev} (hw : w'.wire = s.world.wire ++ [e0])
    (hk : e0.key = (i, c.pc)) (o : Outcome) : Inv (finishOp s w' i c o) := by
  have hlock : s.lock = some i := h.held i c hc hs
  obtain ⟨hk1, hk2⟩ := ev_key_eq hk
  refine ⟨?_, ?_, ?_, ?_, ?_, ?_⟩
  · intro j cj hj hsj
    simp only [finishOp, lookup_set hc] at hj
    split at hj
    · cases hj; simp at hsj
    · rename_i hji
      have := h.held j cj hj hsj; rw [hlock] at this; cases this; exact absurd rfl hji
  · intro j hj; simp [finishOp] at hj
  · intro j cj hj
    simp only [finishOp, lookup_set hc] at hj
    split at hj
    · cases hj; simp
    · exact h.curne j cj hj
  · intro e he
    simp only [finishOp, hw, List.mem_append, List.mem_singleton] at he
    simp only [finishOp, lookup_set hc]
    rcases he with he | rfl
    · obtain ⟨c0, hc0, hlt⟩ := h.fresh e he
      by_cases hei : e.caller = i
      · rw [hei] at hc0; rw [hc] at hc0; cases hc0
        refine ⟨{ pc := c.pc + 1, cur := none, reads := [] }, by simp [hei], ?_⟩
        left; simp; omega
      · exact ⟨c0, by simp [hei, hc0], hlt⟩
    · refine ⟨{ pc := c.pc + 1, cur := none, reads := [] }, by simp [hk1], ?_⟩
      left; simp; omega
  · intro j cj hj hsj
    simp only [finishOp, lookup_set hc] at hj
    split at hj
    · cases hj; simp at hsj
    · rename_i hji
      have := h.held j cj hj hsj; rw [hlock] at this; cases this; exact absurd rfl hji
  · simp only [finishOp, hw]
    exact nogap_step h hc hs hk

/-- the holder made one more transport call and stays inside the `with` block -/
theorem inv_cont {s : St σ} (h : Inv s) {i : Nat} {c : Caller} (hc : s.callers[i]? = some c)
    (hs : c.cur.isSome = true) {w' : World σ} {e0 : Ev} (hw : w'.wire = s.world.wire ++ [e0])
    (hk : e0.key = (i, c.pc)) {rest : List Step} (hne : rest ≠ []) (reads : List Bytes) :
    Inv (contSt s w' i c rest reads) := by
  have hlock : s.lock = some i := h.held i c hc hs
  obtain ⟨hk1, hk2⟩ := ev_key_eq hk
  refine ⟨?_, ?_, ?_, ?_, ?_, ?_⟩
  · intro j cj hj hsj
    simp only [contSt, lookup_set hc] at hj
    split at hj
    · rename_i hji; simp [contSt, hlock, hji]
    · exact h.held j cj hj hsj
  · intro j hj
    simp only [contSt] at hj
    rw [hlock] at hj; cases hj
    exact ⟨{ c with cur := some rest, reads := reads }, by simp [contSt, lookup_set hc], by simp⟩
  · intro j cj hj
    simp only [contSt, lookup_set hc] at hj
    split at hj
    · cases hj; simpa using hne
    · exact h.curne j cj hj
  · intro e he
    simp only [contSt, hw, List.mem_append, List.mem_singleton] at he
    simp only [contSt, lookup_set hc]
    rcases he with he | rfl
    · obtain ⟨c0, hc0, hlt⟩ := h.fresh e he
      by_cases hei : e.caller = i
      · rw [hei] at hc0; rw [hc] at hc0; cases hc0
        refine ⟨{ c with cur := some rest, reads := reads }, by simp [hei], ?_⟩
        rcases hlt with hlt | ⟨hlt, _⟩
        · left; exact hlt
        · right; exact ⟨hlt, by simp⟩
      · exact ⟨c0, by simp [hei, hc0], hlt⟩
    · refine ⟨{ c with cur := some rest, reads := reads }, by simp [hk1], ?_⟩
      right; exact ⟨hk2, by simp⟩
  · intro j cj hj hsj
    simp only [contSt, lookup_set hc] at hj
    split at hj
    · cases hj
      rename_i hji
      subst hji
      obtain ⟨n, hnl, hn⟩ := h.suffix j c hc hs
      refine ⟨n, by simp [contSt, hw]; omega, ?_⟩
      intro idx e he
      simp only [contSt, hw] at he
      by_cases hidx : idx < s.world.wire.length
      · rw [List.getElem?_append_left hidx] at he
        exact hn idx e he
      · have hlt : idx < s.world.wire.length + 1 := by
          have := (List.getElem?_eq_some_iff.mp he).1
          simpa using this
        have hie : idx = s.world.wire.length := by omega
        subst hie
        rw [List.getElem?_append_right (Nat.le_refl _)] at he
        have : e = e0 := by simpa using he.symm
        subst this
        constructor
        · intro _; exact hk
        · intro _; exact hnl
    · rename_i hji
      have := h.held j cj hj hsj; rw [hlock] at this; cases this; exact absurd rfl hji
  · simp only [contSt, hw]
    exact nogap_step h hc hs hk

/-- **the invariant is preserved by every step** (channel lock on) -/
theorem inv_step (D : Dev σ) (progs : List Prog) {s : St σ} (h : Inv s) (i : Nat) :
    Inv (step true D progs s i) := by
  have hcase := step_cases true D progs s i
  generalize step true D progs s i = s' at hcase
  cases hcase with
  | skip => exact h
  | empty c hc hcur hop hfree => exact inv_empty h hc hcur (hfree rfl)
  | enter c st rest hc hcur hop hfree => exact inv_enter h hc hcur (hfree rfl)
  | fail c st rest hc hcur hf =>
    obtain ⟨e0, hk, hw⟩ := perform_wire D s.world i c.pc st
    exact inv_finish h hc (by simp [hcur]) hw hk _
  | last c st hc hcur hf =>
    obtain ⟨e0, hk, hw⟩ := perform_wire D s.world i c.pc st
    exact inv_finish h hc (by simp [hcur]) hw hk _
  | cont c st rest hc hcur hf hne =>
    obtain ⟨e0, hk, hw⟩ := perform_wire D s.world i c.pc st
    exact inv_cont h hc (by simp [hcur]) hw hk hne _

theorem inv_foldl (D : Dev σ) (progs : List Prog) (sched : List Nat) : ∀ (s : St σ), Inv s →
    Inv (sched.foldl (step true D progs) s) := by
  induction sched with
  | nil => intro s h; exact h
  | cons i rest ih => intro s h; exact ih _ (inv_step D progs h i)

theorem inv_run (D : Dev σ) (progs : List Prog) (sched : List Nat) : Inv (run true D progs sched) :=
  inv_foldl D progs sched _ (inv_init D progs)

end Scrapli.Lock

namespace Scrapli.Lock
variable {σ : Type}

/-! ### serial equivalence: the concurrent run is the one-at-a-time run in finishing order -/

/-- the state of wire/device and the outcome log once the operation in progress (if any) has been
    run to its end without anybody else in between -/
def complete (D : Dev σ) (s : St σ) : World σ × List ((Nat × Nat) × Outcome) :=
  match s.lock with
  | none => (s.world, s.finished)
  | some i => match s.callers[i]? with
    | none => (s.world, s.finished)
    | some c =>
      let r := runOp D s.world i c.pc (c.cur.getD []) c.reads
      (r.1, s.finished ++ [((i, c.pc), r.2)])

/-- finished operations in finishing order, then the one holding the lock -/
def orderOf (s : St σ) : List (Nat × Nat) :=
  s.finished.map (·.1) ++
    (match s.lock with
     | none => []
     | some i => match s.callers[i]? with
       | none => []
       | some c => [(i, c.pc)])

theorem serial_snoc (D : Dev σ) (progs : List Prog) (order : List (Nat × Nat)) (k : Nat × Nat) :
    serial D progs (order ++ [k]) = serialStep D progs (serial D progs order) k := by
  simp [serial, List.foldl_append]

def SInv (D : Dev σ) (progs : List Prog) (s : St σ) : Prop :=
  serial D progs (orderOf s) = complete D s

theorem sinv_init (D : Dev σ) (progs : List Prog) : SInv D progs (init D progs) := by
  simp [SInv, orderOf, complete, init, serial]

theorem sinv_step (D : Dev σ) (progs : List Prog) {s : St σ} (h : Inv s) (hs : SInv D progs s) (i : Nat) :
    SInv D progs (step true D progs s i) := by
  have hcase := step_cases true D progs s i
  generalize step true D progs s i = s' at hcase
  unfold SInv at hs ⊢
  cases hcase with
  | skip => exact hs
  | empty c hc hcur hop hfree =>
    have hfree := hfree rfl
    simp only [orderOf, complete, hfree, List.append_nil] at hs
    simp only [orderOf, complete, finishOp, List.append_nil, List.map_append, List.map_cons, List.map_nil]
    rw [serial_snoc, hs]
    simp [serialStep, hop, runOp]
  | enter c st rest hc hcur hop hfree =>
    have hfree := hfree rfl
    simp only [orderOf, complete, hfree, List.append_nil] at hs
    simp only [orderOf, complete, acqSt, if_true, lookup_set hc]
    rw [serial_snoc, hs]
    simp [serialStep, hop]
  | fail c st rest hc hcur hf =>
    have hlock : s.lock = some i := h.held i c hc (by simp [hcur])
    simp only [orderOf, complete, hlock, hc, hcur, Option.getD_some] at hs
    simp only [orderOf, complete, finishOp, List.append_nil, List.map_append, List.map_cons, List.map_nil]
    rw [hs]
    simp [runOp, hf]
  | last c st hc hcur hf =>
    have hlock : s.lock = some i := h.held i c hc (by simp [hcur])
    simp only [orderOf, complete, hlock, hc, hcur, Option.getD_some] at hs
    simp only [orderOf, complete, finishOp, List.append_nil, List.map_append, List.map_cons, List.map_nil]
    rw [hs]
    simp [runOp, hf]
  | cont c st rest hc hcur hf hne =>
    have hlock : s.lock = some i := h.held i c hc (by simp [hcur])
    simp only [orderOf, complete, hlock, hc, hcur, Option.getD_some] at hs
    simp only [orderOf, complete, contSt, hlock, lookup_set hc, if_true, Option.getD_some]
    rw [hs]
    simp [runOp, hf]

theorem sinv_foldl (D : Dev σ) (progs : List Prog) (sched : List Nat) : ∀ (s : St σ), Inv s → SInv D progs s →
    SInv D progs (sched.foldl (step true D progs) s) := by
  induction sched with
  | nil => intro s _ h; exact h
  | cons i rest ih => intro s h hs; exact ih _ (inv_step D progs h i) (sinv_step D progs h hs i)

theorem sinv_run (D : Dev σ) (progs : List Prog) (sched : List Nat) : SInv D progs (run true D progs sched) :=
  sinv_foldl D progs sched _ (inv_init D progs) (sinv_init D progs)

end Scrapli.Lock

namespace Scrapli.Lock
variable {σ : Type}

/-! ### what a causal device answers to a list of writes; operations that read everything they caused -/

/-- the device fed with writes one after the other: final state and everything it emitted -/
def feed (D : Dev σ) (d : σ) : List Bytes → σ × Bytes
  | [] => (d, [])
  | b :: ws =>
    let r := D.onWrite d b
    let r2 := feed D r.1 ws
    (r2.1, r.2 ++ r2.2)

def writesOf (op : Op) : List Bytes :=
  op.filterMap (fun st => match st.act with | .write b => some b | .read => none)

/-- no call raises, and the operation's last transport call is a read (it reads up to its prompt) -/
def Drains (op : Op) : Prop :=
  (∀ st ∈ op, st.fails = false) ∧ (op = [] ∨ ∃ pre f, op = pre ++ [⟨.read, f⟩])

def opOf (progs : List Prog) (key : Nat × Nat) : Op := (opAt progs key.1 key.2).getD []

/-- device state after the complete writes of the operations `order`, one operation after the other -/
def devAfter (D : Dev σ) (progs : List Prog) (order : List (Nat × Nat)) : σ :=
  (feed D D.init (order.flatMap (fun k => writesOf (opOf progs k)))).1

theorem feed_append_fst (D : Dev σ) (a b : List Bytes) : ∀ d, (feed D d (a ++ b)).1 = (feed D (feed D d a).1 b).1 := by
  induction a with
  | nil => intro d; rfl
  | cons x a ih => intro d; simp [feed, ih]

theorem perform_closed (D : Dev σ) (w : World σ) (i k : Nat) (st : Step) : (perform D w i k st).1.closed = w.closed := by
  unfold perform
  split
  · rfl
  · split <;> rfl

/-- conservation: what an operation read plus what is still buffered = what was there plus what the
    device answered to the operation's own writes (transport open, no call raises) -/
theorem runOp_conserve (D : Dev σ) (i k : Nat) (op : List Step) (hf : ∀ st ∈ op, st.fails = false) :
    ∀ (w : World σ) (reads : List Bytes), w.closed = false →
      (runOp D w i k op reads).2.ok = true ∧
      (runOp D w i k op reads).1.dev = (feed D w.dev (writesOf op)).1 ∧
      (runOp D w i k op reads).1.closed = false ∧
      (runOp D w i k op reads).2.reads.flatten ++ (runOp D w i k op reads).1.buf
        = reads.flatten ++ w.buf ++ (feed D w.dev (writesOf op)).2 := by
  induction op with
  | nil => intro w reads hcl; simp [runOp, writesOf, feed, hcl]
  | cons st rest ih =>
    intro w reads hcl
    have hst : st.fails = false := hf st (by simp)
    have hrest : ∀ st ∈ rest, st.fails = false := fun x hx => hf x (by simp [hx])
    rcases st with ⟨act, fails⟩
    simp only at hst
    subst hst
    cases act with
    | write b =>
      have := ih hrest { w with dev := (D.onWrite w.dev b).1, buf := w.buf ++ (D.onWrite w.dev b).2,
                                wire := w.wire ++ [⟨i, k, .write b, false, (D.onWrite w.dev b).2⟩] } reads (by simpa using hcl)
      have hr : raises w ⟨.write b, false⟩ = false := by simp [raises, hcl]
      simp only [runOp, perform, hr, Bool.false_eq_true, if_false, List.append_nil, writesOf,
        List.filterMap_cons, feed]
      simp only [writesOf] at this
      refine ⟨this.1, this.2.1, this.2.2.1, ?_⟩
      rw [this.2.2.2]; simp [List.append_assoc]
    | read =>
      have := ih hrest { w with buf := [], wire := w.wire ++ [⟨i, k, .read, false, w.buf⟩] } (reads ++ [w.buf]) (by simpa using hcl)
      have hr : raises w ⟨.read, false⟩ = false := by simp [raises, hcl]
      simp only [runOp, perform, hr, Bool.false_eq_true, if_false, writesOf, List.filterMap_cons]
      simp only [writesOf] at this
      refine ⟨this.1, this.2.1, this.2.2.1, ?_⟩
      rw [this.2.2.2]; simp [List.append_assoc]

/-- an operation whose last call is a (successful) read leaves nothing buffered -/
theorem runOp_buf_nil (D : Dev σ) (i k : Nat) (pre : List Step) (f : Bool) :
    ∀ (w : World σ) (reads : List Bytes), w.closed = false → (∀ st ∈ pre ++ [(⟨.read, f⟩ : Step)], st.fails = false) →
      (runOp D w i k (pre ++ [⟨.read, f⟩]) reads).1.buf = [] := by
  induction pre with
  | nil =>
    intro w reads hcl hf
    have : f = false := by simpa using hf ⟨.read, f⟩ (by simp)
    subst this
    simp [runOp, perform, raises, hcl]
  | cons st pre ih =>
    intro w reads hcl hf
    have hst : st.fails = false := hf st (by simp)
    have hrest : ∀ x ∈ pre ++ [(⟨.read, f⟩ : Step)], x.fails = false := fun x hx => hf x (List.mem_cons_of_mem _ hx)
    have hr : raises w st = false := by simp [raises, hst, hcl]
    simp only [List.cons_append, runOp, hr, Bool.false_eq_true, if_false]
    exact ih _ _ (by rw [perform_closed]; exact hcl) hrest

theorem runOp_drains (D : Dev σ) (i k : Nat) (op : List Step) (hd : Drains op) (w : World σ) (hb : w.buf = [])
    (hcl : w.closed = false) :
    (runOp D w i k op []).2.ok = true ∧
    (runOp D w i k op []).1.dev = (feed D w.dev (writesOf op)).1 ∧
    (runOp D w i k op []).1.buf = [] ∧
    (runOp D w i k op []).1.closed = false ∧
    (runOp D w i k op []).2.reads.flatten = (feed D w.dev (writesOf op)).2 := by
  obtain ⟨h1, h2, h2', h3⟩ := runOp_conserve D i k op hd.1 w [] hcl
  have hbuf : (runOp D w i k op []).1.buf = [] := by
    rcases hd.2 with rfl | ⟨pre, f, rfl⟩
    · simpa [runOp] using hb
    · exact runOp_buf_nil D i k pre f w [] hcl hd.1
  refine ⟨h1, h2, hbuf, h2', ?_⟩
  rw [hbuf, hb] at h3
  simpa using h3

/-- what `own_output` says about one entry of an outcome log: the operation returned normally and its
    reads, concatenated, are what the device answers to this operation's own writes when it has seen
    exactly the complete writes of the operations logged before -/
def OwnOutput (D : Dev σ) (progs : List Prog) (log : List ((Nat × Nat) × Outcome)) : Prop :=
  ∀ (j : Nat) (key : Nat × Nat) (o : Outcome), log[j]? = some (key, o) →
    o.ok = true ∧
    o.reads.flatten = (feed D (devAfter D progs ((log.take j).map (·.1))) (writesOf (opOf progs key))).2

/-- the facts carried along a one-at-a-time run of operations that all read to their end -/
def SerGood (D : Dev σ) (progs : List Prog) (a : World σ × List ((Nat × Nat) × Outcome)) (order : List (Nat × Nat)) : Prop :=
  a.1.buf = [] ∧ a.1.closed = false ∧ a.1.dev = devAfter D progs order ∧ a.2.map (·.1) = order ∧ OwnOutput D progs a.2

theorem serGood_step (D : Dev σ) (progs : List Prog)
    (a : World σ × List ((Nat × Nat) × Outcome)) (order : List (Nat × Nat)) (k : Nat × Nat) (hk : Drains (opOf progs k))
    (ih : SerGood D progs a order) : SerGood D progs (serialStep D progs a k) (order ++ [k]) := by
  obtain ⟨ih1, ihc, ih2, ih3, ih4⟩ := ih
  obtain ⟨r1, r2, r3, rc, r4⟩ := runOp_drains D k.1 k.2 (opOf progs k) hk a.1 ih1 ihc
  have hlen : a.2.length = order.length := by rw [← ih3]; simp
  refine ⟨r3, rc, ?_, ?_, ?_⟩
  · show (runOp D a.1 k.1 k.2 (opOf progs k) []).1.dev = _
    rw [r2, ih2]
    simp [devAfter, List.flatMap_append, feed_append_fst]
  · simp [serialStep, ih3]
  · intro j key o hj
    simp only [serialStep] at hj
    by_cases hjl : j < a.2.length
    · rw [List.getElem?_append_left hjl] at hj
      have := ih4 j key o hj
      simp only [serialStep]
      rw [List.take_append_of_le_length (by omega)]
      exact this
    · have hlt : j < a.2.length + 1 := by
        have := (List.getElem?_eq_some_iff.mp hj).1
        simpa using this
      have hje : j = a.2.length := by omega
      subst hje
      rw [List.getElem?_append_right (Nat.le_refl _)] at hj
      simp only [Nat.sub_self, List.getElem?_cons_zero, Option.some.injEq, Prod.mk.injEq] at hj
      obtain ⟨rfl, rfl⟩ := hj
      simp only [serialStep]
      rw [List.take_append_of_le_length (Nat.le_refl _), List.take_length, ih3]
      refine ⟨r1, ?_⟩
      show (runOp D a.1 k.1 k.2 (opOf progs k) []).2.reads.flatten = _
      rw [r4, ih2]

theorem serGood_foldl (D : Dev σ) (progs : List Prog)
    (rest : List (Nat × Nat)) : ∀ (a : World σ × List ((Nat × Nat) × Outcome)) (order : List (Nat × Nat)),
    (∀ key ∈ rest, Drains (opOf progs key)) →
    SerGood D progs a order → SerGood D progs (rest.foldl (serialStep D progs) a) (order ++ rest) := by
  induction rest with
  | nil => intro a order _ h; simpa using h
  | cons k rest ih =>
    intro a order hclean h
    have := ih _ _ (fun key hkey => hclean key (by simp [hkey])) (serGood_step D progs a order k (hclean k (by simp)) h)
    simpa [List.append_assoc] using this

/-- one-at-a-time run of operations that all read to their end: every one gets exactly its own output -/
theorem serial_own (D : Dev σ) (progs : List Prog) (order : List (Nat × Nat))
    (hclean : ∀ key ∈ order, Drains (opOf progs key)) :
    SerGood D progs (serial D progs order) order := by
  have h0 : SerGood D progs (({ dev := D.init } : World σ), []) [] := by
    refine ⟨rfl, rfl, ?_, rfl, ?_⟩
    · simp [devAfter, feed]
    · intro j key o hj; simp at hj
  simpa [serial] using serGood_foldl D progs order _ _ hclean h0

/-- the log of a one-at-a-time run grows by one entry per operation -/
theorem serial_foldl_log (D : Dev σ) (progs : List Prog) (b : List (Nat × Nat)) :
    ∀ (acc : World σ × List ((Nat × Nat) × Outcome)),
      ∃ t, (b.foldl (serialStep D progs) acc).2 = acc.2 ++ t ∧ t.map (·.1) = b := by
  induction b with
  | nil => intro acc; exact ⟨[], by simp, rfl⟩
  | cons k b ih =>
    intro acc
    obtain ⟨t, ht, hk⟩ := ih (serialStep D progs acc k)
    refine ⟨(k, (runOp D acc.1 k.1 k.2 ((opAt progs k.1 k.2).getD []) []).2) :: t, ?_, ?_⟩
    · simp only [List.foldl_cons]; rw [ht]; simp [serialStep]
    · simp [hk]

theorem serial_log_keys (D : Dev σ) (progs : List Prog) (order : List (Nat × Nat)) :
    (serial D progs order).2.map (·.1) = order := by
  obtain ⟨t, ht, hk⟩ := serial_foldl_log D progs order (({ dev := D.init } : World σ), [])
  unfold serial; rw [ht]; simpa using hk

/-- the log of a one-at-a-time run of `a ++ b` starts with the log of the run of `a` -/
theorem serial_log_prefix (D : Dev σ) (progs : List Prog) (a b : List (Nat × Nat)) :
    ((serial D progs (a ++ b)).2).take a.length = (serial D progs a).2 := by
  have hl : (serial D progs a).2.length = a.length := by
    have := congrArg List.length (serial_log_keys D progs a); simpa using this
  obtain ⟨t, ht, _⟩ := serial_foldl_log D progs b (serial D progs a)
  have : serial D progs (a ++ b) = b.foldl (serialStep D progs) (serial D progs a) := by
    simp [serial, List.foldl_append]
  rw [this, ht, ← hl]
  simp

theorem complete_log (D : Dev σ) (s : St σ) : ∃ t, (complete D s).2 = s.finished ++ t := by
  unfold complete
  split
  · exact ⟨[], by simp⟩
  · split
    · exact ⟨[], by simp⟩
    · exact ⟨_, rfl⟩

theorem orderOf_split (s : St σ) : ∃ t, orderOf s = s.finished.map (·.1) ++ t := ⟨_, rfl⟩

/-- if the first `n` finished operations all read to their end, each of them got exactly its own output
    (whatever fails later) — from the serial-equivalence invariant alone -/
theorem ownOutput_take_of_sinv (D : Dev σ) (progs : List Prog) (s : St σ) (hs : SInv D progs s) (n : Nat)
    (hpre : ∀ e ∈ s.finished.take n, Drains (opOf progs e.1)) : OwnOutput D progs (s.finished.take n) := by
  obtain ⟨t, ht⟩ := complete_log D s
  obtain ⟨u, hu⟩ := orderOf_split s
  have hsplit : orderOf s = (s.finished.take n).map (·.1) ++ ((s.finished.drop n).map (·.1) ++ u) := by
    rw [hu, ← List.append_assoc, ← List.map_append, List.take_append_drop]
  have hlog := serial_log_prefix D progs ((s.finished.take n).map (·.1)) ((s.finished.drop n).map (·.1) ++ u)
  rw [← hsplit, hs, ht] at hlog
  have hlen : ((s.finished.take n).map (·.1)).length ≤ s.finished.length := by simp; omega
  rw [List.take_append_of_le_length hlen] at hlog
  have htake : s.finished.take ((s.finished.take n).map (·.1)).length = s.finished.take n := by
    simp only [List.length_map, List.length_take]
    rcases Nat.le_total n s.finished.length with h | h
    · rw [Nat.min_eq_left h]
    · rw [Nat.min_eq_right h, List.take_of_length_le (Nat.le_refl _), List.take_of_length_le h]
  rw [htake] at hlog
  have hown := (serial_own D progs ((s.finished.take n).map (·.1)) (by
    intro key hkey
    obtain ⟨e, he, rfl⟩ := List.mem_map.mp hkey
    exact hpre e he)).2.2.2.2
  rw [← hlog] at hown
  exact hown

theorem ownOutput_prefix (D : Dev σ) (progs : List Prog) (a b : List ((Nat × Nat) × Outcome))
    (h : OwnOutput D progs (a ++ b)) : OwnOutput D progs a := by
  intro j key o hj
  have hjl : j < a.length := (List.getElem?_eq_some_iff.mp hj).1
  have := h j key o (by rw [List.getElem?_append_left hjl]; exact hj)
  rw [List.take_append_of_le_length (by omega)] at this
  exact this

/-! ### bookkeeping: the finished log lists each caller's operations 0 … pc-1 in order -/

def OrderValid (s : St σ) : Prop :=
  ∀ (i : Nat) (c : Caller), s.callers[i]? = some c →
    (s.finished.map (·.1)).filter (fun k => k.1 == i) = (List.range c.pc).map (fun k => (i, k))

theorem ov_init (D : Dev σ) (progs : List Prog) : OrderValid (init D progs) := by
  intro i c hc
  simp [init, List.getElem?_map] at hc
  rcases hc with ⟨_, _, rfl⟩
  simp [init]

theorem ov_finish {s : St σ} (h : OrderValid s) {i : Nat} {c : Caller} (hc : s.callers[i]? = some c)
    (w : World σ) (o : Outcome) : OrderValid (finishOp s w i c o) := by
  intro j cj hj
  simp only [finishOp, lookup_set hc] at hj
  simp only [finishOp, List.map_append, List.filter_append, List.map_cons, List.map_nil]
  split at hj
  · cases hj
    rename_i hji
    subst hji
    rw [h j c hc]
    simp [List.range_succ]
  · rename_i hji
    rw [h j cj hj]
    have : (i == j) = false := by simpa using fun e => hji e.symm
    simp [this]

theorem ov_step (D : Dev σ) (progs : List Prog) {s : St σ} (h : OrderValid s) (i : Nat) :
    OrderValid (step true D progs s i) := by
  have hcase := step_cases true D progs s i
  generalize step true D progs s i = s' at hcase
  cases hcase with
  | skip => exact h
  | empty c hc hcur hop hfree => exact ov_finish h hc _ _
  | fail c st rest hc hcur hf => exact ov_finish h hc _ _
  | last c st hc hcur hf => exact ov_finish h hc _ _
  | enter c st rest hc hcur hop hfree =>
    intro j cj hj
    simp only [acqSt, lookup_set hc] at hj
    split at hj
    · cases hj; rename_i hji; subst hji; exact h j c hc
    · exact h j cj hj
  | cont c st rest hc hcur hf hne =>
    intro j cj hj
    simp only [contSt, lookup_set hc] at hj
    split at hj
    · cases hj; rename_i hji; subst hji; exact h j c hc
    · exact h j cj hj

theorem ov_run (D : Dev σ) (progs : List Prog) (sched : List Nat) : OrderValid (run true D progs sched) := by
  unfold run
  generalize init D progs = s0, ov_init D progs = h0
  induction sched generalizing s0 with
  | nil => exact h0
  | cons i rest ih => exact ih _ (ov_step D progs h0 i)

end Scrapli.Lock

namespace Scrapli.Lock
variable {σ : Type}

/-! ### progress: a measure that every effective step decreases -/

def opCost (op : Op) : Nat := op.length + 1

/-- scheduler steps caller still needs: one per lock entry, one per transport call -/
def callerCost (p : Prog) (c : Caller) : Nat :=
  match c.cur with
  | none => ((p.drop c.pc).map opCost).sum
  | some rest => rest.length + ((p.drop (c.pc + 1)).map opCost).sum

def costFrom : List Prog → List Caller → Nat
  | p :: ps, c :: cs => callerCost p c + costFrom ps cs
  | _, _ => 0

def cost (progs : List Prog) (s : St σ) : Nat := costFrom progs s.callers

/-- number of scheduler steps the programs need when nothing fails -/
def totalSteps (progs : List Prog) : Nat := (progs.map (fun p => (p.map opCost).sum)).sum

theorem costFrom_set (progs : List Prog) : ∀ (cs : List Caller) (i : Nat) (p : Prog) (c c' : Caller),
    progs[i]? = some p → cs[i]? = some c →
    costFrom progs (cs.set i c') + callerCost p c = costFrom progs cs + callerCost p c' := by
  induction progs with
  | nil => intro cs i p c c' hp; simp at hp
  | cons q ps ih =>
    intro cs i p c c' hp hc
    cases cs with
    | nil => simp at hc
    | cons d ds =>
      cases i with
      | zero =>
        simp at hp hc; subst hp; subst hc
        simp [costFrom]; omega
      | succ i =>
        simp at hp hc
        have := ih ds i p c c' hp hc
        simp [costFrom]; omega

theorem cost_init (D : Dev σ) (progs : List Prog) : cost progs (init D progs) = totalSteps progs := by
  unfold cost init totalSteps
  simp only
  induction progs with
  | nil => rfl
  | cons p ps ih => simp [costFrom, callerCost, ih]

theorem opAt_some {progs : List Prog} {i k : Nat} {op : Op} (h : opAt progs i k = some op) :
    ∃ p, progs[i]? = some p ∧ p[k]? = some op := by
  unfold opAt at h
  cases hp : progs[i]? with
  | none => simp [hp] at h
  | some p => exact ⟨p, rfl, by simpa [hp] using h⟩

theorem drop_cost {p : Prog} {k : Nat} {op : Op} (h : p[k]? = some op) :
    ((p.drop k).map opCost).sum = opCost op + ((p.drop (k + 1)).map opCost).sum := by
  have hk : k < p.length := (List.getElem?_eq_some_iff.mp h).1
  have he : p[k] = op := (List.getElem?_eq_some_iff.mp h).2
  rw [List.drop_eq_getElem_cons hk, he]
  simp

/-- a step either changes nothing or strictly decreases the measure -/
theorem cost_step (locking : Bool) (D : Dev σ) (progs : List Prog) (s : St σ) (hlen : s.callers.length = progs.length) (i : Nat) :
    step locking D progs s i = s ∨ cost progs (step locking D progs s i) < cost progs s := by
  have hcase := step_cases locking D progs s i
  generalize step locking D progs s i = s' at hcase
  have getp : ∀ c, s.callers[i]? = some c → ∃ p, progs[i]? = some p := by
    intro c hc
    have hi : i < s.callers.length := (List.getElem?_eq_some_iff.mp hc).1
    exact ⟨progs[i]'(by omega), by simp [List.getElem?_eq_getElem (by omega : i < progs.length)]⟩
  cases hcase with
  | skip => left; rfl
  | empty c hc hcur hop hfree =>
    right
    obtain ⟨p, hp, hk⟩ := opAt_some hop
    have := costFrom_set progs s.callers i p c { pc := c.pc + 1, cur := none, reads := [] } hp hc
    have h1 : callerCost p c = opCost [] + ((p.drop (c.pc + 1)).map opCost).sum := by
      simp only [callerCost, hcur]; exact drop_cost hk
    have h2 : callerCost p { pc := c.pc + 1, cur := none, reads := [] } = ((p.drop (c.pc + 1)).map opCost).sum := by
      simp [callerCost]
    simp only [cost, finishOp]
    simp only [opCost, List.length_nil] at h1
    omega
  | enter c st rest hc hcur hop hfree =>
    right
    obtain ⟨p, hp, hk⟩ := opAt_some hop
    have := costFrom_set progs s.callers i p c { c with cur := some (st :: rest), reads := [] } hp hc
    have h1 : callerCost p c = opCost (st :: rest) + ((p.drop (c.pc + 1)).map opCost).sum := by
      simp only [callerCost, hcur]; exact drop_cost hk
    have h2 : callerCost p { c with cur := some (st :: rest), reads := [] }
        = (st :: rest).length + ((p.drop (c.pc + 1)).map opCost).sum := by
      simp [callerCost]
    simp only [cost, acqSt]
    simp only [opCost, List.length_cons] at h1 h2
    omega
  | fail c st rest hc hcur hf =>
    right
    obtain ⟨p, hp⟩ := getp c hc
    have := costFrom_set progs s.callers i p c { pc := c.pc + 1, cur := none, reads := [] } hp hc
    have h1 : callerCost p c = (st :: rest).length + ((p.drop (c.pc + 1)).map opCost).sum := by
      simp only [callerCost, hcur]
    have h2 : callerCost p { pc := c.pc + 1, cur := none, reads := [] } = ((p.drop (c.pc + 1)).map opCost).sum := by
      simp [callerCost]
    simp only [cost, finishOp]
    simp only [List.length_cons] at h1
    omega
  | last c st hc hcur hf =>
    right
    obtain ⟨p, hp⟩ := getp c hc
    have := costFrom_set progs s.callers i p c { pc := c.pc + 1, cur := none, reads := [] } hp hc
    have h1 : callerCost p c = [st].length + ((p.drop (c.pc + 1)).map opCost).sum := by
      simp only [callerCost, hcur]
    have h2 : callerCost p { pc := c.pc + 1, cur := none, reads := [] } = ((p.drop (c.pc + 1)).map opCost).sum := by
      simp [callerCost]
    simp only [cost, finishOp]
    simp only [List.length_cons, List.length_nil] at h1
    omega
  | cont c st rest hc hcur hf hne =>
    right
    obtain ⟨p, hp⟩ := getp c hc
    have := costFrom_set progs s.callers i p c
      { c with cur := some rest, reads := c.reads ++ (perform D s.world i c.pc st).2 } hp hc
    have h1 : callerCost p c = (st :: rest).length + ((p.drop (c.pc + 1)).map opCost).sum := by
      simp only [callerCost, hcur]
    have h2 : callerCost p { c with cur := some rest, reads := c.reads ++ (perform D s.world i c.pc st).2 }
        = rest.length + ((p.drop (c.pc + 1)).map opCost).sum := by
      simp [callerCost]
    simp only [cost, contSt]
    simp only [List.length_cons] at h1
    omega

theorem step_len (locking : Bool) (D : Dev σ) (progs : List Prog) (s : St σ) (i : Nat) :
    (step locking D progs s i).callers.length = s.callers.length := by
  have hcase := step_cases locking D progs s i
  generalize step locking D progs s i = s' at hcase
  cases hcase <;> simp [finishOp, acqSt, contSt]

theorem foldl_len (locking : Bool) (D : Dev σ) (progs : List Prog) (l : List Nat) : ∀ (s : St σ),
    (l.foldl (step locking D progs) s).callers.length = s.callers.length := by
  induction l with
  | nil => intro s; rfl
  | cons i l ih => intro s; simp only [List.foldl_cons]; rw [ih, step_len]

/-- along any list of steps the measure does not grow, and if it stays the same nothing happened:
    every scheduled caller was not enabled -/
theorem cost_foldl (locking : Bool) (D : Dev σ) (progs : List Prog) (l : List Nat) : ∀ (s : St σ),
    s.callers.length = progs.length →
    cost progs (l.foldl (step locking D progs) s) ≤ cost progs s ∧
    (cost progs (l.foldl (step locking D progs) s) = cost progs s →
      l.foldl (step locking D progs) s = s ∧ ∀ i ∈ l, step locking D progs s i = s) := by
  induction l with
  | nil => intro s _; simp
  | cons i l ih =>
    intro s hlen
    simp only [List.foldl_cons]
    have hlen' : (step locking D progs s i).callers.length = progs.length := by rw [step_len]; exact hlen
    obtain ⟨ih1, ih2⟩ := ih (step locking D progs s i) hlen'
    rcases cost_step locking D progs s hlen i with he | hlt
    · rw [he] at ih1 ih2 ⊢
      refine ⟨ih1, fun heq => ?_⟩
      obtain ⟨h1, h2⟩ := ih2 heq
      refine ⟨h1, ?_⟩
      intro j hj
      rcases List.mem_cons.mp hj with rfl | hj
      · exact he
      · exact h2 j hj
    · refine ⟨by omega, fun heq => ?_⟩
      omega

/-- every caller has run its whole program and nobody is inside an operation -/
def AllDone (progs : List Prog) (s : St σ) : Prop :=
  ∀ (i : Nat) (c : Caller), s.callers[i]? = some c → c.cur = none ∧ opAt progs i c.pc = none

/-- **no deadlock**: while something is left to do, some caller is enabled (its step changes the state) -/
theorem exists_enabled (D : Dev σ) (progs : List Prog) {s : St σ} (h : Inv s) (hlen : s.callers.length = progs.length)
    (hnd : ¬ AllDone progs s) : ∃ i, i < progs.length ∧ step true D progs s i ≠ s := by
  cases hl : s.lock with
  | some i =>
    obtain ⟨c, hc, hs⟩ := h.holder i hl
    have hi : i < s.callers.length := (List.getElem?_eq_some_iff.mp hc).1
    refine ⟨i, by omega, ?_⟩
    intro he
    cases hcur : c.cur with
    | none => simp [hcur] at hs
    | some l =>
      cases l with
      | nil => exact h.curne i c hc hcur
      | cons st rest =>
        have hlt : cost progs (step true D progs s i) < cost progs s := by
          rcases cost_step true D progs s hlen i with he' | hlt
          · exfalso
            unfold step at he'
            simp only [hc, hcur] at he'
            by_cases hf : raises s.world st = true
            · simp only [hf, if_true] at he'
              have := congrArg St.lock he'
              simp [finishOp, hl] at this
            · have hf' : raises s.world st = false := by simpa using hf
              simp only [hf', Bool.false_eq_true, if_false] at he'
              by_cases hr : rest.isEmpty = true
              · simp only [hr, if_true] at he'
                have := congrArg St.lock he'
                simp [finishOp, hl] at this
              · have hr' : rest.isEmpty = false := by simpa using hr
                simp only [hr', Bool.false_eq_true, if_false] at he'
                have := congrArg (fun t => t.callers[i]?) he'
                simp only [contSt, lookup_set hc, if_true, hc, Option.some.injEq] at this
                have := congrArg Caller.cur this
                simp [hcur] at this
          · exact hlt
        rw [he] at hlt
        omega
  | none =>
    -- somebody has an operation left, and the lock is free
    have : ∃ i c, s.callers[i]? = some c ∧ ¬ (c.cur = none ∧ opAt progs i c.pc = none) := by
      apply Classical.byContradiction
      intro hno
      apply hnd
      intro i c hc
      apply Classical.byContradiction
      intro hn
      exact hno ⟨i, c, hc, hn⟩
    obtain ⟨i, c, hc, hn⟩ := this
    have hi : i < s.callers.length := (List.getElem?_eq_some_iff.mp hc).1
    refine ⟨i, by omega, ?_⟩
    have hcur : c.cur = none := by
      cases hcur : c.cur with
      | none => rfl
      | some l =>
        have := h.held i c hc (by simp [hcur])
        rw [hl] at this; cases this
    cases hop : opAt progs i c.pc with
    | none => exact absurd ⟨hcur, hop⟩ hn
    | some op =>
      intro he
      unfold step at he
      simp only [hc, hcur, hop, hl, Option.isSome_none, Bool.and_false, Bool.false_eq_true, if_false] at he
      cases op with
      | nil =>
        simp only at he
        have := congrArg (fun t => t.finished.length) he
        simp [finishOp] at this
      | cons st rest =>
        simp only at he
        have := congrArg St.lock he
        simp [acqSt, hl] at this

end Scrapli.Lock

namespace Scrapli.Lock
variable {σ : Type}

theorem allDone_step (locking : Bool) (D : Dev σ) (progs : List Prog) {s : St σ} (h : AllDone progs s) (i : Nat) :
    step locking D progs s i = s := by
  unfold step
  cases hc : s.callers[i]? with
  | none => rfl
  | some c =>
    obtain ⟨h1, h2⟩ := h i c hc
    simp [h1, h2]

theorem allDone_foldl (locking : Bool) (D : Dev σ) (progs : List Prog) {s : St σ} (h : AllDone progs s) (l : List Nat) :
    l.foldl (step locking D progs) s = s := by
  induction l with
  | nil => rfl
  | cons i l ih => simp only [List.foldl_cons]; rw [allDone_step locking D progs h i]; exact ih

theorem allDone_of_cost_zero (D : Dev σ) (progs : List Prog) {s : St σ} (h : Inv s)
    (hlen : s.callers.length = progs.length) (hz : cost progs s = 0) : AllDone progs s := by
  apply Classical.byContradiction
  intro hnd
  obtain ⟨i, _, hne⟩ := exists_enabled D progs h hlen hnd
  rcases cost_step true D progs s hlen i with he | hlt
  · exact hne he
  · omega

/-- one fair round (every caller scheduled at least once, in any order, any multiplicity) makes progress -/
theorem round_progress (D : Dev σ) (progs : List Prog) {s : St σ} (h : Inv s) (hlen : s.callers.length = progs.length)
    (r : List Nat) (hfair : ∀ i, i < progs.length → i ∈ r) :
    AllDone progs s ∨ cost progs (r.foldl (step true D progs) s) < cost progs s := by
  by_cases hd : AllDone progs s
  · exact .inl hd
  · right
    obtain ⟨i, hi, hne⟩ := exists_enabled D progs h hlen hd
    obtain ⟨h1, h2⟩ := cost_foldl true D progs r s hlen
    exact Nat.lt_of_le_of_ne h1 (fun heq => hne ((h2 heq).2 i (hfair i hi)))

theorem rounds_progress (D : Dev σ) (progs : List Prog) (rounds : List (List Nat))
    (hfair : ∀ r ∈ rounds, ∀ i, i < progs.length → i ∈ r) : ∀ (s : St σ), Inv s → s.callers.length = progs.length →
    AllDone progs (rounds.flatten.foldl (step true D progs) s) ∨
    cost progs (rounds.flatten.foldl (step true D progs) s) + rounds.length ≤ cost progs s := by
  induction rounds with
  | nil => intro s _ _; right; simp
  | cons r rs ih =>
    intro s h hlen
    simp only [List.flatten_cons, List.foldl_append, List.length_cons]
    have hr := round_progress D progs h hlen r (hfair r (by simp))
    have h1 : Inv (r.foldl (step true D progs) s) := inv_foldl D progs r s h
    have hlen1 : (r.foldl (step true D progs) s).callers.length = progs.length := by rw [foldl_len]; exact hlen
    rcases ih (fun r' hr' => hfair r' (by simp [hr'])) _ h1 hlen1 with hd | hc
    · exact .inl hd
    · rcases hr with hd | hlt
      · left
        rw [allDone_foldl true D progs hd r, allDone_foldl true D progs hd rs.flatten]
        exact hd
      · right; omega

theorem init_len (D : Dev σ) (progs : List Prog) : (init D progs).callers.length = progs.length := by
  simp [init]

theorem run_len (locking : Bool) (D : Dev σ) (progs : List Prog) (sched : List Nat) :
    (run locking D progs sched).callers.length = progs.length := by
  unfold run; rw [foldl_len, init_len]

/-- once everybody is done, every operation of every program has an outcome -/
theorem allDone_finished (progs : List Prog) {s : St σ} (hlen : s.callers.length = progs.length)
    (hov : OrderValid s) (hd : AllDone progs s) (i k : Nat) (op : Op) (hop : opAt progs i k = some op) :
    ∃ o, ((i, k), o) ∈ s.finished := by
  obtain ⟨p, hp, hk⟩ := opAt_some hop
  have hi : i < progs.length := (List.getElem?_eq_some_iff.mp hp).1
  have hkl : k < p.length := (List.getElem?_eq_some_iff.mp hk).1
  have hc : s.callers[i]? = some (s.callers[i]'(by omega)) := List.getElem?_eq_getElem (by omega)
  obtain ⟨_, hnone⟩ := hd i _ hc
  have hpc : p.length ≤ (s.callers[i]'(by omega)).pc := by
    unfold opAt at hnone
    simp only [hp, Option.bind_some] at hnone
    rcases Nat.lt_or_ge (s.callers[i]'(by omega)).pc p.length with hl | hl
    · rw [List.getElem?_eq_getElem hl] at hnone; cases hnone
    · exact hl
  have hmem : (i, k) ∈ (s.finished.map (·.1)).filter (fun key => key.1 == i) := by
    rw [hov i _ hc]
    simp only [List.mem_map, List.mem_range]
    exact ⟨k, by omega, rfl⟩
  have hmem2 := (List.mem_filter.mp hmem).1
  obtain ⟨⟨key, o⟩, ho, hkey⟩ := List.mem_map.mp hmem2
  simp only at hkey
  subst hkey
  exact ⟨o, ho⟩

/-! ### asyncio granularity is a special case -/

theorem drainWrites_eq (locking : Bool) (D : Dev σ) (progs : List Prog) (i : Nat) : ∀ (fuel : Nat) (s : St σ),
    ∃ m, drainWrites locking D progs fuel s i = (List.replicate m i).foldl (step locking D progs) s := by
  intro fuel
  induction fuel with
  | zero => intro s; exact ⟨0, rfl⟩
  | succ f ih =>
    intro s
    unfold drainWrites
    split
    · obtain ⟨m, hm⟩ := ih (step locking D progs s i)
      exact ⟨m + 1, by rw [hm]; simp [List.replicate_succ]⟩
    · exact ⟨0, rfl⟩

theorem stepAsync_eq (locking : Bool) (D : Dev σ) (progs : List Prog) (s : St σ) (i : Nat) :
    ∃ l : List Nat, stepAsync locking D progs s i = l.foldl (step locking D progs) s := by
  unfold stepAsync
  obtain ⟨m, hm⟩ := drainWrites_eq locking D progs i (curLen (step locking D progs s i) i) (step locking D progs s i)
  exact ⟨i :: List.replicate m i, by simp only [List.foldl_cons]; exact hm⟩

theorem foldl_stepAsync_eq (locking : Bool) (D : Dev σ) (progs : List Prog) (sched : List Nat) : ∀ (s : St σ),
    ∃ l : List Nat, sched.foldl (stepAsync locking D progs) s = l.foldl (step locking D progs) s := by
  induction sched with
  | nil => intro s; exact ⟨[], rfl⟩
  | cons i rest ih =>
    intro s
    obtain ⟨l1, h1⟩ := stepAsync_eq locking D progs s i
    obtain ⟨l2, h2⟩ := ih (stepAsync locking D progs s i)
    exact ⟨l1 ++ l2, by simp only [List.foldl_cons, List.foldl_append]; rw [h2, h1]⟩

end Scrapli.Lock

namespace Scrapli.Lock
variable {σ : Type}

/-! ### histories with "cancel a caller that waits for the lock" -/

/-- what `cancelWaiting` can be: nothing, or the waiting caller skips its operation -/
theorem cancel_cases (releases : Bool) (progs : List Prog) (s : St σ) (i : Nat) :
    cancelWaiting releases progs s i = s ∨
    ∃ c, s.callers[i]? = some c ∧ c.cur = none ∧
      cancelWaiting releases progs s i =
        { s with callers := s.callers.set i { pc := c.pc + 1, cur := none, reads := [] },
                 lock := if releases then none else s.lock } := by
  unfold cancelWaiting
  cases hc : s.callers[i]? with
  | none => left; rfl
  | some c =>
    cases hcur : c.cur with
    | some l => left; simp [hcur]
    | none =>
      cases hop : opAt progs i c.pc with
      | none => left; simp [hcur, hop]
      | some op => right; exact ⟨c, rfl, hcur, by simp [hcur, hop]⟩

/-- a cancelled waiter (that does not touch the lock) preserves the invariant -/
theorem inv_cancel (progs : List Prog) {s : St σ} (h : Inv s) (i : Nat) : Inv (cancelWaiting false progs s i) := by
  rcases cancel_cases false progs s i with he | ⟨c, hc, hcur, he⟩
  · rw [he]; exact h
  · rw [he]
    refine ⟨?_, ?_, ?_, ?_, ?_, ?_⟩
    · intro j cj hj hs
      simp only [lookup_set hc] at hj
      split at hj
      · cases hj; simp at hs
      · simpa using h.held j cj hj hs
    · intro j hj
      have hj' : s.lock = some j := by simpa using hj
      obtain ⟨cj, hcj, hs⟩ := h.holder j hj'
      by_cases hji : j = i
      · subst hji; rw [hc] at hcj; cases hcj; rw [hcur] at hs; simp at hs
      · exact ⟨cj, by simp [lookup_set hc, hji, hcj], hs⟩
    · intro j cj hj
      simp only [lookup_set hc] at hj
      split at hj
      · cases hj; simp
      · exact h.curne j cj hj
    · intro e he'
      obtain ⟨c0, hc0, hlt⟩ := h.fresh e he'
      simp only [lookup_set hc]
      by_cases hei : e.caller = i
      · rw [hei] at hc0; rw [hc] at hc0; cases hc0
        refine ⟨{ pc := c.pc + 1, cur := none, reads := [] }, by simp [hei], ?_⟩
        rcases hlt with hlt | ⟨_, hs⟩
        · left; simp; omega
        · rw [hcur] at hs; simp at hs
      · exact ⟨c0, by simp [hei, hc0], hlt⟩
    · intro j cj hj hs
      simp only [lookup_set hc] at hj
      split at hj
      · cases hj; simp at hs
      · exact h.suffix j cj hj hs
    · exact h.nogap

/-- closing the transport changes neither callers, lock nor wire: the invariant does not care -/
theorem inv_closeW {s : St σ} (h : Inv s) : Inv (closeW s) :=
  ⟨h.held, h.holder, h.curne, h.fresh, h.suffix, h.nogap⟩

theorem inv_timeout (progs : List Prog) {s : St σ} (h : Inv s) (i : Nat) : Inv (timeoutWaiting false progs s i) := by
  unfold timeoutWaiting
  split
  · exact inv_closeW (inv_cancel progs h i)
  · exact h

theorem inv_stepE (D : Dev σ) (progs : List Prog) {s : St σ} (h : Inv s) (ev : SEv) :
    Inv (stepE false true D progs s ev) := by
  cases ev with
  | run i => exact inv_step D progs h i
  | cancel i => exact inv_cancel progs h i
  | timeout i => exact inv_timeout progs h i
  | close => exact inv_closeW h

theorem inv_runE (D : Dev σ) (progs : List Prog) (evs : List SEv) : Inv (runE false true D progs evs) := by
  unfold runE
  generalize init D progs = s0, inv_init D progs = h0
  induction evs generalizing s0 with
  | nil => exact h0
  | cons ev rest ih => exact ih _ (inv_stepE D progs h0 ev)

/-- … and the serial-equivalence invariant: the cancelled operation never ran and is in no log -/
theorem sinv_cancel (D : Dev σ) (progs : List Prog) {s : St σ} (h : Inv s) (hs : SInv D progs s) (i : Nat) :
    SInv D progs (cancelWaiting false progs s i) := by
  rcases cancel_cases false progs s i with he | ⟨c, hc, hcur, he⟩
  · rw [he]; exact hs
  · rw [he]
    unfold SInv at hs ⊢
    cases hl : s.lock with
    | none =>
      simp only [orderOf, complete, hl] at hs ⊢
      simpa using hs
    | some j =>
      obtain ⟨cj, hcj, hsj⟩ := h.holder j hl
      have hji : j ≠ i := by
        intro e; subst e; rw [hc] at hcj; cases hcj; rw [hcur] at hsj; simp at hsj
      simp only [orderOf, complete, hl, hcj] at hs
      simp only [orderOf, complete, Bool.false_eq_true, if_false, lookup_set hc, hji, hcj]
      exact hs

/-- events that do not close the transport -/
def SEv.quiet : SEv → Bool
  | .run _ => true
  | .cancel _ => true
  | .timeout _ => false
  | .close => false

theorem sinv_runE (D : Dev σ) (progs : List Prog) (evs : List SEv) (hq : ∀ ev ∈ evs, ev.quiet = true) :
    SInv D progs (runE false true D progs evs) := by
  unfold runE
  generalize init D progs = s0, inv_init D progs = h0, sinv_init D progs = hs0
  induction evs generalizing s0 with
  | nil => exact hs0
  | cons ev rest ih =>
    have hrest : ∀ e ∈ rest, e.quiet = true := fun e he => hq e (by simp [he])
    have hev := hq ev (by simp)
    cases ev with
    | run i => exact ih hrest _ (inv_step D progs h0 i) (sinv_step D progs h0 hs0 i)
    | cancel i => exact ih hrest _ (inv_cancel progs h0 i) (sinv_cancel D progs h0 hs0 i)
    | timeout i => simp [SEv.quiet] at hev
    | close => simp [SEv.quiet] at hev

theorem foldl_stepEAsync_eq (releases locking : Bool) (D : Dev σ) (progs : List Prog) (evs : List SEv) : ∀ (s : St σ),
    ∃ l : List SEv, evs.foldl (stepEAsync releases locking D progs) s = l.foldl (stepE releases locking D progs) s := by
  induction evs with
  | nil => intro s; exact ⟨[], rfl⟩
  | cons ev rest ih =>
    intro s
    obtain ⟨l2, h2⟩ := ih (stepEAsync releases locking D progs s ev)
    cases ev with
    | cancel i => exact ⟨.cancel i :: l2, by simp only [List.foldl_cons]; rw [h2]; rfl⟩
    | timeout i => exact ⟨.timeout i :: l2, by simp only [List.foldl_cons]; rw [h2]; rfl⟩
    | close => exact ⟨.close :: l2, by simp only [List.foldl_cons]; rw [h2]; rfl⟩
    | run i =>
      obtain ⟨l1, h1⟩ := stepAsync_eq locking D progs s i
      refine ⟨l1.map .run ++ l2, ?_⟩
      simp only [List.foldl_cons, List.foldl_append]
      rw [h2]
      have : (l1.map SEv.run).foldl (stepE releases locking D progs) s = l1.foldl (step locking D progs) s := by
        clear h1 h2
        induction l1 generalizing s with
        | nil => rfl
        | cons a l ih' => simp only [List.map_cons, List.foldl_cons]; exact ih' _
      rw [this, ← h1]
      rfl

end Scrapli.Lock
