import ScrapliProps.C10Lemmas
/-
  C10 — strict host-key checking protects credentials.  Property theorems only (helper lemmas and the
  definitions `Names`, `safeOrder`, `forallCfg`: C10Lemmas.lean).

  Quantifiers: EVERY known_hosts content (any list of entries: plain / comma-listed / hashed host
  fields, any order, duplicates), every host, every server key, every HMAC function, every
  authentication set-up (password / key / both, loadable or not), every server behaviour; the call
  order of each `open()` is the one the translator reads from the source (Gen.*OpenCalls).
-/
namespace Scrapli.HostKey
open Scrapli.Gen.HostKey

/-! ### strict unless explicitly turned off -/

/-- the value that reaches `BaseDriver._setup_auth` when the caller does NOT give `auth_strict_key`:
    through a driver class its own default; through a factory the factory's default, which — being
    `None` — is dropped by `_build_provided_kwargs_dict`, so the driver class default applies -/
def omittedVia (factory : Option (Option Bool)) (driverDefault : Option Bool) : Option Bool :=
  match factory with
  | none => driverDefault
  | some (some b) => some b
  | some none => if factoryDropsNone then driverDefault else none

/-- **strict_default** (on the generated signature tables): whichever driver class or factory is
    used, omitting `auth_strict_key` yields `True`; nobody on the way replaces the caller's value; the
    value is type-checked to be a bool; every ssh transport's own argument class defaults to `True`. -/
theorem strict_default :
    (driverDefaults.all fun d => (none :: factoryDefaults.map (fun f => some f.2)).all fun f =>
        omittedVia f d.2 == some true) = true ∧
    (driverDefaults.any fun d => d.1 == "scrapli/driver/base/base_driver.py:BaseDriver.__init__") = true ∧
    factoryDefaults.length ≥ 2 ∧ forwardingAltered = 0 ∧ forwardingSites ≥ driverDefaults.length ∧
    typeChecked = true ∧ (pluginDefaults.all fun p => p.2 == some true) = true ∧
    pluginDefaults.map (·.1) = ["system", "paramiko", "ssh2", "asyncssh"] := by decide

/-! ### the call order of each `open()` is the one the model was written against -/

/-- GENERATED DATA vs MODEL: the order of start_client/handshake · `_verify_key` · `_authenticate` ·
    `_open_channel` (paramiko, ssh2) and `_verify_key` · connect · `_verify_key_value` · open_session
    (asyncssh) read from the AST equals the order cited in HostKey.lean -/
theorem open_order_is_modelled :
    paramikoOpenCalls = paramikoOrder ∧ ssh2OpenCalls = ssh2Order ∧
    asyncsshOpenCalls = asyncsshOrder (connectFlags asyncsshOpenCalls).1 (connectFlags asyncsshOpenCalls).2.1
      (connectFlags asyncsshOpenCalls).2.2 := by decide

/-! ### the ordering theorem, for EVERY call order -/

/-- **order_protects**: take ANY sequence of calls as the body of `open()`.  If statically every call
    that carries credentials comes after a verification of the key value (`safeOrder`), then for every
    configuration with strict checking on, a completed handshake, a usable private key (if any) and a
    known_hosts lookup that is empty or yields another key: the attempt ends in
    ScrapliAuthenticationFailed and NO key / password was offered. -/
theorem order_protects (lib : Lib) (calls : List (Call × Bool)) (hsafe : safeOrder calls = true)
    (c : Cfg) (hs : c.strict = true) (hk : c.kexOK = true) (hl : c.hasKey = true → c.keyLoads = true)
    (hu : c.found = false ∨ c.equal = false) : protectedTrace (run lib calls c) = true := by
  have h := order_protects_aux lib c hs hk hl hu calls false {} (safeFromG_mono _ _ _ _ hsafe) (by simp) rfl rfl
  simp only [protectedTrace, run, Bool.and_eq_true]
  exact ⟨h.2.1, by rw [h.2.2]; rfl⟩

/-- **order_protects_partial** — the same under the weaker static check `safeOrderP` (a `connect` whose
    pinned key the user's `transport_options` could take away again is accepted) WITH the extra
    hypothesis that the user's options do not carry `known_hosts: None`.  Outside that hypothesis the
    statement is false: `asyncssh_user_override_witness`. -/
theorem order_protects_partial (lib : Lib) (calls : List (Call × Bool)) (hsafe : safeOrderP calls = true)
    (c : Cfg) (hus : c.userUnpins = false) (hs : c.strict = true) (hk : c.kexOK = true)
    (hl : c.hasKey = true → c.keyLoads = true)
    (hu : c.found = false ∨ c.equal = false) : protectedTrace (run lib calls c) = true := by
  have h := order_protects_aux lib c hs hk hl hu calls false {} (by rw [hus]; exact hsafe) (by simp) rfl rfl
  simp only [protectedTrace, run, Bool.and_eq_true]
  exact ⟨h.2.1, by rw [h.2.2]; rfl⟩

/-- the orders found in the source of paramiko and ssh2 pass the static check unconditionally; asyncssh's
    passes the weaker one (`safeOrderP`: provided the user's options do not unpin), and the unconditional
    one exactly when strict mode pins the expected key, cannot end up without it, and the user's options
    are not merged in after the pin -/
theorem source_orders_checked :
    safeOrder paramikoOpenCalls = true ∧ safeOrder ssh2OpenCalls = true ∧
    safeOrderP asyncsshOpenCalls = true ∧
    safeOrder asyncsshOpenCalls =
      ((connectFlags asyncsshOpenCalls).1 && !(connectFlags asyncsshOpenCalls).2.1 &&
       !(connectFlags asyncsshOpenCalls).2.2) := by decide

/-! ### paramiko and ssh2: full statement, every known_hosts content -/

/-- an abstract configuration coming from a concrete file in which no entry naming the host holds the
    server's key is "not found, or found with another key" -/
theorem untrusted_of_entries (hmac : String → String → String) (imp : String → String → Bool) (es : List Entry) (host serverKey : String)
    (env : Env) (hun : ∀ e ∈ es, Names hmac host e → e.key ≠ serverKey) :
    (cfgOf hmac imp es host serverKey env).found = false ∨ (cfgOf hmac imp es host serverKey env).equal = false := by
  cases hl : lookup hmac (parse es) host with
  | none => left; simp [cfgOf, hl]
  | some v =>
    right
    obtain ⟨e, he, hn, hv⟩ := lookup_sound hl
    have hne := hun e he hn
    simp only [cfgOf, hl, Option.map_some, beq_eq_false_iff_ne, ne_eq, Option.some.injEq]
    rw [hv]; exact hne

/-- **no_offer_before_verify** (paramiko; ssh2 by reading): strict on, handshake completed, and the
    known_hosts content — ANY list of entries — has no entry naming the host (absent) or only entries
    with a key different from the one the server presents: the trace of `open()` ends in
    ScrapliAuthenticationFailed and contains no offerKey / offerPassword. -/
theorem no_offer_before_verify (hmac : String → String → String) (imp : String → String → Bool) (es : List Entry) (host serverKey : String)
    (env : Env) (hs : env.strict = true) (hk : env.kexOK = true)
    (hun : ∀ e ∈ es, Names hmac host e → e.key ≠ serverKey) :
    protectedTrace (paramikoOpen (cfgOf hmac imp es host serverKey env)) = true ∧
    protectedTrace (ssh2Open (cfgOf hmac imp es host serverKey env)) = true := by
  have hu := untrusted_of_entries hmac imp es host serverKey env hun
  have := forallCfg_spec (p := fun c => !(c.strict && c.kexOK && (!c.found || !c.equal)) ||
      (protectedTrace (paramikoOpen c) && protectedTrace (ssh2Open c))) (by decide +kernel)
      (cfgOf hmac imp es host serverKey env)
  have hs' : (cfgOf hmac imp es host serverKey env).strict = true := by simp [cfgOf, hs]
  have hk' : (cfgOf hmac imp es host serverKey env).kexOK = true := by simp [cfgOf, hk]
  rcases hu with h | h <;> simp_all

/-- without the handshake hypothesis: whatever happens, nothing is ever offered -/
theorem no_offer_ever (hmac : String → String → String) (imp : String → String → Bool) (es : List Entry) (host serverKey : String)
    (env : Env) (hs : env.strict = true) (hun : ∀ e ∈ es, Names hmac host e → e.key ≠ serverKey) :
    noOffers (paramikoOpen (cfgOf hmac imp es host serverKey env)) = true ∧
    noOffers (ssh2Open (cfgOf hmac imp es host serverKey env)) = true := by
  have hu := untrusted_of_entries hmac imp es host serverKey env hun
  have := forallCfg_spec (p := fun c => !(c.strict && (!c.found || !c.equal)) ||
      (noOffers (paramikoOpen c) && noOffers (ssh2Open c))) (by decide +kernel) (cfgOf hmac imp es host serverKey env)
  have hs' : (cfgOf hmac imp es host serverKey env).strict = true := by simp [cfgOf, hs]
  rcases hu with h | h <;> simp_all

/-- credentials are offered only to a server whose key IS the one some entry naming the host holds -/
theorem offer_implies_listed_key (hmac : String → String → String) (imp : String → String → Bool) (es : List Entry) (host serverKey : String)
    (env : Env) (hs : env.strict = true)
    (hoff : noOffers (paramikoOpen (cfgOf hmac imp es host serverKey env)) = false ∨
            noOffers (ssh2Open (cfgOf hmac imp es host serverKey env)) = false) :
    ∃ e ∈ es, Names hmac host e ∧ e.key = serverKey := by
  apply Classical.byContradiction
  intro hne
  have hun : ∀ e ∈ es, Names hmac host e → e.key ≠ serverKey := fun e he hn hk => hne ⟨e, he, hn, hk⟩
  have := no_offer_ever hmac imp es host serverKey env hs hun
  rcases hoff with h | h <;> simp_all

/-! ### asyncssh -/

/-- **asyncssh, host absent** (whether or not the expected key is pinned): no entry names the host ⇒
    `open()` raises ScrapliAuthenticationFailed before touching the network: the trace is exactly
    lookup(not found), verifyFail, raise — no kex, no offer. -/
theorem asyncssh_absent_protected (hmac : String → String → String) (imp : String → String → Bool) (es : List Entry) (host serverKey : String)
    (env : Env) (hs : env.strict = true) (habs : ∀ e ∈ es, ¬ Names hmac host e) :
    asyncsshOpen (cfgOf hmac imp es host serverKey env) =
      [Ev.lookup false false, Ev.verifyFail, Ev.raise Exc.authenticationFailed] := by
  have hf : (cfgOf hmac imp es host serverKey env).found = false := by
    simp [cfgOf, lookup_none_of_absent habs]
  have hs' : (cfgOf hmac imp es host serverKey env).strict = true := by simp [cfgOf, hs]
  have := forallCfg_spec (p := fun c => !(c.strict && !c.found) ||
      (asyncsshOpen c == [Ev.lookup false false, Ev.verifyFail, Ev.raise Exc.authenticationFailed]))
      (by decide +kernel) (cfgOf hmac imp es host serverKey env)
  simp_all

/-- the full statement for asyncssh, for a given treatment of `known_hosts=`: EVERY configuration,
    including every content of the user's transport options -/
def AsyncsshFull (pin fb ov : Bool) : Prop :=
  ∀ c : Cfg, c.strict = true → c.kexOK = true → (c.hasKey = true → c.keyLoads = true) →
    (c.found = false ∨ c.equal = false) → protectedTrace (run .asyncssh (asyncsshOrder pin fb ov) c) = true

/-- the witness: strict, host present with ANOTHER key, password authentication -/
def leakCfg : Cfg :=
  { strict := true, found := true, equal := false, importable := true, hasKey := false, keyLoads := false,
    hasPw := true, hasUser := true, kexOK := true, accKey := false, accPw := true, userUnpins := false }

/-- the second witness: as above but the known_hosts line holds a key asyncssh cannot load
    (truncated / garbage / mislabelled blob) -/
def unusableCfg : Cfg := { leakCfg with importable := false }

/-- the third witness: as the first, and the user passes `transport_options={"asyncssh": {"known_hosts": None}}` -/
def userUnpinsCfg : Cfg := { leakCfg with userUnpins := true }

/-- **asyncssh, present with another key — REFUTED for the unrepaired order** (`known_hosts=None`
    handed to `connect()`, value compared afterwards): the password is offered BEFORE the mismatch is
    raised.  Witness trace, machine-checked.  (Finding F19, repaired by 304e179.) -/
theorem asyncssh_unpinned_witness :
    run .asyncssh (asyncsshOrder false false false) leakCfg =
      [Ev.lookup true false, Ev.kex, Ev.offerPassword, Ev.lookup true false, Ev.verifyFail,
       Ev.raise Exc.authenticationFailed] := by decide

theorem asyncssh_unpinned_full_refuted (fb ov : Bool) : ¬ AsyncsshFull false fb ov := by
  intro h
  have := h leakCfg rfl rfl (by decide) (Or.inr rfl)
  cases fb <;> cases ov <;> revert this <;> decide

/-- **asyncssh, UNUSABLE key in known_hosts — REFUTED for an order whose key loader has a non-raising
    path** (`fallback`): with a line for the host whose key cannot be imported, `connect()` gets
    `known_hosts=None` and the password is offered to an unverified server. -/
theorem asyncssh_fallback_witness :
    run .asyncssh (asyncsshOrder true true false) unusableCfg =
      [Ev.lookup true false, Ev.lookup true false, Ev.kex, Ev.offerPassword, Ev.lookup true false,
       Ev.verifyFail, Ev.raise Exc.authenticationFailed] := by decide

theorem asyncssh_fallback_full_refuted (ov : Bool) : ¬ AsyncsshFull true true ov := by
  intro h
  have := h unusableCfg rfl rfl (by decide) (Or.inr rfl)
  cases ov <;> revert this <;> decide

/-- **asyncssh, user options merged in AFTER the pin — REFUTED** (`overridable`; the source at 614e50e,
    finding F27): `transport_options={"asyncssh": {"known_hosts": None}}` takes the expected key away
    again although strict checking is on; the password is offered before the mismatch is raised. -/
theorem asyncssh_user_override_witness :
    run .asyncssh (asyncsshOrder true false true) userUnpinsCfg =
      [Ev.lookup true false, Ev.lookup true false, Ev.kex, Ev.offerPassword, Ev.lookup true false,
       Ev.verifyFail, Ev.raise Exc.authenticationFailed] := by decide

theorem asyncssh_user_override_full_refuted : ¬ AsyncsshFull true false true := by
  intro h
  have := h userUnpinsCfg rfl rfl (by decide) (Or.inr rfl)
  revert this; decide

/-- … and what remains true of the unrepaired order (`_partial`): everything except "present with
    another key" — i.e. host absent — is protected, and with another key the attempt still ends in
    ScrapliAuthenticationFailed (only too late). -/
theorem asyncssh_unpinned_partial (c : Cfg) (hs : c.strict = true) (hk : c.kexOK = true)
    (hl : c.hasKey = true → c.keyLoads = true) :
    (c.found = false → protectedTrace (run .asyncssh (asyncsshOrder false false false) c) = true) ∧
    (c.found = true → c.equal = false →
      (run .asyncssh (asyncsshOrder false false false) c).getLast? = some (Ev.raise Exc.authenticationFailed)) := by
  have := forallCfg_spec (p := fun c => !(c.strict && c.kexOK && (!c.hasKey || c.keyLoads)) ||
      ((c.found || protectedTrace (run .asyncssh (asyncsshOrder false false false) c)) &&
       (!c.found || c.equal ||
        (run .asyncssh (asyncsshOrder false false false) c).getLast? == some (Ev.raise Exc.authenticationFailed))))
      (by decide +kernel) c
  have hA : (c.strict && c.kexOK && (!c.hasKey || c.keyLoads)) = true := by
    cases hh : c.hasKey <;> simp_all
  have hB := imp_of_bool this hA
  simp only [Bool.and_eq_true, Bool.or_eq_true] at hB
  refine ⟨fun hf => ?_, fun hf he => ?_⟩
  · rcases hB.1 with h | h
    · simp [hf] at h
    · exact h
  · rcases hB.2 with (h | h) | h
    · simp [hf] at h
    · simp [he] at h
    · simpa using h

/-- **asyncssh, full statement ⇔ the expected key is pinned into `connect()` with no way around it**:
    pinned, the loader raises on every path that yields no key, and the user's options cannot replace it -/
theorem asyncssh_full_iff_pinned (pin fb ov : Bool) :
    AsyncsshFull pin fb ov ↔ (pin = true ∧ fb = false ∧ ov = false) := by
  constructor
  · intro h
    cases pin with
    | false => exact absurd h (asyncssh_unpinned_full_refuted fb ov)
    | true =>
      cases fb with
      | true => exact absurd h (asyncssh_fallback_full_refuted ov)
      | false =>
        cases ov with
        | false => exact ⟨rfl, rfl, rfl⟩
        | true => exact absurd h asyncssh_user_override_full_refuted
  · rintro ⟨rfl, rfl, rfl⟩ c hs hk hl hu
    exact order_protects .asyncssh (asyncsshOrder true false false) (by decide) c hs hk hl hu

/-- the same, for the order found in the CURRENT source: the full statement (every configuration, every
    content of the user's transport options) holds for asyncssh exactly when the generated order passes
    the unconditional static check.  At 614e50e it does NOT (`overridable`): finding F27. -/
theorem asyncssh_current :
    (∀ c : Cfg, c.strict = true → c.kexOK = true → (c.hasKey = true → c.keyLoads = true) →
      (c.found = false ∨ c.equal = false) → protectedTrace (asyncsshOpen c) = true) ↔
    safeOrder asyncsshOpenCalls = true := by
  have h := asyncssh_full_iff_pinned (connectFlags asyncsshOpenCalls).1 (connectFlags asyncsshOpenCalls).2.1
    (connectFlags asyncsshOpenCalls).2.2
  unfold AsyncsshFull at h
  unfold asyncsshOpen
  rw [open_order_is_modelled.2.2]
  rw [h]
  cases (connectFlags asyncsshOpenCalls).1 <;> cases (connectFlags asyncsshOpenCalls).2.1 <;>
    cases (connectFlags asyncsshOpenCalls).2.2 <;> decide

/-- **asyncssh_current_partial** — what IS proved of the asyncssh order in the current source, whichever
    of the two trees (before / after the F27 repair) it is: the full statement for every configuration
    whose user options do not carry `known_hosts: None`.  (Was `asyncssh_current_holds`, which claimed it
    without that hypothesis — wrong for the source up to 614e50e, see `asyncssh_user_override_witness`.) -/
theorem asyncssh_current_partial (c : Cfg) (hus : c.userUnpins = false) (hs : c.strict = true)
    (hk : c.kexOK = true) (hl : c.hasKey = true → c.keyLoads = true)
    (hu : c.found = false ∨ c.equal = false) : protectedTrace (asyncsshOpen c) = true :=
  order_protects_partial .asyncssh asyncsshOpenCalls source_orders_checked.2.2.1 c hus hs hk hl hu

/-- **asyncssh, unusable key** (pinned order, overridable or not — the loader runs before the user's
    options matter): strict and the line found for the host holds a key asyncssh cannot load ⇒ `open()`
    raises ScrapliAuthenticationFailed before touching the network — whatever the blob is (even one
    textually equal to the server's key: fail closed), whatever the user's options. -/
theorem asyncssh_unusable_key_protected (ov : Bool) (c : Cfg) (hs : c.strict = true) (hf : c.found = true)
    (hi : c.importable = false) :
    run .asyncssh (asyncsshOrder true false ov) c =
      [Ev.lookup true c.equal, Ev.lookup true c.equal, Ev.raise Exc.authenticationFailed] := by
  have := forallCfg_spec (p := fun c => !(c.strict && c.found && !c.importable) ||
      ((run .asyncssh (asyncsshOrder true false false) c ==
        [Ev.lookup true c.equal, Ev.lookup true c.equal, Ev.raise Exc.authenticationFailed]) &&
       (run .asyncssh (asyncsshOrder true false true) c ==
        [Ev.lookup true c.equal, Ev.lookup true c.equal, Ev.raise Exc.authenticationFailed])))
      (by decide +kernel) c
  have := imp_of_bool this (by rw [hs, hf, hi]; rfl)
  simp only [Bool.and_eq_true, beq_iff_eq] at this
  cases ov
  · exact this.1
  · exact this.2

/-- pinned order, concrete known_hosts, every importability predicate: entry absent, other key, or
    UNUSABLE key (any blob different from the server's) — nothing is offered; for the overridable order
    provided the user's options do not unpin -/
theorem asyncssh_pinned_no_offer (hmac : String → String → String) (imp : String → String → Bool) (es : List Entry) (host serverKey : String)
    (env : Env) (ov : Bool) (hov : ov = false ∨ env.userUnpins = false)
    (hs : env.strict = true) (hk : env.kexOK = true) (hl : env.hasKey = true → env.keyLoads = true)
    (hun : ∀ e ∈ es, Names hmac host e → e.key ≠ serverKey) :
    protectedTrace (run .asyncssh (asyncsshOrder true false ov) (cfgOf hmac imp es host serverKey env)) = true := by
  rcases hov with rfl | hus
  · exact order_protects .asyncssh (asyncsshOrder true false false) (by decide) _ (by simp [cfgOf, hs]) (by simp [cfgOf, hk])
      (by simpa [cfgOf] using hl) (untrusted_of_entries hmac imp es host serverKey env hun)
  · exact order_protects_partial .asyncssh (asyncsshOrder true false ov) (by cases ov <;> decide) _ (by simp [cfgOf, hus])
      (by simp [cfgOf, hs]) (by simp [cfgOf, hk]) (by simpa [cfgOf] using hl)
      (untrusted_of_entries hmac imp es host serverKey env hun)

/-! ### histories: retries on one transport object -/

/-- general form: every attempt's path passes the static check for THAT attempt's user options -/
theorem no_offer_in_any_attempt_g (lib : Lib) :
    ∀ (hist : List Attempt) (st : TState),
      (∀ a ∈ hist, safeFromG a.cfg.userUnpins false false a.path = true) →
      ∀ x ∈ hist.zip (runHistory lib st hist),
        x.1.cfg.strict = true → x.1.cfg.kexOK = true → (x.1.cfg.hasKey = true → x.1.cfg.keyLoads = true) →
        (x.1.cfg.found = false ∨ x.1.cfg.equal = false) → protectedTrace x.2 = true := by
  intro hist
  induction hist with
  | nil => intro st _ x hx; simp [runHistory] at hx
  | cons a rest ih =>
    intro st hp x hx hs hk hl hu
    simp only [runHistory, List.zip_cons_cons, List.mem_cons] at hx
    rcases hx with rfl | hx
    · have h := order_protects_aux lib a.cfg hs hk hl hu a.path false {} (hp a (List.mem_cons_self ..)) (by simp) rfl rfl
      simp only [protectedTrace, attemptStep, run, Bool.and_eq_true]
      exact ⟨h.2.1, by rw [h.2.2]; rfl⟩
    · exact ih _ (fun b hb => hp b (List.mem_cons_of_mem _ hb)) x hx hs hk hl hu

/-- **no_offer_in_any_attempt**: take ANY set of paths through `open()` that all pass the static check.
    For every initial transport state, every history of attempts on the same object (with or without
    `close()` in between, each attempt taking any of the paths — however the state left behind steers
    it — under its own known_hosts content, user options and server behaviour): every attempt made with
    strict on, handshake ok, usable private key, and a lookup that is empty or yields another / unusable
    key ends in ScrapliAuthenticationFailed with NO key / password offered.  Induction over the attempt
    list. -/
theorem no_offer_in_any_attempt (lib : Lib) (paths : List (List (Call × Bool)))
    (hsafe : ∀ p ∈ paths, safeOrder p = true) (hist : List Attempt) (st : TState)
    (hp : ∀ a ∈ hist, a.path ∈ paths) :
    ∀ x ∈ hist.zip (runHistory lib st hist),
      x.1.cfg.strict = true → x.1.cfg.kexOK = true → (x.1.cfg.hasKey = true → x.1.cfg.keyLoads = true) →
      (x.1.cfg.found = false ∨ x.1.cfg.equal = false) → protectedTrace x.2 = true :=
  no_offer_in_any_attempt_g lib hist st (fun a ha => safeFromG_mono _ _ _ _ (hsafe _ (hp a ha)))

/-- **no_offer_in_any_attempt_partial**: the same for paths that pass only the weaker check `safeOrderP`,
    for histories in which no attempt's user options carry `known_hosts: None` -/
theorem no_offer_in_any_attempt_partial (lib : Lib) (paths : List (List (Call × Bool)))
    (hsafe : ∀ p ∈ paths, safeOrderP p = true) (hist : List Attempt) (st : TState)
    (hp : ∀ a ∈ hist, a.path ∈ paths) (hus : ∀ a ∈ hist, a.cfg.userUnpins = false) :
    ∀ x ∈ hist.zip (runHistory lib st hist),
      x.1.cfg.strict = true → x.1.cfg.kexOK = true → (x.1.cfg.hasKey = true → x.1.cfg.keyLoads = true) →
      (x.1.cfg.found = false ∨ x.1.cfg.equal = false) → protectedTrace x.2 = true :=
  no_offer_in_any_attempt_g lib hist st (fun a ha => by rw [hus a ha]; exact hsafe _ (hp a ha))

/-- GENERATED DATA: every path through each `open()` of the current source passes the static check
    (the verification dominates the credential-carrying call) — unconditionally for paramiko and ssh2,
    provided the user's options do not unpin for asyncssh — and each `open()` has exactly the one path
    the model was written against -/
theorem open_paths_checked :
    (paramikoOpenPaths.all safeOrder) = true ∧ (ssh2OpenPaths.all safeOrder) = true ∧
    (asyncsshOpenPaths.all safeOrderP) = true ∧
    paramikoOpenPaths = [paramikoOpenCalls] ∧ ssh2OpenPaths = [ssh2OpenCalls] ∧
    asyncsshOpenPaths = [asyncsshOpenCalls] := by decide

/-- the history theorem for the three transports as they are in the source (asyncssh: partial, see
    `asyncssh_current_partial`; the hypothesis on the user's options is vacuous for paramiko / ssh2,
    whose `open()` does not read them) -/
theorem no_offer_in_any_attempt_current_partial (lib : Lib) (hist : List Attempt) (st : TState)
    (hp : ∀ a ∈ hist, a.path ∈ (match lib with
      | .paramiko => paramikoOpenPaths | .ssh2 => ssh2OpenPaths | .asyncssh => asyncsshOpenPaths))
    (hus : ∀ a ∈ hist, a.cfg.userUnpins = false) :
    ∀ x ∈ hist.zip (runHistory lib st hist),
      x.1.cfg.strict = true → x.1.cfg.kexOK = true → (x.1.cfg.hasKey = true → x.1.cfg.keyLoads = true) →
      (x.1.cfg.found = false ∨ x.1.cfg.equal = false) → protectedTrace x.2 = true := by
  have hall : ∀ p ∈ (match lib with
      | .paramiko => paramikoOpenPaths | .ssh2 => ssh2OpenPaths | .asyncssh => asyncsshOpenPaths),
      safeOrderP p = true := by
    have h := open_paths_checked
    cases lib <;> simp only [] <;> intro p hp'
    · exact safeFromG_mono _ _ _ _ (List.all_eq_true.mp h.1 p hp')
    · exact safeFromG_mono _ _ _ _ (List.all_eq_true.mp h.2.1 p hp')
    · exact List.all_eq_true.mp h.2.2.1 p hp'
  exact no_offer_in_any_attempt_partial lib _ hall hist st hp hus

/-- paramiko and ssh2 in the current source: the history theorem without any hypothesis on user options -/
theorem no_offer_in_any_attempt_current (hist : List Attempt) (st : TState) :
    ((∀ a ∈ hist, a.path ∈ paramikoOpenPaths) →
      ∀ x ∈ hist.zip (runHistory .paramiko st hist),
        x.1.cfg.strict = true → x.1.cfg.kexOK = true → (x.1.cfg.hasKey = true → x.1.cfg.keyLoads = true) →
        (x.1.cfg.found = false ∨ x.1.cfg.equal = false) → protectedTrace x.2 = true) ∧
    ((∀ a ∈ hist, a.path ∈ ssh2OpenPaths) →
      ∀ x ∈ hist.zip (runHistory .ssh2 st hist),
        x.1.cfg.strict = true → x.1.cfg.kexOK = true → (x.1.cfg.hasKey = true → x.1.cfg.keyLoads = true) →
        (x.1.cfg.found = false ∨ x.1.cfg.equal = false) → protectedTrace x.2 = true) :=
  ⟨fun hp => no_offer_in_any_attempt .paramiko _ (fun p h => List.all_eq_true.mp open_paths_checked.1 p h) hist st hp,
   fun hp => no_offer_in_any_attempt .ssh2 _ (fun p h => List.all_eq_true.mp open_paths_checked.2.1 p h) hist st hp⟩

/-- why EVERY path matters: a path that reaches `_authenticate` without `_verify_key` (a retry that
    reuses the session an earlier, correctly failed attempt left behind) offers the password -/
example : safeOrder [(.authenticate, false), (.openChannel, false)] = false ∧
    runHistory .paramiko {}
      [{ closeBefore := false, path := paramikoOrder, cfg := leakCfg },
       { closeBefore := false, path := [(.authenticate, false), (.openChannel, false)], cfg := leakCfg }] =
    [[Ev.kex, Ev.lookup true false, Ev.verifyFail, Ev.raise Exc.authenticationFailed],
     [Ev.offerPassword, Ev.openSession]] := by decide

/-! ### system transport -/

/-- the literal fragments regenerated from `_build_open_cmd` are OpenSSH's option names / values -/
theorem sys_fragments_are_openssh :
    sysStrictOpts = [("StrictHostKeyChecking", "yes")] ∧
    sysNonStrictOpts = [("StrictHostKeyChecking", "no"), ("UserKnownHostsFile", "/dev/null")] ∧
    sysKnownHostsKey = "UserKnownHostsFile" ∧ sysPreOpts = ["ConnectTimeout", "ServerAliveInterval"] ∧
    (sysNonStrictWhen = "isFalse" ∨ (sysNonStrictWhen = "falsy" ∧ typeChecked = true)) := by decide

theorem optValue_builtin_strict (a : SysArgs) :
    optValue "StrictHostKeyChecking" (builtin a) = some (if a.strictOff then "no" else "yes") := by
  unfold builtin strictPart optsOf
  simp only [sys_fragments_are_openssh.1, sys_fragments_are_openssh.2.1, sys_fragments_are_openssh.2.2.1,
    sys_fragments_are_openssh.2.2.2.1]
  by_cases h1 : a.keyFile != "" <;> by_cases h2 : a.username != "" <;> by_cases h3 : a.strictOff <;>
    simp [optValue, h1, h2, h3]

/-- **system_always_strict**: for EVERY argument combination (host, port, time-outs, key, user,
    known-hosts file incl. the magic string and "", config file, any user-supplied extra arguments)
    in which `auth_strict_key` does not take the non-strict branch: the command line carries
    `-o StrictHostKeyChecking=yes`, it is the value ssh uses (first one given; the user's extra
    arguments come later), scrapli adds no other value for that option, and the only
    `UserKnownHostsFile` scrapli adds is the configured file — so `/dev/null` only if the user
    configured exactly that. -/
theorem system_always_strict (a : SysArgs) (h : a.strictOff = false) :
    Arg.opt "StrictHostKeyChecking" "yes" ∈ buildOpenCmd a ∧
    optValue "StrictHostKeyChecking" (buildOpenCmd a) = some "yes" ∧
    (∀ v, Arg.opt "StrictHostKeyChecking" v ∈ buildOpenCmd a → v = "yes") ∧
    (∀ f, Arg.opt "UserKnownHostsFile" f ∈ buildOpenCmd a →
      f = a.knownHosts ∧ a.knownHosts ≠ "" ∧ a.knownHosts ≠ magicKnownHosts) := by
  have hv := optValue_builtin_strict a
  simp only [h] at hv
  refine ⟨?_, ?_, ?_, ?_⟩
  · unfold buildOpenCmd builtin strictPart optsOf
    simp [h, sys_fragments_are_openssh.1]
  · unfold buildOpenCmd
    rw [optValue_append, hv]; rfl
  · intro v hm
    unfold buildOpenCmd builtin strictPart optsOf at hm
    simp only [sys_fragments_are_openssh.1, sys_fragments_are_openssh.2.2.1, sys_fragments_are_openssh.2.2.2.1, h] at hm
    by_cases h1 : a.keyFile != "" <;> by_cases h2 : a.username != "" <;>
      by_cases h4 : a.knownHosts == magicKnownHosts <;> by_cases h5 : a.knownHosts != "" <;>
      by_cases h6 : a.configFile == "" <;> by_cases h7 : a.configFile == magicConfig <;>
      simp [h1, h2, h4, h5, h6, h7] at hm <;> first | exact hm | (rcases hm with hm | hm <;> simp_all)
  · intro f hm
    unfold buildOpenCmd builtin strictPart optsOf at hm
    simp only [sys_fragments_are_openssh.1, sys_fragments_are_openssh.2.2.1, sys_fragments_are_openssh.2.2.2.1, h] at hm
    by_cases h1 : a.keyFile != "" <;> by_cases h2 : a.username != "" <;>
      by_cases h4 : a.knownHosts == magicKnownHosts <;> by_cases h5 : a.knownHosts != "" <;>
      by_cases h6 : a.configFile == "" <;> by_cases h7 : a.configFile == magicConfig <;>
      simp [h1, h2, h4, h5, h6, h7] at hm <;> simp_all

/-- **nonstrict_only_when_off** (system): ssh is told not to check, and pointed at /dev/null by
    scrapli's own doing, exactly when the non-strict branch is taken — which, by
    `sys_fragments_are_openssh`, only `auth_strict_key is False` selects. -/
theorem nonstrict_only_when_off (a : SysArgs) :
    (optValue "StrictHostKeyChecking" (buildOpenCmd a) = some "no" ↔ a.strictOff = true) ∧
    (Arg.opt "StrictHostKeyChecking" "no" ∈ buildOpenCmd a ↔ a.strictOff = true) := by
  have hv := optValue_builtin_strict a
  constructor
  · unfold buildOpenCmd
    rw [optValue_append, hv]
    cases h : a.strictOff <;> simp
  · constructor
    · intro hm
      cases h : a.strictOff with
      | true => rfl
      | false =>
        have := (system_always_strict a h).2.2.1 "no" hm
        revert this; decide
    · intro h
      unfold buildOpenCmd builtin strictPart optsOf
      simp [h, sys_fragments_are_openssh.2.1]

/-- **nonstrict_only_when_off** (library transports): a completed `open()` whose trace shows no
    known_hosts lookup at all is possible only with strict checking off; with it on, a session is
    opened only after the key was found and equal. -/
theorem lib_nonstrict_only_when_off (c : Cfg) :
    ((paramikoOpen c).contains Ev.openSession = true → c.strict = true → c.found = true ∧ c.equal = true) ∧
    ((ssh2Open c).contains Ev.openSession = true → c.strict = true → c.found = true ∧ c.equal = true) ∧
    ((asyncsshOpen c).contains Ev.openSession = true → c.strict = true → c.found = true ∧ c.equal = true) ∧
    (((paramikoOpen c).all fun e => e != Ev.lookup c.found (c.found && c.equal)) = true → c.kexOK = true →
      c.strict = false) := by
  refine ⟨fun ho hs => ?_, fun ho hs => ?_, fun ho hs => ?_, fun ha hk => ?_⟩
  · have := imp_of_bool (forallCfg_spec (p := fun c =>
      !((paramikoOpen c).contains Ev.openSession && c.strict) || (c.found && c.equal)) (by decide +kernel) c)
      (by rw [ho, hs]; rfl)
    simpa using this
  · have := imp_of_bool (forallCfg_spec (p := fun c =>
      !((ssh2Open c).contains Ev.openSession && c.strict) || (c.found && c.equal)) (by decide +kernel) c)
      (by rw [ho, hs]; rfl)
    simpa using this
  · have := imp_of_bool (forallCfg_spec (p := fun c =>
      !((asyncsshOpen c).contains Ev.openSession && c.strict) || (c.found && c.equal)) (by decide +kernel) c)
      (by rw [ho, hs]; rfl)
    simpa using this
  · have := imp_of_bool (forallCfg_spec (p := fun c =>
      !(((paramikoOpen c).all fun e => e != Ev.lookup c.found (c.found && c.equal)) && c.kexOK) || !c.strict)
      (by decide +kernel) c) (by rw [ha, hk]; rfl)
    simpa using this

/-! ### non-vacuity: concrete values meeting the hypotheses -/

/-- a known_hosts content with a comma-listed line, a hashed line and a duplicate, none of which
    gives host "r1" the key "SRV"; HMAC is a toy function -/
def exEntries : List Entry :=
  [{ ids := [.plain "r9", .plain "r1", .plain "10.0.0.1"], keyType := "ssh-rsa", key := "OTHER" },
   { ids := [.hashed "salt" "r1/salt"], keyType := "ssh-ed25519", key := "OTHER2" },
   { ids := [.plain "r2"], keyType := "ssh-rsa", key := "SRV" },
   { ids := [.plain "r1"], keyType := "ssh-rsa", key := "OTHER3" }]
def exHmac : String → String → String := fun s h => h ++ "/" ++ s
def exImp : String → String → Bool := fun kt _ => kt != "ssh-bogus"
def exEnv : Env := { strict := true, hasKey := true, keyLoads := true, hasPw := true, hasUser := true,
                     kexOK := true, accKey := true, accPw := true, userUnpins := false }

def exEnv2 : Env := { strict := true, hasKey := false, keyLoads := false, hasPw := true, hasUser := true,
                      kexOK := true, accKey := false, accPw := false, userUnpins := false }

example : lookup exHmac (parse exEntries) "r1" = some ("ssh-rsa", "OTHER3") ∧
    lookup exHmac (parse exEntries) "r2" = some ("ssh-rsa", "SRV") ∧
    lookup exHmac (parse exEntries) "zz" = none ∧
    paramikoOpen (cfgOf exHmac exImp exEntries "r1" "SRV" exEnv) =
      [Ev.kex, Ev.lookup true false, Ev.verifyFail, Ev.raise Exc.authenticationFailed] ∧
    paramikoOpen (cfgOf exHmac exImp exEntries "r2" "SRV" exEnv) =
      [Ev.kex, Ev.lookup true true, Ev.verifyOK, Ev.offerKey, Ev.openSession] ∧
    ssh2Open (cfgOf exHmac exImp exEntries "zz" "SRV" exEnv2) =
      [Ev.kex, Ev.lookup false false, Ev.verifyFail, Ev.raise Exc.authenticationFailed] := by decide

example : safeOrder [(.authenticate, false), (.handshake, false), (.verifyKey, true)] = false ∧
    safeOrder [(.handshake, false), (.authenticate, false), (.verifyKey, true), (.openChannel, false)] = false ∧
    safeOrder (asyncsshOrder false false false) = false ∧ safeOrder (asyncsshOrder true true false) = false ∧
    safeOrder (asyncsshOrder true false true) = false ∧ safeOrderP (asyncsshOrder true false true) = true ∧
    safeOrder (asyncsshOrder true false false) = true ∧
    run .asyncssh (asyncsshOrder true false false) userUnpinsCfg =
      [Ev.lookup true false, Ev.lookup true false, Ev.kex, Ev.verifyFail, Ev.raise Exc.authenticationFailed] ∧
    run .asyncssh (asyncsshOrder true false false) unusableCfg =
      [Ev.lookup true false, Ev.lookup true false, Ev.raise Exc.authenticationFailed] ∧
    run .asyncssh (asyncsshOrder true false false) leakCfg =
      [Ev.lookup true false, Ev.lookup true false, Ev.kex, Ev.verifyFail, Ev.raise Exc.authenticationFailed] := by decide

def exArgs : SysArgs :=
  { host := "r1", port := 22, timeoutSocket := 15, timeoutTransport := 30, keyFile := "", username := "bob",
    strictOff := false, knownHosts := "/home/u/kh", configFile := "",
    userArgs := ["-o", "StrictHostKeyChecking=no"] }

example : renderCmd (buildOpenCmd exArgs) =
    ["ssh", "r1", "-p", "22", "-o", "ConnectTimeout=15", "-o", "ServerAliveInterval=30", "-l", "bob",
     "-o", "StrictHostKeyChecking=yes", "-o", "UserKnownHostsFile=/home/u/kh", "-F", "/dev/null",
     "-o", "StrictHostKeyChecking=no"] := by decide

end Scrapli.HostKey
