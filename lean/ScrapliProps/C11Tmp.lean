import ScrapliProps.C11Lemmas
namespace Scrapli.Lifecycle
variable {cfg : Cfg} {P : St → Prop}

/-! ### __enter__ / __exit__ -/

theorem runEnter_unfold (hc : cfg.code.enterP = enterP) (s : St) (tape : List Ev) :
    (runEnter cfg s tape).st = (if (runOpen cfg s tape).ok then (runOpen cfg s tape).st
                                else channelClose cfg (transportClose cfg (runOpen cfg s tape).st)) ∧
    (runEnter cfg s tape).out = (if (runOpen cfg s tape).ok then .returns else .raises .connError) ∧
    (runEnter cfg s tape).tape = (runOpen cfg s tape).tape := by
  unfold runEnter
  rw [hc]
  unfold enterP
  obtain ⟨p1, p2, p3⟩ := execProg_single (cfg := cfg) (execStmt1 cfg)
    (.tryExceptRaise [⟨.always, .callOpen⟩] [⟨.always, .logCritical⟩, ⟨.always, .transportClose⟩, ⟨.always, .channelClose⟩]) s tape
  rw [p1, p2, p3]
  obtain ⟨b1, b2, b3⟩ := execList_single (cfg := cfg) (execStmt1 cfg) .callOpen s tape
  have hcall : execStmt1 cfg .callOpen s tape = runOpen cfg s tape := rfl
  rw [hcall] at b1 b2 b3
  unfold execNode
  simp only
  by_cases hok : (runOpen cfg s tape).ok = true
  · have hbok : (execList (execStmt1 cfg) cfg [⟨.always, .callOpen⟩] s tape).ok = true := by
      rw [ok_iff, b2]; exact (ok_iff _).1 hok
    simp only [hbok, hok, if_true]
    exact ⟨b1, by rw [b2]; exact (ok_iff _).1 hok, b3⟩
  · have hok' : (runOpen cfg s tape).ok = false := by simpa using hok
    have hbok : (execList (execStmt1 cfg) cfg [⟨.always, .callOpen⟩] s tape).ok = false := by
      rw [ok_false_iff, b2]; exact (ok_false_iff _).1 hok'
    -- the handler: logger.critical, transport.close(), channel.close()
    have hq := quiet1_logCritical (cfg := cfg) (execList (execStmt1 cfg) cfg [⟨.always, .callOpen⟩] s tape).st
      (execList (execStmt1 cfg) cfg [⟨.always, .callOpen⟩] s tape).tape
    obtain ⟨c1, c2, c3, _⟩ := execList_cons_go (cfg := cfg) (execStmt1 cfg) ⟨.always, .logCritical⟩
      [⟨.always, .transportClose⟩, ⟨.always, .channelClose⟩] _ _ rfl ((ok_iff _).2 hq.2.2)
    obtain ⟨d1, d2, d3⟩ := closeBoth_list (cfg := cfg) (execStmt1 cfg) (fun _ _ => rfl) (fun _ _ => rfl)
      (execStmt1 cfg .logCritical (execList (execStmt1 cfg) cfg [⟨.always, .callOpen⟩] s tape).st
        (execList (execStmt1 cfg) cfg [⟨.always, .callOpen⟩] s tape).tape).st
      (execStmt1 cfg .logCritical (execList (execStmt1 cfg) cfg [⟨.always, .callOpen⟩] s tape).st
        (execList (execStmt1 cfg) cfg [⟨.always, .callOpen⟩] s tape).tape).tape
    have hhok : (execList (execStmt1 cfg) cfg [⟨.always, .logCritical⟩, ⟨.always, .transportClose⟩, ⟨.always, .channelClose⟩]
        (execList (execStmt1 cfg) cfg [⟨.always, .callOpen⟩] s tape).st
        (execList (execStmt1 cfg) cfg [⟨.always, .callOpen⟩] s tape).tape).ok = true := by
      rw [ok_iff, c2]; exact (ok_iff _).1 d3
    simp only [hbok, hok', hhok, if_true, Bool.false_eq_true, if_false]
    refine ⟨?_, trivial, ?_⟩
    · rw [c1, d1, hq.1, b1]
    · rw [c3, d2, hq.2.1, b3]

theorem runExit_unfold (hc : cfg.code.exitP = exitP) (s : St) (tape : List Ev) :
    (runExit cfg s tape).st = (runClose cfg s tape).st ∧ (runExit cfg s tape).out = (runClose cfg s tape).out ∧
    (runExit cfg s tape).tape = (runClose cfg s tape).tape := by
  unfold runExit
  rw [hc]
  unfold exitP
  obtain ⟨p1, p2, p3⟩ := execProg_single (cfg := cfg) (execStmt1 cfg) (.simple ⟨.always, .callClose⟩) s tape
  rw [p1, p2, p3]
  have hn : execNode (execStmt1 cfg) cfg (.simple ⟨.always, .callClose⟩) s tape = execList (execStmt1 cfg) cfg [⟨.always, .callClose⟩] s tape := by
    unfold execNode; rfl
  rw [hn]
  exact execList_single (cfg := cfg) (execStmt1 cfg) .callClose s tape

end Scrapli.Lifecycle
