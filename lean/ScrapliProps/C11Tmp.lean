import ScrapliProps.C11Lemmas
namespace Scrapli.Lifecycle
variable {cfg : Cfg} {P : St → Prop}

theorem execProg_append (f : Stmt → St → List Ev → R) (p q : Prog) : ∀ (s : St) (tape : List Ev),
    execProg f cfg (p ++ q) s tape =
      if (execProg f cfg p s tape).ok then
        { execProg f cfg q (execProg f cfg p s tape).st (execProg f cfg p s tape).tape with
          tr := (execProg f cfg p s tape).tr ++ (execProg f cfg q (execProg f cfg p s tape).st (execProg f cfg p s tape).tape).tr }
      else execProg f cfg p s tape := by
  induction p with
  | nil =>
    intro s tape
    simp [execProg, R.ok]
  | cons n rest ih =>
    intro s tape
    rw [List.cons_append, execProg, execProg]
    by_cases hok : (execNode f cfg n s tape).ok = true
    · simp only [hok, if_true]
      rw [ih]
      by_cases hok2 : (execProg f cfg rest (execNode f cfg n s tape).st (execNode f cfg n s tape).tape).ok = true
      · simp [hok2, R.ok, List.append_assoc]
        simp [R.ok] at hok2
        simp [hok2]
      · simp [hok2, R.ok]
        simp [R.ok] at hok2
        simp [hok2]
    · simp [hok]

end Scrapli.Lifecycle
