import ScrapliProps.C11Lemmas
namespace Scrapli.Lifecycle
variable {cfg : Cfg} {P : St → Prop}

/-! ### histories -/

/-- the state a history ends in -/
def stateAfter (cfg : Cfg) : List (Op × List Ev) → St → St
  | [], s => s
  | (op, tape) :: rest, s => stateAfter cfg rest (runOp cfg op s tape).st

theorem released_history (hfix : FixedCfg cfg) : ∀ (h : List (Op × List Ev)) (s : St), Inv cfg s → okHistory cfg h s = true →
    ∀ p ∈ h.zip (runHistory cfg h s), p.1.1.closes = true → Released p.2.st := by
  intro h
  induction h with
  | nil => intro s _ _ p hp; simp [runHistory] at hp
  | cons x rest ih =>
    obtain ⟨op, tape⟩ := x
    intro s hinv hok p hp hcl
    have hok' : allowed op s = true ∧ okHistory cfg rest (runOp cfg op s tape).st = true := by
      simpa [okHistory] using hok
    simp only [runHistory, List.zip_cons_cons, List.mem_cons] at hp
    rcases hp with hp | hp
    · subst hp
      cases op with
      | «open» => simp [Op.closes] at hcl
      | operate => simp [Op.closes] at hcl
      | close => exact (inv_close hfix s tape hinv).2.1
      | withBlock body =>
        have ha : s.needClose = false ∧ bodyOK body true = true := by simpa [allowed] using hok'.1
        exact (inv_with hfix s tape body hinv ha.1 ha.2).2.1
    · exact ih _ (inv_runOp hfix op s tape hinv hok'.1) hok'.2 p hp hcl

theorem reach_of_history : ∀ (h : List (Op × List Ev)) (s : St), Reach cfg s → okHistory cfg h s = true → Reach cfg (stateAfter cfg h s) := by
  intro h
  induction h with
  | nil => intro s hs _; exact hs
  | cons x rest ih =>
    obtain ⟨op, tape⟩ := x
    intro s hs hok
    have hok' : allowed op s = true ∧ okHistory cfg rest (runOp cfg op s tape).st = true := by
      simpa [okHistory] using hok
    exact ih _ (Reach.step op tape hs hok'.1) hok'.2

/-! ### with-block whose open() fails -/

theorem with_failed_open (hfix : FixedCfg cfg) (s : St) (tape : List Ev) (body : List BodyOp) (h : Inv cfg s) (hn : s.needClose = false)
    (hfail : (runOpen cfg { s with needClose := true } tape).out ≠ .returns) :
    (opWith cfg body s tape).out = .raises .connError ∧ Released (opWith cfg body s tape).st ∧
    (opWith cfg body s tape).tape = (runOpen cfg { s with needClose := true } tape).tape := by
  obtain ⟨_, hce, _⟩ := code_fixed_parts hfix.1
  obtain ⟨ho1, _⟩ := inv_open hfix s tape h hn
  unfold opOpen at ho1
  obtain ⟨e1, e2, e3⟩ := runEnter_unfold hce { s with needClose := true } tape
  have hok' : (runOpen cfg { s with needClose := true } tape).ok = false := (ok_false_iff _).2 hfail
  have hek : (runEnter cfg { s with needClose := true } tape).ok = false := by
    rw [ok_false_iff, e2]; simp [hok']
  have hst : (runEnter cfg { s with needClose := true } tape).st
      = channelClose cfg (transportClose cfg (runOpen cfg { s with needClose := true } tape).st) := by
    rw [e1]; simp [hok']
  have hr := closeBoth_released hfix.2 _ ho1.1
  rw [← hst] at hr
  unfold opWith
  simp only [hek, Bool.not_false, if_true]
  refine ⟨?_, Released_need false hr, e3⟩
  rw [e2]; simp [hok']

/-! ### second close -/

theorem second_close (hfix : FixedCfg cfg) (c : St) (tape : List Ev) (hr : Released c) (hn : c.needClose = false) :
    (opClose cfg c tape).st = c ∧ (opClose cfg c tape).tape = tape ∧ (opClose cfg c tape).out = closedHookOutcome cfg.onClose := by
  obtain ⟨r1, r2, r3⟩ := runClose_fixed hfix.1 c tape
  obtain ⟨h1, h2, h3⟩ := hookPart_closed (cfg := cfg) c tape hr.1
  unfold opClose
  simp only
  refine ⟨?_, by rw [r3, h2], by rw [r2, h3]⟩
  rw [r1, h1, closeBoth_id hfix.2 c hr]
  cases c; simp_all

/-! ### close() of the pre-fix code, when the hook does not raise -/

theorem runClose_orig_ok (hc : cfg.code.closeP = closeOrig cfg.stack) (s : St) (tape : List Ev)
    (hhook : (hookPart cfg s tape).out = .returns) :
    (runClose cfg s tape).st = channelClose cfg (transportClose cfg (hookPart cfg s tape).st) := by
  have hhead : ∃ st, Quiet (execStmt0 cfg) st ∧ closeHead cfg.stack = .simple ⟨.always, st⟩ := by
    cases cfg.stack
    · exact ⟨_, quiet0_logPre true, rfl⟩
    · exact ⟨_, quiet0_logPost true, rfl⟩
  obtain ⟨st0, hq0, hh0⟩ := hhead
  unfold runClose
  rw [hc]
  simp only [closeOrig, hh0]
  obtain ⟨a1, _, _⟩ := execProg_cons_always (cfg := cfg) (execStmt0 cfg) st0
    [.simple ⟨.hasOnClose, .onClose⟩, .simple ⟨.always, .transportClose⟩, .simple ⟨.always, .channelClose⟩, .simple ⟨.always, .logPost true⟩] s tape
  have hq := hq0 s tape
  rw [a1]
  simp only [(ok_iff _).2 hq.2.2, if_true, hq.1, hq.2.1]
  have hn : execNode (execStmt0 cfg) cfg (.simple ⟨.hasOnClose, .onClose⟩) s tape = hookPart cfg s tape := by
    unfold execNode hookPart; rfl
  have hnok : (execNode (execStmt0 cfg) cfg (.simple ⟨.hasOnClose, .onClose⟩) s tape).ok = true := by
    rw [hn]; exact (ok_iff _).2 hhook
  obtain ⟨b1, _, _, _⟩ := execProg_cons_go (cfg := cfg) (execStmt0 cfg) (.simple ⟨.hasOnClose, .onClose⟩)
    [.simple ⟨.always, .transportClose⟩, .simple ⟨.always, .channelClose⟩, .simple ⟨.always, .logPost true⟩] s tape hnok
  rw [b1, hn]
  obtain ⟨c1, _, _⟩ := execProg_cons_always (cfg := cfg) (execStmt0 cfg) .transportClose
    [.simple ⟨.always, .channelClose⟩, .simple ⟨.always, .logPost true⟩] (hookPart cfg s tape).st (hookPart cfg s tape).tape
  rw [c1]
  have htc : ∀ y tp, execStmt0 cfg .transportClose y tp = ⟨.returns, transportClose cfg y, tp, ["tclose"]⟩ := fun _ _ => rfl
  have hcc : ∀ y tp, execStmt0 cfg .channelClose y tp = ⟨.returns, channelClose cfg y, tp, ["cclose"]⟩ := fun _ _ => rfl
  have hlp : ∀ y tp, execStmt0 cfg (.logPost true) y tp = ⟨.returns, y, tp, ["post:c"]⟩ := fun _ _ => rfl
  obtain ⟨d1, _, _⟩ := execProg_cons_always (cfg := cfg) (execStmt0 cfg) .channelClose
    [.simple ⟨.always, .logPost true⟩] (transportClose cfg (hookPart cfg s tape).st) (hookPart cfg s tape).tape
  obtain ⟨e1, _, _⟩ := execProg_cons_always (cfg := cfg) (execStmt0 cfg) (.logPost true)
    [] (channelClose cfg (transportClose cfg (hookPart cfg s tape).st)) (hookPart cfg s tape).tape
  simp only [htc, R.ok] at d1 ⊢
  simp only [beq_self_eq_true, if_true]
  rw [d1]
  simp only [hcc, R.ok, beq_self_eq_true, if_true] at e1 ⊢
  rw [e1]
  simp [hlp, R.ok]

end Scrapli.Lifecycle
