import ScrapliProps.C11Lemmas
namespace Scrapli.Lifecycle
variable {cfg : Cfg} {P : St → Prop}

theorem execProg_append (f : Stmt → St → List Ev → R) (p q : Prog) : ∀ (s : St) (tape : List Ev),
    execProg f cfg (p ++ q) s tape =
      if (execProg f cfg p s tape).ok then
        { execProg f cfg q (execProg f cfg p s tape).st (execProg f cfg p s tape).tape with
          tr := (execProg f cfg p s tape).tr ++ (execProg f cfg q (execProg f cfg p s tape).st (execProg f cfg p s tape).tape).tr }
      else execProg f cfg p s tape := by
  induction p with
  | nil =>
    intro s tape
    simp [execProg, R.ok]
  | cons n rest ih =>
    intro s tape
    rw [List.cons_append, execProg, execProg]
    by_cases hok : (execNode f cfg n s tape).ok = true
    · simp only [hok, if_true]
      rw [ih]
      by_cases hok2 : (execProg f cfg rest (execNode f cfg n s tape).st (execNode f cfg n s tape).tape).ok = true
      · simp [hok2, R.ok, List.append_assoc]
        simp [R.ok] at hok2
        simp [hok2]
      · simp [hok2, R.ok]
        simp [R.ok] at hok2
        simp [hok2]
    · simp [hok]

end Scrapli.Lifecycle
namespace Scrapli.Lifecycle
variable {cfg : Cfg}

/-- the first three statements of open() of either driver -/
def openPre : Prog :=
  [.simple ⟨.always, .logPre false⟩, .simple ⟨.always, .transportOpen⟩, .simple ⟨.always, .channelOpen⟩]

theorem openOf_split (st : Stack) : ∃ tail, openOf st = openPre ++ tail := by
  cases st
  · exact ⟨_, rfl⟩
  · exact ⟨_, rfl⟩

set_option maxHeartbeats 1000000 in
theorem openPre_congr (x : St) (la la' : Bool) (tn tn' : Tn) (hla : la = true → cfg.sink ≠ .none) (hla' : la' = true → cfg.sink ≠ .none)
    (htn : resetTn (resetsOf cfg) tn = resetTn (resetsOf cfg) tn') (tape : List Ev) :
    (execProg (execStmt0 cfg) cfg openPre { x with logAttached := la, tn := tn } tape).out
      = (execProg (execStmt0 cfg) cfg openPre { x with logAttached := la', tn := tn' } tape).out ∧
    (execProg (execStmt0 cfg) cfg openPre { x with logAttached := la, tn := tn } tape).tape
      = (execProg (execStmt0 cfg) cfg openPre { x with logAttached := la', tn := tn' } tape).tape ∧
    (execProg (execStmt0 cfg) cfg openPre { x with logAttached := la, tn := tn } tape).tr
      = (execProg (execStmt0 cfg) cfg openPre { x with logAttached := la', tn := tn' } tape).tr ∧
    ((execProg (execStmt0 cfg) cfg openPre { x with logAttached := la, tn := tn } tape).ok = true →
      (execProg (execStmt0 cfg) cfg openPre { x with logAttached := la, tn := tn } tape).st
        = (execProg (execStmt0 cfg) cfg openPre { x with logAttached := la', tn := tn' } tape).st) ∧
    { (execProg (execStmt0 cfg) cfg openPre { x with logAttached := la, tn := tn } tape).st with logAttached := false }
      = { (execProg (execStmt0 cfg) cfg openPre { x with logAttached := la', tn := tn' } tape).st with logAttached := false } := by
  have hk : ∀ t : List Ev, (match t with | [] => EvK.ok | e :: _ => e.k) = EvK.ok ∨ (match t with | [] => EvK.ok | e :: _ => e.k) = EvK.drop ∨
      (match t with | [] => EvK.ok | e :: _ => e.k) = EvK.stall ∨ (match t with | [] => EvK.ok | e :: _ => e.k) = EvK.refuse ∨
      (match t with | [] => EvK.ok | e :: _ => e.k) = EvK.authFail := by
    intro t; cases (match t with | [] => EvK.ok | e :: _ => e.k) <;> simp
  cases hs : cfg.sink <;> cases hpk : (cfg.kind == TKind.paramiko) <;>
    rcases hk tape with h | h | h | h | h <;>
    simp [openPre, execProg, execNode, execList, guardHolds, execStmt0, transportOpen, channelOpen, R.ok, h, hs, hpk, htn] <;>
    simp_all

end Scrapli.Lifecycle
