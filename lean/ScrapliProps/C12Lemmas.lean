import ScrapliModel.Flow
/- Helper lemmas for C12: soundness and completeness of `reachFrom`, proved once for every graph.
   Property theorems are in C12.lean. -/
namespace Scrapli.Flow
open Graph

/-- `Path g a b`: there is a walk from `a` to `b` along edges of `g` that never *enters* a
    sanitiser node (the start itself is not looked at) -/
inductive Path (g : Graph) : Nat → Nat → Prop
  | refl (a : Nat) : Path g a a
  | step {a b c : Nat} : Path g a b → c ∈ g.succ b → g.san c = false → Path g a c

/-- a set of nodes closed under non-sanitiser successors -/
def Closed (g : Graph) (v : List Nat) : Prop :=
  ∀ a ∈ v, ∀ c ∈ g.succ a, g.san c = false → c ∈ v

theorem closed_path (g : Graph) (v : List Nat) (hc : Closed g v) {s t : Nat} (hs : s ∈ v)
    (hp : Path g s t) : t ∈ v := by
  induction hp with
  | refl => exact hs
  | step _ hcb hsan ih => exact hc _ ih _ hcb hsan

/-! ### `addNew` -/

theorem addNew_spec (g : Graph) : ∀ (cs v fr : List Nat),
    (∀ x, x ∈ (addNew g cs v fr).1 ↔ (x ∈ v ∨ (x ∈ cs ∧ g.san x = false))) ∧
    (∀ x, x ∈ (addNew g cs v fr).2 ↔ (x ∈ fr ∨ (x ∈ cs ∧ g.san x = false ∧ x ∉ v))) := by
  intro cs
  induction cs with
  | nil => intro v fr; simp [addNew]
  | cons c cs ih =>
    intro v fr
    unfold addNew
    by_cases h : (g.san c || v.contains c) = true
    · rw [if_pos h]
      obtain ⟨h1, h2⟩ := ih v fr
      have hc : g.san c = true ∨ c ∈ v := by
        simpa [Bool.or_eq_true, List.contains_iff_mem] using h
      constructor
      · intro x
        rw [h1 x]
        constructor
        · rintro (hx | ⟨hx, hs⟩)
          · exact Or.inl hx
          · exact Or.inr ⟨List.mem_cons_of_mem _ hx, hs⟩
        · rintro (hx | ⟨hx, hs⟩)
          · exact Or.inl hx
          · rcases List.mem_cons.mp hx with rfl | hx'
            · rcases hc with hc | hc
              · rw [hc] at hs; cases hs
              · exact Or.inl hc
            · exact Or.inr ⟨hx', hs⟩
      · intro x
        rw [h2 x]
        constructor
        · rintro (hx | ⟨hx, hs, hv⟩)
          · exact Or.inl hx
          · exact Or.inr ⟨List.mem_cons_of_mem _ hx, hs, hv⟩
        · rintro (hx | ⟨hx, hs, hv⟩)
          · exact Or.inl hx
          · rcases List.mem_cons.mp hx with rfl | hx'
            · rcases hc with hc | hc
              · rw [hc] at hs; cases hs
              · exact absurd hc hv
            · exact Or.inr ⟨hx', hs, hv⟩
    · rw [if_neg h]
      obtain ⟨h1, h2⟩ := ih (c :: v) (c :: fr)
      have hc : g.san c = false ∧ c ∉ v := by
        have : ¬ (g.san c = true ∨ c ∈ v) := by
          simpa [Bool.or_eq_true, List.contains_iff_mem] using h
        constructor
        · cases hs : g.san c
          · rfl
          · exact absurd (Or.inl hs) this
        · exact fun hv => this (Or.inr hv)
      constructor
      · intro x
        rw [h1 x]
        constructor
        · rintro (hx | ⟨hx, hs⟩)
          · rcases List.mem_cons.mp hx with rfl | hx'
            · exact Or.inr ⟨List.mem_cons_self, hc.1⟩
            · exact Or.inl hx'
          · exact Or.inr ⟨List.mem_cons_of_mem _ hx, hs⟩
        · rintro (hx | ⟨hx, hs⟩)
          · exact Or.inl (List.mem_cons_of_mem _ hx)
          · rcases List.mem_cons.mp hx with rfl | hx'
            · exact Or.inl List.mem_cons_self
            · exact Or.inr ⟨hx', hs⟩
      · intro x
        rw [h2 x]
        constructor
        · rintro (hx | ⟨hx, hs, hv⟩)
          · rcases List.mem_cons.mp hx with rfl | hx'
            · exact Or.inr ⟨List.mem_cons_self, hc.1, hc.2⟩
            · exact Or.inl hx'
          · exact Or.inr ⟨List.mem_cons_of_mem _ hx, hs, fun h' => hv (List.mem_cons_of_mem _ h')⟩
        · rintro (hx | ⟨hx, hs, hv⟩)
          · exact Or.inl (List.mem_cons_of_mem _ hx)
          · by_cases hxc : x = c
            · subst hxc; exact Or.inl List.mem_cons_self
            · rcases List.mem_cons.mp hx with rfl | hx'
              · exact absurd rfl hxc
              · refine Or.inr ⟨hx', hs, ?_⟩
                intro h'
                rcases List.mem_cons.mp h' with rfl | h''
                · exact hxc rfl
                · exact hv h''

/-! ### counting the nodes not visited yet -/

def unvisited (g : Graph) (v : List Nat) : Nat :=
  ((List.range g.n).filter (fun x => !v.contains x)).length

theorem filter_length_le {l : List Nat} {p q : Nat → Bool} (h : ∀ x, q x = true → p x = true) :
    (l.filter q).length ≤ (l.filter p).length := by
  induction l with
  | nil => simp
  | cons a l ih =>
    simp only [List.filter_cons]
    by_cases hq : q a = true
    · rw [if_pos hq, if_pos (h a hq)]; simpa using ih
    · rw [if_neg hq]
      by_cases hp : p a = true
      · rw [if_pos hp]; simp; omega
      · rw [if_neg hp]; exact ih

theorem filter_length_lt {l : List Nat} {p q : Nat → Bool} (h : ∀ x, q x = true → p x = true)
    (x : Nat) (hx : x ∈ l) (hp : p x = true) (hq : q x = false) :
    (l.filter q).length < (l.filter p).length := by
  induction l with
  | nil => cases hx
  | cons a l ih =>
    simp only [List.filter_cons]
    rcases List.mem_cons.mp hx with rfl | hx'
    · rw [if_pos hp]
      have : ¬ (q x = true) := by rw [hq]; exact Bool.false_ne_true
      rw [if_neg this]
      have := filter_length_le (l := l) h
      simp; omega
    · have ih' := ih hx'
      by_cases hqa : q a = true
      · rw [if_pos hqa, if_pos (h a hqa)]; simpa using ih'
      · rw [if_neg hqa]
        by_cases hpa : p a = true
        · rw [if_pos hpa]; simp; omega
        · rw [if_neg hpa]; exact ih'

theorem unvisited_le (g : Graph) (v : List Nat) : unvisited g v ≤ g.n := by
  unfold unvisited
  have := List.length_filter_le (fun x => !v.contains x) (List.range g.n)
  simpa using this

theorem unvisited_lt (g : Graph) (v v' : List Nat) (hsub : ∀ x ∈ v, x ∈ v') (x : Nat)
    (hx : x < g.n) (hv : x ∉ v) (hv' : x ∈ v') : unvisited g v' < unvisited g v := by
  unfold unvisited
  apply filter_length_lt (x := x)
  · intro y hy
    simp only [Bool.not_eq_true', List.contains_eq_mem, decide_eq_false_iff_not] at hy ⊢
    exact fun h => hy (hsub y h)
  · simpa using hx
  · simpa using hv
  · simpa using hv'

theorem unvisited_zero (g : Graph) (v : List Nat) (h : unvisited g v = 0) (x : Nat) (hx : x < g.n) :
    x ∈ v := by
  unfold unvisited at h
  have hnil := List.eq_nil_of_length_eq_zero h
  have hm : x ∈ List.range g.n := by simpa using hx
  by_cases hv : x ∈ v
  · exact hv
  · have : x ∈ (List.range g.n).filter (fun x => !v.contains x) := by
      rw [List.mem_filter]; exact ⟨hm, by simpa using hv⟩
    rw [hnil] at this; cases this

/-! ### well-formedness: successors are nodes -/

theorem wf_of_wfN (g : Graph) (k : Nat) (h : g.wfN k = true) : g.wf = true := by
  unfold Graph.wfN at h
  simp only [Bool.and_eq_true, beq_iff_eq] at h
  unfold Graph.wf
  rw [h.1]; exact h.2

theorem succ_lt (g : Graph) (hwf : g.wf = true) {a c : Nat} (hc : c ∈ g.succ a) : c < g.n := by
  unfold Graph.succ at hc
  unfold Graph.wf at hwf
  rw [List.all_eq_true] at hwf
  rw [List.getD_eq_getElem?_getD] at hc
  cases hget : g.adj[a]? with
  | none => rw [hget] at hc; simp at hc
  | some l =>
    rw [hget] at hc
    have hl : l ∈ g.adj := List.mem_of_getElem? hget
    have := hwf l hl
    rw [List.all_eq_true] at this
    have := this c (by simpa using hc)
    simpa [Graph.n] using this

/-! ### the closure loop -/

/-- loop invariant: the frontier is visited, and every visited node outside the frontier already
    has all its non-sanitiser successors visited -/
def Inv (g : Graph) (v fr : List Nat) : Prop :=
  (∀ x ∈ fr, x ∈ v) ∧ (∀ a ∈ v, a ∉ fr → ∀ c ∈ g.succ a, g.san c = false → c ∈ v)

theorem inv_step (g : Graph) (v fr : List Nat) (h : Inv g v fr) :
    Inv g (addNew g (fr.flatMap g.succ) v []).1 (addNew g (fr.flatMap g.succ) v []).2 := by
  obtain ⟨h1, h2⟩ := addNew_spec g (fr.flatMap g.succ) v []
  constructor
  · intro x hx
    rcases (h2 x).mp hx with hx | ⟨hx, hs, _⟩
    · cases hx
    · exact (h1 x).mpr (Or.inr ⟨hx, hs⟩)
  · intro a ha hnf c hc hs
    rcases (h1 a).mp ha with hav | ⟨hac, has⟩
    · by_cases hfr : a ∈ fr
      · exact (h1 c).mpr (Or.inr ⟨List.mem_flatMap.mpr ⟨a, hfr, hc⟩, hs⟩)
      · exact (h1 c).mpr (Or.inl (h.2 a hav hfr c hc hs))
    · by_cases hav : a ∈ v
      · by_cases hfr : a ∈ fr
        · exact (h1 c).mpr (Or.inr ⟨List.mem_flatMap.mpr ⟨a, hfr, hc⟩, hs⟩)
        · exact (h1 c).mpr (Or.inl (h.2 a hav hfr c hc hs))
      · exact absurd ((h2 a).mpr (Or.inr ⟨hac, has, hav⟩)) hnf

theorem reachAux_closed (g : Graph) (hwf : g.wf = true) : ∀ (fuel : Nat) (v fr : List Nat),
    Inv g v fr → (fr ≠ [] → unvisited g v ≤ fuel) → Closed g (reachAux g fuel v fr) := by
  intro fuel
  induction fuel with
  | zero =>
    intro v fr hinv hf
    unfold reachAux
    intro a ha c hc hs
    by_cases hfr : fr = []
    · subst hfr; exact hinv.2 a ha (by simp) c hc hs
    · have h0 : unvisited g v = 0 := Nat.le_zero.mp (hf hfr)
      exact unvisited_zero g v h0 c (succ_lt g hwf hc)
  | succ fuel ih =>
    intro v fr hinv hf
    cases fr with
    | nil =>
      unfold reachAux
      intro a ha c hc hs
      exact hinv.2 a ha (by simp) c hc hs
    | cons a fr =>
      unfold reachAux
      simp only
      apply ih
      · exact inv_step g v (a :: fr) hinv
      · intro hne
        obtain ⟨h1, h2⟩ := addNew_spec g ((a :: fr).flatMap g.succ) v []
        obtain ⟨x, hx⟩ := List.exists_mem_of_ne_nil _ hne
        rcases (h2 x).mp hx with hx' | ⟨hxc, hxs, hxv⟩
        · cases hx'
        · obtain ⟨b, _, hb⟩ := List.mem_flatMap.mp hxc
          have hlt := unvisited_lt g v (addNew g ((a :: fr).flatMap g.succ) v []).1
            (fun y hy => (h1 y).mpr (Or.inl hy)) x (succ_lt g hwf hb) hxv
            ((h1 x).mpr (Or.inr ⟨hxc, hxs⟩))
          have := hf (by simp)
          omega

theorem reachAux_mono (g : Graph) : ∀ (fuel : Nat) (v fr : List Nat), ∀ x ∈ v,
    x ∈ reachAux g fuel v fr := by
  intro fuel
  induction fuel with
  | zero => intro v fr x hx; unfold reachAux; exact hx
  | succ fuel ih =>
    intro v fr x hx
    cases fr with
    | nil => unfold reachAux; exact hx
    | cons a fr =>
      unfold reachAux
      simp only
      apply ih
      exact ((addNew_spec g ((a :: fr).flatMap g.succ) v []).1 x).mpr (Or.inl hx)

theorem reachAux_paths (g : Graph) (starts : List Nat) : ∀ (fuel : Nat) (v fr : List Nat),
    (∀ x ∈ fr, x ∈ v) → (∀ x ∈ v, ∃ s ∈ starts, Path g s x) →
    ∀ x ∈ reachAux g fuel v fr, ∃ s ∈ starts, Path g s x := by
  intro fuel
  induction fuel with
  | zero => intro v fr _ hv x hx; unfold reachAux at hx; exact hv x hx
  | succ fuel ih =>
    intro v fr hfr hv x hx
    cases fr with
    | nil => unfold reachAux at hx; exact hv x hx
    | cons a fr =>
      unfold reachAux at hx
      simp only at hx
      obtain ⟨h1, h2⟩ := addNew_spec g ((a :: fr).flatMap g.succ) v []
      refine ih _ _ ?_ ?_ x hx
      · intro y hy
        rcases (h2 y).mp hy with hy' | ⟨hyc, hys, _⟩
        · cases hy'
        · exact (h1 y).mpr (Or.inr ⟨hyc, hys⟩)
      · intro y hy
        rcases (h1 y).mp hy with hyv | ⟨hyc, hys⟩
        · exact hv y hyv
        · obtain ⟨b, hb, hyb⟩ := List.mem_flatMap.mp hyc
          obtain ⟨s, hs, hp⟩ := hv b (hfr b hb)
          exact ⟨s, hs, Path.step hp hyb hys⟩

/-- **soundness of `reachFrom`** (for every graph): with fuel ≥ number of nodes, every node that can
    be reached from a start node without entering a sanitiser is reported -/
theorem reach_sound (g : Graph) (hwf : g.wf = true) (fuel : Nat) (hf : g.n ≤ fuel)
    (starts : List Nat) {s t : Nat} (hs : s ∈ starts) (hp : Path g s t) :
    t ∈ reachFrom g fuel starts := by
  unfold reachFrom
  have hcl : Closed g (reachAux g fuel starts starts) := by
    apply reachAux_closed g hwf
    · exact ⟨fun x hx => hx, fun a ha hna => absurd ha hna⟩
    · intro _; exact Nat.le_trans (unvisited_le g starts) hf
  exact closed_path g _ hcl (reachAux_mono g fuel starts starts s hs) hp

/-- **completeness of `reachFrom`** (for every graph, any fuel): everything reported really is
    reachable from some start node without entering a sanitiser -/
theorem reach_complete (g : Graph) (fuel : Nat) (starts : List Nat) {t : Nat}
    (ht : t ∈ reachFrom g fuel starts) : ∃ s ∈ starts, Path g s t := by
  unfold reachFrom at ht
  exact reachAux_paths g starts fuel starts starts (fun x hx => hx)
    (fun x hx => ⟨x, hx, Path.refl x⟩) t ht

/-- "reach reports no sink" ⇒ there is no sanitiser-avoiding path from a start node to a sink -/
theorem no_path_of_sinksReachedFrom_nil (g : Graph) (hwf : g.wf = true) (starts : List Nat)
    (h : sinksReachedFrom g starts = []) :
    ∀ s ∈ starts, ∀ t ∈ g.sinks, ¬ Path g s t := by
  intro s hs t ht hp
  have hr := reach_sound g hwf g.n (Nat.le_refl _) starts hs hp
  have : t ∈ sinksReachedFrom g starts := by
    unfold sinksReachedFrom
    rw [List.mem_filter]
    exact ⟨hr, by simpa [Graph.isSink] using ht⟩
  rw [h] at this; cases this

/-- conversely a reported sink comes with a real path -/
theorem path_of_mem_sinksReachedFrom (g : Graph) (starts : List Nat) {t : Nat}
    (h : t ∈ sinksReachedFrom g starts) : t ∈ g.sinks ∧ ∃ s ∈ starts, Path g s t := by
  unfold sinksReachedFrom at h
  rw [List.mem_filter] at h
  exact ⟨by simpa [Graph.isSink] using h.2, reach_complete g g.n starts h.1⟩

/-! ### certificates -/

theorem certOk_closed (g : Graph) (starts r : List Nat) (h : certOk g starts r = true) :
    (∀ s ∈ starts, s ∈ r) ∧ Closed g r ∧ (∀ a ∈ r, a ∉ g.sinks) := by
  unfold certOk at h
  simp only [Bool.and_eq_true, List.all_eq_true] at h
  obtain ⟨⟨h1, h2⟩, h3⟩ := h
  refine ⟨fun s hs => by simpa using h1 s hs, ?_, ?_⟩
  · intro a ha c hc hs
    have := h2 a ha c hc
    rw [hs] at this
    simpa using this
  · intro a ha hsink
    have := h3 a ha
    simp [Graph.isSink] at this
    exact this hsink

/-- a checked certificate determines the answer of the reachability query: no sink is reported
    (whatever the fuel), because everything `reachFrom` reports is reachable (`reach_complete`) and
    everything reachable lies in the closed, sink-free certificate set -/
theorem sinksReachedFrom_nil_of_cert (g : Graph) (starts r : List Nat)
    (h : certOk g starts r = true) : sinksReachedFrom g starts = [] := by
  obtain ⟨h1, h2, h3⟩ := certOk_closed g starts r h
  apply List.eq_nil_iff_forall_not_mem.mpr
  intro t ht
  obtain ⟨hts, s, hs, hp⟩ := path_of_mem_sinksReachedFrom g starts ht
  exact h3 t (closed_path g r h2 (h1 s hs) hp) hts

theorem walkEnd_path (g : Graph) : ∀ (l : List Nat) (s a t : Nat), Path g s a →
    walkEnd g a l = some t → Path g s t := by
  intro l
  induction l with
  | nil => intro s a t hp h; simp [walkEnd] at h; exact h ▸ hp
  | cons b rest ih =>
    intro s a t hp h
    unfold walkEnd at h
    split at h
    · rename_i hc
      simp only [Bool.and_eq_true, List.contains_iff_mem, Bool.not_eq_true'] at hc
      exact ih s b t (Path.step hp (by simpa using hc.1) hc.2) h
    · cases h

/-- a checked witness walk from a start node to a sink shows up in the query's answer -/
theorem mem_sinksReachedFrom_of_walk (g : Graph) (hwf : g.wf = true) (starts : List Nat)
    (s t : Nat) (l : List Nat) (hs : s ∈ starts) (ht : t ∈ g.sinks)
    (h : walkEnd g s l = some t) : t ∈ sinksReachedFrom g starts := by
  have hp := walkEnd_path g l s s t (Path.refl s) h
  unfold sinksReachedFrom
  rw [List.mem_filter]
  exact ⟨reach_sound g hwf g.n (Nat.le_refl _) starts hs hp, by simpa [Graph.isSink] using ht⟩

/-- the single-source query is covered by the all-sources query -/
theorem sinksReached_nil_of_all (g : Graph) (hwf : g.wf = true)
    (h : sinksReachedFrom g g.sources = []) : ∀ src ∈ g.sources, sinksReached g src = [] := by
  intro src hsrc
  unfold sinksReached
  apply List.eq_nil_iff_forall_not_mem.mpr
  intro t ht
  obtain ⟨hts, s, hs, hp⟩ := path_of_mem_sinksReachedFrom g [src] ht
  have hs' : s = src := by simpa using hs
  subst hs'
  exact no_path_of_sinksReachedFrom_nil g hwf g.sources h s hsrc t hts hp

end Scrapli.Flow
