import ScrapliModel.Timeout
/-
  Helper definitions and lemmas for C07 (property theorems: C07.lean).
  Style: each wrapper (`wrapS`, `poolT`, `waitForA`) and each sequencing operator is shown to preserve
  an invariant of the wrapped *function*; the statements about programs follow by induction on `Prog`.
-/
namespace Scrapli.Timeout
open Scrapli.Gen.Timeout

/-- names of the decorated calls with a non-zero timeout inside a program -/
def Prog.names : Prog → List String
  | .ret => []
  | .raise => []
  | .hang => []
  | .work _ k => k.names
  | .call t name body k => (if t = 0 then [] else [name]) ++ (body.names ++ k.names)
  | .spawn body k => body.names ++ k.names

/-- no call inside the program arms a timeout -/
def Prog.unarmed : Prog → Bool
  | .ret => true
  | .raise => true
  | .hang => true
  | .work _ k => k.unarmed
  | .call t _ body k => t == 0 && body.unarmed && k.unarmed
  | .spawn _ _ => false

/-- no task is started other than by `wait_for` -/
def Prog.spawnFree : Prog → Bool
  | .ret => true
  | .raise => true
  | .hang => true
  | .work _ k => k.spawnFree
  | .call _ _ body k => body.spawnFree && k.spawnFree
  | .spawn _ _ => false

/-! ### option times -/

@[simp] theorem omin_none_right (a : Option Nat) : omin a none = a := by cases a <;> rfl
@[simp] theorem omin_none_left (a : Option Nat) : omin none a = a := by cases a <;> rfl
@[simp] theorem omin_some_some (a b : Nat) : omin (some a) (some b) = some (min a b) := rfl
@[simp] theorem omaxN_some (a b : Nat) : omaxN a (some b) = some (max a b) := rfl
@[simp] theorem omaxN_none (a : Nat) : omaxN a none = none := rfl
@[simp] theorem ole_some (a b : Nat) : ole (some a) b = decide (a ≤ b) := rfl
@[simp] theorem ole_none (b : Nat) : ole none b = false := rfl
@[simp] theorem olt_some (a b : Nat) : olt (some a) b = decide (a < b) := rfl
@[simp] theorem olt_none (b : Nat) : olt none b = false := rfl

theorem omaxN_eq_some {a : Nat} {b : Option Nat} {f : Nat} (h : omaxN a b = some f) :
    ∃ e, b = some e ∧ f = max a e := by
  cases b with
  | none => simp at h
  | some e => simp at h; exact ⟨e, rfl, h.symm⟩

theorem omin_isSome (a b : Option Nat) : (omin a b).isSome = (a.isSome || b.isSome) := by
  cases a <;> cases b <;> rfl

theorem omin_some_le (C : Nat) (x : Option Nat) : ∃ C', omin (some C) x = some C' ∧ C' ≤ C := by
  cases x with
  | none => exact ⟨C, rfl, Nat.le_refl _⟩
  | some y => exact ⟨min C y, rfl, Nat.min_le_left _ _⟩

theorem omin_le_some (x : Option Nat) (C : Nat) : ∃ C', omin x (some C) = some C' ∧ C' ≤ C := by
  cases x with
  | none => exact ⟨C, rfl, Nat.le_refl _⟩
  | some y => exact ⟨min y C, rfl, Nat.min_le_right _ _⟩

/-! ### signal mechanism -/

abbrev SFun := Proc → Option (Proc × Out)

theorem fireS_user (cfg : Cfg) (p : Proc) (D n : Nat) (h : p.handler = .user n) :
    fireS cfg p D = ({ p with now := max D p.now, timer := none }, none) := by
  simp [fireS, h]

theorem fireS_scrapli (cfg : Cfg) (p : Proc) (D : Nat) (m : String) (h : p.handler = .scrapli m) :
    fireS cfg p D = ({ p with now := max D p.now, timer := none,
                              closed := if cfg.noTerminate then p.closed else true }, some (.timeout m)) := by
  simp [fireS, h, handleTimeout]

theorem fireS_handler (cfg : Cfg) (p : Proc) (D : Nat) : (fireS cfg p D).1.handler = p.handler := by
  cases hh : p.handler with
  | user n => rw [fireS_user cfg p D n hh]; exact hh
  | scrapli m => rw [fireS_scrapli cfg p D m hh]; exact hh

theorem fireS_timer (cfg : Cfg) (p : Proc) (D : Nat) : (fireS cfg p D).1.timer = none := by
  cases hh : p.handler with
  | user n => rw [fireS_user cfg p D n hh]
  | scrapli m => rw [fireS_scrapli cfg p D m hh]

/-- `f` leaves the SIGALRM handler it found, however it ends -/
def KeepsHandler (f : SFun) : Prop := ∀ p q o, f p = some (q, o) → q.handler = p.handler

/-- after `f` the timer is disarmed or untouched -/
def TimerNoneOrSame (f : SFun) : Prop := ∀ p q o, f p = some (q, o) → q.timer = none ∨ q.timer = p.timer

/-- what the arming wrapper hands back, given what the wrapped function did: (A) nothing to put back /
    code does not put back, (B) previous alarm pending again, (C1/C2) previous alarm already due: it goes
    off with the restored handler (foreign: returns; scrapli's: raises) -/
theorem wrapS_armed_cases (cfg : Cfg) (t : Nat) (name : String) (f : SFun) (p q : Proc) (o : Out) (ht : t ≠ 0)
    (h : wrapS cfg t name f p = some (q, o)) :
    ∃ p2 o2, f { p with handler := .scrapli (message name), timer := some (p.now + t) } = some (p2, o2) ∧
      ((q = { p2 with timer := none, handler := p.handler } ∧ o = o2 ∧ (cfg.restoreTimer = false ∨ p.timer = none)) ∨
       (∃ D, p.timer = some D ∧ cfg.restoreTimer = true ∧ p2.now < D ∧
          q = { p2 with timer := some D, handler := p.handler } ∧ o = o2) ∨
       (∃ D n, p.timer = some D ∧ cfg.restoreTimer = true ∧ D ≤ p2.now ∧ p.handler = .user n ∧
          q = { p2 with now := max D p2.now, timer := none, handler := p.handler } ∧ o = o2) ∨
       (∃ D m, p.timer = some D ∧ cfg.restoreTimer = true ∧ D ≤ p2.now ∧ p.handler = .scrapli m ∧
          q = { p2 with now := max D p2.now, timer := none, handler := p.handler,
                        closed := if cfg.noTerminate then p2.closed else true } ∧ o = .timeout m)) := by
  simp only [wrapS, ht, ↓reduceIte] at h
  split at h
  · simp at h
  · rename_i p2 o2 heq
    refine ⟨p2, o2, heq, ?_⟩
    cases hr : cfg.restoreTimer with
    | false =>
      simp only [hr, Bool.false_eq_true, ↓reduceIte] at h
      simp at h
      exact Or.inl ⟨h.1.symm, h.2.symm, Or.inl rfl⟩
    | true =>
      simp only [hr, ↓reduceIte] at h
      cases hp : p.timer with
      | none =>
        simp only [hp] at h
        simp at h
        exact Or.inl ⟨h.1.symm, h.2.symm, Or.inr rfl⟩
      | some D =>
        simp only [hp] at h
        by_cases hD : D ≤ p2.now
        · simp only [hD, ↓reduceIte] at h
          cases hh : p.handler with
          | user n =>
            rw [fireS_user cfg _ D n (by simpa using hh)] at h
            simp at h
            exact Or.inr (Or.inr (Or.inl ⟨D, n, rfl, rfl, hD, rfl, by rw [← h.1, hh], h.2.symm⟩))
          | scrapli m =>
            rw [fireS_scrapli cfg _ D m (by simpa using hh)] at h
            simp at h
            exact Or.inr (Or.inr (Or.inr ⟨D, m, rfl, rfl, hD, rfl, by rw [← h.1, hh]; cases cfg.noTerminate <;> rfl, h.2.symm⟩))
        · simp only [hD, ↓reduceIte] at h
          simp at h
          exact Or.inr (Or.inl ⟨D, rfl, rfl, by omega, h.1.symm, h.2.symm⟩)

/-- the wrapper restores the handler around ANY wrapped function when it arms (t ≠ 0) -/
theorem wrapS_keeps_armed (cfg : Cfg) (t : Nat) (name : String) (f : SFun) (ht : t ≠ 0) : KeepsHandler (wrapS cfg t name f) := by
  intro p q o h
  obtain ⟨p2, o2, _, hc⟩ := wrapS_armed_cases cfg t name f p q o ht h
  rcases hc with ⟨rfl, _⟩ | ⟨D, _, _, _, rfl, _⟩ | ⟨D, n, _, _, _, _, rfl, _⟩ | ⟨D, m, _, _, _, _, rfl, _⟩ <;> rfl

theorem wrapS_keeps (cfg : Cfg) (t : Nat) (name : String) (f : SFun) (hf : KeepsHandler f) : KeepsHandler (wrapS cfg t name f) := by
  by_cases ht : t = 0
  · intro p q o h; simp only [wrapS, ht, ↓reduceIte] at h; exact hf p q o h
  · exact wrapS_keeps_armed cfg t name f ht

theorem seqS_keeps (a k : SFun) (ha : KeepsHandler a) (hk : KeepsHandler k) :
    KeepsHandler (fun p => seqS (a p) k) := by
  intro p q o h
  simp only [seqS] at h
  split at h
  · rename_i p' heq
    rw [hk _ _ _ h, ha _ _ _ heq]
  · exact ha _ _ _ h

theorem wrapS_timer (cfg : Cfg) (t : Nat) (name : String) (f : SFun) (hf : TimerNoneOrSame f) : TimerNoneOrSame (wrapS cfg t name f) := by
  intro p q o h
  by_cases ht : t = 0
  · simp only [wrapS, ht, ↓reduceIte] at h; exact hf p q o h
  · obtain ⟨p2, o2, _, hc⟩ := wrapS_armed_cases cfg t name f p q o ht h
    rcases hc with ⟨rfl, _⟩ | ⟨D, hD, _, _, rfl, _⟩ | ⟨D, n, _, _, _, _, rfl, _⟩ | ⟨D, m, _, _, _, _, rfl, _⟩
    · exact Or.inl rfl
    · exact Or.inr hD.symm
    · exact Or.inl rfl
    · exact Or.inl rfl

/-- when the wrapper arms and the code does not put the previous timer back, the timer is DISARMED
    afterwards whatever it was before -/
theorem wrapS_timer_armed (cfg : Cfg) (hr : cfg.restoreTimer = false) (t : Nat) (name : String) (f : SFun) (ht : t ≠ 0) :
    ∀ p q o, wrapS cfg t name f p = some (q, o) → q.timer = none := by
  intro p q o h
  obtain ⟨p2, o2, _, hc⟩ := wrapS_armed_cases cfg t name f p q o ht h
  rcases hc with ⟨rfl, _⟩ | ⟨D, _, h1, _⟩ | ⟨D, n, _, h1, _⟩ | ⟨D, m, _, h1, _⟩
  · rfl
  all_goals (rw [hr] at h1; cases h1)

theorem seqS_timer (a k : SFun) (ha : TimerNoneOrSame a) (hk : TimerNoneOrSame k) :
    TimerNoneOrSame (fun p => seqS (a p) k) := by
  intro p q o h
  simp only [seqS] at h
  split at h
  · rename_i p' heq
    rcases hk _ _ _ h with h1 | h1
    · exact Or.inl h1
    · rcases ha _ _ _ heq with h2 | h2
      · exact Or.inl (h1.trans h2)
      · exact Or.inr (h1.trans h2)
  · exact ha _ _ _ h

theorem runS_keeps (cfg : Cfg) : ∀ prog : Prog, KeepsHandler (runS cfg prog) := by
  intro prog
  induction prog with
  | ret => intro p q o h; simp [runS] at h; rw [← h.1]
  | raise => intro p q o h; simp [runS] at h; rw [← h.1]
  | hang =>
    intro p q o h
    unfold runS at h
    split at h
    · simp at h
    · rename_i D _
      have hf := fireS_handler cfg p D
      split at h
      · rename_i p' o' heq
        simp at h; rw [heq] at hf; rw [← h.1]; exact hf
      · simp at h
  | work d k ih =>
    intro p q o h
    unfold runS at h
    split at h
    · have := ih _ _ _ h; exact this
    · rename_i D _
      split at h
      · have hf := fireS_handler cfg p D
        split at h
        · rename_i p' o' heq
          simp at h; rw [heq] at hf; rw [← h.1]; exact hf
        · rename_i p' heq
          have hf' : p'.handler = p.handler := by rw [heq] at hf; exact hf
          have := ih _ _ _ h
          exact this.trans hf'
      · have := ih _ _ _ h; exact this
  | call t name body k ihb ihk =>
    have := seqS_keeps _ _ (wrapS_keeps cfg t name _ ihb) ihk
    intro p q o h
    exact this p q o (by simpa [runS] using h)
  | spawn body k ihb ihk =>
    have := seqS_keeps _ _ ihb ihk
    intro p q o h
    exact this p q o (by simpa [runS] using h)

theorem runS_timer (cfg : Cfg) : ∀ prog : Prog, TimerNoneOrSame (runS cfg prog) := by
  intro prog
  induction prog with
  | ret => intro p q o h; simp [runS] at h; rw [← h.1]; exact Or.inr rfl
  | raise => intro p q o h; simp [runS] at h; rw [← h.1]; exact Or.inr rfl
  | hang =>
    intro p q o h
    unfold runS at h
    split at h
    · simp at h
    · rename_i D _
      have hf := fireS_timer cfg p D
      split at h
      · rename_i p' o' heq
        simp at h; rw [heq] at hf; rw [← h.1]; exact Or.inl hf
      · simp at h
  | work d k ih =>
    intro p q o h
    unfold runS at h
    split at h
    · rcases ih _ _ _ h with h1 | h1
      · exact Or.inl h1
      · exact Or.inr (by simpa using h1)
    · rename_i D hD
      split at h
      · have hf := fireS_timer cfg p D
        split at h
        · rename_i p' o' heq
          simp at h; rw [heq] at hf; rw [← h.1]; exact Or.inl hf
        · rename_i p' heq
          have hf' : p'.timer = none := by rw [heq] at hf; exact hf
          rcases ih _ _ _ h with h1 | h1
          · exact Or.inl h1
          · exact Or.inl (h1.trans hf')
      · rcases ih _ _ _ h with h1 | h1
        · exact Or.inl h1
        · exact Or.inr (by simpa using h1)
  | call t name body k ihb ihk =>
    have := seqS_timer _ _ (wrapS_timer cfg t name _ ihb) ihk
    intro p q o h
    exact this p q o (by simpa [runS] using h)
  | spawn body k ihb ihk =>
    have := seqS_timer _ _ ihb ihk
    intro p q o h
    exact this p q o (by simpa [runS] using h)

/-- the invariant "if a timer is armed, the installed handler is scrapli's with a message of `S`" -/
def ArmedBy (S : List String) (p : Proc) : Prop :=
  p.timer.isSome = true → ∃ n ∈ S, p.handler = .scrapli (message n)

/-- close-iff and message provenance for a wrapped function -/
def ClosesOK (cfg : Cfg) (S : List String) (f : SFun) : Prop :=
  ∀ p q o, ArmedBy S p → f p = some (q, o) →
    (o.isTimeout = true → q.closed = (if cfg.noTerminate then p.closed else true)) ∧
    (o.isTimeout = false → q.closed = p.closed) ∧
    (∀ msg, o = .timeout msg → ∃ n ∈ S, msg = message n)

theorem wrapS_closes (cfg : Cfg) (S : List String) (t : Nat) (name : String) (f : SFun)
    (hn : t ≠ 0 → name ∈ S) (hf : ClosesOK cfg S f) : ClosesOK cfg S (wrapS cfg t name f) := by
  intro p q o ha h
  by_cases ht : t = 0
  · simp only [wrapS, ht, ↓reduceIte] at h; exact hf p q o ha h
  · obtain ⟨p2, o2, heq, hc⟩ := wrapS_armed_cases cfg t name f p q o ht h
    have hb := hf _ p2 o2 (by intro _; exact ⟨name, hn ht, rfl⟩) heq
    simp only at hb
    rcases hc with ⟨rfl, rfl, _⟩ | ⟨D, _, _, _, rfl, rfl⟩ | ⟨D, n, _, _, _, _, rfl, rfl⟩ | ⟨D, m, hD, _, _, hh, rfl, rfl⟩
    · exact hb
    · exact hb
    · exact hb
    · -- the previous alarm was an enclosing scrapli timeout that is due: its handler raises now
      obtain ⟨n, hnS, hhn⟩ := ha (by simp [hD])
      rw [hh] at hhn
      cases hhn
      refine ⟨?_, ?_, ?_⟩
      · intro _
        cases hto : o2.isTimeout
        · simp [hb.2.1 hto]
        · cases hnt : cfg.noTerminate <;> simp [hb.1 hto, hnt]
      · intro hx; simp [Out.isTimeout] at hx
      · intro msg hm; cases hm; exact ⟨n, hnS, rfl⟩

theorem seqS_closes (cfg : Cfg) (S : List String) (a k : SFun) (ha : ClosesOK cfg S a) (hk : ClosesOK cfg S k)
    (hah : KeepsHandler a) (hat : TimerNoneOrSame a) : ClosesOK cfg S (fun p => seqS (a p) k) := by
  intro p q o harm h
  simp only [seqS] at h
  split at h
  · rename_i p' heq
    have hb := ha p p' .ret harm heq
    have hp' : p'.closed = p.closed := hb.2.1 rfl
    have hak : ArmedBy S p' := by
      intro hx
      rcases hat p p' .ret heq with h1 | h1
      · simp [h1] at hx
      · rw [h1] at hx
        obtain ⟨n, hn, hh⟩ := harm hx
        exact ⟨n, hn, by rw [hah p p' .ret heq]; exact hh⟩
    have := hk p' q o hak h
    rw [hp'] at this; exact this
  · exact ha p q o harm h

theorem runS_closes (cfg : Cfg) (S : List String) : ∀ prog : Prog, (∀ n ∈ prog.names, n ∈ S) →
    ClosesOK cfg S (runS cfg prog) := by
  intro prog
  induction prog with
  | ret => intro _ p q o _ h; simp [runS] at h; rw [← h.1, ← h.2]; simp [Out.isTimeout]
  | raise => intro _ p q o _ h; simp [runS] at h; rw [← h.1, ← h.2]; simp [Out.isTimeout]
  | hang =>
    intro _ p q o ha h
    unfold runS at h
    split at h
    · simp at h
    · rename_i D hD
      obtain ⟨n, hn, hh⟩ := ha (by simp [hD])
      rw [fireS_scrapli cfg p D _ hh] at h
      simp at h
      rw [← h.1, ← h.2]
      simp [Out.isTimeout]
      exact ⟨n, hn, rfl⟩
  | work d k ih =>
    intro hS p q o ha h
    unfold runS at h
    split at h
    · rename_i hn
      have := ih hS { p with now := p.now + d } q o (by intro hx; simp [hn] at hx) h
      simpa using this
    · rename_i D hD
      obtain ⟨n, hn, hh⟩ := ha (by simp [hD])
      split at h
      · rw [fireS_scrapli cfg p D _ hh] at h
        simp at h
        rw [← h.1, ← h.2]
        simp [Out.isTimeout]
        exact ⟨n, hn, rfl⟩
      · have := ih hS { p with now := p.now + d } q o (by intro _; exact ⟨n, hn, hh⟩) h
        simpa using this
  | call t name body k ihb ihk =>
    intro hS
    have hSb : ∀ n ∈ body.names, n ∈ S := fun n hn => hS n (by simp [Prog.names, hn])
    have hSk : ∀ n ∈ k.names, n ∈ S := fun n hn => hS n (by simp [Prog.names, hn])
    have hname : t ≠ 0 → name ∈ S := fun ht => hS name (by simp [Prog.names, ht])
    have := seqS_closes cfg S _ _ (wrapS_closes cfg S t name _ hname (ihb hSb)) (ihk hSk)
      (wrapS_keeps cfg t name _ (runS_keeps cfg body)) (wrapS_timer cfg t name _ (runS_timer cfg body))
    intro p q o harm h
    exact this p q o harm (by simpa [runS] using h)
  | spawn body k ihb ihk =>
    intro hS
    have hSb : ∀ n ∈ body.names, n ∈ S := fun n hn => hS n (by simp [Prog.names, hn])
    have hSk : ∀ n ∈ k.names, n ∈ S := fun n hn => hS n (by simp [Prog.names, hn])
    have := seqS_closes cfg S _ _ (ihb hSb) (ihk hSk) (runS_keeps cfg body) (runS_timer cfg body)
    intro p q o harm h
    exact this p q o harm (by simpa [runS] using h)

/-- a program that arms nothing, run while a scrapli timer `D` is armed: it is over by `D`; either the
    timer fired (exactly at `D`) or it is still armed -/
theorem runS_unarmed (cfg : Cfg) (m : String) (D : Nat) : ∀ (prog : Prog) (p : Proc),
    prog.unarmed = true → p.timer = some D → p.handler = .scrapli m → p.now ≤ D →
    ∃ q o, runS cfg prog p = some (q, o) ∧ q.now ≤ D ∧
      ((o = .timeout m ∧ q.now = D ∧ q.timer = none) ∨ (o.isTimeout = false ∧ q.timer = some D)) := by
  intro prog
  induction prog with
  | ret => intro p _ ht _ hn; exact ⟨p, .ret, by simp [runS], hn, Or.inr ⟨rfl, ht⟩⟩
  | raise => intro p _ ht _ hn; exact ⟨p, .error, by simp [runS], hn, Or.inr ⟨rfl, ht⟩⟩
  | hang =>
    intro p _ ht hh hn
    refine ⟨{ p with now := max D p.now, timer := none, closed := if cfg.noTerminate then p.closed else true },
      .timeout m, by simp only [runS, ht, fireS_scrapli cfg p D m hh], ?_, Or.inl ⟨rfl, ?_, rfl⟩⟩ <;>
      simp <;> omega
  | work d k ih =>
    intro p hu ht hh hn
    simp [Prog.unarmed] at hu
    by_cases hD : D ≤ p.now + d
    · refine ⟨{ p with now := max D p.now, timer := none, closed := if cfg.noTerminate then p.closed else true },
        .timeout m, by simp only [runS, ht, hD, ↓reduceIte, fireS_scrapli cfg p D m hh], ?_, Or.inl ⟨rfl, ?_, rfl⟩⟩ <;>
        simp <;> omega
    · obtain ⟨q, o, h1, h2, h3⟩ := ih { p with now := p.now + d } hu ht hh (by simp; omega)
      refine ⟨q, o, ?_, h2, h3⟩
      unfold runS
      split
      · rename_i hn'; rw [ht] at hn'; cases hn'
      · rename_i D' hD'
        rw [ht] at hD'; cases hD'
        rw [if_neg hD]; exact h1
  | call t name body k ihb ihk =>
    intro p hu ht hh hn
    simp [Prog.unarmed] at hu
    obtain ⟨⟨ht0, hub⟩, huk⟩ := hu
    obtain ⟨q, o, h1, h2, h3⟩ := ihb p hub ht hh hn
    rcases h3 with ⟨ho, hq, hqt⟩ | ⟨ho, hqt⟩
    · refine ⟨q, o, ?_, h2, Or.inl ⟨ho, hq, hqt⟩⟩
      simp [runS, wrapS, seqS, ht0, h1, ho]
    · cases o with
      | ret =>
        have hqh : q.handler = .scrapli m := by rw [runS_keeps cfg body p q .ret h1]; exact hh
        obtain ⟨q', o', h1', h2', h3'⟩ := ihk q huk hqt hqh h2
        exact ⟨q', o', by simp [runS, wrapS, seqS, ht0, h1]; exact h1', h2', h3'⟩
      | timeout msg => simp [Out.isTimeout] at ho
      | error => exact ⟨q, .error, by simp [runS, wrapS, seqS, ht0, h1], h2, Or.inr ⟨rfl, hqt⟩⟩
      | cancelled => exact ⟨q, .cancelled, by simp [runS, wrapS, seqS, ht0, h1], h2, Or.inr ⟨rfl, hqt⟩⟩
  | spawn body k _ _ => intro p hu; simp [Prog.unarmed] at hu

/-! ### worker-thread mechanism -/

abbrev TFun := Nat → Option Nat → TRes

/-- a call never ends before it starts -/
def FinGe (g : TFun) : Prop := ∀ s ext f, (g s ext).fin = some f → s ≤ f

/-- when the call is over, every worker thread it started is over -/
def Joined (g : TFun) : Prop :=
  ∀ s ext f, (g s ext).fin = some f → ∀ a ∈ (g s ext).acts, ∃ e, a.stop = some e ∧ e ≤ f

/-- the call tree closed the transport iff it ends in ScrapliTimeout and termination is on; messages -/
def ClosesT (cfg : Cfg) (S : List String) (g : TFun) : Prop :=
  ∀ s ext, ((g s ext).closeAt.isSome = ((g s ext).out.isTimeout && !cfg.noTerminate)) ∧
    (∀ msg, (g s ext).out = .timeout msg → ∃ n ∈ S, msg = message n)

/-- once the transport is closed from outside at `C`, the call is over by `max C s` -/
def WakeBound (g : TFun) : Prop := ∀ s C, ∃ f, (g s (some C)).fin = some f ∧ f ≤ max C s

theorem poolT_finGe (cfg : Cfg) (t : Nat) (name : String) (g : TFun) (hg : FinGe g) : FinGe (poolT cfg t name g) := by
  intro s ext f h
  simp only [poolT] at h
  split at h
  · exact hg _ _ _ h
  · split at h
    · exact hg _ _ _ h
    · obtain ⟨e, _, rfl⟩ := omaxN_eq_some h; omega

theorem seqT_finGe (a k : TFun) (ha : FinGe a) (hk : FinGe k) : FinGe (fun s ext => seqT (a s ext) k ext) := by
  intro s ext f h
  simp only [seqT] at h
  split at h
  · rename_i e hfe _
    have h1 := ha _ _ _ hfe
    have h2 := hk _ _ _ h
    omega
  · exact ha _ _ _ h

theorem runT_finGe (cfg : Cfg) : ∀ prog : Prog, FinGe (runT cfg prog) := by
  intro prog
  induction prog with
  | ret => intro s ext f h; simp [runT] at h; omega
  | raise => intro s ext f h; simp [runT] at h; omega
  | hang =>
    intro s ext f h
    unfold runT readT at h
    cases ext with
    | none => simp at h
    | some C =>
      by_cases hC : C ≤ s
      · simp [hC] at h; omega
      · cases hw : cfg.closeWakes <;> simp [hC, hw] at h
        omega
  | work d k ih =>
    intro s ext f h
    unfold runT readT at h
    cases ext with
    | none => simp at h; have := ih _ _ _ h; omega
    | some C =>
      by_cases hC : C ≤ s
      · simp [hC] at h; omega
      · by_cases hw : (cfg.closeWakes && decide (C < s + d)) = true
        · simp [hC, hw] at h; omega
        · simp [hC, hw] at h; have := ih _ _ _ h; omega
  | call t name body k ihb ihk =>
    have := seqT_finGe _ _ (poolT_finGe cfg t name _ ihb) ihk
    intro s ext f h
    exact this s ext f (by simpa [runT] using h)
  | spawn body k ihb ihk =>
    have := seqT_finGe _ _ ihb ihk
    intro s ext f h
    exact this s ext f (by simpa [runT] using h)

theorem poolT_joined (cfg : Cfg) (t : Nat) (name : String) (g : TFun) (hg : Joined g) : Joined (poolT cfg t name g) := by
  intro s ext f h a ha
  simp only [poolT] at h ha
  split at h
  · rename_i ht; simp only [ht, ↓reduceIte] at ha; exact hg _ _ _ h a ha
  · rename_i ht
    simp only [ht, ↓reduceIte] at ha
    split at h
    · rename_i hd
      rw [if_pos hd] at ha
      simp only [List.mem_cons] at ha
      rcases ha with rfl | ha
      · exact ⟨f, h, Nat.le_refl _⟩
      · exact hg _ _ _ h a ha
    · rename_i hd
      rw [if_neg hd] at ha
      obtain ⟨e, he, rfl⟩ := omaxN_eq_some h
      simp only [List.mem_cons] at ha
      rcases ha with rfl | ha
      · exact ⟨e, he, Nat.le_max_right _ _⟩
      · obtain ⟨e', h1, h2⟩ := hg _ _ _ he a ha
        exact ⟨e', h1, Nat.le_trans h2 (Nat.le_max_right _ _)⟩

theorem seqT_cases (a : TRes) (k : TFun) (ext : Option Nat) :
    (∃ e, a.fin = some e ∧ a.out = .ret ∧
      seqT a k ext = { k e (omin ext a.closeAt) with
        closeAt := omin a.closeAt (k e (omin ext a.closeAt)).closeAt,
        acts := a.acts ++ (k e (omin ext a.closeAt)).acts }) ∨
    seqT a k ext = a := by
  unfold seqT
  split
  · rename_i e hfe hout; exact Or.inl ⟨e, hfe, hout, rfl⟩
  · exact Or.inr rfl

theorem seqT_joined (a k : TFun) (ha : Joined a) (hk : Joined k) (hkge : FinGe k) :
    Joined (fun s ext => seqT (a s ext) k ext) := by
  intro s ext f h x hx
  have h' : (seqT (a s ext) k ext).fin = some f := h
  have hx' : x ∈ (seqT (a s ext) k ext).acts := hx
  rcases seqT_cases (a s ext) k ext with ⟨e, hfe, _, heq⟩ | heq
  · rw [heq] at h' hx'
    simp only [List.mem_append] at hx'
    have hef := hkge _ _ _ h'
    rcases hx' with hx' | hx'
    · obtain ⟨e', h1, h2⟩ := ha _ _ _ hfe x hx'
      exact ⟨e', h1, Nat.le_trans h2 hef⟩
    · exact hk _ _ _ h' x hx'
  · rw [heq] at h' hx'
    exact ha _ _ _ h' x hx'

theorem runT_joined (cfg : Cfg) : ∀ prog : Prog, Joined (runT cfg prog) := by
  intro prog
  induction prog with
  | ret => intro s ext f _ a ha; simp [runT] at ha
  | raise => intro s ext f _ a ha; simp [runT] at ha
  | hang =>
    intro s ext f _ a ha
    have : (runT cfg .hang s ext).acts = [] := by unfold runT; split <;> rfl
    rw [this] at ha; cases ha
  | work d k ih =>
    intro s ext f h a ha
    unfold runT at h ha
    cases hr : readT cfg s (some d) ext with
    | none => simp [hr] at h
    | some v =>
      cases v with
      | inl e => simp [hr] at ha
      | inr e => simp only [hr] at h ha; exact ih _ _ _ h a ha
  | call t name body k ihb ihk =>
    have := seqT_joined _ _ (poolT_joined cfg t name _ ihb) ihk (runT_finGe cfg k)
    intro s ext f h a ha
    exact this s ext f (by simpa [runT] using h) a (by simpa [runT] using ha)
  | spawn body k ihb ihk =>
    have := seqT_joined _ _ ihb ihk (runT_finGe cfg k)
    intro s ext f h a ha
    exact this s ext f (by simpa [runT] using h) a (by simpa [runT] using ha)

theorem poolT_closes (cfg : Cfg) (S : List String) (t : Nat) (name : String) (g : TFun)
    (hn : t ≠ 0 → name ∈ S) (hg : ClosesT cfg S g) : ClosesT cfg S (poolT cfg t name g) := by
  intro s ext
  simp only [poolT]
  split
  · exact hg s ext
  · rename_i ht
    split
    · exact hg s ext
    · refine ⟨?_, ?_⟩
      · cases hnt : cfg.noTerminate
        · simp [omin_isSome, Out.isTimeout]
        · have := (hg s ext).1
          simp only [hnt, Bool.not_true, Bool.and_false] at this
          simp only [↓reduceIte, omin_none_right, omin_none_left, Out.isTimeout, Bool.not_true, Bool.and_false]
          exact this
      · intro msg hm
        simp at hm
        exact ⟨name, hn ht, hm.symm⟩

theorem seqT_closes (cfg : Cfg) (S : List String) (a k : TFun) (ha : ClosesT cfg S a) (hk : ClosesT cfg S k) :
    ClosesT cfg S (fun s ext => seqT (a s ext) k ext) := by
  intro s ext
  simp only [seqT]
  split
  · rename_i e hfe hout
    have h1 := (ha s ext).1
    rw [hout] at h1
    simp [Out.isTimeout] at h1
    rw [h1]
    simp only [omin_none_left, omin_none_right]
    exact hk e ext
  · exact ha s ext

theorem runT_closes (cfg : Cfg) (S : List String) : ∀ prog : Prog, (∀ n ∈ prog.names, n ∈ S) →
    ClosesT cfg S (runT cfg prog) := by
  intro prog
  induction prog with
  | ret => intro _ s ext; simp [runT, Out.isTimeout]
  | raise => intro _ s ext; simp [runT, Out.isTimeout]
  | hang =>
    intro _ s ext
    have h1 : (runT cfg .hang s ext).out = .error := by unfold runT; split <;> rfl
    have h2 : (runT cfg .hang s ext).closeAt = none := by unfold runT; split <;> rfl
    rw [h1, h2]; simp [Out.isTimeout]
  | work d k ih =>
    intro hS s ext
    unfold runT
    split
    · simp [Out.isTimeout]
    · exact ih hS _ _
    · simp [Out.isTimeout]
  | call t name body k ihb ihk =>
    intro hS
    have hSb : ∀ n ∈ body.names, n ∈ S := fun n hn => hS n (by simp [Prog.names, hn])
    have hSk : ∀ n ∈ k.names, n ∈ S := fun n hn => hS n (by simp [Prog.names, hn])
    have hname : t ≠ 0 → name ∈ S := fun ht => hS name (by simp [Prog.names, ht])
    have := seqT_closes cfg S _ _ (poolT_closes cfg S t name _ hname (ihb hSb)) (ihk hSk)
    intro s ext
    simpa [runT] using this s ext
  | spawn body k ihb ihk =>
    intro hS
    have hSb : ∀ n ∈ body.names, n ∈ S := fun n hn => hS n (by simp [Prog.names, hn])
    have hSk : ∀ n ∈ k.names, n ∈ S := fun n hn => hS n (by simp [Prog.names, hn])
    have := seqT_closes cfg S _ _ (ihb hSb) (ihk hSk)
    intro s ext
    simpa [runT] using this s ext

theorem poolT_wake (cfg : Cfg) (t : Nat) (name : String) (g : TFun) (hg : WakeBound g) :
    WakeBound (poolT cfg t name g) := by
  intro s C
  simp only [poolT]
  split
  · exact hg s C
  · obtain ⟨f0, h0, hb0⟩ := hg s C
    split
    · exact ⟨f0, h0, hb0⟩
    · rename_i hnd
      rw [h0] at hnd
      simp at hnd
      obtain ⟨C', hC', hle⟩ := omin_some_le C (if cfg.noTerminate = true then none else some (s + t))
      obtain ⟨f1, h1, hb1⟩ := hg s C'
      rw [hC', h1]
      exact ⟨max (s + t) f1, rfl, by omega⟩

theorem seqT_wake (a k : TFun) (ha : WakeBound a) (hk : WakeBound k) :
    WakeBound (fun s ext => seqT (a s ext) k ext) := by
  intro s C
  obtain ⟨f0, h0, hb0⟩ := ha s C
  simp only [seqT]
  split
  · rename_i e hfe hout
    rw [h0] at hfe
    obtain ⟨C', hC', hle⟩ := omin_some_le C (a s (some C)).closeAt
    obtain ⟨f1, h1, hb1⟩ := hk e C'
    rw [hC', h1]
    simp at hfe
    exact ⟨f1, rfl, by omega⟩
  · exact ⟨f0, h0, hb0⟩

theorem runT_wake (cfg : Cfg) (hw : cfg.closeWakes = true) : ∀ prog : Prog, WakeBound (runT cfg prog) := by
  intro prog
  induction prog with
  | ret => intro s C; exact ⟨s, by simp [runT], by omega⟩
  | raise => intro s C; exact ⟨s, by simp [runT], by omega⟩
  | hang =>
    intro s C
    unfold runT readT
    by_cases hC : C ≤ s
    · exact ⟨s, by simp [hC], by omega⟩
    · exact ⟨C, by simp [hC, hw], by omega⟩
  | work d k ih =>
    intro s C
    unfold runT readT
    by_cases hC : C ≤ s
    · exact ⟨s, by simp [hC], by omega⟩
    · by_cases hd : C < s + d
      · exact ⟨C, by simp [hC, hw, hd], by omega⟩
      · obtain ⟨f, h1, h2⟩ := ih (s + d) C
        exact ⟨f, by simp [hC, hw, hd]; exact h1, by omega⟩
  | call t name body k ihb ihk =>
    have := seqT_wake _ _ (poolT_wake cfg t name _ ihb) ihk
    intro s C
    simpa [runT] using this s C
  | spawn body k ihb ihk =>
    have := seqT_wake _ _ ihb ihk
    intro s C
    simpa [runT] using this s C

/-! ### asyncio mechanism -/

abbrev AFun := Nat → Option Nat → Bool → ARes

/-- cancelled at `C` ⇒ over by `max C s` -/
def CancelBound (g : AFun) : Prop := ∀ s C c, ∃ f, (g s (some C) c).fin = some f ∧ f ≤ max C s

def ClosesA (cfg : Cfg) (S : List String) (g : AFun) : Prop :=
  ∀ s ca c, ((g s ca c).out.isTimeout = true → (g s ca c).closed = (if cfg.noTerminate then c else true)) ∧
    ((g s ca c).out.isTimeout = false → (g s ca c).closed = c) ∧
    (∀ msg, (g s ca c).out = .timeout msg → ∃ n ∈ S, msg = message n)

theorem waitForA_bound (cfg : Cfg) (t : Nat) (name : String) (g : AFun) (hg : CancelBound g) :
    CancelBound (waitForA cfg t name g) := by
  intro s C c
  simp only [waitForA]
  split
  · exact hg s C c
  · obtain ⟨f, h1, h2⟩ := hg s (min C (s + t)) c
    have h1' : (g s (omin (some C) (some (s + t))) c).fin = some f := h1
    refine ⟨f, ?_, by omega⟩
    split
    · simpa [handleTimeout] using h1'
    · exact h1'

theorem seqA_bound (a : AFun) (k : Nat → Option Nat → Bool → ARes) (ha : CancelBound a) (hk : CancelBound k) :
    CancelBound (fun s ca c => seqA (a s ca c) (fun e c' => k e ca c')) := by
  intro s C c
  obtain ⟨f0, h0, hb0⟩ := ha s C c
  simp only [seqA]
  split
  · rename_i e hfe hout
    rw [h0] at hfe; simp at hfe
    obtain ⟨f1, h1, hb1⟩ := hk e C (a s (some C) c).closed
    exact ⟨f1, h1, by omega⟩
  · exact ⟨f0, h0, hb0⟩

/-- the waiter of a spawned task is over by the cancellation whatever the task does -/
theorem spawnA_bound (g : AFun) : CancelBound (spawnA g) := by
  intro s C c
  simp only [spawnA]
  split
  · rename_i hd
    cases hf : (g s none c).fin with
    | none => rw [hf] at hd; simp at hd
    | some x => rw [hf] at hd; simp at hd; exact ⟨x, rfl, by omega⟩
  · exact ⟨max C s, rfl, Nat.le_refl _⟩

theorem runA_bound (cfg : Cfg) : ∀ prog : Prog, CancelBound (runA cfg prog) := by
  intro prog
  induction prog with
  | ret => intro s C c; exact ⟨s, by simp [runA], by omega⟩
  | raise => intro s C c; exact ⟨s, by simp [runA], by omega⟩
  | hang => intro s C c; exact ⟨max C s, by simp [runA], by omega⟩
  | work d k ih =>
    intro s C c
    unfold runA
    by_cases hd : C ≤ s + d
    · exact ⟨max C s, by simp [hd], by omega⟩
    · obtain ⟨f, h1, h2⟩ := ih (s + d) C c
      exact ⟨f, by simp [hd]; exact h1, by omega⟩
  | call t name body k ihb ihk =>
    have := seqA_bound _ _ (waitForA_bound cfg t name _ ihb) ihk
    intro s C c
    simpa [runA] using this s C c
  | spawn body k _ ihk =>
    have := seqA_bound _ _ (spawnA_bound (runA cfg body)) ihk
    intro s C c
    simpa [runA] using this s C c

theorem waitForA_closes (cfg : Cfg) (S : List String) (t : Nat) (name : String) (g : AFun)
    (hn : t ≠ 0 → name ∈ S) (hg : ClosesA cfg S g) : ClosesA cfg S (waitForA cfg t name g) := by
  intro s ca c
  simp only [waitForA]
  split
  · exact hg s ca c
  · rename_i ht
    have hr := hg s (omin ca (some (s + t))) c
    split
    · rename_i hc
      simp at hc
      have hcl := hr.2.1 (by rw [hc.1]; rfl)
      simp [handleTimeout, Out.isTimeout, hcl]
      exact ⟨name, hn ht, rfl⟩
    · exact hr

theorem spawnA_closes (cfg : Cfg) (S : List String) (g : AFun) (hg : ClosesA cfg S g) : ClosesA cfg S (spawnA g) := by
  intro s ca c
  have hr := hg s none c
  simp only [spawnA]
  split
  · split
    · exact hr
    · simp [Out.isTimeout]
  · exact hr

theorem seqA_closes (cfg : Cfg) (S : List String) (a : AFun) (k : Nat → Option Nat → Bool → ARes)
    (ha : ClosesA cfg S a) (hk : ClosesA cfg S k) :
    ClosesA cfg S (fun s ca c => seqA (a s ca c) (fun e c' => k e ca c')) := by
  intro s ca c
  simp only [seqA]
  split
  · rename_i e hfe hout
    have h1 := (ha s ca c).2.1 (by rw [hout]; rfl)
    have := hk e ca (a s ca c).closed
    rw [h1] at this
    rw [h1]; exact this
  · exact ha s ca c

theorem runA_closes (cfg : Cfg) (S : List String) : ∀ prog : Prog, (∀ n ∈ prog.names, n ∈ S) →
    ClosesA cfg S (runA cfg prog) := by
  intro prog
  induction prog with
  | ret => intro _ s ca c; simp [runA, Out.isTimeout]
  | raise => intro _ s ca c; simp [runA, Out.isTimeout]
  | hang => intro _ s ca c; unfold runA; split <;> simp [Out.isTimeout]
  | work d k ih =>
    intro hS s ca c
    unfold runA
    split
    · split
      · simp [Out.isTimeout]
      · exact ih hS _ _ _
    · exact ih hS _ _ _
  | call t name body k ihb ihk =>
    intro hS
    have hSb : ∀ n ∈ body.names, n ∈ S := fun n hn => hS n (by simp [Prog.names, hn])
    have hSk : ∀ n ∈ k.names, n ∈ S := fun n hn => hS n (by simp [Prog.names, hn])
    have hname : t ≠ 0 → name ∈ S := fun ht => hS name (by simp [Prog.names, ht])
    have := seqA_closes cfg S _ _ (waitForA_closes cfg S t name _ hname (ihb hSb)) (ihk hSk)
    intro s ca c
    simpa [runA] using this s ca c
  | spawn body k ihb ihk =>
    intro hS
    have hSb : ∀ n ∈ body.names, n ∈ S := fun n hn => hS n (by simp [Prog.names, hn])
    have hSk : ∀ n ∈ k.names, n ∈ S := fun n hn => hS n (by simp [Prog.names, hn])
    have := seqA_closes cfg S _ _ (spawnA_closes cfg S _ (ihb hSb)) (ihk hSk)
    intro s ca c
    simpa [runA] using this s ca c

/-! ### sequencing with `ret`, programs that arm nothing -/

theorem seqS_ret (cfg : Cfg) (r : Option (Proc × Out)) : seqS r (runS cfg .ret) = r := by
  unfold seqS
  split
  · simp [runS]
  · rfl

theorem seqT_ret (cfg : Cfg) (a : TRes) (ext : Option Nat) : seqT a (runT cfg .ret) ext = a := by
  rcases seqT_cases a (runT cfg .ret) ext with ⟨e, hfe, hout, heq⟩ | heq
  · rw [heq]
    cases a
    simp_all [runT]
  · exact heq

theorem seqA_ret (cfg : Cfg) (a : ARes) (ca : Option Nat) : seqA a (fun e c' => runA cfg .ret e ca c') = a := by
  unfold seqA
  split
  · rename_i e hfe hout
    cases a
    simp_all [runA]
  · rfl

theorem waitForA_fin (cfg : Cfg) (t : Nat) (name : String) (g : AFun) (s : Nat) (ca : Option Nat) (c : Bool)
    (ht : t ≠ 0) : (waitForA cfg t name g s ca c).fin = (g s (omin ca (some (s + t))) c).fin := by
  simp only [waitForA, ht, ↓reduceIte]
  split <;> rfl

/-- a program that arms nothing starts no worker thread -/
theorem runT_unarmed_acts (cfg : Cfg) : ∀ (prog : Prog) (s : Nat) (ext : Option Nat),
    prog.unarmed = true → (runT cfg prog s ext).acts = [] := by
  intro prog
  induction prog with
  | ret => intro s ext _; rfl
  | raise => intro s ext _; rfl
  | hang => intro s ext _; unfold runT; split <;> rfl
  | work d k ih =>
    intro s ext hu
    simp [Prog.unarmed] at hu
    unfold runT
    split
    · rfl
    · exact ih _ _ hu
    · rfl
  | call t name body k ihb ihk =>
    intro s ext hu
    simp [Prog.unarmed] at hu
    obtain ⟨⟨ht0, hub⟩, huk⟩ := hu
    have hp : poolT cfg t name (runT cfg body) s ext = runT cfg body s ext := by simp [poolT, ht0]
    simp only [runT, hp]
    rcases seqT_cases (runT cfg body s ext) (runT cfg k) ext with ⟨e, _, _, heq⟩ | heq
    · rw [heq]; simp [ihb s ext hub, ihk _ _ huk]
    · rw [heq]; exact ihb s ext hub
  | spawn body k _ _ => intro s ext hu; simp [Prog.unarmed] at hu

theorem unarmed_names : ∀ prog : Prog, prog.unarmed = true → prog.names = [] := by
  intro prog
  induction prog with
  | ret => intro _; rfl
  | raise => intro _; rfl
  | hang => intro _; rfl
  | work d k ih => intro hu; simp [Prog.unarmed] at hu; simpa [Prog.names] using ih hu
  | call t name body k ihb ihk =>
    intro hu
    simp [Prog.unarmed] at hu
    simp [Prog.names, hu.1.1, ihb hu.1.2, ihk hu.2]
  | spawn body k _ _ => intro hu; simp [Prog.unarmed] at hu

/-! ### a decorated call on its own -/

theorem runS_call_ret (cfg : Cfg) (t : Nat) (name : String) (body : Prog) (p : Proc) :
    runS cfg (.call t name body .ret) p = wrapS cfg t name (runS cfg body) p := by
  have : runS cfg (.call t name body .ret) p = seqS (wrapS cfg t name (runS cfg body) p) (runS cfg .ret) := rfl
  rw [this]; exact seqS_ret cfg _

theorem runT_call_ret (cfg : Cfg) (t : Nat) (name : String) (body : Prog) (s : Nat) (ext : Option Nat) :
    runT cfg (.call t name body .ret) s ext = poolT cfg t name (runT cfg body) s ext := by
  have : runT cfg (.call t name body .ret) s ext
      = seqT (poolT cfg t name (runT cfg body) s ext) (runT cfg .ret) ext := rfl
  rw [this]; exact seqT_ret cfg _ _

theorem runA_call_ret (cfg : Cfg) (t : Nat) (name : String) (body : Prog) (s : Nat) (ca : Option Nat) (c : Bool) :
    runA cfg (.call t name body .ret) s ca c = waitForA cfg t name (runA cfg body) s ca c := by
  have : runA cfg (.call t name body .ret) s ca c
      = seqA (waitForA cfg t name (runA cfg body) s ca c) (fun e c' => runA cfg .ret e ca c') := rfl
  rw [this]; exact seqA_ret cfg _ ca

theorem run_signal_some (cfg : Cfg) (prog : Prog) (p q : Proc) (o : Out) (h : runS cfg prog p = some (q, o)) :
    run cfg .signal prog p = { fin := some q.now, out := o, closed := q.closed, handler := q.handler, timer := q.timer }
    ∧ run cfg .direct prog p = { fin := some q.now, out := o, closed := q.closed, handler := q.handler, timer := q.timer } := by
  simp [run, h]

theorem run_signal_none (cfg : Cfg) (prog : Prog) (p : Proc) (h : runS cfg prog p = none) :
    run cfg .signal prog p = { fin := none, out := .error, closed := p.closed, handler := p.handler, timer := p.timer }
    ∧ run cfg .direct prog p = { fin := none, out := .error, closed := p.closed, handler := p.handler, timer := p.timer } := by
  simp [run, h]

/-! ### asyncio: tasks -/

def FinGeA (g : AFun) : Prop := ∀ s ca c f, (g s ca c).fin = some f → s ≤ f

/-- when the call is over, every task created in its tree is over -/
def JoinedA (g : AFun) : Prop :=
  ∀ s ca c f, (g s ca c).fin = some f → ∀ a ∈ (g s ca c).tasks, ∃ e, a.stop = some e ∧ e ≤ f

theorem waitForA_tasks (cfg : Cfg) (t : Nat) (name : String) (g : AFun) (s : Nat) (ca : Option Nat) (c : Bool)
    (ht : t ≠ 0) : (waitForA cfg t name g s ca c).tasks =
      ⟨s, (g s (omin ca (some (s + t))) c).fin, name⟩ :: (g s (omin ca (some (s + t))) c).tasks := by
  simp only [waitForA, ht, ↓reduceIte]
  split <;> rfl

theorem waitForA_finGe (cfg : Cfg) (t : Nat) (name : String) (g : AFun) (hg : FinGeA g) : FinGeA (waitForA cfg t name g) := by
  intro s ca c f h
  by_cases ht : t = 0
  · simp only [waitForA, ht, ↓reduceIte] at h; exact hg _ _ _ _ h
  · rw [waitForA_fin cfg t name g s ca c ht] at h; exact hg _ _ _ _ h

theorem waitForA_joined (cfg : Cfg) (t : Nat) (name : String) (g : AFun) (hg : JoinedA g) : JoinedA (waitForA cfg t name g) := by
  intro s ca c f h a ha
  by_cases ht : t = 0
  · simp only [waitForA, ht, ↓reduceIte] at h ha; exact hg _ _ _ _ h a ha
  · rw [waitForA_fin cfg t name g s ca c ht] at h
    rw [waitForA_tasks cfg t name g s ca c ht] at ha
    simp only [List.mem_cons] at ha
    rcases ha with rfl | ha
    · exact ⟨f, h, Nat.le_refl _⟩
    · exact hg _ _ _ _ h a ha

theorem seqA_cases (a : ARes) (k : Nat → Bool → ARes) :
    (∃ e, a.fin = some e ∧ a.out = .ret ∧ seqA a k = { k e a.closed with tasks := a.tasks ++ (k e a.closed).tasks }) ∨
    seqA a k = a := by
  unfold seqA
  split
  · rename_i e hfe hout; exact Or.inl ⟨e, hfe, hout, rfl⟩
  · exact Or.inr rfl

theorem seqA_finGe (a : AFun) (k : Nat → Option Nat → Bool → ARes) (ha : FinGeA a) (hk : FinGeA k) :
    FinGeA (fun s ca c => seqA (a s ca c) (fun e c' => k e ca c')) := by
  intro s ca c f h
  have h' : (seqA (a s ca c) (fun e c' => k e ca c')).fin = some f := h
  rcases seqA_cases (a s ca c) (fun e c' => k e ca c') with ⟨e, hfe, _, heq⟩ | heq
  · rw [heq] at h'
    have h1 := ha _ _ _ _ hfe
    have h2 := hk _ _ _ _ h'
    omega
  · rw [heq] at h'; exact ha _ _ _ _ h'

theorem seqA_joined (a : AFun) (k : Nat → Option Nat → Bool → ARes) (ha : JoinedA a) (hk : JoinedA k) (hkge : FinGeA k) :
    JoinedA (fun s ca c => seqA (a s ca c) (fun e c' => k e ca c')) := by
  intro s ca c f h x hx
  have h' : (seqA (a s ca c) (fun e c' => k e ca c')).fin = some f := h
  have hx' : x ∈ (seqA (a s ca c) (fun e c' => k e ca c')).tasks := hx
  rcases seqA_cases (a s ca c) (fun e c' => k e ca c') with ⟨e, hfe, _, heq⟩ | heq
  · rw [heq] at h' hx'
    simp only [List.mem_append] at hx'
    have hef := hkge _ _ _ _ h'
    rcases hx' with hx' | hx'
    · obtain ⟨e', h1, h2⟩ := ha _ _ _ _ hfe x hx'
      exact ⟨e', h1, Nat.le_trans h2 hef⟩
    · exact hk _ _ _ _ h' x hx'
  · rw [heq] at h' hx'
    exact ha _ _ _ _ h' x hx'

theorem spawnA_finGe (g : AFun) (hg : FinGeA g) : FinGeA (spawnA g) := by
  intro s ca c f h
  simp only [spawnA] at h
  split at h
  · split at h
    · exact hg _ _ _ _ h
    · simp at h; omega
  · exact hg _ _ _ _ h

theorem runA_finGe (cfg : Cfg) : ∀ prog : Prog, FinGeA (runA cfg prog) := by
  intro prog
  induction prog with
  | ret => intro s ca c f h; simp [runA] at h; omega
  | raise => intro s ca c f h; simp [runA] at h; omega
  | hang =>
    intro s ca c f h
    unfold runA at h
    split at h
    · simp at h; omega
    · simp at h
  | work d k ih =>
    intro s ca c f h
    unfold runA at h
    split at h
    · split at h
      · simp at h; omega
      · have := ih _ _ _ _ h; omega
    · have := ih _ _ _ _ h; omega
  | call t name body k ihb ihk =>
    have := seqA_finGe _ _ (waitForA_finGe cfg t name _ ihb) ihk
    intro s ca c f h
    exact this s ca c f (by simpa [runA] using h)
  | spawn body k ihb ihk =>
    have := seqA_finGe _ _ (spawnA_finGe _ ihb) ihk
    intro s ca c f h
    exact this s ca c f (by simpa [runA] using h)

/-- without `spawn`, every task of the tree is a `wait_for` task, and `wait_for` only returns once its
    task is done -/
theorem runA_joined (cfg : Cfg) : ∀ prog : Prog, prog.spawnFree = true → JoinedA (runA cfg prog) := by
  intro prog
  induction prog with
  | ret => intro _ s ca c f _ a ha; simp [runA] at ha
  | raise => intro _ s ca c f _ a ha; simp [runA] at ha
  | hang =>
    intro _ s ca c f _ a ha
    have : (runA cfg .hang s ca c).tasks = [] := by unfold runA; split <;> rfl
    rw [this] at ha; cases ha
  | work d k ih =>
    intro hs s ca c f h a ha
    simp [Prog.spawnFree] at hs
    unfold runA at h ha
    split at h
    · rename_i C
      by_cases hc : C ≤ s + d
      · simp [hc] at ha
      · simp only [hc, ↓reduceIte] at h ha; exact ih hs _ _ _ _ h a ha
    · exact ih hs _ _ _ _ h a ha
  | call t name body k ihb ihk =>
    intro hs
    simp [Prog.spawnFree] at hs
    have := seqA_joined _ _ (waitForA_joined cfg t name _ (ihb hs.1)) (ihk hs.2) (runA_finGe cfg k)
    intro s ca c f h a ha
    exact this s ca c f (by simpa [runA] using h) a (by simpa [runA] using ha)
  | spawn body k _ _ => intro hs; simp [Prog.spawnFree] at hs

/-- a program that arms nothing (and therefore spawns nothing) creates no task -/
theorem runA_unarmed_tasks (cfg : Cfg) : ∀ (prog : Prog) (s : Nat) (ca : Option Nat) (c : Bool),
    prog.unarmed = true → (runA cfg prog s ca c).tasks = [] := by
  intro prog
  induction prog with
  | ret => intro s ca c _; rfl
  | raise => intro s ca c _; rfl
  | hang => intro s ca c _; unfold runA; split <;> rfl
  | work d k ih =>
    intro s ca c hu
    simp [Prog.unarmed] at hu
    unfold runA
    split
    · split
      · rfl
      · exact ih _ _ _ hu
    · exact ih _ _ _ hu
  | call t name body k ihb ihk =>
    intro s ca c hu
    simp [Prog.unarmed] at hu
    obtain ⟨⟨ht0, hub⟩, huk⟩ := hu
    have hp : waitForA cfg t name (runA cfg body) s ca c = runA cfg body s ca c := by simp [waitForA, ht0]
    simp only [runA, hp]
    rcases seqA_cases (runA cfg body s ca c) (fun e c' => runA cfg k e ca c') with ⟨e, _, _, heq⟩ | heq
    · rw [heq]; simp [ihb s ca c hub, ihk _ _ _ huk]
    · rw [heq]; exact ihb s ca c hub
  | spawn body k _ _ => intro s ca c hu; simp [Prog.unarmed] at hu

/-! ### signal mechanism with the previous timer put back (cfg.restoreTimer) -/

def NowMono (f : SFun) : Prop := ∀ p q o, f p = some (q, o) → p.now ≤ q.now

/-- the alarm that was pending before is pending again with its old deadline, or that deadline has passed and
    it has gone off -/
def TimerKept (f : SFun) : Prop :=
  ∀ p q o, f p = some (q, o) → q.timer = p.timer ∨ (∃ D, p.timer = some D ∧ D ≤ q.now ∧ q.timer = none)

theorem wrapS_nowMono (cfg : Cfg) (t : Nat) (name : String) (f : SFun) (hf : NowMono f) : NowMono (wrapS cfg t name f) := by
  intro p q o h
  by_cases ht : t = 0
  · simp only [wrapS, ht, ↓reduceIte] at h; exact hf p q o h
  · obtain ⟨p2, o2, heq, hc⟩ := wrapS_armed_cases cfg t name f p q o ht h
    have := hf _ _ _ heq
    simp only at this
    rcases hc with ⟨rfl, _⟩ | ⟨D, _, _, _, rfl, _⟩ | ⟨D, n, _, _, _, _, rfl, _⟩ | ⟨D, m, _, _, _, _, rfl, _⟩ <;> simp <;> omega

theorem seqS_nowMono (a k : SFun) (ha : NowMono a) (hk : NowMono k) : NowMono (fun p => seqS (a p) k) := by
  intro p q o h
  simp only [seqS] at h
  split at h
  · rename_i p' heq
    have := ha _ _ _ heq
    have := hk _ _ _ h
    omega
  · exact ha _ _ _ h

theorem fireS_now (cfg : Cfg) (p : Proc) (D : Nat) : (fireS cfg p D).1.now = max D p.now := by
  cases hh : p.handler with
  | user n => rw [fireS_user cfg p D n hh]
  | scrapli m => rw [fireS_scrapli cfg p D m hh]

theorem runS_nowMono (cfg : Cfg) : ∀ prog : Prog, NowMono (runS cfg prog) := by
  intro prog
  induction prog with
  | ret => intro p q o h; simp [runS] at h; rw [← h.1]; exact Nat.le_refl _
  | raise => intro p q o h; simp [runS] at h; rw [← h.1]; exact Nat.le_refl _
  | hang =>
    intro p q o h
    unfold runS at h
    split at h
    · simp at h
    · rename_i D _
      have hf := fireS_now cfg p D
      split at h
      · rename_i p' o' heq
        simp at h; rw [heq] at hf; rw [← h.1]; simp at hf; omega
      · simp at h
  | work d k ih =>
    intro p q o h
    unfold runS at h
    split at h
    · have := ih _ _ _ h; simp at this; omega
    · rename_i D _
      split at h
      · have hf := fireS_now cfg p D
        split at h
        · rename_i p' o' heq
          simp at h; rw [heq] at hf; rw [← h.1]; simp at hf; omega
        · have := ih _ _ _ h; simp at this; omega
      · have := ih _ _ _ h; simp at this; omega
  | call t name body k ihb ihk =>
    have := seqS_nowMono _ _ (wrapS_nowMono cfg t name _ ihb) ihk
    intro p q o h
    exact this p q o (by simpa [runS] using h)
  | spawn body k ihb ihk =>
    have := seqS_nowMono _ _ ihb ihk
    intro p q o h
    exact this p q o (by simpa [runS] using h)

/-- an arming wrapper that puts the timer back keeps it around ANY wrapped function -/
theorem wrapS_timerKept_armed (cfg : Cfg) (hr : cfg.restoreTimer = true) (t : Nat) (name : String) (f : SFun)
    (ht : t ≠ 0) : TimerKept (wrapS cfg t name f) := by
  intro p q o h
  obtain ⟨p2, o2, _, hc⟩ := wrapS_armed_cases cfg t name f p q o ht h
  rcases hc with ⟨rfl, _, h1 | h1⟩ | ⟨D, hD, _, _, rfl, _⟩ | ⟨D, n, hD, _, hle, _, rfl, _⟩ | ⟨D, m, hD, _, hle, _, rfl, _⟩
  · rw [hr] at h1; cases h1
  · exact Or.inl h1.symm
  · exact Or.inl hD.symm
  · exact Or.inr ⟨D, hD, by simp; omega, rfl⟩
  · exact Or.inr ⟨D, hD, by simp; omega, rfl⟩

theorem wrapS_timerKept (cfg : Cfg) (hr : cfg.restoreTimer = true) (t : Nat) (name : String) (f : SFun)
    (hf : TimerKept f) : TimerKept (wrapS cfg t name f) := by
  by_cases ht : t = 0
  · intro p q o h; simp only [wrapS, ht, ↓reduceIte] at h; exact hf p q o h
  · exact wrapS_timerKept_armed cfg hr t name f ht

theorem seqS_timerKept (a k : SFun) (ha : TimerKept a) (hk : TimerKept k) (hkm : NowMono k) :
    TimerKept (fun p => seqS (a p) k) := by
  intro p q o h
  simp only [seqS] at h
  split at h
  · rename_i p' heq
    have hm := hkm _ _ _ h
    rcases ha _ _ _ heq with h1 | ⟨D, hD, hle, hn⟩
    · rcases hk _ _ _ h with h2 | ⟨D, hD, hle, hn⟩
      · exact Or.inl (h2.trans h1)
      · exact Or.inr ⟨D, h1 ▸ hD, hle, hn⟩
    · rcases hk _ _ _ h with h2 | ⟨D', hD', _, _⟩
      · exact Or.inr ⟨D, hD, by omega, h2.trans hn⟩
      · rw [hn] at hD'; cases hD'
  · exact ha _ _ _ h

theorem runS_timerKept (cfg : Cfg) (hr : cfg.restoreTimer = true) : ∀ prog : Prog, TimerKept (runS cfg prog) := by
  intro prog
  induction prog with
  | ret => intro p q o h; simp [runS] at h; rw [← h.1]; exact Or.inl rfl
  | raise => intro p q o h; simp [runS] at h; rw [← h.1]; exact Or.inl rfl
  | hang =>
    intro p q o h
    unfold runS at h
    split at h
    · simp at h
    · rename_i D hD
      have hn := fireS_now cfg p D
      have ht := fireS_timer cfg p D
      split at h
      · rename_i p' o' heq
        simp at h; rw [heq] at hn ht; rw [← h.1]
        exact Or.inr ⟨D, hD, by simp at hn; omega, ht⟩
      · simp at h
  | work d k ih =>
    intro p q o h
    unfold runS at h
    split at h
    · rename_i _ hpn
      rcases ih _ _ _ h with h1 | ⟨D, hD, _, _⟩
      · exact Or.inl h1
      · have hD' : p.timer = some D := hD
        rw [hpn] at hD'; cases hD'
    · rename_i D hD
      split at h
      · rename_i hle
        have hn := fireS_now cfg p D
        have ht := fireS_timer cfg p D
        split at h
        · rename_i p' o' heq
          simp at h; rw [heq] at hn ht; rw [← h.1]
          exact Or.inr ⟨D, hD, by simp at hn; omega, ht⟩
        · rename_i p' heq
          rw [heq] at ht
          have ht' : p'.timer = none := ht
          have hm := runS_nowMono cfg k _ _ _ h
          simp at hm
          rcases ih _ _ _ h with h1 | ⟨D', hD', _, _⟩
          · have h1' : q.timer = p'.timer := h1
            exact Or.inr ⟨D, hD, by omega, h1'.trans ht'⟩
          · have hD'' : p'.timer = some D' := hD'
            rw [ht'] at hD''; cases hD''
      · rcases ih _ _ _ h with h1 | ⟨D', hD', hle, hn⟩
        · exact Or.inl h1
        · exact Or.inr ⟨D', hD', hle, hn⟩
  | call t name body k ihb ihk =>
    have := seqS_timerKept _ _ (wrapS_timerKept cfg hr t name _ ihb) ihk (runS_nowMono cfg k)
    intro p q o h
    exact this p q o (by simpa [runS] using h)
  | spawn body k ihb ihk =>
    have := seqS_timerKept _ _ ihb ihk (runS_nowMono cfg k)
    intro p q o h
    exact this p q o (by simpa [runS] using h)

/-! ### what a program does when nothing interferes, and the three mechanisms measured against it -/

/-- `a; k` on (duration, outcome) pairs; duration `none` = blocks for ever -/
def natSeq (a : Option Nat × Out) (k : Option Nat × Out) : Option Nat × Out :=
  match a with
  | (some e, .ret) => (match k with
      | (some e', o) => (some (e + e'), o)
      | (none, o) => (none, o))
  | r => r

/-- (how long, how it ends) for a program whose every timeout is 0 — the Lean twin of `natural()` in
    tools/props/c07.py, the oracle's yardstick -/
def Prog.natural : Prog → Option Nat × Out
  | .ret => (some 0, .ret)
  | .raise => (some 0, .error)
  | .hang => (none, .error)
  | .work d k => natSeq (some d, .ret) k.natural
  | .call _ _ body k => natSeq body.natural k.natural
  | .spawn body k => natSeq body.natural k.natural

theorem natSeq_some {a k : Option Nat × Out} {d : Nat} {o : Out} (h : natSeq a k = (some d, o)) :
    (∃ e e', a = (some e, .ret) ∧ k = (some e', o) ∧ d = e + e') ∨ (a = (some d, o) ∧ o ≠ .ret) := by
  obtain ⟨ad, ao⟩ := a
  obtain ⟨kd, ko⟩ := k
  cases ad with
  | none => simp [natSeq] at h
  | some e =>
    cases ao with
    | ret =>
      cases kd with
      | none => simp [natSeq] at h
      | some e' => simp [natSeq] at h; exact Or.inl ⟨e, e', rfl, by rw [h.2], h.1.symm⟩
    | timeout m => simp [natSeq] at h; exact Or.inr ⟨by rw [← h.1, ← h.2], by rw [← h.2]; simp⟩
    | error => simp [natSeq] at h; exact Or.inr ⟨by rw [← h.1, ← h.2], by rw [← h.2]; simp⟩
    | cancelled => simp [natSeq] at h; exact Or.inr ⟨by rw [← h.1, ← h.2], by rw [← h.2]; simp⟩

/-- if `a; k` does not finish before `lim`, either `a` does not, or `a` returns at `e` and `k` does not
    finish before `lim - e` -/
theorem natSeq_late {a k : Option Nat × Out} {lim : Nat} (h : ∀ d o, natSeq a k = (some d, o) → lim ≤ d) :
    (∀ d o, a = (some d, o) → lim ≤ d) ∨
    (∃ e, a = (some e, .ret) ∧ e < lim ∧ ∀ d o, k = (some d, o) → lim ≤ e + d) := by
  obtain ⟨ad, ao⟩ := a
  cases ad with
  | none => exact Or.inl (by intro d o hx; cases hx)
  | some e =>
    by_cases hle : lim ≤ e
    · exact Or.inl (by intro d o hx; cases hx; exact hle)
    · cases ao with
      | ret =>
        refine Or.inr ⟨e, rfl, by omega, ?_⟩
        intro d o hk
        exact h (e + d) o (by rw [hk]; rfl)
      | timeout m => exact absurd (h e _ rfl) hle
      | error => exact absurd (h e _ rfl) hle
      | cancelled => exact absurd (h e _ rfl) hle

/-- signal mechanism, the program finishes before the armed deadline: its own result at its own time,
    nothing touched -/
theorem runS_natural_own (cfg : Cfg) (m : String) (D : Nat) : ∀ (prog : Prog) (p : Proc) (d : Nat) (o : Out),
    prog.unarmed = true → p.timer = some D → p.handler = .scrapli m → prog.natural = (some d, o) → p.now + d < D →
    runS cfg prog p = some ({ p with now := p.now + d }, o) := by
  intro prog
  induction prog with
  | ret => intro p d o _ _ _ hn _; simp [Prog.natural] at hn; simp [runS, ← hn.1, ← hn.2]
  | raise => intro p d o _ _ _ hn _; simp [Prog.natural] at hn; simp [runS, ← hn.1, ← hn.2]
  | hang => intro p d o _ _ _ hn _; simp [Prog.natural] at hn
  | work w k ih =>
    intro p d o hu ht hh hn hlt
    simp [Prog.unarmed] at hu
    rcases natSeq_some hn with ⟨e, e', ha, hk, rfl⟩ | ⟨ha, hne⟩
    · have hew : e = w := by cases ha; rfl
      subst hew
      have := ih { p with now := p.now + e } e' o hu ht hh hk (by simp; omega)
      unfold runS
      split
      · rename_i hn'; rw [ht] at hn'; cases hn'
      · rename_i D' hD'
        rw [ht] at hD'; cases hD'
        rw [if_neg (by omega), this]; simp [Nat.add_assoc]
    · cases ha; exact absurd rfl hne
  | call t name body k ihb ihk =>
    intro p d o hu ht hh hn hlt
    simp [Prog.unarmed] at hu
    obtain ⟨⟨ht0, hub⟩, huk⟩ := hu
    have hw : runS cfg (.call t name body k) p = seqS (runS cfg body p) (runS cfg k) := by
      simp [runS, wrapS, ht0]
    rw [hw]
    rcases natSeq_some hn with ⟨e, e', ha, hk, rfl⟩ | ⟨ha, hne⟩
    · rw [ihb p e .ret hub ht hh ha (by omega)]
      simp only [seqS]
      rw [ihk { p with now := p.now + e } e' o huk ht hh hk (by simp; omega)]
      simp [Nat.add_assoc]
    · rw [ihb p d o hub ht hh ha hlt]
      cases o <;> simp_all [seqS]
  | spawn body k _ _ => intro p d o hu; simp [Prog.unarmed] at hu

/-- signal mechanism, the program does not finish before the armed deadline: ScrapliTimeout exactly at the
    deadline, transport closed unless NO_TERMINATE -/
theorem runS_natural_fire (cfg : Cfg) (m : String) (D : Nat) : ∀ (prog : Prog) (p : Proc),
    prog.unarmed = true → p.timer = some D → p.handler = .scrapli m → p.now < D →
    (∀ d o, prog.natural = (some d, o) → D ≤ p.now + d) →
    runS cfg prog p = some ({ p with now := D, timer := none, closed := if cfg.noTerminate then p.closed else true },
      .timeout m) := by
  intro prog
  induction prog with
  | ret => intro p _ _ _ hn hl; have := hl 0 .ret rfl; omega
  | raise => intro p _ _ _ hn hl; have := hl 0 .error rfl; omega
  | hang =>
    intro p _ ht hh hn _
    simp only [runS, ht, fireS_scrapli cfg p D m hh]
    simp; omega
  | work w k ih =>
    intro p hu ht hh hn hl
    simp [Prog.unarmed] at hu
    unfold runS
    split
    · rename_i hn'; rw [ht] at hn'; cases hn'
    · rename_i D' hD'
      rw [ht] at hD'; cases hD'
      by_cases hD : D ≤ p.now + w
      · rw [if_pos hD, fireS_scrapli cfg p D m hh]; simp; omega
      · rw [if_neg hD]
        have := ih { p with now := p.now + w } hu ht hh (by simp; omega) (by
          intro d o hk
          have := hl (w + d) o (by simp [Prog.natural, natSeq, hk])
          simp; omega)
        rw [this]
  | call t name body k ihb ihk =>
    intro p hu ht hh hn hl
    simp [Prog.unarmed] at hu
    obtain ⟨⟨ht0, hub⟩, huk⟩ := hu
    have hw : runS cfg (.call t name body k) p = seqS (runS cfg body p) (runS cfg k) := by
      simp [runS, wrapS, ht0]
    rw [hw]
    have hl' : ∀ d o, natSeq body.natural k.natural = (some d, o) → D - p.now ≤ d := by
      intro d o hx; have := hl d o hx; omega
    rcases natSeq_late hl' with hb | ⟨e, ha, hlt, hk⟩
    · rw [ihb p hub ht hh hn (by intro d o hx; have := hb d o hx; omega)]
      simp [seqS]
    · rw [runS_natural_own cfg m D body p e .ret hub ht hh ha (by omega)]
      simp only [seqS]
      rw [ihk { p with now := p.now + e } huk ht hh (by simp; omega) (by
        intro d o hx; have := hk d o hx; simp; omega)]
  | spawn body k _ _ => intro p hu; simp [Prog.unarmed] at hu

/-- asyncio, the coroutine finishes before any enclosing cancellation: its own result at its own time -/
theorem runA_natural_own (cfg : Cfg) : ∀ (prog : Prog) (s : Nat) (ca : Option Nat) (c : Bool) (d : Nat) (o : Out),
    prog.unarmed = true → prog.natural = (some d, o) → (∀ C, ca = some C → s + d < C) →
    runA cfg prog s ca c = { fin := some (s + d), out := o, closed := c } := by
  intro prog
  induction prog with
  | ret => intro s ca c d o _ hn _; simp [Prog.natural] at hn; simp [runA, ← hn.1, ← hn.2]
  | raise => intro s ca c d o _ hn _; simp [Prog.natural] at hn; simp [runA, ← hn.1, ← hn.2]
  | hang => intro s ca c d o _ hn _; simp [Prog.natural] at hn
  | work w k ih =>
    intro s ca c d o hu hn hlt
    simp [Prog.unarmed] at hu
    rcases natSeq_some hn with ⟨e, e', ha, hk, rfl⟩ | ⟨ha, hne⟩
    · have hew : e = w := by cases ha; rfl
      subst hew
      have := ih (s + e) ca c e' o hu hk (by intro C hC; have := hlt C hC; omega)
      unfold runA
      cases ca with
      | none => simp only; rw [this]; simp [Nat.add_assoc]
      | some C =>
        have := hlt C rfl
        simp only
        rw [if_neg (by omega)]
        rw [ih (s + e) (some C) c e' o hu hk (by intro C' hC'; cases hC'; omega)]; simp [Nat.add_assoc]
    · cases ha; exact absurd rfl hne
  | call t name body k ihb ihk =>
    intro s ca c d o hu hn hlt
    simp [Prog.unarmed] at hu
    obtain ⟨⟨ht0, hub⟩, huk⟩ := hu
    have hw : runA cfg (.call t name body k) s ca c
        = seqA (runA cfg body s ca c) (fun e c' => runA cfg k e ca c') := by
      simp [runA, waitForA, ht0]
    rw [hw]
    rcases natSeq_some hn with ⟨e, e', ha, hk, rfl⟩ | ⟨ha, hne⟩
    · rw [ihb s ca c e .ret hub ha (by intro C hC; have := hlt C hC; omega)]
      simp only [seqA]
      rw [ihk (s + e) ca c e' o huk hk (by intro C hC; have := hlt C hC; omega)]
      simp [Nat.add_assoc]
    · rw [ihb s ca c d o hub ha hlt]
      cases o <;> simp_all [seqA]
  | spawn body k _ _ => intro s ca c d o hu; simp [Prog.unarmed] at hu

/-- asyncio, the coroutine does not finish before the cancellation at `C`: cancelled exactly at `C` -/
theorem runA_natural_cancel (cfg : Cfg) : ∀ (prog : Prog) (s C : Nat) (c : Bool),
    prog.unarmed = true → s < C → (∀ d o, prog.natural = (some d, o) → C ≤ s + d) →
    runA cfg prog s (some C) c = { fin := some C, out := .cancelled, closed := c } := by
  intro prog
  induction prog with
  | ret => intro s C c _ hs hl; have := hl 0 .ret rfl; omega
  | raise => intro s C c _ hs hl; have := hl 0 .error rfl; omega
  | hang => intro s C c _ hs _; simp [runA]; omega
  | work w k ih =>
    intro s C c hu hs hl
    simp [Prog.unarmed] at hu
    unfold runA
    simp only
    by_cases hC : C ≤ s + w
    · rw [if_pos hC]; simp; omega
    · rw [if_neg hC]
      exact ih (s + w) C c hu (by omega) (by
        intro d o hk
        have := hl (w + d) o (by simp [Prog.natural, natSeq, hk])
        omega)
  | call t name body k ihb ihk =>
    intro s C c hu hs hl
    simp [Prog.unarmed] at hu
    obtain ⟨⟨ht0, hub⟩, huk⟩ := hu
    have hw : runA cfg (.call t name body k) s (some C) c
        = seqA (runA cfg body s (some C) c) (fun e c' => runA cfg k e (some C) c') := by
      simp [runA, waitForA, ht0]
    rw [hw]
    have hl' : ∀ d o, natSeq body.natural k.natural = (some d, o) → C - s ≤ d := by
      intro d o hx; have := hl d o hx; omega
    rcases natSeq_late hl' with hb | ⟨e, ha, hlt, hk⟩
    · rw [ihb s C c hub hs (by intro d o hx; have := hb d o hx; omega)]
      simp [seqA]
    · rw [runA_natural_own cfg body s (some C) c e .ret hub ha (by intro C' hC'; cases hC'; omega)]
      simp only [seqA]
      rw [ihk (s + e) C c huk (by omega) (by intro d o hx; have := hk d o hx; omega)]
      simp
  | spawn body k _ _ => intro s C c hu; simp [Prog.unarmed] at hu

/-- thread mechanism, nobody closes the transport: the worker does exactly what the program does by itself -/
theorem runT_natural (cfg : Cfg) : ∀ (prog : Prog) (s : Nat), prog.unarmed = true →
    runT cfg prog s none = { fin := prog.natural.1.map (s + ·), out := prog.natural.2 } := by
  intro prog
  induction prog with
  | ret => intro s _; simp [runT, Prog.natural]
  | raise => intro s _; simp [runT, Prog.natural]
  | hang => intro s _; simp [runT, readT, Prog.natural]
  | work w k ih =>
    intro s hu
    simp [Prog.unarmed] at hu
    have := ih (s + w) hu
    unfold runT readT
    simp only [Option.map_some]
    rw [this]
    rcases hk : k.natural with ⟨kd, ko⟩
    cases kd <;> simp [Prog.natural, natSeq, hk, Nat.add_assoc]
  | call t name body k ihb ihk =>
    intro s hu
    simp [Prog.unarmed] at hu
    obtain ⟨⟨ht0, hub⟩, huk⟩ := hu
    have hw : runT cfg (.call t name body k) s none = seqT (runT cfg body s none) (runT cfg k) none := by
      simp [runT, poolT, ht0]
    rw [hw, ihb s hub]
    rcases hb : body.natural with ⟨bd, bo⟩
    rcases hk : k.natural with ⟨kd, ko⟩
    cases bd with
    | none => simp [seqT, Prog.natural, natSeq, hb]
    | some e =>
      cases bo with
      | ret =>
        simp only [seqT, Option.map_some]
        have hoo : omin none none = none := rfl
        rw [hoo, ihk (s + e) huk]
        cases kd <;> simp [Prog.natural, natSeq, hb, hk, Nat.add_assoc]
      | timeout m => simp [seqT, Prog.natural, natSeq, hb]
      | error => simp [seqT, Prog.natural, natSeq, hb]
      | cancelled => simp [seqT, Prog.natural, natSeq, hb]
  | spawn body k _ _ => intro s hu; simp [Prog.unarmed] at hu

theorem natSeq_out (a k : Option Nat × Out) (ha : a.2 = .ret ∨ a.2 = .error) (hk : k.2 = .ret ∨ k.2 = .error) :
    (natSeq a k).2 = .ret ∨ (natSeq a k).2 = .error := by
  obtain ⟨ad, ao⟩ := a
  obtain ⟨kd, ko⟩ := k
  cases ad <;> cases kd <;> cases ao <;> simp_all [natSeq]

theorem natural_out : ∀ prog : Prog, prog.natural.2 = .ret ∨ prog.natural.2 = .error := by
  intro prog
  induction prog with
  | ret => exact Or.inl rfl
  | raise => exact Or.inr rfl
  | hang => exact Or.inr rfl
  | work w k ih => exact natSeq_out _ _ (Or.inl rfl) ih
  | call t name body k ihb ihk => exact natSeq_out _ _ ihb ihk
  | spawn body k ihb ihk => exact natSeq_out _ _ ihb ihk

end Scrapli.Timeout
