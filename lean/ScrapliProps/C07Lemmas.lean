import ScrapliModel.Timeout
/-
  Helper definitions and lemmas for C07 (property theorems: C07.lean).
  Style: each wrapper (`wrapS`, `poolT`, `waitForA`) and each sequencing operator is shown to preserve
  an invariant of the wrapped *function*; the statements about programs follow by induction on `Prog`.
-/
namespace Scrapli.Timeout
open Scrapli.Gen.Timeout

/-- names of the decorated calls with a non-zero timeout inside a program -/
def Prog.names : Prog → List String
  | .ret => []
  | .raise => []
  | .hang => []
  | .work _ k => k.names
  | .call t name body k => (if t = 0 then [] else [name]) ++ (body.names ++ k.names)
  | .spawn body k => body.names ++ k.names

/-- no call inside the program arms a timeout -/
def Prog.unarmed : Prog → Bool
  | .ret => true
  | .raise => true
  | .hang => true
  | .work _ k => k.unarmed
  | .call t _ body k => t == 0 && body.unarmed && k.unarmed
  | .spawn _ _ => false

/-- no task is started other than by `wait_for` -/
def Prog.spawnFree : Prog → Bool
  | .ret => true
  | .raise => true
  | .hang => true
  | .work _ k => k.spawnFree
  | .call _ _ body k => body.spawnFree && k.spawnFree
  | .spawn _ _ => false

/-! ### option times -/

@[simp] theorem omin_none_right (a : Option Nat) : omin a none = a := by cases a <;> rfl
@[simp] theorem omin_none_left (a : Option Nat) : omin none a = a := by cases a <;> rfl
@[simp] theorem omin_some_some (a b : Nat) : omin (some a) (some b) = some (min a b) := rfl
@[simp] theorem omaxN_some (a b : Nat) : omaxN a (some b) = some (max a b) := rfl
@[simp] theorem omaxN_none (a : Nat) : omaxN a none = none := rfl
@[simp] theorem ole_some (a b : Nat) : ole (some a) b = decide (a ≤ b) := rfl
@[simp] theorem ole_none (b : Nat) : ole none b = false := rfl
@[simp] theorem olt_some (a b : Nat) : olt (some a) b = decide (a < b) := rfl
@[simp] theorem olt_none (b : Nat) : olt none b = false := rfl

theorem omaxN_eq_some {a : Nat} {b : Option Nat} {f : Nat} (h : omaxN a b = some f) :
    ∃ e, b = some e ∧ f = max a e := by
  cases b with
  | none => simp at h
  | some e => simp at h; exact ⟨e, rfl, h.symm⟩

theorem omin_isSome (a b : Option Nat) : (omin a b).isSome = (a.isSome || b.isSome) := by
  cases a <;> cases b <;> rfl

theorem omin_some_le (C : Nat) (x : Option Nat) : ∃ C', omin (some C) x = some C' ∧ C' ≤ C := by
  cases x with
  | none => exact ⟨C, rfl, Nat.le_refl _⟩
  | some y => exact ⟨min C y, rfl, Nat.min_le_left _ _⟩

theorem omin_le_some (x : Option Nat) (C : Nat) : ∃ C', omin x (some C) = some C' ∧ C' ≤ C := by
  cases x with
  | none => exact ⟨C, rfl, Nat.le_refl _⟩
  | some y => exact ⟨min y C, rfl, Nat.min_le_right _ _⟩

/-! ### signal mechanism -/

abbrev SFun := Proc → Option (Proc × Out)

theorem fireS_user (cfg : Cfg) (p : Proc) (D n : Nat) (h : p.handler = .user n) :
    fireS cfg p D = ({ p with now := max D p.now, timer := none }, none) := by
  simp [fireS, h]

theorem fireS_scrapli (cfg : Cfg) (p : Proc) (D : Nat) (m : String) (h : p.handler = .scrapli m) :
    fireS cfg p D = ({ p with now := max D p.now, timer := none,
                              closed := if cfg.noTerminate then p.closed else true }, some (.timeout m)) := by
  simp [fireS, h, handleTimeout]

theorem fireS_handler (cfg : Cfg) (p : Proc) (D : Nat) : (fireS cfg p D).1.handler = p.handler := by
  cases hh : p.handler with
  | user n => rw [fireS_user cfg p D n hh]; exact hh
  | scrapli m => rw [fireS_scrapli cfg p D m hh]; exact hh

theorem fireS_timer (cfg : Cfg) (p : Proc) (D : Nat) : (fireS cfg p D).1.timer = none := by
  cases hh : p.handler with
  | user n => rw [fireS_user cfg p D n hh]
  | scrapli m => rw [fireS_scrapli cfg p D m hh]

/-- `f` leaves the SIGALRM handler it found, however it ends -/
def KeepsHandler (f : SFun) : Prop := ∀ p q o, f p = some (q, o) → q.handler = p.handler

/-- after `f` the timer is disarmed or untouched -/
def TimerNoneOrSame (f : SFun) : Prop := ∀ p q o, f p = some (q, o) → q.timer = none ∨ q.timer = p.timer

/-- the wrapper restores the handler around ANY wrapped function when it arms (t ≠ 0) -/
theorem wrapS_keeps_armed (t : Nat) (name : String) (f : SFun) (ht : t ≠ 0) : KeepsHandler (wrapS t name f) := by
  intro p q o h
  simp only [wrapS, ht, ↓reduceIte] at h
  split at h
  · simp at h
  · simp at h; rw [← h.1]

theorem wrapS_keeps (t : Nat) (name : String) (f : SFun) (hf : KeepsHandler f) : KeepsHandler (wrapS t name f) := by
  by_cases ht : t = 0
  · intro p q o h; simp only [wrapS, ht, ↓reduceIte] at h; exact hf p q o h
  · exact wrapS_keeps_armed t name f ht

theorem seqS_keeps (a k : SFun) (ha : KeepsHandler a) (hk : KeepsHandler k) :
    KeepsHandler (fun p => seqS (a p) k) := by
  intro p q o h
  simp only [seqS] at h
  split at h
  · rename_i p' heq
    rw [hk _ _ _ h, ha _ _ _ heq]
  · exact ha _ _ _ h

theorem wrapS_timer (t : Nat) (name : String) (f : SFun) (hf : TimerNoneOrSame f) : TimerNoneOrSame (wrapS t name f) := by
  intro p q o h
  by_cases ht : t = 0
  · simp only [wrapS, ht, ↓reduceIte] at h; exact hf p q o h
  · simp only [wrapS, ht, ↓reduceIte] at h
    split at h
    · simp at h
    · simp at h; rw [← h.1]; exact Or.inl rfl

/-- when the wrapper arms, the timer is DISARMED afterwards whatever it was before -/
theorem wrapS_timer_armed (t : Nat) (name : String) (f : SFun) (ht : t ≠ 0) :
    ∀ p q o, wrapS t name f p = some (q, o) → q.timer = none := by
  intro p q o h
  simp only [wrapS, ht, ↓reduceIte] at h
  split at h
  · simp at h
  · simp at h; rw [← h.1]

theorem seqS_timer (a k : SFun) (ha : TimerNoneOrSame a) (hk : TimerNoneOrSame k) :
    TimerNoneOrSame (fun p => seqS (a p) k) := by
  intro p q o h
  simp only [seqS] at h
  split at h
  · rename_i p' heq
    rcases hk _ _ _ h with h1 | h1
    · exact Or.inl h1
    · rcases ha _ _ _ heq with h2 | h2
      · exact Or.inl (h1.trans h2)
      · exact Or.inr (h1.trans h2)
  · exact ha _ _ _ h

theorem runS_keeps (cfg : Cfg) : ∀ prog : Prog, KeepsHandler (runS cfg prog) := by
  intro prog
  induction prog with
  | ret => intro p q o h; simp [runS] at h; rw [← h.1]
  | raise => intro p q o h; simp [runS] at h; rw [← h.1]
  | hang =>
    intro p q o h
    unfold runS at h
    split at h
    · simp at h
    · rename_i D _
      have hf := fireS_handler cfg p D
      split at h
      · rename_i p' o' heq
        simp at h; rw [heq] at hf; rw [← h.1]; exact hf
      · simp at h
  | work d k ih =>
    intro p q o h
    unfold runS at h
    split at h
    · have := ih _ _ _ h; exact this
    · rename_i D _
      split at h
      · have hf := fireS_handler cfg p D
        split at h
        · rename_i p' o' heq
          simp at h; rw [heq] at hf; rw [← h.1]; exact hf
        · rename_i p' heq
          have hf' : p'.handler = p.handler := by rw [heq] at hf; exact hf
          have := ih _ _ _ h
          exact this.trans hf'
      · have := ih _ _ _ h; exact this
  | call t name body k ihb ihk =>
    have := seqS_keeps _ _ (wrapS_keeps t name _ ihb) ihk
    intro p q o h
    exact this p q o (by simpa [runS] using h)
  | spawn body k ihb ihk =>
    have := seqS_keeps _ _ ihb ihk
    intro p q o h
    exact this p q o (by simpa [runS] using h)

theorem runS_timer (cfg : Cfg) : ∀ prog : Prog, TimerNoneOrSame (runS cfg prog) := by
  intro prog
  induction prog with
  | ret => intro p q o h; simp [runS] at h; rw [← h.1]; exact Or.inr rfl
  | raise => intro p q o h; simp [runS] at h; rw [← h.1]; exact Or.inr rfl
  | hang =>
    intro p q o h
    unfold runS at h
    split at h
    · simp at h
    · rename_i D _
      have hf := fireS_timer cfg p D
      split at h
      · rename_i p' o' heq
        simp at h; rw [heq] at hf; rw [← h.1]; exact Or.inl hf
      · simp at h
  | work d k ih =>
    intro p q o h
    unfold runS at h
    split at h
    · rcases ih _ _ _ h with h1 | h1
      · exact Or.inl h1
      · exact Or.inr (by simpa using h1)
    · rename_i D hD
      split at h
      · have hf := fireS_timer cfg p D
        split at h
        · rename_i p' o' heq
          simp at h; rw [heq] at hf; rw [← h.1]; exact Or.inl hf
        · rename_i p' heq
          have hf' : p'.timer = none := by rw [heq] at hf; exact hf
          rcases ih _ _ _ h with h1 | h1
          · exact Or.inl h1
          · exact Or.inl (h1.trans hf')
      · rcases ih _ _ _ h with h1 | h1
        · exact Or.inl h1
        · exact Or.inr (by simpa using h1)
  | call t name body k ihb ihk =>
    have := seqS_timer _ _ (wrapS_timer t name _ ihb) ihk
    intro p q o h
    exact this p q o (by simpa [runS] using h)
  | spawn body k ihb ihk =>
    have := seqS_timer _ _ ihb ihk
    intro p q o h
    exact this p q o (by simpa [runS] using h)

/-- the invariant "if a timer is armed, the installed handler is scrapli's with a message of `S`" -/
def ArmedBy (S : List String) (p : Proc) : Prop :=
  p.timer.isSome = true → ∃ n ∈ S, p.handler = .scrapli (message n)

/-- close-iff and message provenance for a wrapped function -/
def ClosesOK (cfg : Cfg) (S : List String) (f : SFun) : Prop :=
  ∀ p q o, ArmedBy S p → f p = some (q, o) →
    (o.isTimeout = true → q.closed = (if cfg.noTerminate then p.closed else true)) ∧
    (o.isTimeout = false → q.closed = p.closed) ∧
    (∀ msg, o = .timeout msg → ∃ n ∈ S, msg = message n)

theorem wrapS_closes (cfg : Cfg) (S : List String) (t : Nat) (name : String) (f : SFun)
    (hn : t ≠ 0 → name ∈ S) (hf : ClosesOK cfg S f) : ClosesOK cfg S (wrapS t name f) := by
  intro p q o ha h
  by_cases ht : t = 0
  · simp only [wrapS, ht, ↓reduceIte] at h; exact hf p q o ha h
  · simp only [wrapS, ht, ↓reduceIte] at h
    split at h
    · simp at h
    · rename_i p2 o2 heq
      simp at h
      have := hf _ p2 o2 (by intro _; exact ⟨name, hn ht, rfl⟩) heq
      rw [← h.1, ← h.2]
      simpa using this

theorem seqS_closes (cfg : Cfg) (S : List String) (a k : SFun) (ha : ClosesOK cfg S a) (hk : ClosesOK cfg S k)
    (hah : KeepsHandler a) (hat : TimerNoneOrSame a) : ClosesOK cfg S (fun p => seqS (a p) k) := by
  intro p q o harm h
  simp only [seqS] at h
  split at h
  · rename_i p' heq
    have hb := ha p p' .ret harm heq
    have hp' : p'.closed = p.closed := hb.2.1 rfl
    have hak : ArmedBy S p' := by
      intro hx
      rcases hat p p' .ret heq with h1 | h1
      · simp [h1] at hx
      · rw [h1] at hx
        obtain ⟨n, hn, hh⟩ := harm hx
        exact ⟨n, hn, by rw [hah p p' .ret heq]; exact hh⟩
    have := hk p' q o hak h
    rw [hp'] at this; exact this
  · exact ha p q o harm h

theorem runS_closes (cfg : Cfg) (S : List String) : ∀ prog : Prog, (∀ n ∈ prog.names, n ∈ S) →
    ClosesOK cfg S (runS cfg prog) := by
  intro prog
  induction prog with
  | ret => intro _ p q o _ h; simp [runS] at h; rw [← h.1, ← h.2]; simp [Out.isTimeout]
  | raise => intro _ p q o _ h; simp [runS] at h; rw [← h.1, ← h.2]; simp [Out.isTimeout]
  | hang =>
    intro _ p q o ha h
    unfold runS at h
    split at h
    · simp at h
    · rename_i D hD
      obtain ⟨n, hn, hh⟩ := ha (by simp [hD])
      rw [fireS_scrapli cfg p D _ hh] at h
      simp at h
      rw [← h.1, ← h.2]
      simp [Out.isTimeout]
      exact ⟨n, hn, rfl⟩
  | work d k ih =>
    intro hS p q o ha h
    unfold runS at h
    split at h
    · rename_i hn
      have := ih hS { p with now := p.now + d } q o (by intro hx; simp [hn] at hx) h
      simpa using this
    · rename_i D hD
      obtain ⟨n, hn, hh⟩ := ha (by simp [hD])
      split at h
      · rw [fireS_scrapli cfg p D _ hh] at h
        simp at h
        rw [← h.1, ← h.2]
        simp [Out.isTimeout]
        exact ⟨n, hn, rfl⟩
      · have := ih hS { p with now := p.now + d } q o (by intro _; exact ⟨n, hn, hh⟩) h
        simpa using this
  | call t name body k ihb ihk =>
    intro hS
    have hSb : ∀ n ∈ body.names, n ∈ S := fun n hn => hS n (by simp [Prog.names, hn])
    have hSk : ∀ n ∈ k.names, n ∈ S := fun n hn => hS n (by simp [Prog.names, hn])
    have hname : t ≠ 0 → name ∈ S := fun ht => hS name (by simp [Prog.names, ht])
    have := seqS_closes cfg S _ _ (wrapS_closes cfg S t name _ hname (ihb hSb)) (ihk hSk)
      (wrapS_keeps t name _ (runS_keeps cfg body)) (wrapS_timer t name _ (runS_timer cfg body))
    intro p q o harm h
    exact this p q o harm (by simpa [runS] using h)
  | spawn body k ihb ihk =>
    intro hS
    have hSb : ∀ n ∈ body.names, n ∈ S := fun n hn => hS n (by simp [Prog.names, hn])
    have hSk : ∀ n ∈ k.names, n ∈ S := fun n hn => hS n (by simp [Prog.names, hn])
    have := seqS_closes cfg S _ _ (ihb hSb) (ihk hSk) (runS_keeps cfg body) (runS_timer cfg body)
    intro p q o harm h
    exact this p q o harm (by simpa [runS] using h)

/-- a program that arms nothing, run while a scrapli timer `D` is armed: it is over by `D`; either the
    timer fired (exactly at `D`) or it is still armed -/
theorem runS_unarmed (cfg : Cfg) (m : String) (D : Nat) : ∀ (prog : Prog) (p : Proc),
    prog.unarmed = true → p.timer = some D → p.handler = .scrapli m → p.now ≤ D →
    ∃ q o, runS cfg prog p = some (q, o) ∧ q.now ≤ D ∧
      ((o = .timeout m ∧ q.now = D ∧ q.timer = none) ∨ (o.isTimeout = false ∧ q.timer = some D)) := by
  intro prog
  induction prog with
  | ret => intro p _ ht _ hn; exact ⟨p, .ret, by simp [runS], hn, Or.inr ⟨rfl, ht⟩⟩
  | raise => intro p _ ht _ hn; exact ⟨p, .error, by simp [runS], hn, Or.inr ⟨rfl, ht⟩⟩
  | hang =>
    intro p _ ht hh hn
    refine ⟨{ p with now := max D p.now, timer := none, closed := if cfg.noTerminate then p.closed else true },
      .timeout m, by simp only [runS, ht, fireS_scrapli cfg p D m hh], ?_, Or.inl ⟨rfl, ?_, rfl⟩⟩ <;>
      simp <;> omega
  | work d k ih =>
    intro p hu ht hh hn
    simp [Prog.unarmed] at hu
    by_cases hD : D ≤ p.now + d
    · refine ⟨{ p with now := max D p.now, timer := none, closed := if cfg.noTerminate then p.closed else true },
        .timeout m, by simp only [runS, ht, hD, ↓reduceIte, fireS_scrapli cfg p D m hh], ?_, Or.inl ⟨rfl, ?_, rfl⟩⟩ <;>
        simp <;> omega
    · obtain ⟨q, o, h1, h2, h3⟩ := ih { p with now := p.now + d } hu ht hh (by simp; omega)
      refine ⟨q, o, ?_, h2, h3⟩
      unfold runS
      split
      · rename_i hn'; rw [ht] at hn'; cases hn'
      · rename_i D' hD'
        rw [ht] at hD'; cases hD'
        rw [if_neg hD]; exact h1
  | call t name body k ihb ihk =>
    intro p hu ht hh hn
    simp [Prog.unarmed] at hu
    obtain ⟨⟨ht0, hub⟩, huk⟩ := hu
    obtain ⟨q, o, h1, h2, h3⟩ := ihb p hub ht hh hn
    rcases h3 with ⟨ho, hq, hqt⟩ | ⟨ho, hqt⟩
    · refine ⟨q, o, ?_, h2, Or.inl ⟨ho, hq, hqt⟩⟩
      simp [runS, wrapS, seqS, ht0, h1, ho]
    · cases o with
      | ret =>
        have hqh : q.handler = .scrapli m := by rw [runS_keeps cfg body p q .ret h1]; exact hh
        obtain ⟨q', o', h1', h2', h3'⟩ := ihk q huk hqt hqh h2
        exact ⟨q', o', by simp [runS, wrapS, seqS, ht0, h1]; exact h1', h2', h3'⟩
      | timeout msg => simp [Out.isTimeout] at ho
      | error => exact ⟨q, .error, by simp [runS, wrapS, seqS, ht0, h1], h2, Or.inr ⟨rfl, hqt⟩⟩
      | cancelled => exact ⟨q, .cancelled, by simp [runS, wrapS, seqS, ht0, h1], h2, Or.inr ⟨rfl, hqt⟩⟩
  | spawn body k _ _ => intro p hu; simp [Prog.unarmed] at hu

/-! ### worker-thread mechanism -/

abbrev TFun := Nat → Option Nat → TRes

/-- a call never ends before it starts -/
def FinGe (g : TFun) : Prop := ∀ s ext f, (g s ext).fin = some f → s ≤ f

/-- when the call is over, every worker thread it started is over -/
def Joined (g : TFun) : Prop :=
  ∀ s ext f, (g s ext).fin = some f → ∀ a ∈ (g s ext).acts, ∃ e, a.stop = some e ∧ e ≤ f

/-- the call tree closed the transport iff it ends in ScrapliTimeout and termination is on; messages -/
def ClosesT (cfg : Cfg) (S : List String) (g : TFun) : Prop :=
  ∀ s ext, ((g s ext).closeAt.isSome = ((g s ext).out.isTimeout && !cfg.noTerminate)) ∧
    (∀ msg, (g s ext).out = .timeout msg → ∃ n ∈ S, msg = message n)

/-- once the transport is closed from outside at `C`, the call is over by `max C s` -/
def WakeBound (g : TFun) : Prop := ∀ s C, ∃ f, (g s (some C)).fin = some f ∧ f ≤ max C s

theorem poolT_finGe (cfg : Cfg) (t : Nat) (name : String) (g : TFun) (hg : FinGe g) : FinGe (poolT cfg t name g) := by
  intro s ext f h
  simp only [poolT] at h
  split at h
  · exact hg _ _ _ h
  · split at h
    · exact hg _ _ _ h
    · obtain ⟨e, _, rfl⟩ := omaxN_eq_some h; omega

theorem seqT_finGe (a k : TFun) (ha : FinGe a) (hk : FinGe k) : FinGe (fun s ext => seqT (a s ext) k ext) := by
  intro s ext f h
  simp only [seqT] at h
  split at h
  · rename_i e hfe _
    have h1 := ha _ _ _ hfe
    have h2 := hk _ _ _ h
    omega
  · exact ha _ _ _ h

theorem runT_finGe (cfg : Cfg) : ∀ prog : Prog, FinGe (runT cfg prog) := by
  intro prog
  induction prog with
  | ret => intro s ext f h; simp [runT] at h; omega
  | raise => intro s ext f h; simp [runT] at h; omega
  | hang =>
    intro s ext f h
    unfold runT readT at h
    cases ext with
    | none => simp at h
    | some C =>
      by_cases hC : C ≤ s
      · simp [hC] at h; omega
      · cases hw : cfg.closeWakes <;> simp [hC, hw] at h
        omega
  | work d k ih =>
    intro s ext f h
    unfold runT readT at h
    cases ext with
    | none => simp at h; have := ih _ _ _ h; omega
    | some C =>
      by_cases hC : C ≤ s
      · simp [hC] at h; omega
      · by_cases hw : (cfg.closeWakes && decide (C < s + d)) = true
        · simp [hC, hw] at h; omega
        · simp [hC, hw] at h; have := ih _ _ _ h; omega
  | call t name body k ihb ihk =>
    have := seqT_finGe _ _ (poolT_finGe cfg t name _ ihb) ihk
    intro s ext f h
    exact this s ext f (by simpa [runT] using h)
  | spawn body k ihb ihk =>
    have := seqT_finGe _ _ ihb ihk
    intro s ext f h
    exact this s ext f (by simpa [runT] using h)

theorem poolT_joined (cfg : Cfg) (t : Nat) (name : String) (g : TFun) (hg : Joined g) : Joined (poolT cfg t name g) := by
  intro s ext f h a ha
  simp only [poolT] at h ha
  split at h
  · rename_i ht; simp only [ht, ↓reduceIte] at ha; exact hg _ _ _ h a ha
  · rename_i ht
    simp only [ht, ↓reduceIte] at ha
    split at h
    · rename_i hd
      rw [if_pos hd] at ha
      simp only [List.mem_cons] at ha
      rcases ha with rfl | ha
      · exact ⟨f, h, Nat.le_refl _⟩
      · exact hg _ _ _ h a ha
    · rename_i hd
      rw [if_neg hd] at ha
      obtain ⟨e, he, rfl⟩ := omaxN_eq_some h
      simp only [List.mem_cons] at ha
      rcases ha with rfl | ha
      · exact ⟨e, he, Nat.le_max_right _ _⟩
      · obtain ⟨e', h1, h2⟩ := hg _ _ _ he a ha
        exact ⟨e', h1, Nat.le_trans h2 (Nat.le_max_right _ _)⟩

theorem seqT_cases (a : TRes) (k : TFun) (ext : Option Nat) :
    (∃ e, a.fin = some e ∧ a.out = .ret ∧
      seqT a k ext = { k e (omin ext a.closeAt) with
        closeAt := omin a.closeAt (k e (omin ext a.closeAt)).closeAt,
        acts := a.acts ++ (k e (omin ext a.closeAt)).acts }) ∨
    seqT a k ext = a := by
  unfold seqT
  split
  · rename_i e hfe hout; exact Or.inl ⟨e, hfe, hout, rfl⟩
  · exact Or.inr rfl

theorem seqT_joined (a k : TFun) (ha : Joined a) (hk : Joined k) (hkge : FinGe k) :
    Joined (fun s ext => seqT (a s ext) k ext) := by
  intro s ext f h x hx
  have h' : (seqT (a s ext) k ext).fin = some f := h
  have hx' : x ∈ (seqT (a s ext) k ext).acts := hx
  rcases seqT_cases (a s ext) k ext with ⟨e, hfe, _, heq⟩ | heq
  · rw [heq] at h' hx'
    simp only [List.mem_append] at hx'
    have hef := hkge _ _ _ h'
    rcases hx' with hx' | hx'
    · obtain ⟨e', h1, h2⟩ := ha _ _ _ hfe x hx'
      exact ⟨e', h1, Nat.le_trans h2 hef⟩
    · exact hk _ _ _ h' x hx'
  · rw [heq] at h' hx'
    exact ha _ _ _ h' x hx'

theorem runT_joined (cfg : Cfg) : ∀ prog : Prog, Joined (runT cfg prog) := by
  intro prog
  induction prog with
  | ret => intro s ext f _ a ha; simp [runT] at ha
  | raise => intro s ext f _ a ha; simp [runT] at ha
  | hang =>
    intro s ext f _ a ha
    have : (runT cfg .hang s ext).acts = [] := by unfold runT; split <;> rfl
    rw [this] at ha; cases ha
  | work d k ih =>
    intro s ext f h a ha
    unfold runT at h ha
    cases hr : readT cfg s (some d) ext with
    | none => simp [hr] at h
    | some v =>
      cases v with
      | inl e => simp [hr] at ha
      | inr e => simp only [hr] at h ha; exact ih _ _ _ h a ha
  | call t name body k ihb ihk =>
    have := seqT_joined _ _ (poolT_joined cfg t name _ ihb) ihk (runT_finGe cfg k)
    intro s ext f h a ha
    exact this s ext f (by simpa [runT] using h) a (by simpa [runT] using ha)
  | spawn body k ihb ihk =>
    have := seqT_joined _ _ ihb ihk (runT_finGe cfg k)
    intro s ext f h a ha
    exact this s ext f (by simpa [runT] using h) a (by simpa [runT] using ha)

theorem poolT_closes (cfg : Cfg) (S : List String) (t : Nat) (name : String) (g : TFun)
    (hn : t ≠ 0 → name ∈ S) (hg : ClosesT cfg S g) : ClosesT cfg S (poolT cfg t name g) := by
  intro s ext
  simp only [poolT]
  split
  · exact hg s ext
  · rename_i ht
    split
    · exact hg s ext
    · refine ⟨?_, ?_⟩
      · cases hnt : cfg.noTerminate
        · simp [omin_isSome, Out.isTimeout]
        · have := (hg s ext).1
          simp only [hnt, Bool.not_true, Bool.and_false] at this
          simp only [↓reduceIte, omin_none_right, omin_none_left, Out.isTimeout, Bool.not_true, Bool.and_false]
          exact this
      · intro msg hm
        simp at hm
        exact ⟨name, hn ht, hm.symm⟩

theorem seqT_closes (cfg : Cfg) (S : List String) (a k : TFun) (ha : ClosesT cfg S a) (hk : ClosesT cfg S k) :
    ClosesT cfg S (fun s ext => seqT (a s ext) k ext) := by
  intro s ext
  simp only [seqT]
  split
  · rename_i e hfe hout
    have h1 := (ha s ext).1
    rw [hout] at h1
    simp [Out.isTimeout] at h1
    rw [h1]
    simp only [omin_none_left, omin_none_right]
    exact hk e ext
  · exact ha s ext

theorem runT_closes (cfg : Cfg) (S : List String) : ∀ prog : Prog, (∀ n ∈ prog.names, n ∈ S) →
    ClosesT cfg S (runT cfg prog) := by
  intro prog
  induction prog with
  | ret => intro _ s ext; simp [runT, Out.isTimeout]
  | raise => intro _ s ext; simp [runT, Out.isTimeout]
  | hang =>
    intro _ s ext
    have h1 : (runT cfg .hang s ext).out = .error := by unfold runT; split <;> rfl
    have h2 : (runT cfg .hang s ext).closeAt = none := by unfold runT; split <;> rfl
    rw [h1, h2]; simp [Out.isTimeout]
  | work d k ih =>
    intro hS s ext
    unfold runT
    split
    · simp [Out.isTimeout]
    · exact ih hS _ _
    · simp [Out.isTimeout]
  | call t name body k ihb ihk =>
    intro hS
    have hSb : ∀ n ∈ body.names, n ∈ S := fun n hn => hS n (by simp [Prog.names, hn])
    have hSk : ∀ n ∈ k.names, n ∈ S := fun n hn => hS n (by simp [Prog.names, hn])
    have hname : t ≠ 0 → name ∈ S := fun ht => hS name (by simp [Prog.names, ht])
    have := seqT_closes cfg S _ _ (poolT_closes cfg S t name _ hname (ihb hSb)) (ihk hSk)
    intro s ext
    simpa [runT] using this s ext
  | spawn body k ihb ihk =>
    intro hS
    have hSb : ∀ n ∈ body.names, n ∈ S := fun n hn => hS n (by simp [Prog.names, hn])
    have hSk : ∀ n ∈ k.names, n ∈ S := fun n hn => hS n (by simp [Prog.names, hn])
    have := seqT_closes cfg S _ _ (ihb hSb) (ihk hSk)
    intro s ext
    simpa [runT] using this s ext

theorem poolT_wake (cfg : Cfg) (t : Nat) (name : String) (g : TFun) (hg : WakeBound g) :
    WakeBound (poolT cfg t name g) := by
  intro s C
  simp only [poolT]
  split
  · exact hg s C
  · obtain ⟨f0, h0, hb0⟩ := hg s C
    split
    · exact ⟨f0, h0, hb0⟩
    · rename_i hnd
      rw [h0] at hnd
      simp at hnd
      obtain ⟨C', hC', hle⟩ := omin_some_le C (if cfg.noTerminate = true then none else some (s + t))
      obtain ⟨f1, h1, hb1⟩ := hg s C'
      rw [hC', h1]
      exact ⟨max (s + t) f1, rfl, by omega⟩

theorem seqT_wake (a k : TFun) (ha : WakeBound a) (hk : WakeBound k) :
    WakeBound (fun s ext => seqT (a s ext) k ext) := by
  intro s C
  obtain ⟨f0, h0, hb0⟩ := ha s C
  simp only [seqT]
  split
  · rename_i e hfe hout
    rw [h0] at hfe
    obtain ⟨C', hC', hle⟩ := omin_some_le C (a s (some C)).closeAt
    obtain ⟨f1, h1, hb1⟩ := hk e C'
    rw [hC', h1]
    simp at hfe
    exact ⟨f1, rfl, by omega⟩
  · exact ⟨f0, h0, hb0⟩

theorem runT_wake (cfg : Cfg) (hw : cfg.closeWakes = true) : ∀ prog : Prog, WakeBound (runT cfg prog) := by
  intro prog
  induction prog with
  | ret => intro s C; exact ⟨s, by simp [runT], by omega⟩
  | raise => intro s C; exact ⟨s, by simp [runT], by omega⟩
  | hang =>
    intro s C
    unfold runT readT
    by_cases hC : C ≤ s
    · exact ⟨s, by simp [hC], by omega⟩
    · exact ⟨C, by simp [hC, hw], by omega⟩
  | work d k ih =>
    intro s C
    unfold runT readT
    by_cases hC : C ≤ s
    · exact ⟨s, by simp [hC], by omega⟩
    · by_cases hd : C < s + d
      · exact ⟨C, by simp [hC, hw, hd], by omega⟩
      · obtain ⟨f, h1, h2⟩ := ih (s + d) C
        exact ⟨f, by simp [hC, hw, hd]; exact h1, by omega⟩
  | call t name body k ihb ihk =>
    have := seqT_wake _ _ (poolT_wake cfg t name _ ihb) ihk
    intro s C
    simpa [runT] using this s C
  | spawn body k ihb ihk =>
    have := seqT_wake _ _ ihb ihk
    intro s C
    simpa [runT] using this s C

/-! ### asyncio mechanism -/

abbrev AFun := Nat → Option Nat → Bool → ARes

/-- cancelled at `C` ⇒ over by `max C s` -/
def CancelBound (g : AFun) : Prop := ∀ s C c, ∃ f, (g s (some C) c).fin = some f ∧ f ≤ max C s

def ClosesA (cfg : Cfg) (S : List String) (g : AFun) : Prop :=
  ∀ s ca c, ((g s ca c).out.isTimeout = true → (g s ca c).closed = (if cfg.noTerminate then c else true)) ∧
    ((g s ca c).out.isTimeout = false → (g s ca c).closed = c) ∧
    (∀ msg, (g s ca c).out = .timeout msg → ∃ n ∈ S, msg = message n)

theorem waitForA_bound (cfg : Cfg) (t : Nat) (name : String) (g : AFun) (hg : CancelBound g) :
    CancelBound (waitForA cfg t name g) := by
  intro s C c
  simp only [waitForA]
  split
  · exact hg s C c
  · obtain ⟨f, h1, h2⟩ := hg s (min C (s + t)) c
    have h1' : (g s (omin (some C) (some (s + t))) c).fin = some f := h1
    refine ⟨f, ?_, by omega⟩
    split
    · simpa [handleTimeout] using h1'
    · exact h1'

theorem seqA_bound (a : AFun) (k : Nat → Option Nat → Bool → ARes) (ha : CancelBound a) (hk : CancelBound k) :
    CancelBound (fun s ca c => seqA (a s ca c) (fun e c' => k e ca c')) := by
  intro s C c
  obtain ⟨f0, h0, hb0⟩ := ha s C c
  simp only [seqA]
  split
  · rename_i e hfe hout
    rw [h0] at hfe; simp at hfe
    obtain ⟨f1, h1, hb1⟩ := hk e C (a s (some C) c).closed
    exact ⟨f1, h1, by omega⟩
  · exact ⟨f0, h0, hb0⟩

/-- the waiter of a spawned task is over by the cancellation whatever the task does -/
theorem spawnA_bound (g : AFun) : CancelBound (spawnA g) := by
  intro s C c
  simp only [spawnA]
  split
  · rename_i hd
    cases hf : (g s none c).fin with
    | none => rw [hf] at hd; simp at hd
    | some x => rw [hf] at hd; simp at hd; exact ⟨x, rfl, by omega⟩
  · exact ⟨max C s, rfl, Nat.le_refl _⟩

theorem runA_bound (cfg : Cfg) : ∀ prog : Prog, CancelBound (runA cfg prog) := by
  intro prog
  induction prog with
  | ret => intro s C c; exact ⟨s, by simp [runA], by omega⟩
  | raise => intro s C c; exact ⟨s, by simp [runA], by omega⟩
  | hang => intro s C c; exact ⟨max C s, by simp [runA], by omega⟩
  | work d k ih =>
    intro s C c
    unfold runA
    by_cases hd : C ≤ s + d
    · exact ⟨max C s, by simp [hd], by omega⟩
    · obtain ⟨f, h1, h2⟩ := ih (s + d) C c
      exact ⟨f, by simp [hd]; exact h1, by omega⟩
  | call t name body k ihb ihk =>
    have := seqA_bound _ _ (waitForA_bound cfg t name _ ihb) ihk
    intro s C c
    simpa [runA] using this s C c
  | spawn body k _ ihk =>
    have := seqA_bound _ _ (spawnA_bound (runA cfg body)) ihk
    intro s C c
    simpa [runA] using this s C c

theorem waitForA_closes (cfg : Cfg) (S : List String) (t : Nat) (name : String) (g : AFun)
    (hn : t ≠ 0 → name ∈ S) (hg : ClosesA cfg S g) : ClosesA cfg S (waitForA cfg t name g) := by
  intro s ca c
  simp only [waitForA]
  split
  · exact hg s ca c
  · rename_i ht
    have hr := hg s (omin ca (some (s + t))) c
    split
    · rename_i hc
      simp at hc
      have hcl := hr.2.1 (by rw [hc.1]; rfl)
      simp [handleTimeout, Out.isTimeout, hcl]
      exact ⟨name, hn ht, rfl⟩
    · exact hr

theorem spawnA_closes (cfg : Cfg) (S : List String) (g : AFun) (hg : ClosesA cfg S g) : ClosesA cfg S (spawnA g) := by
  intro s ca c
  have hr := hg s none c
  simp only [spawnA]
  split
  · split
    · exact hr
    · simp [Out.isTimeout]
  · exact hr

theorem seqA_closes (cfg : Cfg) (S : List String) (a : AFun) (k : Nat → Option Nat → Bool → ARes)
    (ha : ClosesA cfg S a) (hk : ClosesA cfg S k) :
    ClosesA cfg S (fun s ca c => seqA (a s ca c) (fun e c' => k e ca c')) := by
  intro s ca c
  simp only [seqA]
  split
  · rename_i e hfe hout
    have h1 := (ha s ca c).2.1 (by rw [hout]; rfl)
    have := hk e ca (a s ca c).closed
    rw [h1] at this
    rw [h1]; exact this
  · exact ha s ca c

theorem runA_closes (cfg : Cfg) (S : List String) : ∀ prog : Prog, (∀ n ∈ prog.names, n ∈ S) →
    ClosesA cfg S (runA cfg prog) := by
  intro prog
  induction prog with
  | ret => intro _ s ca c; simp [runA, Out.isTimeout]
  | raise => intro _ s ca c; simp [runA, Out.isTimeout]
  | hang => intro _ s ca c; unfold runA; split <;> simp [Out.isTimeout]
  | work d k ih =>
    intro hS s ca c
    unfold runA
    split
    · split
      · simp [Out.isTimeout]
      · exact ih hS _ _ _
    · exact ih hS _ _ _
  | call t name body k ihb ihk =>
    intro hS
    have hSb : ∀ n ∈ body.names, n ∈ S := fun n hn => hS n (by simp [Prog.names, hn])
    have hSk : ∀ n ∈ k.names, n ∈ S := fun n hn => hS n (by simp [Prog.names, hn])
    have hname : t ≠ 0 → name ∈ S := fun ht => hS name (by simp [Prog.names, ht])
    have := seqA_closes cfg S _ _ (waitForA_closes cfg S t name _ hname (ihb hSb)) (ihk hSk)
    intro s ca c
    simpa [runA] using this s ca c
  | spawn body k ihb ihk =>
    intro hS
    have hSb : ∀ n ∈ body.names, n ∈ S := fun n hn => hS n (by simp [Prog.names, hn])
    have hSk : ∀ n ∈ k.names, n ∈ S := fun n hn => hS n (by simp [Prog.names, hn])
    have := seqA_closes cfg S _ _ (spawnA_closes cfg S _ (ihb hSb)) (ihk hSk)
    intro s ca c
    simpa [runA] using this s ca c

/-! ### sequencing with `ret`, programs that arm nothing -/

theorem seqS_ret (cfg : Cfg) (r : Option (Proc × Out)) : seqS r (runS cfg .ret) = r := by
  unfold seqS
  split
  · simp [runS]
  · rfl

theorem seqT_ret (cfg : Cfg) (a : TRes) (ext : Option Nat) : seqT a (runT cfg .ret) ext = a := by
  rcases seqT_cases a (runT cfg .ret) ext with ⟨e, hfe, hout, heq⟩ | heq
  · rw [heq]
    cases a
    simp_all [runT]
  · exact heq

theorem seqA_ret (cfg : Cfg) (a : ARes) (ca : Option Nat) : seqA a (fun e c' => runA cfg .ret e ca c') = a := by
  unfold seqA
  split
  · rename_i e hfe hout
    cases a
    simp_all [runA]
  · rfl

theorem waitForA_fin (cfg : Cfg) (t : Nat) (name : String) (g : AFun) (s : Nat) (ca : Option Nat) (c : Bool)
    (ht : t ≠ 0) : (waitForA cfg t name g s ca c).fin = (g s (omin ca (some (s + t))) c).fin := by
  simp only [waitForA, ht, ↓reduceIte]
  split <;> rfl

/-- a program that arms nothing starts no worker thread -/
theorem runT_unarmed_acts (cfg : Cfg) : ∀ (prog : Prog) (s : Nat) (ext : Option Nat),
    prog.unarmed = true → (runT cfg prog s ext).acts = [] := by
  intro prog
  induction prog with
  | ret => intro s ext _; rfl
  | raise => intro s ext _; rfl
  | hang => intro s ext _; unfold runT; split <;> rfl
  | work d k ih =>
    intro s ext hu
    simp [Prog.unarmed] at hu
    unfold runT
    split
    · rfl
    · exact ih _ _ hu
    · rfl
  | call t name body k ihb ihk =>
    intro s ext hu
    simp [Prog.unarmed] at hu
    obtain ⟨⟨ht0, hub⟩, huk⟩ := hu
    have hp : poolT cfg t name (runT cfg body) s ext = runT cfg body s ext := by simp [poolT, ht0]
    simp only [runT, hp]
    rcases seqT_cases (runT cfg body s ext) (runT cfg k) ext with ⟨e, _, _, heq⟩ | heq
    · rw [heq]; simp [ihb s ext hub, ihk _ _ huk]
    · rw [heq]; exact ihb s ext hub
  | spawn body k _ _ => intro s ext hu; simp [Prog.unarmed] at hu

theorem unarmed_names : ∀ prog : Prog, prog.unarmed = true → prog.names = [] := by
  intro prog
  induction prog with
  | ret => intro _; rfl
  | raise => intro _; rfl
  | hang => intro _; rfl
  | work d k ih => intro hu; simp [Prog.unarmed] at hu; simpa [Prog.names] using ih hu
  | call t name body k ihb ihk =>
    intro hu
    simp [Prog.unarmed] at hu
    simp [Prog.names, hu.1.1, ihb hu.1.2, ihk hu.2]
  | spawn body k _ _ => intro hu; simp [Prog.unarmed] at hu

/-! ### a decorated call on its own -/

theorem runS_call_ret (cfg : Cfg) (t : Nat) (name : String) (body : Prog) (p : Proc) :
    runS cfg (.call t name body .ret) p = wrapS t name (runS cfg body) p := by
  have : runS cfg (.call t name body .ret) p = seqS (wrapS t name (runS cfg body) p) (runS cfg .ret) := rfl
  rw [this]; exact seqS_ret cfg _

theorem runT_call_ret (cfg : Cfg) (t : Nat) (name : String) (body : Prog) (s : Nat) (ext : Option Nat) :
    runT cfg (.call t name body .ret) s ext = poolT cfg t name (runT cfg body) s ext := by
  have : runT cfg (.call t name body .ret) s ext
      = seqT (poolT cfg t name (runT cfg body) s ext) (runT cfg .ret) ext := rfl
  rw [this]; exact seqT_ret cfg _ _

theorem runA_call_ret (cfg : Cfg) (t : Nat) (name : String) (body : Prog) (s : Nat) (ca : Option Nat) (c : Bool) :
    runA cfg (.call t name body .ret) s ca c = waitForA cfg t name (runA cfg body) s ca c := by
  have : runA cfg (.call t name body .ret) s ca c
      = seqA (waitForA cfg t name (runA cfg body) s ca c) (fun e c' => runA cfg .ret e ca c') := rfl
  rw [this]; exact seqA_ret cfg _ ca

theorem run_signal_some (cfg : Cfg) (prog : Prog) (p q : Proc) (o : Out) (h : runS cfg prog p = some (q, o)) :
    run cfg .signal prog p = { fin := some q.now, out := o, closed := q.closed, handler := q.handler, timer := q.timer }
    ∧ run cfg .direct prog p = { fin := some q.now, out := o, closed := q.closed, handler := q.handler, timer := q.timer } := by
  simp [run, h]

theorem run_signal_none (cfg : Cfg) (prog : Prog) (p : Proc) (h : runS cfg prog p = none) :
    run cfg .signal prog p = { fin := none, out := .error, closed := p.closed, handler := p.handler, timer := p.timer }
    ∧ run cfg .direct prog p = { fin := none, out := .error, closed := p.closed, handler := p.handler, timer := p.timer } := by
  simp [run, h]

/-! ### asyncio: tasks -/

def FinGeA (g : AFun) : Prop := ∀ s ca c f, (g s ca c).fin = some f → s ≤ f

/-- when the call is over, every task created in its tree is over -/
def JoinedA (g : AFun) : Prop :=
  ∀ s ca c f, (g s ca c).fin = some f → ∀ a ∈ (g s ca c).tasks, ∃ e, a.stop = some e ∧ e ≤ f

theorem waitForA_tasks (cfg : Cfg) (t : Nat) (name : String) (g : AFun) (s : Nat) (ca : Option Nat) (c : Bool)
    (ht : t ≠ 0) : (waitForA cfg t name g s ca c).tasks =
      ⟨s, (g s (omin ca (some (s + t))) c).fin, name⟩ :: (g s (omin ca (some (s + t))) c).tasks := by
  simp only [waitForA, ht, ↓reduceIte]
  split <;> rfl

theorem waitForA_finGe (cfg : Cfg) (t : Nat) (name : String) (g : AFun) (hg : FinGeA g) : FinGeA (waitForA cfg t name g) := by
  intro s ca c f h
  by_cases ht : t = 0
  · simp only [waitForA, ht, ↓reduceIte] at h; exact hg _ _ _ _ h
  · rw [waitForA_fin cfg t name g s ca c ht] at h; exact hg _ _ _ _ h

theorem waitForA_joined (cfg : Cfg) (t : Nat) (name : String) (g : AFun) (hg : JoinedA g) : JoinedA (waitForA cfg t name g) := by
  intro s ca c f h a ha
  by_cases ht : t = 0
  · simp only [waitForA, ht, ↓reduceIte] at h ha; exact hg _ _ _ _ h a ha
  · rw [waitForA_fin cfg t name g s ca c ht] at h
    rw [waitForA_tasks cfg t name g s ca c ht] at ha
    simp only [List.mem_cons] at ha
    rcases ha with rfl | ha
    · exact ⟨f, h, Nat.le_refl _⟩
    · exact hg _ _ _ _ h a ha

theorem seqA_cases (a : ARes) (k : Nat → Bool → ARes) :
    (∃ e, a.fin = some e ∧ a.out = .ret ∧ seqA a k = { k e a.closed with tasks := a.tasks ++ (k e a.closed).tasks }) ∨
    seqA a k = a := by
  unfold seqA
  split
  · rename_i e hfe hout; exact Or.inl ⟨e, hfe, hout, rfl⟩
  · exact Or.inr rfl

theorem seqA_finGe (a : AFun) (k : Nat → Option Nat → Bool → ARes) (ha : FinGeA a) (hk : FinGeA k) :
    FinGeA (fun s ca c => seqA (a s ca c) (fun e c' => k e ca c')) := by
  intro s ca c f h
  have h' : (seqA (a s ca c) (fun e c' => k e ca c')).fin = some f := h
  rcases seqA_cases (a s ca c) (fun e c' => k e ca c') with ⟨e, hfe, _, heq⟩ | heq
  · rw [heq] at h'
    have h1 := ha _ _ _ _ hfe
    have h2 := hk _ _ _ _ h'
    omega
  · rw [heq] at h'; exact ha _ _ _ _ h'

theorem seqA_joined (a : AFun) (k : Nat → Option Nat → Bool → ARes) (ha : JoinedA a) (hk : JoinedA k) (hkge : FinGeA k) :
    JoinedA (fun s ca c => seqA (a s ca c) (fun e c' => k e ca c')) := by
  intro s ca c f h x hx
  have h' : (seqA (a s ca c) (fun e c' => k e ca c')).fin = some f := h
  have hx' : x ∈ (seqA (a s ca c) (fun e c' => k e ca c')).tasks := hx
  rcases seqA_cases (a s ca c) (fun e c' => k e ca c') with ⟨e, hfe, _, heq⟩ | heq
  · rw [heq] at h' hx'
    simp only [List.mem_append] at hx'
    have hef := hkge _ _ _ _ h'
    rcases hx' with hx' | hx'
    · obtain ⟨e', h1, h2⟩ := ha _ _ _ _ hfe x hx'
      exact ⟨e', h1, Nat.le_trans h2 hef⟩
    · exact hk _ _ _ _ h' x hx'
  · rw [heq] at h' hx'
    exact ha _ _ _ _ h' x hx'

theorem spawnA_finGe (g : AFun) (hg : FinGeA g) : FinGeA (spawnA g) := by
  intro s ca c f h
  simp only [spawnA] at h
  split at h
  · split at h
    · exact hg _ _ _ _ h
    · simp at h; omega
  · exact hg _ _ _ _ h

theorem runA_finGe (cfg : Cfg) : ∀ prog : Prog, FinGeA (runA cfg prog) := by
  intro prog
  induction prog with
  | ret => intro s ca c f h; simp [runA] at h; omega
  | raise => intro s ca c f h; simp [runA] at h; omega
  | hang =>
    intro s ca c f h
    unfold runA at h
    split at h
    · simp at h; omega
    · simp at h
  | work d k ih =>
    intro s ca c f h
    unfold runA at h
    split at h
    · split at h
      · simp at h; omega
      · have := ih _ _ _ _ h; omega
    · have := ih _ _ _ _ h; omega
  | call t name body k ihb ihk =>
    have := seqA_finGe _ _ (waitForA_finGe cfg t name _ ihb) ihk
    intro s ca c f h
    exact this s ca c f (by simpa [runA] using h)
  | spawn body k ihb ihk =>
    have := seqA_finGe _ _ (spawnA_finGe _ ihb) ihk
    intro s ca c f h
    exact this s ca c f (by simpa [runA] using h)

/-- without `spawn`, every task of the tree is a `wait_for` task, and `wait_for` only returns once its
    task is done -/
theorem runA_joined (cfg : Cfg) : ∀ prog : Prog, prog.spawnFree = true → JoinedA (runA cfg prog) := by
  intro prog
  induction prog with
  | ret => intro _ s ca c f _ a ha; simp [runA] at ha
  | raise => intro _ s ca c f _ a ha; simp [runA] at ha
  | hang =>
    intro _ s ca c f _ a ha
    have : (runA cfg .hang s ca c).tasks = [] := by unfold runA; split <;> rfl
    rw [this] at ha; cases ha
  | work d k ih =>
    intro hs s ca c f h a ha
    simp [Prog.spawnFree] at hs
    unfold runA at h ha
    split at h
    · rename_i C
      by_cases hc : C ≤ s + d
      · simp [hc] at ha
      · simp only [hc, ↓reduceIte] at h ha; exact ih hs _ _ _ _ h a ha
    · exact ih hs _ _ _ _ h a ha
  | call t name body k ihb ihk =>
    intro hs
    simp [Prog.spawnFree] at hs
    have := seqA_joined _ _ (waitForA_joined cfg t name _ (ihb hs.1)) (ihk hs.2) (runA_finGe cfg k)
    intro s ca c f h a ha
    exact this s ca c f (by simpa [runA] using h) a (by simpa [runA] using ha)
  | spawn body k _ _ => intro hs; simp [Prog.spawnFree] at hs

/-- a program that arms nothing (and therefore spawns nothing) creates no task -/
theorem runA_unarmed_tasks (cfg : Cfg) : ∀ (prog : Prog) (s : Nat) (ca : Option Nat) (c : Bool),
    prog.unarmed = true → (runA cfg prog s ca c).tasks = [] := by
  intro prog
  induction prog with
  | ret => intro s ca c _; rfl
  | raise => intro s ca c _; rfl
  | hang => intro s ca c _; unfold runA; split <;> rfl
  | work d k ih =>
    intro s ca c hu
    simp [Prog.unarmed] at hu
    unfold runA
    split
    · split
      · rfl
      · exact ih _ _ _ hu
    · exact ih _ _ _ hu
  | call t name body k ihb ihk =>
    intro s ca c hu
    simp [Prog.unarmed] at hu
    obtain ⟨⟨ht0, hub⟩, huk⟩ := hu
    have hp : waitForA cfg t name (runA cfg body) s ca c = runA cfg body s ca c := by simp [waitForA, ht0]
    simp only [runA, hp]
    rcases seqA_cases (runA cfg body s ca c) (fun e c' => runA cfg k e ca c') with ⟨e, _, _, heq⟩ | heq
    · rw [heq]; simp [ihb s ca c hub, ihk _ _ _ huk]
    · rw [heq]; exact ihb s ca c hub
  | spawn body k _ _ => intro s ca c hu; simp [Prog.unarmed] at hu

end Scrapli.Timeout
